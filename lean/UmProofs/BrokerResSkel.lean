import UmProofs.BrokerResBasic
/-!
# C12 — operations that leave the resource skeleton (proxy/host/node fields of every chunk,
cluster names, order) and the proxy table unchanged: migration planning, commit, takeover,
balance, config, epoch maintenance.
-/
namespace Um.Broker
open Um Um.Slots

theorem R.foldlM_ok_inv {α β} (f : β → α → R β) (P : β → Prop)
    (hf : ∀ b a b', P b → f b a = R.ok b' → P b') :
    ∀ (l : List α) (b b' : β), P b → l.foldlM f b = R.ok b' → P b' := by
  intro l
  induction l with
  | nil => intro b b' hb h; simp only [List.foldlM_nil] at h; cases h; exact hb
  | cons a l ih =>
    intro b b' hb h
    simp only [List.foldlM_cons] at h
    obtain ⟨b1, h1, h2⟩ := R.bind_eq_ok.mp h
    exact ih b1 b' (hf b a b1 hb h1) h2

/-- two chunk lists with the same skeleton -/
abbrev SameSkel (a b : List Chunk) : Prop := a.map Chunk.skel = b.map Chunk.skel

theorem SameSkel.length {a b : List Chunk} (h : SameSkel a b) : a.length = b.length := by
  have := congrArg List.length h; simpa using this

theorem compactSlots_skel (l : List Chunk) : SameSkel (compactSlots l) l := by
  simp [SameSkel, compactSlots, List.map_map, Function.comp_def, Chunk.skel]

theorem Chunk.setMig_skel {c c' : Chunk} {p : Nat} {v : List MigStore} (h : c.setMig p v = some c') :
    c'.skel = c.skel := by
  unfold Chunk.setMig at h
  split at h <;> first | (cases h; rfl) | cases h

theorem Chunk.setStable_skel {c c' : Chunk} {p : Nat} {v : Option RangeList} (h : c.setStable p v = some c') :
    c'.skel = c.skel := by
  unfold Chunk.setStable at h
  split at h <;> first | (cases h; rfl) | cases h

theorem updateChunk_skel {chunks chunks' : List Chunk} {i : Nat} {f : Chunk → Option Chunk} {w : String}
    (hf : ∀ c c', f c = some c' → c'.skel = c.skel)
    (h : updateChunk chunks i f w = R.ok chunks') : SameSkel chunks' chunks := by
  unfold updateChunk at h
  split at h
  · cases h
  · rename_i c hc
    split at h
    · cases h
    · rename_i c' hc'
      cases h
      have hs := hf c c' hc'
      simp only [SameSkel, List.map_set, hs]
      have hi := (List.getElem?_eq_some_iff.mp hc)
      obtain ⟨hlt, he⟩ := hi
      apply List.ext_getElem?
      intro j
      by_cases hj : i = j
      · subst hj; simp [hlt, he]
      · simp [hj]

theorem assignDstSlots_skel {chunks chunks' : List Chunk} {ms : List MigSlots}
    (h : assignDstSlots chunks ms = R.ok chunks') : SameSkel chunks' chunks := by
  unfold assignDstSlots at h
  obtain ⟨c1, h1, h2⟩ := R.bind_eq_ok.mp h
  cases h2
  have : SameSkel c1 chunks := by
    refine R.foldlM_ok_inv _ (fun c => SameSkel c chunks) ?_ ms chunks c1 rfl h1
    intro b m b' hb hstep
    obtain ⟨b1, hb1, hb2⟩ := R.bind_eq_ok.mp hstep
    have e1 := updateChunk_skel (by
      intro c c' hc
      cases hm : c.mig m.mm.srcPart with
      | none => simp [hm] at hc
      | some l => simp only [hm, Option.bind_some] at hc; exact Chunk.setMig_skel hc) hb1
    have e2 := updateChunk_skel (by
      intro c c' hc
      cases hm : c.mig m.mm.dstPart with
      | none => simp [hm] at hc
      | some l => simp only [hm, Option.bind_some] at hc; exact Chunk.setMig_skel hc) hb2
    exact e2.trans (e1.trans hb)
  exact (compactSlots_skel c1).trans this

/-- partial-correctness predicate on `R` -/
def R.OkP {α} (x : R α) (Q : α → Prop) : Prop := ∀ v, x = R.ok v → Q v

theorem R.okP_bind {α β} {x : R α} {f : α → R β} {Q : β → Prop}
    (h : ∀ a, x = R.ok a → (f a).OkP Q) : (x >>= f).OkP Q := by
  intro v hv
  obtain ⟨a, ha, hf⟩ := R.bind_eq_ok.mp hv
  exact h a ha v hf

theorem R.okP_pure {α} {v : α} {Q : α → Prop} (h : Q v) : (pure v : R α).OkP Q := by
  intro v' hv; cases hv; exact h

theorem srcChunks_skel' (P : OutParams) : ∀ (l : List Chunk) (i : Nat) (st : LoopSt),
    (srcChunks P l i st).OkP (fun r => SameSkel r.1 l) := by
  intro l
  induction l with
  | nil => intro i st; simp only [srcChunks]; exact R.okP_pure rfl
  | cons ch rest ih =>
    intro i st
    simp only [srcChunks]
    split <;> split <;>
      (repeat (first | (refine R.okP_pure ?_) | (refine R.okP_bind ?_; intro _ _))) <;>
      (rename_i a3 h3
       have := ih _ _ a3 h3
       simp only [SameSkel, List.map_cons] at this ⊢
       rw [this]; rfl)

theorem srcChunks_skel (P : OutParams) (l : List Chunk) (i : Nat) (st : LoopSt) (l' : List Chunk)
    (st' : LoopSt) (h : srcChunks P l i st = R.ok (l', st')) : SameSkel l' l :=
  srcChunks_skel' P l i st (l', st') h

theorem downChunks_skel' (P : DownParams) : ∀ (l : List Chunk) (i : Nat) (st : LoopSt),
    (downChunks P l i st).OkP (fun r => SameSkel r.1 l) := by
  intro l
  induction l with
  | nil => intro i st; simp only [downChunks]; exact R.okP_pure rfl
  | cons ch rest ih =>
    intro i st
    simp only [downChunks]
    split <;> split <;>
      (repeat (first | (refine R.okP_pure ?_) | (refine R.okP_bind ?_; intro _ _))) <;>
      (rename_i a3 h3
       have := ih _ _ a3 h3
       simp only [SameSkel, List.map_cons] at this ⊢
       rw [this]; rfl)

theorem downChunks_skel (P : DownParams) (l : List Chunk) (i : Nat) (st : LoopSt) (l' : List Chunk)
    (st' : LoopSt) (h : downChunks P l i st = R.ok (l', st')) : SameSkel l' l :=
  downChunks_skel' P l i st (l', st') h

theorem removeSlotsFromSrc_skel {cl : Cluster} {e : Nat} {chunks : List Chunk} {ms : List MigSlots}
    (h : removeSlotsFromSrc cl e = R.ok (chunks, ms)) : SameSkel chunks cl.chunks := by
  unfold removeSlotsFromSrc at h
  simp only [R.pure_eq] at h
  split at h
  · cases h
  · obtain ⟨⟨c, st⟩, h1, h2⟩ := R.bind_eq_ok.mp h
    cases h2
    exact srcChunks_skel _ _ _ _ _ _ h1

theorem removeSlotsToScaleDown_skel {cl : Cluster} {e k : Nat} {chunks : List Chunk} {ms : List MigSlots}
    (h : removeSlotsToScaleDown cl e k = R.ok (chunks, ms)) : SameSkel chunks cl.chunks := by
  unfold removeSlotsToScaleDown at h
  simp only [R.pure_eq] at h
  split at h
  · cases h
  · obtain ⟨⟨c, st⟩, h1, h2⟩ := R.bind_eq_ok.mp h
    cases h2
    have := downChunks_skel _ _ _ _ _ _ h1
    simp only [SameSkel, List.map_append] at this ⊢
    rw [this, ← List.map_append, List.take_append_drop]

/-- replacing the cluster found under a name by one with the same skeleton -/
theorem setCluster_skel {s : Store} {n : String} {cl cl' : Cluster} (hf : s.findCluster n = some cl)
    (hn : cl'.name = cl.name) (hs : SameSkel cl'.chunks cl.chunks) (hnd : (s.clusters.map (·.name)).Nodup) :
    (s.setCluster cl').clusters.map Cluster.skel = s.clusters.map Cluster.skel := by
  obtain ⟨hmem, hname⟩ := Store.findCluster_some hf
  rw [Store.setCluster_clusters, List.map_map]
  apply List.map_congr_left
  intro x hx
  simp only [Function.comp]
  split
  · rename_i hxn
    have hxn' : x.name = cl.name := by rw [hn] at hxn; simpa using hxn
    have : x = cl := res_nodup_map_inj hnd hx hmem hxn'
    subst this
    simp only [Cluster.skel, hn, hs]
  · rfl

/-- same, without `Nodup` of names: every cluster with that name must have the skeleton -/
theorem setCluster_skel' {s : Store} {cl' : Cluster}
    (h : ∀ x ∈ s.clusters, x.name = cl'.name → x.skel = cl'.skel) :
    (s.setCluster cl').clusters.map Cluster.skel = s.clusters.map Cluster.skel := by
  rw [Store.setCluster_clusters, List.map_map]
  apply List.map_congr_left
  intro x hx
  simp only [Function.comp]
  split
  · rename_i hxn
    exact (h x hx (by simpa using hxn)).symm
  · rfl

/-! ### the skeleton-preserving operations -/

/-- "proxies and skeleton unchanged" -/
def SkelEq (s' s : Store) : Prop :=
  s'.proxies = s.proxies ∧ s'.clusters.map Cluster.skel = s.clusters.map Cluster.skel

theorem SkelEq.refl (s : Store) : SkelEq s s := ⟨rfl, rfl⟩
theorem SkelEq.trans {a b c : Store} (h1 : SkelEq a b) (h2 : SkelEq b c) : SkelEq a c :=
  ⟨h1.1.trans h2.1, h1.2.trans h2.2⟩
theorem SkelEq.bump (s : Store) : SkelEq s.bump s := ⟨rfl, rfl⟩
theorem SkelEq.resInv {s' s : Store} (h : SkelEq s' s) (hr : ResInv s) : ResInv s' := hr.congr h.1 h.2
theorem SkelEq.rpt {s' s : Store} (h : SkelEq s' s) (hr : RPt s) : RPt s' := hr.congr h.1 h.2

theorem SkelEq.setCluster {s : Store} {n : String} {cl cl' : Cluster} (hf : s.findCluster n = some cl)
    (hn : cl'.name = cl.name) (hs : SameSkel cl'.chunks cl.chunks) (hnd : (s.clusters.map (·.name)).Nodup) :
    SkelEq (s.setCluster cl') s := ⟨rfl, setCluster_skel hf hn hs hnd⟩

theorem migrateSlots_skelEq (s : Store) (n : String) (hnd : (s.clusters.map (·.name)).Nodup) :
    SkelEq (migrateSlots s n).1 s := by
  unfold migrateSlots
  split
  · exact SkelEq.refl s
  · simp only
    split
    · exact SkelEq.bump s
    · rename_i cl hf
      split
      · exact SkelEq.bump s
      · split
        · exact SkelEq.bump s
        · split
          · rename_i chunks hok
            obtain ⟨⟨c1, ms⟩, h1, h2⟩ := R.bind_eq_ok.mp hok
            have e1 := removeSlotsFromSrc_skel h1
            have e2 := assignDstSlots_skel h2
            refine (SkelEq.setCluster (s := s.bump) hf ?_ ?_ hnd).trans (SkelEq.bump s)
            · rfl
            · exact e2.trans e1
          · exact SkelEq.bump s
          · exact SkelEq.bump s
          · exact SkelEq.bump s

theorem migrateSlotsToScaleDown_skelEq (s : Store) (n : String) (k : Nat)
    (hnd : (s.clusters.map (·.name)).Nodup) : SkelEq (migrateSlotsToScaleDown s n k).1 s := by
  unfold migrateSlotsToScaleDown
  split
  · exact SkelEq.refl s
  · simp only
    split
    · exact SkelEq.bump s
    · rename_i cl hf
      split
      · exact SkelEq.bump s
      · split
        · exact SkelEq.bump s
        · split
          · exact SkelEq.bump s
          · split
            · rename_i chunks hok
              obtain ⟨⟨c1, ms⟩, h1, h2⟩ := R.bind_eq_ok.mp hok
              have e1 := removeSlotsToScaleDown_skel h1
              have e2 := assignDstSlots_skel h2
              refine (SkelEq.setCluster (s := s.bump) hf ?_ ?_ hnd).trans (SkelEq.bump s)
              · rfl
              · exact e2.trans e1
            · exact SkelEq.bump s
            · exact SkelEq.bump s
            · exact SkelEq.bump s

theorem commitDst_skel (rl : RangeList) (mm : MigMeta) : ∀ l : List Chunk, SameSkel (commitDst rl mm l) l := by
  intro l
  induction l with
  | nil => rfl
  | cons c rest ih =>
    simp only [commitDst]
    split
    · rfl
    · split
      · rfl
      · simp only [SameSkel, List.map_cons] at ih ⊢; rw [ih]

theorem commitMigrationCore_skelEq (s : Store) (n : String) (rl : RangeList) (e : Nat) (t : Bool)
    (hnd : (s.clusters.map (·.name)).Nodup) : SkelEq (commitMigrationCore s n rl e t).1 s := by
  unfold commitMigrationCore
  simp only
  split
  · exact SkelEq.refl s
  · rename_i cl hf
    split
    · exact SkelEq.refl s
    · split
      · exact SkelEq.refl s
      · split
        · exact SkelEq.refl s
        · refine (SkelEq.bump _).trans (SkelEq.setCluster hf rfl ?_ hnd)
          refine (compactSlots_skel _).trans ((commitDst_skel _ _ _).trans ?_)
          simp [List.map_map, Function.comp_def, Chunk.skel]

theorem takeoverFirst_skel (f : String) (e : Nat) : ∀ (l l' : List Chunk) (pos : List (Nat × Nat)),
    takeoverFirst f e l = some (l', pos) → SameSkel l' l := by
  intro l
  induction l with
  | nil => intro l' pos h; simp only [takeoverFirst] at h; cases h; rfl
  | cons c rest ih =>
    intro l' pos h
    simp only [takeoverFirst] at h
    split at h
    · split at h
      · cases h
      · split at h <;> (cases h; rfl)
    · split at h
      · split at h
        · cases h
        · split at h <;> (cases h; rfl)
      · split at h
        · cases h
        · rename_i tl p ht
          cases h
          have := ih _ _ ht
          simp only [SameSkel, List.map_cons] at this ⊢; rw [this]

theorem takeoverMaster_skelEq (s : Store) (n f : String) (hnd : (s.clusters.map (·.name)).Nodup) :
    SkelEq (takeoverMaster s n f).1 s := by
  unfold takeoverMaster
  simp only
  split
  · exact SkelEq.bump s
  · rename_i cl hf
    split
    · exact SkelEq.bump s
    · rename_i chunks pos ht
      refine (SkelEq.setCluster (s := s.bump) hf ?_ ?_ hnd).trans (SkelEq.bump s)
      · rfl
      have := takeoverFirst_skel _ _ _ _ _ ht
      refine Eq.trans ?_ this
      simp [List.map_map, Function.comp_def, Chunk.skel]

theorem balanceMasters_skelEq (s : Store) (n : String) (hnd : (s.clusters.map (·.name)).Nodup) :
    SkelEq (balanceMasters s n).1 s := by
  unfold balanceMasters
  split
  · exact SkelEq.refl s
  · simp only
    split
    · exact SkelEq.refl s
    · rename_i cl hf
      refine (SkelEq.bump _).trans (SkelEq.setCluster hf rfl ?_ hnd)
      simp only [SameSkel, List.map_map]
      apply List.map_congr_left
      intro c _
      simp only [Function.comp]
      split <;> rfl

theorem changeConfig_skelEq (s : Store) (n : String) (kvs : List (String × String))
    (hnd : (s.clusters.map (·.name)).Nodup) : SkelEq (changeConfig s n kvs).1 s := by
  unfold changeConfig
  split
  · exact SkelEq.refl s
  · simp only
    split
    · exact SkelEq.refl s
    · rename_i cl hf
      split
      · exact SkelEq.refl s
      · split
        · exact SkelEq.refl s
        · exact (SkelEq.bump _).trans (SkelEq.setCluster hf rfl rfl hnd)

theorem forceBumpAllEpoch_skelEq (s : Store) (e : Nat) : SkelEq (forceBumpAllEpoch s e).1 s := by
  unfold forceBumpAllEpoch
  split
  · exact SkelEq.refl s
  · exact ⟨rfl, by simp [List.map_map, Function.comp_def, Cluster.skel]⟩

theorem recoverEpoch_skelEq (s : Store) (e : Nat) : SkelEq (recoverEpoch s e) s :=
  ⟨rfl, by simp [recoverEpoch, List.map_map, Function.comp_def, Cluster.skel]⟩

theorem addFailure_skelEq (s : Store) (a r : String) (t : Int) : SkelEq (addFailure s a r t).1 s := by
  unfold addFailure
  split
  · split
    · exact SkelEq.refl s
    · exact ⟨rfl, rfl⟩
  · exact ⟨rfl, rfl⟩

end Um.Broker
