import UmDriver.Ttl

def main (args : List String) : IO UInt32 := do
  match args with
  | ["ttl"] => Um.Drv.Ttl.run; return 0
  | _ => IO.eprintln "usage: umdriver <submodel> < ops.txt"; return 2
