import UmProofs.BackendConn
import UmProofs.BackendRetry
import UmProofs.Session
/-!
# C08 — Every request gets exactly one reply, in order, from its own backend exchange

Backend half (`Um.BackendConn`, src/proxy/backend.rs): theorems over *every* event sequence of the
queue machine — every interleaving of enqueues, batching decisions (when `write` happens),
fragmentations (when `item` happens), connection breaks at any point, refused reconnects, time-outs
and shutdown.  Session half (`Um.Session`, src/proxy/session.rs + `CmdReplySender`): the two
FIFOs of `handle_session` and the send-once oneshot.

The only assumption about the backend is `InOrder` (an explicit hypothesis, never an axiom): on one
connection the k-th item read answers the k-th request written on that connection — an echo of
its id(s) in its shape, or an undecodable item — and no item is read when nothing is outstanding.
Retrying unanswered requests on a fresh connection means a request can be *executed* more than
once; nothing here claims at-most-once execution.
-/
namespace Um.C08
open Um.BackendConn

/-- **C08_exactly_once.**  For every event sequence from the initial state:
1. *conservation*: every enqueued elementary task is, with multiplicity, either still owed a
   result by the machine (`pendingIds`: retry state, connection queue or channel) or has received one;
2. *at most once*: if task ids are unique no task receives two results;
3. *exactly once at quiescence*: when nothing is owed any more (in particular after the queue was
   closed, `C08_close_quiesces`, or after retries were exhausted — which `C08_retry_bounded` shows
   must happen — / a time-out / a refused connect, `C08_failure_is_error`) every enqueued task has
   received exactly one result;
4. *own reply*: under the in-order backend assumption a result `Ok(reply)` delivered to task `id`
   is tagged `id` — never another request's reply;
5. results go to enqueued tasks only. -/
theorem C08_exactly_once (evs : List Ev) :
    (∀ id, (enqIds evs).count id =
        (pendingIds (run init evs).1).count id + ((run init evs).2.map Prod.fst).count id) ∧
    ((enqIds evs).Nodup → ((run init evs).2.map Prod.fst).Nodup) ∧
    (pendingIds (run init evs).1 = [] → (enqIds evs).Nodup →
        ∀ id ∈ enqIds evs, ((run init evs).2.map Prod.fst).count id = 1) ∧
    (InOrder init evs → ∀ id tag, (id, Res.reply tag) ∈ (run init evs).2 → tag = id) ∧
    (∀ p ∈ (run init evs).2, p.1 ∈ enqIds evs) := by
  have hcons : ∀ id, (enqIds evs).count id =
      (pendingIds (run init evs).1).count id + ((run init evs).2.map Prod.fst).count id := by
    intro id
    have h := (run_spec id evs init WF_init).1
    rw [count_pendingIds]
    have h0 : BackendConn.owed id init = 0 := by simp [BackendConn.owed, retryTasks, init]
    unfold ocnt at h
    omega
  refine ⟨hcons, ?_, ?_, ?_, ?_⟩
  · intro hnd
    rw [List.nodup_iff_count] at hnd ⊢
    intro id
    have := hcons id
    have := hnd id
    omega
  · intro hq hnd id hid
    have h1 := hcons id
    rw [hq] at h1
    have h2 : (enqIds evs).count id = 1 := by
      have hpos : 0 < (enqIds evs).count id := List.count_pos_iff.mpr hid
      have hle := (List.nodup_iff_count.mp hnd) id
      omega
    simp at h1
    omega
  · intro hin
    exact run_matched evs init Matched_init hin
  · intro p hp
    have h1 := hcons p.1
    have hpos : 0 < ((run init evs).2.map Prod.fst).count p.1 :=
      List.count_pos_iff.mpr (List.mem_map.mpr ⟨p, hp, rfl⟩)
    exact List.count_pos_iff.mp (by omega)

/-- **C08_failure_is_error.**  A task whose exchange fails gets an error, never silence and never a
reply: (1) only an `item` event can deliver a backend reply — every result produced by any other
event (connection error, time-out, refused connect, refused send, shutdown) is an error;
(2) a connection error with the retry budget used up (`retry_times ≥ MAX_BACKEND_RETRY`, or any
time-out) answers *every* task held by the connection, written or not, and owes nothing more;
(3) a refused connect answers every retried task and every queued task. -/
theorem C08_failure_is_error :
    (∀ (s : St) (ev : Ev), (∀ it, ev ≠ .item it) → ∀ p ∈ (step s ev).2, p.2.isError = true) ∧
    (∀ (s : St) (n : Nat) (k : WErr) (id : Id), n ≥ MAX_BACKEND_RETRY →
        ocnt id (connErr s (some n) k).2 = cnt id s.tasks ∧ (connErr s (some n) k).1.retry = none ∧
        (connErr s (some n) k).1.tasks = []) ∧
    (∀ (s : St) (id : Id), s.phase = .up → s.taskEmpty = false → s.responseReceived = false →
        ocnt id (step s (.pollEnd true)).2 = cnt id s.tasks ∧
        (step s (.pollEnd true)).1.retry = none ∧ (step s (.pollEnd true)).1.tasks = []) ∧
    (∀ (s : St) (id : Id), s.phase = .connecting →
        ocnt id (step s .connFail).2 = cnt id (retryTasks s) + cnt id s.chan ∧
        (step s .connFail).1.retry = none ∧ (step s .connFail).1.chan = []) := by
  refine ⟨step_isError, ?_, ?_, ?_⟩
  · intro s n k id hn
    have hn' : MAX_BACKEND_RETRY ≤ n := hn
    by_cases he : s.tasks = [] <;> simp [connErr, hn', he]
  · intro s id hp h1 h2
    by_cases he : s.tasks = [] <;> simp [step, hp, h1, h2, connErr, he]
  · intro s id hp
    cases hr : s.retry with
    | none =>
      by_cases hc : s.closed = true <;> simp [step, hp, hr, drainWaiting, hc, retryTasks]
    | some q =>
      obtain ⟨n, ts⟩ := q
      by_cases hc : s.closed = true <;> simp [step, hp, hr, drainWaiting, hc, retryTasks]

/-- **C08_close_quiesces.**  Once every sender is dropped, the next poll of a live connection (or of
the wait loop after a refused connect) answers everything still held (`Dropped`, through
`CmdReplySender::drop`) and owes nothing: the quiescence of `C08_exactly_once (3)` is reached. -/
theorem C08_close_quiesces (s : St) (hwf : WF s) (hc : s.closed = true)
    (hp : s.phase = .up ∨ s.phase = .waiting) :
    pendingIds (step s .poll).1 = [] ∧ (step s .poll).1.phase = .exited := by
  rcases hp with hp | hp
  · have hr := hwf.2 (by simp [hp])
    simp [step, hp, drainUp, hc, pendingIds, hr]
  · have ht := hwf.1 (by simp [hp])
    -- in `waiting` the retry state was consumed by the failed connect
    have hr := hwf.2 (by simp [hp])
    simp [step, hp, drainWaiting, hc, pendingIds, hr, ht]

/-! ### The retry budget is a bound (F08b, fixed by commit 0e64416)

Before the fix `retry_times_opt` was `Some` only in the first poll of a connection, so a connection
that broke in a later poll restarted the count and a request whose every exchange failed
circulated for ever (the former `C08_retry_unbounded`).  Now the count lives as long as the
connection and is cleared only when a reply leaves the task queue empty; a failure with an empty
queue carries no count over (commit 24d4705). -/

/-- **C08_retry_bounded** — "never silence".  In every reachable state (`pre` arbitrary):
1. the retry level (`retry_times_opt` of the live connection / `retry_state.retry_times` between
   two connections) is at most `MAX_BACKEND_RETRY`;
2. along any continuation `evs` during which the machine always holds some task (inherited for a
   retry or in the connection's queue — in particular while one given task stays unanswered), the
   level never drops and grows by exactly one per connection failure, so there are at most
   `MAX_BACKEND_RETRY - level ≤ MAX_BACKEND_RETRY` failures: a held request is written on at most
   `1 + MAX_BACKEND_RETRY` connections;
3. a connection failure at level `MAX_BACKEND_RETRY` answers every held task, written or not, with
   an error and owes nothing more (a time-out does so at any level, `C08_failure_is_error`).
A failure with nothing held does not touch the budget: `C08_idle_failure_keeps_budget`. -/
theorem C08_retry_bounded (pre evs : List Ev) :
    lvl (run init pre).1 ≤ MAX_BACKEND_RETRY ∧
    (HeldAlong (run init pre).1 evs →
      lvl (run (run init pre).1 evs).1 = lvl (run init pre).1 + fails (run init pre).1 evs ∧
      fails (run init pre).1 evs ≤ MAX_BACKEND_RETRY) ∧
    (∀ (s : St) (e : Ev) (id : Id), s.phase = .up → lvl s ≥ MAX_BACKEND_RETRY →
      (e = .peerClosed ∨ ∃ k, e = .writeErr k) →
      ocnt id (step s e).2 = cnt id s.tasks ∧ (step s e).1.retry = none ∧ (step s e).1.tasks = [] ∧
      (step s e).1.phase = .connecting ∧ ∀ p ∈ (step s e).2, p.2.isError = true) := by
  have h0 : lvl init ≤ MAX_BACKEND_RETRY := by simp [lvl, init]
  obtain ⟨hwf, hle⟩ := run_wf_lvl pre init WF_init h0
  refine ⟨hle, ?_, ?_⟩
  · intro hh
    have h1 := run_lvl evs _ hwf hh
    have h2 := (run_wf_lvl evs _ hwf hle).2
    exact ⟨h1, by omega⟩
  · intro s e id hp hl he
    have hl' : MAX_BACKEND_RETRY ≤ s.retryTimes.getD 0 := by simpa [lvl, hp] using hl
    have herr : ∀ p ∈ (step s e).2, p.2.isError = true := by
      apply step_isError
      intro it hit
      rcases he with he | ⟨k, he⟩ <;> rw [he] at hit <;> cases hit
    rcases he with he | ⟨k, he⟩
    · subst he
      by_cases hte : s.tasks = []
      · refine ⟨?_, ?_, ?_, ?_, herr⟩ <;> simp [step, hp, connErr, hte]
      · refine ⟨?_, ?_, ?_, ?_, herr⟩ <;> simp [step, hp, connErr, hl', hte]
    · subst he
      by_cases hte : s.tasks = []
      · refine ⟨?_, ?_, ?_, ?_, herr⟩ <;> simp [step, hp, connErr, hte]
      · refine ⟨?_, ?_, ?_, ?_, herr⟩ <;> simp [step, hp, connErr, hl', hte]

/-- **C08_idle_failure_keeps_budget** (commit 24d4705).  A connection failure while no task is held
(an idle disconnect, a reply-less reset, …) yields no retry state and no result: the machine
reconnects with level 0, so the next request starts with the full budget — after `connOk`,
`poll`, `write` its first failure is retried (`retry = some (1, ..)`), not answered. -/
theorem C08_idle_failure_keeps_budget (s : St) (e : Ev) (hp : s.phase = .up) (ht : s.tasks = [])
    (he : e = .peerClosed ∨ (∃ k, e = .writeErr k) ∨ (∃ it, e = .item it)) :
    (step s e).2 = [] ∧ (step s e).1.retry = none ∧ (step s e).1.phase = .connecting ∧
    lvl (step s e).1 = 0 ∧
    (∀ t, s.closed = false → s.chan = [t] →
      (run (step s e).1 [.connOk, .poll, .write, .peerClosed]).1.retry = some (1, [t]) ∧
      (run (step s e).1 [.connOk, .poll, .write, .peerClosed]).2 = []) := by
  have hmax : ¬ (MAX_BACKEND_RETRY ≤ 0) := by decide
  rcases he with he | ⟨k, he⟩ | ⟨it, he⟩ <;> subst he <;>
    (refine ⟨?_, ?_, ?_, ?_, ?_⟩
     · simp [step, hp, ht, connErr]
     · simp [step, hp, ht, connErr]
     · simp [step, hp, ht, connErr]
     · simp [step, hp, ht, connErr, lvl]
     · intro t hc hch
       simp [step, run, hp, ht, connErr, drainUp, hmax, hc, hch])

/-! ### Session half -/

open Um.Session in
/-- **C08_session_order.**  For every event sequence of a session (requests decoded, senders
completed or dropped in any order and at any time, any interleaving of the front-pop loop and of
socket writes, the session ending at any point): the packets handed to the client socket followed by
those queued in `replies` are exactly the owed replies of requests `0 .. k-1`, in request order, one
each; requests `k ..` wait in `reply_receiver_list` in request order; each of the first `k`
requests has a value on its oneshot and the reply is that value (the first one sent, `Dropped` if
the sender was dropped unsent — `C08_send_once`). -/
theorem C08_session_order (evs : List Um.Session.Ev) :
    let s := Um.Session.run Um.Session.init evs
    ∃ k, k ≤ s.nextReq ∧ s.written.length ≤ k ∧
      s.written ++ s.replies = (List.range' 0 k).map (Um.Session.owed s.pairs) ∧
      s.waiting = List.range' k (s.nextReq - k) ∧
      (∀ i, i < k → ∃ v, (s.pairs i).value = some v ∧ Um.Session.owed s.pairs i = replyOf v) := by
  intro s
  have h := run_inv evs Um.Session.init Inv_init
  refine ⟨popped s, h.le, by simp [popped], h.out, h.waiting, ?_⟩
  intro i hi
  have := h.ready i hi
  cases hv : (s.pairs i).value with
  | none => exact absurd hv this
  | some v => exact ⟨v, rfl, by simp [Um.Session.owed, hv]⟩

open Um.Session in
/-- **C08_session_complete.**  "…or the connection is closed": in any reachable state of a session
that has not ended, once every decoded request has a value on its oneshot, one run of the pop loop
and `nextReq` socket writes leave exactly one written reply per request, in request order, and both
FIFOs empty. -/
theorem C08_session_complete (evs : List Um.Session.Ev) :
    let s := Um.Session.run Um.Session.init evs
    s.ended = false → (∀ i, i < s.nextReq → (s.pairs i).value ≠ none) →
    (writeN s.nextReq (Um.Session.step s .pump)).written = (List.range' 0 s.nextReq).map (Um.Session.owed s.pairs) ∧
    (writeN s.nextReq (Um.Session.step s .pump)).replies = [] ∧
    (writeN s.nextReq (Um.Session.step s .pump)).waiting = [] := by
  intro s hne hall
  exact complete_spec s (run_inv evs Um.Session.init Inv_init) hne hall

open Um.Session in
/-- **C08_session_flush** — no reply byte is left behind.  For every poll-structured run of a session
(between polls: senders completed / dropped; a poll = `nreq` requests decoded, the pop loop, the
write stage while the socket accepts `cap` more packets, for arbitrary `nreq`, `cap` and any
backpressure boundary):
1. what is in the write buffer followed by what is queued is still the owed replies of requests
   `0 .. k-1` in order, and `flushed ≤ |written|`: the socket holds a prefix of them;
2. whenever a reply is still in the write buffer or still queued, the latest poll ended in a
   `poll_flush` / `poll_ready` that returned `Pending`, i.e. the session is registered for socket
   writability and will run the flush again — it never parks with unflushed replies;
3. so a session that is not waiting for the socket has put every popped reply on the socket;
4. and a poll during which the socket has room completes the flush (live session). -/
theorem C08_session_flush (evs : List PEv) :
    let s := prun Um.Session.init evs
    (∃ k, k ≤ s.nextReq ∧ s.written ++ s.replies = (List.range' 0 k).map (Um.Session.owed s.pairs)) ∧
    s.flushed ≤ s.written.length ∧
    ((s.flushed < s.written.length ∨ s.replies ≠ []) → s.armed = true) ∧
    (s.armed = false → s.flushed = s.written.length ∧ s.replies = []) ∧
    (s.ended = false → ∀ cap, s.nextReq ≤ cap →
      (pollStep s 0 cap).flushed = (pollStep s 0 cap).written.length ∧ (pollStep s 0 cap).replies = []) := by
  intro s
  have hI := prun_inv evs Um.Session.init Inv_init
  have hF := prun_flushOk evs Um.Session.init FlushOk_init
  refine ⟨⟨popped s, hI.le, hI.out⟩, hF.1, hF.2, ?_, ?_⟩
  · intro ha
    have h1 := hF.1
    have h2 := hF.2
    by_cases hlt : s.flushed < s.written.length
    · have := h2 (Or.inl hlt); rw [ha] at this; exact absurd this (by simp)
    · by_cases hr : s.replies = []
      · exact ⟨Nat.le_antisymm h1 (Nat.le_of_not_lt hlt), hr⟩
      · have := h2 (Or.inr hr); rw [ha] at this; exact absurd this (by simp)
  · intro he cap hcap
    exact pollStep_all s cap hI hF he hcap

open Um.Session in
/-- **C08_send_once.**  `CmdReplySender`: whatever sequence of `send` calls is made before the
sender is dropped, the receiver resolves to the *first* value sent, or to `Dropped` if there was
none; every later `send` is refused. -/
theorem C08_send_once (rs : List TaskRes) :
    ((Pair.sends {} rs).drop).value = some (rs.head?.getD (.err .dropped)) ∧
    (∀ r r' rest, rs = r :: r' :: rest → ((Pair.sends {} [r]).send r').2 = false) := by
  constructor
  · cases rs with
    | nil => simp [Pair.sends, Pair.drop, Pair.send]
    | cons r rest =>
      have h1 : (({} : Pair).send r).1.armed = false := by simp [Pair.send]
      simp only [Pair.sends, Pair.sends_disarmed _ h1]
      simp [Pair.drop, Pair.send]
  · intro r r' rest _
    simp [Pair.sends, Pair.send]

/-! ### non-vacuity -/

/-- a pipeline of three requests, the connection breaks after the first reply, the other two are
retried on a second connection and answered: everybody gets their own reply, exactly once. -/
example :
    let evs : List Ev :=
      [.enqueue (.simple 5), .enqueue (.simple 6), .enqueue (.multi [7, 8]), .connOk, .poll, .write,
       .write, .write, .pollEnd true, .item (.single 5), .peerClosed, .connOk, .poll, .write, .write,
       .pollEnd true, .item (.single 6), .item (.multi [7, 8]), .pollEnd false]
    (run init evs).2 = [(5, .reply 5), (6, .reply 6), (7, .reply 7), (8, .reply 8)] ∧
    pendingIds (run init evs).1 = [] ∧ (enqIds evs).Nodup := by decide

/-- the same sequence satisfies the backend assumption -/
example :
    InOrder init
      [.enqueue (.simple 5), .enqueue (.simple 6), .connOk, .poll, .write, .write, .pollEnd true,
       .item (.single 5), .peerClosed, .connOk, .poll, .write, .pollEnd true, .item (.single 6)] := by
  simp [InOrder, EvOk, step, init, drainUp, connErr, Answers, MAX_BACKEND_RETRY,
    Um.Gen.Backend.MAX_BACKEND_RETRY]

/-- retries exhausted in first polls: the task gets an error -/
example :
    (run init [.enqueue (.simple 9), .connOk, .poll, .writeErr .io, .connOk, .poll, .writeErr .io,
      .connOk, .poll, .writeErr .io, .connOk, .poll, .writeErr .io]).2 = [(9, .err .io)] := by decide

/-- the F08b regression: the request is written, the peer closes in a *later* poll, four times: the
fourth failure answers it (before the fix it circulated for ever) -/
example :
    let cyc : List Ev := [.connOk, .poll, .write, .pollEnd true, .poll, .peerClosed]
    (run init (.enqueue (.simple 1) :: (cyc ++ cyc ++ cyc ++ cyc))).2 = [(1, .err .backend)] ∧
    pendingIds (run init (.enqueue (.simple 1) :: (cyc ++ cyc ++ cyc ++ cyc))).1 = [] ∧
    fails init (.enqueue (.simple 1) :: (cyc ++ cyc ++ cyc ++ cyc)) = 4 := by decide

/-- three idle disconnects do not consume the budget: the request's first failure is retried -/
example :
    let idle : List Ev := [.connOk, .poll, .pollEnd true, .poll, .peerClosed]
    (run init (idle ++ idle ++ idle ++
      [.connOk, .poll, .enqueue (.simple 1), .poll, .write, .pollEnd false, .poll, .peerClosed])).1.retry
      = some (1, [.simple 1]) := by decide

/-- `HeldAlong` is satisfiable: three failing exchanges with the request held throughout -/
example :
    let cyc : List Ev := [.connOk, .poll, .write, .pollEnd true, .poll, .peerClosed]
    HeldAlong (run init [.enqueue (.simple 1), .connOk, .poll]).1
      ([.write, .pollEnd true, .poll, .peerClosed] ++ cyc ++ cyc) := by
  simp [HeldAlong, held, retryTasks, run, step, init, drainUp, connErr, MAX_BACKEND_RETRY,
    Um.Gen.Backend.MAX_BACKEND_RETRY]

/-- time-out: a written request, no reply between two ticks -/
example :
    (run init [.connOk, .poll, .pollEnd true, .enqueue (.simple 3), .poll, .write, .pollEnd false,
      .poll, .pollEnd true, .poll, .pollEnd true]).2 = [(3, .err .backend)] := by decide

/-- session: three requests completed out of order, one dropped; replies leave in request order -/
example :
    (Um.Session.run Um.Session.init
      [.request, .request, .request, .send 2 (.ok 12), .pump, .dropSender 1, .pump, .send 0 (.ok 10),
       .send 0 (.ok 99), .pump, .writeOne, .writeOne, .writeOne]).written =
      [.data 10, .cmdErr .dropped, .data 12] := by decide

/-- write backpressure: a socket that takes one packet per poll; the flush stays armed until the last
reply is out, then the session is quiescent with everything on the socket -/
example :
    let evs : List Um.Session.PEv :=
      [.poll 3 0, .send 0 (.ok 10), .send 1 (.ok 11), .send 2 (.ok 12), .poll 0 1]
    (Um.Session.prun Um.Session.init evs).flushed = 1 ∧
    (Um.Session.prun Um.Session.init evs).armed = true ∧
    (Um.Session.prun Um.Session.init (evs ++ [.poll 0 1, .poll 0 1])).flushed = 3 ∧
    (Um.Session.prun Um.Session.init (evs ++ [.poll 0 1, .poll 0 1])).armed = false := by decide

end Um.C08
