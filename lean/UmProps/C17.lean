import UmProofs.ProtoFuel
import UmProofs.ProtoCompactIdx
import UmProofs.ProtoCommit
import UmProofs.ProtoDamaged
import UmProofs.BrokerViewPartF
/-!
# C17 — Control-plane messages survive their wire encodings

Model: `UmModel/Proto.lean`, `UmModel/ReplProto.lean` (transliteration of `common/cluster.rs`,
`common/proto.rs`, `common/config.rs`, `replication/replicator.rs`, `migration/task.rs`, the
INFOMGR join/split journey).  Rust strings are UTF-8 byte lists, `HashMap`s are association
lists; equality of metas is stated up to the order of node groups (`MetaEquiv`, DESIGN §2.3).
`order` is the (arbitrary) iteration order of the five-entry config map, `dec`/`Codec` the
abstract JSON∘gzip∘base64 codec.

`C17_task_commit` links the descriptor journey to the broker model (`UmModel/Broker.lean`,
C10's `commitCore_pending`, C01's `cinv_run`): the descriptor reported for any stored migration
entry — by the source *or* the destination proxy — is accepted by `commit_migration` and commits
exactly that migration.
-/
namespace Um.Proto.C17
open Um Um.Proto Um.Gen.Proto

/-! ## round trips -/

/-- **cluster meta, plain encoding**: every well-formed meta decodes from its own argument
vector to itself (same groups, same order as emitted), with no config warning — for every
iteration order of the config map and whatever the blob decoder is. -/
theorem C17_rt_cluster (dec : Str → Option MetaData) (order : List CfgField) (m : Meta)
    (h : WfMeta m) (ho : OrderOk order) : parseWith dec (m.toArgs order) = .ok (m, true) :=
  parseWith_toArgs dec order m h ho

/-- the same up to the order in which the real `HashMap`s are iterated: whichever reordering
`m₂` of the groups of `m` is emitted, the decoded value equals `m` as Rust compares it. -/
theorem C17_rt_cluster_equiv (order : List CfgField) (m m₂ : Meta) (h : WfMeta m) (he : MetaEquiv m₂ m)
    (ho : OrderOk order) : ∃ m', parse (m₂.toArgs order) = .ok (m', true) ∧ MetaEquiv m' m :=
  ⟨m₂, parseWith_toArgs _ order m₂ (WfMeta.equiv he h) ho, he⟩

/-- **plain encoding, any range lists** (reversed, unsorted, overlapping, adjacent …): the
argument vector decodes to the meta with every range list compacted -/
theorem C17_rt_cluster_any (dec : Str → Option MetaData) (order : List CfgField) (m : Meta)
    (h : BdMeta m) (ho : OrderOk order) : parseWith dec (m.toArgs order) = .ok (m.compacted, true) :=
  parseWith_toArgs_bd dec order m h ho

/-- **cluster meta, compressed encoding**, for any lossless codec and any range lists: the blob
decodes to the meta with every range list compacted (the normalisation loop of fix 23e5d8f) -/
theorem C17_rt_compressed (c : Codec) (m : Meta) (hv : m.version = SET_CLUSTER_API_VERSION)
    (he : m.epoch ≤ u64Max) (hf : m.flags.compress = true) (hr : ReprData m.data) :
    ∃ m', parseWith c.dec (m.toCompressedArgs c.enc) = .ok (m', true) ∧ MetaEquiv m' m.compacted :=
  parseWith_compressed c m hv he hf hr

/-- … in particular a well-formed meta decodes to itself -/
theorem C17_rt_compressed_wf (c : Codec) (m : Meta) (h : WfMeta m) :
    ∃ m', parseWith c.dec (({ m with flags := { m.flags with compress := true } } : Meta).toCompressedArgs c.enc) = .ok (m', true) ∧
      MetaEquiv m' { m with flags := { m.flags with compress := true } } := by
  obtain ⟨m', h1, h2⟩ := parseWith_compressed c { m with flags := { m.flags with compress := true } } h.1 h.2.1 rfl
    (wfMeta_repr m h)
  refine ⟨m', h1, ?_⟩
  have hc : ({ m with flags := { m.flags with compress := true } } : Meta).compacted =
      { m with flags := { m.flags with compress := true } } := by
    have := h.compacted
    cases m
    simp only [Meta.compacted, Meta.mk.injEq] at this ⊢
    simp only [true_and, and_true] at this ⊢
    exact this
  rw [hc] at h2
  exact h2

/-- **both encodings decode to the same value, whatever the range lists look like**: the plain
form yields `m.compacted`, the compressed form a reordering of it with the COMPRESS flag set -/
theorem C17_plain_eq_compressed (c : Codec) (order : List CfgField) (m : Meta) (h : BdMeta m) (ho : OrderOk order) :
    ∃ m₁ m₂, parseWith c.dec (m.toArgs order) = .ok (m₁, true) ∧
      parseWith c.dec (({ m with flags := { m.flags with compress := true } } : Meta).toCompressedArgs c.enc) = .ok (m₂, true) ∧
      m₁ = m.compacted ∧
      m₁.version = m₂.version ∧ m₁.epoch = m₂.epoch ∧ m₁.flags.force = m₂.flags.force ∧ m₁.cluster = m₂.cluster ∧
      m₂.local.Perm m₁.local ∧ m₂.peer.Perm m₁.peer ∧ m₁.config = m₂.config := by
  obtain ⟨m₂, h2, e1, e2, e3, e4, e5, e6, e7⟩ :=
    parseWith_compressed c { m with flags := { m.flags with compress := true } } h.1 h.2.1 rfl (bdMeta_repr m h)
  refine ⟨m.compacted, m₂, parseWith_toArgs_bd c.dec order m h ho, h2, rfl, e1.symm, e2.symm, ?_, e4.symm, e5, e6, e7.symm⟩
  rw [e3]; rfl

/-- **replication meta**: `parse_repl_meta ∘ encode_repl_meta = id` -/
theorem C17_rt_repl (m : ReplMeta) (h : WfRepl m) : parseReplTokens m.encode = .ok m :=
  parseReplTokens_encode m h

/-- … also through the RESP array (`UMCTL SETREPL` + bulk strings), whichever element filter the
code has -/
theorem C17_rt_repl_resp (m : ReplMeta) (a b : Elem) (h : WfRepl m) (hu : ∀ t ∈ m.encode, validUtf8 t = true) :
    parseReplMeta (some (a :: b :: m.encode.map Elem.bulk)) = .ok m := by
  simp only [parseReplMeta, List.drop_succ_cons, List.drop_zero, filterElems_bulk _ _ hu]
  exact parseReplTokens_encode m h

/-- **task descriptor through the INFOMGR journey** (`join " "`, `split ' '`, `from_strings`) -/
theorem C17_rt_task (t : TaskMeta) (h : WfTask t) (hs : t.slotRange.tag.SpaceFree) :
    infoMgrDecode (infoMgrEncode t) = some t :=
  infoMgr_rt t h hs

/-- … and on the token vector itself, with any continuation left unread -/
theorem C17_rt_task_tokens (t : TaskMeta) (rest : List Str) (h : WfTask t) :
    TaskMeta.fromStrings (t.intoStrings ++ rest) = some (t, rest) :=
  TaskMeta.rt t rest h

/-- **`SwitchArg`**: token vector and the `UMCTL TMPSWITCH` command -/
theorem C17_rt_switch (a : SwitchArg) (x y : Elem) (h : WfTask a.task) (hu : ∀ t ∈ a.intoStrings, validUtf8 t = true)
    (hx : ∃ s, (x = .bulk s ∨ x = .simple s) ∧ validUtf8 s = true)
    (hy : ∃ s, (y = .bulk s ∨ y = .simple s) ∧ validUtf8 s = true) :
    SwitchArg.fromStrings a.intoStrings = some (a, []) ∧
    parseSwitchCommand (some (x :: y :: a.intoStrings.map Elem.bulk)) = some a := by
  have h1 := SwitchArg.rt a [] h
  rw [List.append_nil] at h1
  refine ⟨h1, ?_⟩
  obtain ⟨sx, hx1, hx2⟩ := hx
  obtain ⟨sy, hy1, hy2⟩ := hy
  have hs := strictStrings_bulk a.intoStrings hu
  unfold parseSwitchCommand
  rcases hx1 with rfl | rfl <;> rcases hy1 with rfl | rfl <;>
    simp [strictStrings, hx2, hy2, hs, h1]

/-! ## no misparse -/

/-- **an accepted argument vector is an encoding of what it parses to**: whatever `parse`
accepts (with or without the config warning) is a well-formed value whose own encoding decodes to
exactly that value.  The vector and the canonical encoding differ only by the normalisations the
parser performs (case of tag/section/field words, `+`/leading zeros, reversed/unsorted/mergeable
ranges, pieces after a second `-`, group order, repeated PEER/CONFIG sections). -/
theorem C17_no_misparse (ts : List Str) (m : Meta) (ext : Bool) (h : parse ts = .ok (m, ext))
    (order : List CfgField) (ho : OrderOk order) :
    WfMeta m ∧ parse (m.toArgs order) = .ok (m, true) :=
  ⟨parse_wf ts m ext h, parseWith_toArgs _ order m (parse_wf ts m ext h) ho⟩

theorem C17_no_misparse_repl (ts : List Str) (m : ReplMeta) (h : parseReplTokens ts = .ok m) :
    WfRepl m ∧ parseReplTokens m.encode = .ok m :=
  ⟨parseReplTokens_wf ts m h, parseReplTokens_encode m (parseReplTokens_wf ts m h)⟩

theorem C17_no_misparse_task (ts : List Str) (t : TaskMeta) (rest : List Str)
    (h : TaskMeta.fromStrings ts = some (t, rest)) :
    WfTask t ∧ TaskMeta.fromStrings t.intoStrings = some (t, []) := by
  have hw := TaskMeta.fromStrings_wf ts t rest h
  have := TaskMeta.rt t [] hw
  rw [List.append_nil] at this
  exact ⟨hw, this⟩

/-- distinct well-formed metas have distinct encodings -/
theorem C17_encoding_injective (order : List CfgField) (m₁ m₂ : Meta) (h1 : WfMeta m₁) (h2 : WfMeta m₂)
    (ho : OrderOk order) (he : m₁.toArgs order = m₂.toArgs order) : m₁ = m₂ := by
  have a := parseWith_toArgs (fun _ => none) order m₁ h1 ho
  have b := parseWith_toArgs (fun _ => none) order m₂ h2 ho
  rw [he, b] at a
  injection a with a
  injection a with a _
  exact a.symm

/-! ## rejections -/

/-- no strict prefix of a slot-range encoding is accepted when the input ends there -/
theorem C17_reject_truncated_slot_range (sr : SlotRange) (h : WfSR sr) (k : Nat) (hk : k < sr.intoStrings.length) :
    SlotRange.fromStrings (sr.intoStrings.take k) = none :=
  SlotRange.reject_truncated sr h k hk

/-- a message cut inside a local group is rejected -/
theorem C17_reject_truncated_local (m : Meta) (h : WfMeta m) (a : Str) (sr : SlotRange) (k : Nat)
    (ha : isSectionWord a = false) (hsr : WfSR sr) (hk : k < sr.intoStrings.length) :
    parse (header m ++ NodeMap.toArgs m.local ++ a :: sr.intoStrings.take k) = .error .invalidArgs :=
  parse_truncated_local m h a sr k ha hsr hk

/-- a message cut inside a peer group is rejected -/
theorem C17_reject_truncated_peer (m : Meta) (h : WfMeta m) (a : Str) (sr : SlotRange) (k : Nat)
    (ha : isSectionWord a = false) (hsr : WfSR sr) (hk : k < sr.intoStrings.length) :
    parse (header m ++ NodeMap.toArgs m.local ++ PEER_PREFIX :: (NodeMap.toArgs m.peer ++ a :: sr.intoStrings.take k))
      = .error .invalidArgs :=
  parse_truncated_peer m h a sr k ha hsr hk

/-- a non-numeric epoch is rejected -/
theorem C17_reject_bad_epoch (dec : Str → Option MetaData) (v e : Str) (r : List Str) (h : parseUnsigned e = none) :
    ∃ er, parseWith dec (v :: e :: r) = .error er :=
  parseWith_bad_epoch dec v e r h

/-- a token in tag/count position that is neither a tag word nor a number is rejected -/
theorem C17_reject_bad_count_or_tag (t : Str) (ts : List Str) (h1 : (upperA t == MIGRATING_TAG) = false)
    (h2 : (upperA t == IMPORTING_TAG) = false) (h3 : parseUnsigned t = none) :
    SlotRange.fromStrings (t :: ts) = none :=
  SlotRange.reject_bad_count t ts h1 h2 h3

/-- a range token that is not `number-number…` rejects the list -/
theorem C17_reject_bad_range_token (n : Nat) (pre : List Range) (t : Str) (ts : List Str)
    (hb : ∀ r ∈ pre, r.s ≤ u64Max ∧ r.e ≤ u64Max) (hl : pre.length < n) (ht : parseSlotRange t = none) :
    parseRanges n (pre.map Range.toStr ++ t :: ts) = none :=
  parseRanges_bad_token n pre t ts hb hl ht

/-- **a damaged range token is never skipped**: in a declared list of `n` ranges, if the token at
position `k = pre.length < n` is not of the form `start-end` (non-numeric, no `-`, empty piece — or,
after a deletion, whatever token slid into its place), `RangeList::parse` answers `None`, whatever
follows -/
theorem C17_reject_damaged_range_list (n : Nat) (pre : List Range) (t : Str) (ts : List Str) (hn : n ≤ u64Max)
    (hb : ∀ r ∈ pre, r.s ≤ u64Max ∧ r.e ≤ u64Max) (hl : pre.length < n) (ht : parseSlotRange t = none) :
    RangeList.parse (decimal n :: (pre.map Range.toStr ++ t :: ts)) = none :=
  RangeList.parse_damaged n pre t ts hn hb hl ht

/-- … a list that ends before the declared number of ranges is `None` too (nothing is "taken
short") -/
theorem C17_reject_short_range_list (n : Nat) (ts : List Str) (h : ts.length < n) : parseRanges n ts = none :=
  parseRanges_short n ts h

/-- a token without any `-` is not a range token -/
theorem C17_no_dash_not_a_range (t : Str) (h : (45 : UInt8) ∉ t) : parseSlotRange t = none :=
  parseSlotRange_no_dash t h

/-- the same for a slot range in any of its three tag forms (untagged, MIGRATING, IMPORTING) -/
theorem C17_reject_damaged_slot_range (hd : List Str)
    (htag : hd = [] ∨ hd = [MIGRATING_TAG] ∨ hd = [IMPORTING_TAG])
    (n : Nat) (pre : List Range) (t : Str) (ts : List Str) (hn : n ≤ u64Max)
    (hb : ∀ r ∈ pre, r.s ≤ u64Max ∧ r.e ≤ u64Max) (hl : pre.length < n) (ht : parseSlotRange t = none) :
    SlotRange.fromStrings (hd ++ decimal n :: (pre.map Range.toStr ++ t :: ts)) = none :=
  SlotRange.fromStrings_damaged hd htag n pre t ts hn hb hl ht

/-- a SETCLUSTER message with a damaged slot range in a local group resp. a peer group is rejected,
whatever follows the damaged group -/
theorem C17_reject_damaged_group (m : Meta) (h : WfMeta m) (a : Str) (bad : List Str)
    (ha : isSectionWord a = false) (hbad : SlotRange.fromStrings bad = none) :
    parse (header m ++ NodeMap.toArgs m.local ++ a :: bad) = .error .invalidArgs ∧
    parse (header m ++ NodeMap.toArgs m.local ++ PEER_PREFIX :: (NodeMap.toArgs m.peer ++ a :: bad))
      = .error .invalidArgs :=
  ⟨parse_bad_local_group m h a bad ha hbad, parse_bad_peer_group m h a bad ha hbad⟩

/-- a task descriptor (INFOMGR element, switch argument) with a damaged slot range is rejected -/
theorem C17_reject_damaged_task (c v : Str) (bad : List Str) (hbad : SlotRange.fromStrings bad = none) :
    TaskMeta.fromStrings (c :: bad) = none ∧ SwitchArg.fromStrings (v :: c :: bad) = none := by
  have h := TaskMeta.fromStrings_bad c bad hbad
  exact ⟨h, by simp [SwitchArg.fromStrings, h]⟩

/-- a word in section position other than PEER / CONFIG is rejected -/
theorem C17_reject_unknown_section (f : Nat) (loc peer : NodeMap) (cfg : Config) (ext : Bool) (t : Str) (ts : List Str)
    (h1 : (upperA t == PEER_PREFIX) = false) (h2 : (upperA t == CONFIG_PREFIX) = false) :
    parseSections (f + 1) loc peer cfg ext (t :: ts) = .error .invalidArgs :=
  parseSections_unknown_word f loc peer cfg ext t ts h1 h2

/-! ## the RESP layer (finding F8) -/

/-- the full statement: an argument vector with an element that is not a UTF-8 bulk string is
rejected -/
def FromRespRejectsInvalid : Prop :=
  ∀ (dec : Str → Option MetaData) (arr : List Elem), (∃ e ∈ arr.drop 2, e.Invalid) →
    ∃ er, fromRespWith dec (some arr) = .error er

def ReplRejectsInvalid : Prop :=
  ∀ (arr : List Elem), (∃ e ∈ arr.drop 2, e.Invalid) → ∃ er, parseReplMeta (some arr) = .error er

/-- what holds for either shape of the filter: on vectors made of UTF-8 bulk strings `from_resp`
is `parse` of those strings -/
theorem C17_from_resp_partial (dec : Str → Option MetaData) (a b : Elem) (ts : List Str)
    (hu : ∀ t ∈ ts, validUtf8 t = true) :
    fromRespWith dec (some (a :: b :: ts.map Elem.bulk)) = parseWith dec ts := by
  simp only [fromRespWith, List.drop_succ_cons, List.drop_zero, filterElems_bulk _ _ hu]

/-- with the rejecting filter (the proposed repair) the full statement holds -/
theorem C17_from_resp_strict (h : fromRespStrict = true) : FromRespRejectsInvalid := by
  intro dec arr hinv
  simp only [fromRespWith, h, filterElems_strict_invalid _ hinv]
  exact ⟨_, rfl⟩

theorem C17_repl_from_resp_strict (h : replFromRespStrict = true) : ReplRejectsInvalid := by
  intro arr hinv
  simp only [parseReplMeta, h, filterElems_strict_invalid _ hinv]
  exact ⟨_, rfl⟩

/-- `UMCTL SETCLUSTER v2 1 NOFLAG c A 1 0-100 <PEER with a 0xFF byte> B 1 200-300` -/
def f8Witness : List Elem :=
  [.bulk [85], .bulk [83], .bulk [118, 50], .bulk [49], .bulk [78, 79, 70, 76, 65, 71], .bulk [99],
   .bulk [65], .bulk [49], .bulk [48, 45, 49, 48, 48], .bulk [80, 69, 0xFF, 82],
   .bulk [66], .bulk [49], .bulk [50, 48, 48, 45, 51, 48, 48]]

/-- **F8**: with the dropping `flat_map` filter (the code as it is) the full statement is false —
the mangled `PEER` word vanishes and the peer `B` is installed as a *local* node. -/
theorem C17_F8_counterexample (h : fromRespStrict = false) : ¬ FromRespRejectsInvalid := by
  intro hall
  obtain ⟨er, her⟩ := hall (fun _ => none) f8Witness ⟨.bulk [80, 69, 0xFF, 82], by decide, by decide⟩
  have : fromRespWith (fun _ => none) (some f8Witness) =
      .ok (⟨[118, 50], 1, ⟨false, false⟩, [99], [([65], [⟨[⟨0, 100⟩], .none⟩]), ([66], [⟨[⟨200, 300⟩], .none⟩])], [],
        Config.default⟩, true) := by
    unfold fromRespWith
    rw [h]
    rfl
  rw [this] at her
  cases her

/-- `UMCTL SETREPL 1 NOFLAG <junk>`: the trailing non-UTF-8 element vanishes -/
theorem C17_F8_repl_counterexample (h : replFromRespStrict = false) : ¬ ReplRejectsInvalid := by
  intro hall
  obtain ⟨er, her⟩ := hall [.bulk [85], .bulk [83], .bulk [49], .bulk [78, 79, 70, 76, 65, 71], .other]
    ⟨.other, by decide, trivial⟩
  have : parseReplMeta (some [.bulk [85], .bulk [83], .bulk [49], .bulk [78, 79, 70, 76, 65, 71], .other]) =
      .ok ⟨1, ⟨false, false⟩, [], []⟩ := by
    unfold parseReplMeta
    rw [h]
    rfl
  rw [this] at her
  cases her

/-- `parse_switch_command` (through `get_resp_strings`) does reject such vectors -/
theorem C17_switch_rejects_invalid (arr : List Elem)
    (h : ∃ e ∈ arr, e.Invalid ∧ ∀ b, e ≠ .simple b ∨ validUtf8 b = false) : parseSwitchCommand (some arr) = none := by
  simp [parseSwitchCommand, strictStrings_invalid arr h]

/-! ## the reported descriptor and the broker (`C17_task_commit`) -/

open Um.Broker Um.Broker.Scale in
/-- **C17_task_commit**: in a cluster satisfying the store invariants, for every stored migration
entry `m` — migrating (what the source proxy is served) or importing (the destination proxy) —
the served slot range exists (`to_slot_range` does not panic), its `MigrationTaskMeta` survives
`into_strings` → `join " "` → `split ' '` → `from_strings`, `commit_migration` reads from it the
entry's range list and epoch with "tag is not None", and `commitMigrationCore` accepts it and
commits exactly that migration: the result is C10's `commitRes` for the entry's migrating twin
`m₀` (same ranges, same meta).  `enc` is the UTF-8 encoding of the address strings, `nm` the
cluster name's bytes. -/
theorem C17_task_commit {s : Store} {name : String} {c : Cluster} (hf : s.findCluster name = some c)
    (hp : PosInv c) (ht : TwinInv c) (hs : SlotInv c) {m : MigStore} (hm : m ∈ c.migs)
    (enc : String → Str) (nm : Str) (hn : validClusterName nm = true) (he : m.mm.epoch ≤ u64Max)
    (hsp : (entryDesc enc nm c.chunks m).slotRange.tag.SpaceFree) :
    toSlotRange m c.chunks = R.ok (toSlotRangeP c.chunks m) ∧
    infoMgrDecode (infoMgrEncode (entryDesc enc nm c.chunks m)) = some (entryDesc enc nm c.chunks m) ∧
    commitArgs (entryDesc enc nm c.chunks m) = (m.ranges, m.mm.epoch, false) ∧
    ∃ m₀ ∈ c.migs, m₀.isMigrating = true ∧ m₀.ranges = m.ranges ∧ m₀.mm = m.mm ∧
      ∃ A dch B t, c.chunks = A ++ dch :: B ∧ A.length = m.mm.dstChunk ∧
        t.isMigrating = false ∧ t.ranges = m.ranges ∧ t.mm = m.mm ∧
        ((m.mm.dstPart = 0 ∧ t ∈ dch.mig0) ∨ (m.mm.dstPart = 1 ∧ t ∈ dch.mig1)) ∧
        commitMigrationCore s name m.ranges m.mm.epoch false =
          ((s.setCluster { c with chunks := commitRes m.ranges m.mm A dch B, epoch := s.globalEpoch + 1 }).bump,
            R.ok ()) :=
  task_commit hf hp ht hs hm enc nm hn he hsp

open Um.Broker Um.Broker.Scale Um.Broker.Plan in
/-- … in every state of every bounded run of broker operations (C01's `cinv_run`): any order of
scalings, commits, failovers; `PlanBound` = no cluster has more than `SLOT_NUM` masters. -/
theorem C17_task_commit_run (ops : List Op) (hb : ∀ k, PlanBound (run (ops.take k)))
    {name : String} {c : Cluster} (hf : (run ops).findCluster name = some c) {m : MigStore} (hm : m ∈ c.migs)
    (enc : String → Str) (nm : Str) (hn : validClusterName nm = true) (he : m.mm.epoch ≤ u64Max)
    (hsp : (entryDesc enc nm c.chunks m).slotRange.tag.SpaceFree) :
    infoMgrDecode (infoMgrEncode (entryDesc enc nm c.chunks m)) = some (entryDesc enc nm c.chunks m) ∧
    commitArgs (entryDesc enc nm c.chunks m) = (m.ranges, m.mm.epoch, false) ∧
    ∃ s', commitMigrationCore (run ops) name m.ranges m.mm.epoch false = (s', R.ok ()) := by
  obtain ⟨hp, ht, hs⟩ := cinv_run ops hb c (Store.findCluster_mem hf)
  obtain ⟨_, h2, h3, _, _, _, _, _, _, _, _, _, _, _, _, _, _, _, h4⟩ := task_commit hf hp ht hs hm enc nm hn he hsp
  exact ⟨h2, h3, _, h4⟩

open Um.Broker in
/-- a descriptor with tag `None` is refused with `INVALID_MIGRATION_TASK`, nothing changes -/
theorem C17_task_commit_none (s : Store) (name : String) (t : TaskMeta) (ht : t.slotRange.tag = .none)
    (c : Cluster) (hf : s.findCluster name = some c) :
    (commitArgs t).2.2 = true ∧
    commitMigrationCore s name (commitArgs t).1 (commitArgs t).2.1 (commitArgs t).2.2 = (s, R.err Err.invalidMigrationTask) :=
  task_commit_none s name t ht c hf

/-! ## totality -/

/-- the two `expect`s in `RangeList::compact` never fire; the index loop computes `compact` -/
theorem C17_compact_no_panic (l : List Range) : compactIdx l = some (compact l) := compactIdx_eq l

/-- a parsed range list is a fixed point of `compact` -/
theorem C17_compact_idempotent (l : List Range) : compact (compact l) = compact l := compact_idem l

/-- the recursion budgets of the model never decide an outcome -/
theorem C17_model_budget_unreachable (dec : Str → Option MetaData) (ts : List Str) :
    parseWith dec ts ≠ .error .fuel ∧ parseReplTokens ts ≠ .error .fuel :=
  ⟨parseWith_ne_fuel dec ts, parseReplTokens_ne_fuel ts⟩

/-! ## non-vacuity -/

def exMig : MigrationMeta := ⟨233, [49, 58, 49], [50, 58, 50], [51, 58, 51], [52, 58, 52]⟩

/-- two local nodes (one with two slot ranges, one migrating with a three-range list), one peer
importing, a non-default config -/
def exMeta : Meta :=
  { version := SET_CLUSTER_API_VERSION, epoch := 7, flags := ⟨true, false⟩, cluster := [99, 49],
    «local» := [([65, 58, 49], [⟨[⟨0, 100⟩, ⟨200, 300⟩], .none⟩, ⟨[⟨400, 400⟩], .migrating exMig⟩]),
                ([66, 58, 50], [⟨[⟨500, 600⟩, ⟨700, 800⟩, ⟨16383, 16383⟩], .none⟩])],
    peer := [([67, 58, 51], [⟨[⟨5000, 6000⟩], .importing exMig⟩])],
    config := ⟨.allowAll, 666, 66699, 500, 16⟩ }

example : WfMeta exMeta := by decide
example : OrderOk [CfgField.scanCount, .comp, .scanInterval, .maxBlockingTime, .maxMigrationTime] := by decide
example : parse (exMeta.toArgs CfgField.all) = .ok (exMeta, true) :=
  C17_rt_cluster _ _ _ (by decide) (by decide)
example : (exMeta.toArgs CfgField.all).length = 43 := by decide
example : ReprData exMeta.data := wfMeta_repr _ (by decide)

/-- a meta whose lists are reversed / unsorted / adjacent: not well-formed, but both wire forms
denote its compacted form -/
def exRaw : Meta :=
  { exMeta with «local» := [([65, 58, 49], [⟨[⟨300, 200⟩, ⟨0, 100⟩, ⟨101, 150⟩], .none⟩])] }
example : BdMeta exRaw ∧ ¬ WfMeta exRaw := by decide
example : exRaw.compacted.local = [([65, 58, 49], [⟨[⟨0, 150⟩, ⟨200, 300⟩], .none⟩])] := by decide
example : parse (exRaw.toArgs CfgField.all) = .ok (exRaw.compacted, true) :=
  C17_rt_cluster_any _ _ _ (by decide) (by decide)

def exRepl : ReplMeta :=
  ⟨233, ⟨true, false⟩, [⟨[99], [65], [⟨[66], [67]⟩]⟩], [⟨[99], [66], [⟨[65], [67]⟩, ⟨[68], [69]⟩]⟩]⟩
example : WfRepl exRepl := by decide
example : parseReplTokens exRepl.encode = .ok exRepl := C17_rt_repl _ (by decide)

def exTask : TaskMeta := ⟨[99, 49], ⟨[⟨0, 100⟩, ⟨200, 300⟩], .migrating exMig⟩⟩
example : WfTask exTask := by decide
example : exTask.slotRange.tag.SpaceFree := by decide
example : infoMgrDecode (infoMgrEncode exTask) = some exTask := C17_rt_task _ (by decide) (by decide)

/-- a truncated group really is a strict prefix -/
example : (3 : Nat) < (exTask.slotRange.intoStrings).length := by decide

/-- normalisation in action: `+3 9-5 1-2 03-4` (reversed, unsorted, adjacent ranges, `+`, leading zero) -/
example : SlotRange.fromStrings [[43, 51], [57, 45, 53], [49, 45, 50], [48, 51, 45, 52]]
    = some (⟨[⟨1, 9⟩], .none⟩, []) := by decide

/-- the wrapping `end + 1` of the release build: `0-MAX` does not absorb `5-6` -/
example : compact [⟨0, u64Max⟩, ⟨5, 6⟩] = [⟨0, u64Max⟩, ⟨5, 6⟩] := by decide

/-- `C17_task_commit` on the *importing* entry of C01's worked example (two migrations in flight) -/
example : ∃ s', Um.Broker.commitMigrationCore { Um.Broker.Store.init with globalEpoch := 7, clusters := [Um.Broker.exCluster] }
    "c" [(4096, 8191)] 7 false = (s', Um.Broker.R.ok ()) := by
  have h := C17_task_commit (s := { Um.Broker.Store.init with globalEpoch := 7, clusters := [Um.Broker.exCluster] })
    (name := "c") (c := Um.Broker.exCluster) rfl Um.Broker.exCluster_inv.1 Um.Broker.exCluster_inv.2.1
    Um.Broker.exCluster_inv.2.2
    (m := { ranges := [(4096, 8191)], isMigrating := false, mm := Um.Broker.exMeta0 })
    (by simp [Um.Broker.Cluster.migs, Um.Broker.Chunk.migs, Um.Broker.exCluster, Um.Broker.exChunk0, Um.Broker.exChunk1])
    (fun _ => [120]) [99] (by decide) (by decide) (by decide)
  obtain ⟨_, _, _, _, _, _, _, _, _, _, _, _, _, _, _, _, _, _, h4⟩ := h
  exact ⟨_, h4⟩

/-- `c1 MIGRATING 2 0-100 200:300 233 …`: the second range token lost its `-` -/
example : TaskMeta.fromStrings ([99, 49] :: ([MIGRATING_TAG] ++ decimal 2 :: ([(⟨0, 100⟩ : Range)].map Range.toStr ++
    [50, 48, 48, 58, 51, 48, 48] :: exMig.intoStrings))) = none :=
  (C17_reject_damaged_task _ [] _ (C17_reject_damaged_slot_range _ (Or.inr (Or.inl rfl)) 2 [⟨0, 100⟩] _ _ (by decide)
    (by decide) (by decide) (C17_no_dash_not_a_range _ (by decide)))).1

end Um.Proto.C17
