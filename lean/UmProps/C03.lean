import UmModel.Migration
import UmProofs.MigrationDefs
import UmProofs.MigrationFinal
/-!
# C03 — Live slot migration neither loses, duplicates nor resurrects data

The statement (`UmProofs/MigrationDefs.lean`): every step of every execution of the migration
model is a `RegisterStep` — the execution of a client command is its linearization point on the
abstract register `logical s = dst <|> src`, every other step leaves the abstract register alone —
and a quiescent state after the commit has `src = none` (so the register content lives exactly
once, on the destination).

This file: the command classification the pull path relies on (`classification_sound`, full since
fix ddfb301 of finding F03a); the execution of the model — reproduced on the implementation with
the gate scheduler, finding F03b — that falsifies the statement at full strength; and
`C03_register_partial`: under the one hypothesis that excludes exactly this finding (`GoodStep`)
the invariant `MigInv` (`UmProofs/MigrationInv.lean`)
is inductive and the statement holds for the full model: slow path included, any number of backend
connections (in-flight commands of different sends are unordered), both redirect modes, any number
of concurrent client operations, spurious slot-mutex contention.
-/
namespace Um.Mig.C03
open Um Um.Mig

/-! ## command classification (`requires_blocking_migration`) -/

def bytesOf (s : String) : List UInt8 := s.toList.map (fun c => c.toNat.toUInt8)

/-- TRUSTED (Redis documentation): commands of the proxy's supported table that can remove the key
given as their first argument (directly, by emptying a collection, by a non-positive expiry, by a
script, or — the `*STORE` family — by storing an empty result). -/
def canDeleteNames : List String :=
  ["DEL", "UNLINK", "EXPIRE", "EXPIREAT", "PEXPIRE", "PEXPIREAT", "EVAL",
   "HDEL", "LPOP", "RPOP", "RPOPLPUSH", "LREM", "LTRIM", "BLPOP", "BRPOP", "BRPOPLPUSH",
   "SPOP", "SREM", "SMOVE", "ZREM", "ZPOPMIN", "ZPOPMAX", "BZPOPMIN", "BZPOPMAX",
   "ZREMRANGEBYLEX", "ZREMRANGEBYRANK", "ZREMRANGEBYSCORE", "RENAME",
   "SDIFFSTORE", "SINTERSTORE", "SUNIONSTORE", "ZINTERSTORE", "ZUNIONSTORE"]

/-- the path a command name takes at the importing proxy: `true` = UMSYNC push path -/
def pushPath (name : String) : Bool := requiresBlocking (nonBlockingType (dataCmdType (bytesOf name)))

/-- **every command that can delete its key requires blocking migration**: it goes through the
UMSYNC push path (BLPOP… are covered through the executor's rewrite to LPOP… before dispatch).
Full statement; before fix ddfb301 the `*STORE` family was typed `Others` (finding F03a). -/
theorem classification_sound : ∀ n ∈ canDeleteNames, pushPath n = true := by
  decide +kernel

/-- no deleting command is left in the catch-all type -/
theorem classification_no_others : ∀ n ∈ canDeleteNames, dataCmdType (bytesOf n) ≠ "Others" := by
  decide +kernel

/-- the model's commands: every deleting command is on the push path (this discharges the former
first hypothesis of `GoodStep`) -/
theorem model_classification (c : Cmd) : c.deletes = true → c.blocking = true := deletes_blocking c

/-- regression for F03a: SINTERSTORE is a push-path command now; reads and plain writes pull -/
theorem model_paths : Cmd.sinterstore.blocking = true ∧ Cmd.del.blocking = true ∧
    Cmd.get.blocking = false ∧ (∀ v, (Cmd.set v).blocking = false) ∧ (∀ v, (Cmd.getset v).blocking = false) := by
  refine ⟨by decide +kernel, by decide +kernel, by decide +kernel, ?_, ?_⟩
  · intro v
    show requiresBlocking (nonBlockingType (dataCmdType [83, 69, 84])) = false
    decide +kernel
  · intro v
    show requiresBlocking (nonBlockingType (dataCmdType [71, 69, 84, 83, 69, 84])) = false
    decide +kernel

/-! ## executions of the model -/

/-- PRECHECK … PRESWITCH: the destination serves the range, the source redirects and scans -/
def handshake : List Label :=
  [.dlvPreCheck, .tau .srcPreCheckOk, .tau .startBlocking, .tau .blockingDone, .dlvPreSwitch,
   .tau .srcPreSwitchOk, .tau .stopBlocking]

/-- regression for F03a (`corpus/C03/migration.f03a.ops`): `SINTERSTORE k <missing>` arrives while a
scan batch holds a DUMP of the key; it now takes the push path, is queued behind the batch (slow
path) and deletes the key only after the batch's RESTORE and DEL -/
def f03aTrace : List Label := handshake ++
  [.tau .scanLock, .exe .scan .src .pttl (.int (-1)), .exe .scan .src .dump (.val 5),
   .inv 1 .D .sinterstore, .dlvSync false,
   .exe .scan .dst (.restore 5) .ok, .exe .scan .src .del (.int 1), .tau .scanEnd,
   .tau .scanSlow, .exe .scan .src .pttl (.int (-2)), .exe .scan .src .dump .nil, .tau .scanEnd,
   .tau .syncDone, .exe (.op 1) .dst (.client .sinterstore) (.int 0), .ret 1 (.int 0),
   .tau .scanFinish, .dlvFinalSwitch, .tau .srcFinalSwitchOk, .commit .D, .commit .S]

/-- F03b: a pull keeps its DUMP across scan end, FINALSWITCH and both commits; a DEL sent after the
commit runs directly at the destination; then the old RESTORE lands -/
def f03bTrace : List Label := handshake ++
  [.inv 1 .D .get, .exe (.op 1) .dst .exists (.int 0), .tau (.existsLock 1),
   .exe .crit .src .dump (.val 5), .exe .crit .src .pttl (.int (-1)),
   .tau .scanLock, .exe .scan .src .pttl (.int (-1)), .exe .scan .src .dump (.val 5),
   .exe .scan .dst (.restore 5) .ok, .exe .scan .src .del (.int 1), .tau .scanEnd, .tau .scanFinish,
   .dlvFinalSwitch, .tau .srcFinalSwitchOk, .commit .D, .commit .S,
   .inv 2 .D .del, .exe (.op 2) .dst (.client .del) (.int 1), .ret 2 (.int 1)]

def i5 : Sys := Sys.init (some 5) false

theorem f03b_runs : (runLabels i5 f03bTrace).isSome = true := by decide +kernel

/-- **the full-strength statement is false**: only GET and DEL are issued; the RESTORE of a
pull that started before the commit lands after an acknowledged post-commit DEL -/
theorem C03_register_full_false_commit_race :
    ∃ s l s', Reach i5 s ∧ step? s l = some s' ∧ ¬ RegisterStep s l s' := by
  refine ⟨(runLabels i5 f03bTrace).get f03b_runs, .exe .crit .dst (.restore 5) .ok,
    ((step? ((runLabels i5 f03bTrace).get f03b_runs) (.exe .crit .dst (.restore 5) .ok)).getD i5),
    reach_of_runLabels Reach.refl _ (Option.some_get f03b_runs).symm, by decide +kernel, ?_⟩
  simp only [RegisterStep]
  decide +kernel

/-- non-vacuity: a complete migration with a pull (SET), a push (DEL) and both commits ends
quiescent with the key on neither node (it was deleted) -/
def goodTrace : List Label := handshake ++
  [.inv 1 .D (.set 7), .exe (.op 1) .dst .exists (.int 0), .tau (.existsLock 1),
   .exe .crit .src .dump (.val 5), .exe .crit .src .pttl (.int (-1)),
   .exe .crit .dst (.restore 5) .ok, .exe (.op 1) .dst (.client (.set 7)) .ok, .ret 1 .ok,
   .tau .restoreDone, .exe .aux .src .del (.int 1),
   .inv 2 .D .del, .dlvSync false, .exe .crit .src .pttl (.int (-2)), .exe .crit .src .dump .nil, .tau .syncDone,
   .exe (.op 2) .dst (.client .del) (.int 1), .ret 2 (.int 1),
   .tau .scanFinish, .dlvFinalSwitch, .tau .srcFinalSwitchOk, .commit .D, .commit .S]

theorem good_runs : (runLabels i5 goodTrace).isSome = true := by decide +kernel

example : ∃ s, runLabels i5 goodTrace = some s ∧ s.src = none ∧ s.dst = none ∧ s.ops = [] ∧
    s.crit = none ∧ s.srcTask = false ∧ s.dstTask = false :=
  ⟨_, (Option.some_get good_runs).symm, by decide +kernel, by decide +kernel, by decide +kernel,
    by decide +kernel, by decide +kernel, by decide +kernel⟩

/-! ## the partial theorem

FULL STATEMENT (false for the code as it is — `C03_register_full_false_commit_race`, F03b):

    C03_register  : ∀ v0 a s s' l, Reach (Sys.init v0 a) s → step? s l = some s' → RegisterStep s l s'
    C03_end_state : ∀ v0 a s, Reach (Sys.init v0 a) s → Quiescent s → s.src = none ∧ s.dst = logical s

What is proved below is the same with `Reach` replaced by `ReachG` (every step satisfies
`GoodStep`): `commit D` happens only in states where the key-lock holder owns no DUMP
(`critDump s = none`).  The former hypothesis about deleting commands outside
`requires_blocking_migration` (F03a) is gone: `model_classification`.
-/

/-- the invariant holds in every state reachable by good steps -/
theorem C03_invariant (v0 : Option Val) (a : Bool) {s : Sys} (h : ReachG (Sys.init v0 a) s) : MigInv s :=
  miginv_reachG (miginv_init v0 a) h

/-- **C03 (partial: hypothesis `GoodStep` = no F03b commit)**: every step of every
execution (faults `syncFault`/`scanFault` included) is a refinement step of the atomic register `logical`: the execution of a client
command — which lies between its invocation and its response — answers and updates the register
exactly as the sequential specification `Cmd.apply`; no other step (scan batches, pulls, pushes,
fast and slow path, handshake, commit, redirects) changes the register.  Hence the acknowledged
history is linearizable: a completed write/delete is seen by every later read, nothing overwritten
or deleted reappears. -/
theorem C03_register_partial (v0 : Option Val) (a : Bool) {s s' : Sys} {l : Label}
    (h : ReachG (Sys.init v0 a) s) (hg : GoodStep s l) (hs : step? s l = some s') :
    RegisterStep s l s' :=
  (inv_step (C03_invariant v0 a h) hg hs).2

/-- the same, for a whole trace: the client-command executions answer like the atomic register
started at the initial source value, and the final abstract register is what that register holds -/
theorem C03_register_trace_partial (v0 : Option Val) (a : Bool) (ls : List Label) {s' : Sys}
    (hg : runGood (Sys.init v0 a) ls) (hr : runLabels (Sys.init v0 a) ls = some s') :
    specOk v0 ls ∧ logical s' = specRun v0 ls := by
  have h := run_refines ls (miginv_init v0 a) hg hr
  have e : logical (Sys.init v0 a) = v0 := by simp [logical, Sys.init]
  rw [e] at h
  exact h.2

/-- **end state**: at quiescence after both commits the source holds nothing and the destination
holds exactly the register content -/
theorem C03_end_state_partial (v0 : Option Val) (a : Bool) {s : Sys}
    (h : ReachG (Sys.init v0 a) s) (hq : Quiescent s) : s.src = none ∧ s.dst = logical s :=
  quiescent_src_none (C03_invariant v0 a h) hq

/-- … and together: the destination holds the value the atomic register ends with -/
theorem C03_end_value_partial (v0 : Option Val) (a : Bool) (ls : List Label) {s' : Sys}
    (hr : runLabelsG (Sys.init v0 a) ls = some s') (hq : Quiescent s') :
    s'.src = none ∧ s'.dst = specRun v0 ls := by
  obtain ⟨h1, h2, h3⟩ := runLabelsG_spec ls hr
  have hq' := C03_end_state_partial v0 a h3 hq
  exact ⟨hq'.1, by rw [hq'.2]; exact (C03_register_trace_partial v0 a ls h2 h1).2⟩

/-- non-vacuity: `goodTrace` satisfies the hypotheses, ends quiescent, and the theorem pins its
final content (SET 7 then DEL: nothing left) -/
theorem good_runsG : (runLabelsG i5 goodTrace).isSome = true := by decide +kernel

example : ∃ s, runLabelsG i5 goodTrace = some s ∧ Quiescent s ∧ s.src = none ∧ s.dst = none := by
  refine ⟨_, (Option.some_get good_runsG).symm, ?_, by decide +kernel, by decide +kernel⟩
  refine ⟨by decide +kernel, by decide +kernel, by decide +kernel, by decide +kernel, by decide +kernel, by decide +kernel⟩

/-! ## faults while the source serves a UMSYNC

`Label.syncFault` / `Label.scanFault`: a Redis connection of the migrating task fails at the next
command of the UMSYNC fast path (PTTL/DUMP pipeline, final DEL) or of the current scan-loop batch
(a slow-path batch answers its queued UMSYNC with an error).  They are ordinary labels of
`step?`, so `C03_register_partial`, `C03_register_trace_partial` and the end-state theorems above
already quantify over executions with arbitrarily many such faults: the register semantics holds
with them.  What the importing proxy must do with the error reply is pinned here. -/

/-- **a failed push never lets the command through**: when the source answered UMSYNC with an
error, processing that reply releases the key lock, gives the client op an error reply and
executes nothing — both nodes are untouched and the op can only be returned (`done`) -/
theorem C03_failed_push_not_executed {s s' : Sys} {oid : OpId}
    (hk : s.crit = some { id := oid, pc := .uSyncGot .err }) (hs : step? s (.tau .syncDone) = some s') :
    s'.src = s.src ∧ s'.dst = s.dst ∧ s'.crit = none ∧
    ∀ o ∈ s'.ops, o.id = oid → o.pc = .done (.err 2) := by
  simp only [step?, stepTau, hk] at hs
  cases hs
  refine ⟨rfl, rfl, rfl, ?_⟩
  intro o ho hid
  rw [mem_setPc] at ho
  obtain ⟨a, _, rfl⟩ := ho
  by_cases h : a.id = oid
  · simp [h]
  · simp only [h, if_false] at hid

/-- a client command is executed at a node only by an op in `direct`/`pCmd`; an op whose push failed
is in `done` and stays there: the only step it can still take is `ret` -/
theorem C03_done_is_terminal {s s' : Sys} {o : Op} {n : Node} {c : BCmd} {r r0 : Rep}
    (hpc : o.pc = .done r0) : exeOp s o n c r ≠ some s' := by
  unfold exeOp; simp [hpc]

/-- non-vacuity: DEL at the destination, the fast path fails after its PTTL, the client gets an
error, retries, the second UMSYNC moves the value and the delete sticks -/
def faultTrace : List Label := handshake ++
  [.inv 1 .D .del, .dlvSync false, .exe .crit .src .pttl (.int (-1)), .syncFault false,
   .tau .syncDone, .ret 1 (.err 2),
   .inv 2 .D .del, .dlvSync false, .exe .crit .src .pttl (.int (-1)), .exe .crit .src .dump (.val 5),
   .exe .crit .dst (.restore 5) .ok, .exe .crit .src .del (.int 1), .tau .syncDone,
   .exe (.op 2) .dst (.client .del) (.int 1), .ret 2 (.int 1),
   .tau .scanFinish, .dlvFinalSwitch, .tau .srcFinalSwitchOk, .commit .D, .commit .S]

theorem fault_runsG : (runLabelsG i5 faultTrace).isSome = true := by decide +kernel

theorem fault_regression : ∃ s, runLabelsG i5 faultTrace = some s ∧ Quiescent s ∧ s.src = none ∧ s.dst = none := by
  refine ⟨_, (Option.some_get fault_runsG).symm, ?_, by decide +kernel, by decide +kernel⟩
  refine ⟨by decide +kernel, by decide +kernel, by decide +kernel, by decide +kernel, by decide +kernel, by decide +kernel⟩

/-- the F03a regression trace is a good run now: the delete sticks, the key is on neither node -/
theorem f03a_runsG : (runLabelsG i5 f03aTrace).isSome = true := by decide +kernel

theorem f03a_regression : ∃ s, runLabelsG i5 f03aTrace = some s ∧ Quiescent s ∧ s.src = none ∧ s.dst = none := by
  refine ⟨_, (Option.some_get f03a_runsG).symm, ?_, by decide +kernel, by decide +kernel⟩
  refine ⟨by decide +kernel, by decide +kernel, by decide +kernel, by decide +kernel, by decide +kernel, by decide +kernel⟩

/-- the F03b trace violates the remaining hypothesis -/
theorem f03b_not_good : runLabelsG i5 f03bTrace = none := by decide +kernel

end Um.Mig.C03
