import UmProofs.BrokerScaleRelease
import UmProofs.BrokerScaleCommitD
import UmProofs.BrokerScaleCreate
import UmProofs.BrokerScaleOut
import UmProofs.BrokerScaleDownC
import UmProofs.BrokerScaleFinalB
import UmProofs.BrokerScaleDisj
import UmProofs.BrokerScaleFailover
import UmProofs.BrokerScaleAdd
import UmProofs.BrokerScaleReachE
import UmProofs.BrokerScaleReachF
/-!
# C10 — Scaling completes to a balanced full partition and frees only empty chunks

All statements are about the broker model `UmModel/Broker.lean` (every `MetaStore` mutator as a
function `Store → … → Store × R _`), for arbitrary stores / clusters satisfying the stated
hypotheses — no bound on the number of chunks, tasks, or commits.

* `C10_refuse` — while a migration is running every scaling / config request is refused
  (an `err`, not always `MIGRATION_RUNNING`) and leaves the store unchanged up to `globalEpoch`.
* `C10_release` — `auto_delete_free_nodes` removes exactly the chunks whose two stable halves
  are `None` and whose two migration lists are empty, keeps the others in order and un-tags
  exactly the removed chunks' proxies; `commit_migration(clear=true)` and
  `auto_change_node_number` release only through it.
* `C10_commit_progress`, `C10_commit_unknown`, `C10_commit_preserves`, `C10_terminates`,
  `C10_progress` — under `PosInv ∧ TwinInv ∧` "stored migration range lists are `compact`-fixed"
  (`CommitInv`; implied by `SlotInv`, see `C10_commitInv_of_invs`) the descriptor of every pending
  entry is accepted, the commit removes exactly that entry and its importing twin and merges the
  ranges into the destination half's stable list, every other descriptor gets
  `MIGRATION_TASK_NOT_FOUND` without any change, and any chain of `k` successful commits (any
  order, any `clear` flag) leaves exactly `#pending - k` pending entries: the migration is over
  after exactly `#pending` commits and can always be continued before.
* `C10_balanced_create`, `C10_scale_out_plan`, `C10_scale_down_plan` — the arithmetic core:
  `add_cluster` creates a balanced cluster; on a balanced cluster the two planners neither panic
  nor run out of fuel, leave every source master with exactly its new quota (scale-out) resp.
  drained (scale-down) and plan for every destination master exactly what it lacks to its new quota
  (the greedy two-pointer lemma is `srcChunks_spec` / `downChunks_spec` in
  `UmProofs/BrokerScalePlanC.lean`, `…DownB.lean`).
* `C10_reachable_balanced` (+ `_run`), `C10_reachable_on_track`, `C10_reachable_chain_balanced`,
  `C10_reachable_migPre` / `_downPre` / `_downPre_planner`, `C10_planner_no_panic` — the unconditional
  statements over all boundedly reachable stores (`Plan.ReachableB`, every cluster `≤ SLOT_NUM`
  masters along the run): every non-migrating cluster is `Balanced`; every cluster carries
  `CommitInv` and the profile of a balanced target, so committing its pending tasks in any order
  reaches `Balanced`; the planners never panic.
* `C10_balanced_scale_out`, `C10_balanced_scale_down` — end to end: from a balanced cluster,
  `migrate_slots` / `migrate_slots_to_scale_down` succeed (no panic in the planner nor in
  `assign_dst_slots`), and if the resulting cluster satisfies the shared invariants
  `PosInv ∧ TwinInv ∧ SlotInv` (their preservation by every operation is C01's obligation), then
  every chain of successful commits — any order, any `clear` flags, failovers interleaved
  (`ScaleChain`; the cluster a failover leaves must again satisfy the shared invariants) — that
  exhausts the pending tasks ends in a balanced cluster with the new master number; after a
  scale-in to `n'` chunks exactly the chunks `≥ n'` are slot-less (and gone if a commit cleared
  them).
-/
namespace Um.Broker.C10
open Um Um.Slots Um.Broker Um.Broker.Scale

/-! ## refusal -/

/-- **C10_refuse**: while `cl.isMigrating`, each scaling / config entry point answers an error
and changes nothing but (possibly) the global epoch.  `auto_scale_out_node_number` is refused
whenever it would migrate (`node_number_with_slots < expected`); otherwise it is refused
(invalid name) or the identity. -/
theorem C10_refuse {s : Store} {name : String} {cl : Cluster}
    (hf : s.findCluster name = some cl) (hm : cl.isMigrating = true) :
    (∀ num choice, Refused s (autoAddNodes s name num choice)) ∧
    (∀ expected choice, Refused s (autoScaleUpNodes s name expected choice)) ∧
    Refused s (migrateSlots s name) ∧
    (∀ n, Refused s (migrateSlotsToScaleDown s name n)) ∧
    Refused s (autoDeleteFreeNodes s name) ∧
    (∀ kvs, Refused s (changeConfig s name kvs)) ∧
    (∀ expected choice, Refused s (autoChangeNodeNumber s name expected choice)) ∧
    (∀ expected, (cl.nodeNumWithSlots < expected → Refused s (autoScaleOutNodeNumber s name expected)) ∧
      (Refused s (autoScaleOutNodeNumber s name expected) ∨
        autoScaleOutNodeNumber s name expected = (s, R.ok ()))) :=
  ⟨fun num choice => autoAddNodes_refuse num choice hf hm,
   fun e choice => autoScaleUpNodes_refuse e choice hf hm,
   migrateSlots_refuse hf hm,
   fun n => migrateSlotsToScaleDown_refuse n hf hm,
   autoDeleteFreeNodes_refuse hf hm,
   fun kvs => changeConfig_refuse kvs hf hm,
   fun e choice => autoChangeNodeNumber_refuse e choice hf hm,
   fun e => autoScaleOutNodeNumber_refuse e hf hm⟩

/-- the refusal really is "not always `MIGRATION_RUNNING`": during a scale-out
`migrate_slots_to_scale_down` answers `FREE_NODE_FOUND` -/
theorem C10_refuse_other_code {s : Store} {name : String} {cl : Cluster} (hv : validName name = true)
    (hf : s.findCluster name = some cl)
    (hfree : cl.chunks.any (fun c => c.stable0.isNone || c.stable1.isNone) = true) (n : Nat) :
    migrateSlotsToScaleDown s name n = (s.bump, R.err Err.freeNodeFound) := by
  unfold migrateSlotsToScaleDown
  simp [hv, hf, hfree]

/-! ## release -/

/-- **C10_release**: a successful `auto_delete_free_nodes` removed exactly the free chunks
(both stable halves `None`, both migration lists empty), kept the other chunks in order,
cleared the cluster tag of exactly the removed chunks' proxies and bumped the epoch; a failed
one changed nothing. -/
theorem C10_release (s : Store) (name : String) :
    (∃ s' cl, autoDeleteFreeNodes s name = (s', R.ok ()) ∧ Released s s' name cl ∧
      s'.findCluster name =
        some { cl with chunks := cl.chunks.filter (fun c => !c.isFree), epoch := s.globalEpoch + 1 }) ∨
    (∃ e, autoDeleteFreeNodes s name = (s, R.err e)) := by
  rcases autoDeleteFreeNodes_not_ok (s := s) (name := name) with ⟨s', h⟩ | h
  · obtain ⟨cl, hr⟩ := autoDeleteFreeNodes_ok h
    exact Or.inl ⟨s', cl, h, hr, hr.findCluster⟩
  · exact Or.inr h

/-- the removed chunks are exactly those without any stable, migrating or importing slot -/
theorem C10_release_iff (c : Chunk) :
    c.isFree = true ↔ c.stable0 = none ∧ c.stable1 = none ∧ c.mig0 = [] ∧ c.mig1 = [] :=
  Chunk.isFree_iff c

/-- `commit_migration(clear = true)` releases only through `auto_delete_free_nodes`, after the
commit itself succeeded; if the cluster is still migrating nothing is released -/
theorem C10_release_commit (s : Store) (name : String) (ranges : RangeList) (e : Nat) (tagNone : Bool) :
    (∃ s1, commitMigrationCore s name ranges e tagNone = (s1, R.ok ()) ∧
      ((∃ s' cl, commitMigration s name ranges e tagNone true = (s', R.ok ()) ∧ Released s1 s' name cl) ∨
       (∃ r, commitMigration s name ranges e tagNone true = (s1, r)))) ∨
    commitMigration s name ranges e tagNone true = commitMigrationCore s name ranges e tagNone := by
  rcases commitMigration_clear s name ranges e tagNone with ⟨s1, h1, h2⟩ | ⟨_, h2⟩
  · left
    refine ⟨s1, h1, ?_⟩
    rw [h2]
    rcases autoDeleteFreeNodesIfExists_cases s1 name with ⟨s', cl, h3, h4⟩ | ⟨r, h3⟩
    · exact Or.inl ⟨s', cl, h3, h4⟩
    · exact Or.inr ⟨r, h3⟩
  · exact Or.inr h2

/-- `auto_change_node_number` on an idle cluster: its store is the one after
`auto_delete_free_nodes`, possibly followed by one scale-up or one scale-down planning step -/
theorem C10_release_change {s : Store} {name : String} {cl : Cluster} (expected : Nat)
    (choice : List (String × String)) (hv : validName name = true)
    (hf : s.findCluster name = some cl) (hm : cl.isMigrating = false) :
    (autoChangeNodeNumber s name expected choice).1 = (autoDeleteFreeNodes s name).1 ∨
    (autoChangeNodeNumber s name expected choice).1 =
      (autoScaleUpNodes (autoDeleteFreeNodes s name).1 name expected choice).1 ∨
    (autoChangeNodeNumber s name expected choice).1 =
      (migrateSlotsToScaleDown (autoDeleteFreeNodes s name).1 name expected).1 :=
  autoChangeNodeNumber_decomp expected choice hv hf hm

/-! ## commits -/

/-- `CommitInv` follows from the shared invariant definitions of `BrokerDefs` -/
theorem C10_commitInv_of_invs {c : Cluster} (hp : PosInv c) (ht : TwinInv c) (hs : SlotInv c) : CommitInv c :=
  commitInv_of_invs hp ht hs

/-- **C10_commit_progress**: every stored migrating entry's descriptor is accepted; the new
cluster is `commitRes`: on the decomposition `chunks = A ++ dch :: B` at the destination chunk,
every chunk loses the entry (`strip`), the destination half loses the first importing twin and
its stable list becomes `mergeAnother stable ranges` (or `ranges` if it was `None`) (`land`),
then `compact_slots`; the global epoch is bumped and the cluster epoch set to it -/
theorem C10_commit_progress {s : Store} {name : String} {c : Cluster} (hf : s.findCluster name = some c)
    (hinv : CommitInv c) {m : MigStore} (hm : m ∈ c.migs) (hmig : m.isMigrating = true) :
    ∃ A dch B t, c.chunks = A ++ dch :: B ∧ A.length = m.mm.dstChunk ∧
      t.isMigrating = false ∧ t.ranges = m.ranges ∧ t.mm = m.mm ∧
      ((m.mm.dstPart = 0 ∧ t ∈ dch.mig0) ∨ (m.mm.dstPart = 1 ∧ t ∈ dch.mig1)) ∧
      commitMigrationCore s name m.ranges m.mm.epoch false =
        ((s.setCluster { c with chunks := commitRes m.ranges m.mm A dch B, epoch := s.globalEpoch + 1 }).bump,
          R.ok ()) :=
  commitCore_pending hf hinv hm hmig

/-- what `commitRes` does to the stable lists: the destination half absorbs the ranges, every
other half is only re-compacted -/
theorem C10_commit_stable (ranges : RangeList) (mm : MigMeta) (c : Chunk) :
    (compactChunk (land ranges mm 0 (strip ranges mm c))).stable0 = (absorb c.stable0 ranges).map compact ∧
    (compactChunk (land ranges mm 0 (strip ranges mm c))).stable1 = c.stable1.map compact ∧
    (compactChunk (land ranges mm 1 (strip ranges mm c))).stable1 = (absorb c.stable1 ranges).map compact ∧
    (compactChunk (land ranges mm 1 (strip ranges mm c))).stable0 = c.stable0.map compact ∧
    (compactChunk (strip ranges mm c)).stable0 = c.stable0.map compact ∧
    (compactChunk (strip ranges mm c)).stable1 = c.stable1.map compact := by
  simp [compactChunk, land, strip]

/-- **C10_commit_preserves**: the commit removes exactly the committed entry from the pending
entries (by `TwinInv`, exactly its twin from the importing ones) and keeps `CommitInv` -/
theorem C10_commit_preserves {c : Cluster} (hinv : CommitInv c) {m : MigStore} (hm : m ∈ c.migs)
    (hmig : m.isMigrating = true) {A B : List Chunk} {dch : Chunk} {t : MigStore}
    (hdec : c.chunks = A ++ dch :: B)
    (htm : t.isMigrating = false) (htr : t.ranges = m.ranges) (htmm : t.mm = m.mm)
    (hpart : (m.mm.dstPart = 0 ∧ t ∈ dch.mig0) ∨ (m.mm.dstPart = 1 ∧ t ∈ dch.mig1)) (e : Nat) :
    CommitInv { c with chunks := commitRes m.ranges m.mm A dch B, epoch := e } ∧
    (Cluster.pending c).Perm (m :: Cluster.pending { c with chunks := commitRes m.ranges m.mm A dch B, epoch := e }) :=
  commitRes_inv hinv hm hmig hdec htm htr htmm hpart e

/-- **C10_commit_unknown**: a descriptor whose `(ranges, epoch)` matches no pending migrating
entry gets `MIGRATION_TASK_NOT_FOUND` and changes nothing -/
theorem C10_commit_unknown {s : Store} {name : String} {c : Cluster} (hf : s.findCluster name = some c)
    (ranges : RangeList) (epoch : Nat)
    (hno : ∀ m ∈ c.migs, m.isMigrating = true → ¬ (m.ranges = ranges ∧ m.mm.epoch = epoch)) :
    commitMigrationCore s name ranges epoch false = (s, R.err Err.migrationTaskNotFound) :=
  commitCore_unknown hf ranges epoch hno

/-- **C10_terminates**: any chain of `k` successful `commit_migration` calls (any descriptors,
any order, any `clear` flags) from a cluster with `CommitInv` ends in a cluster with `CommitInv`
and exactly `#pending - k` pending entries; so `k ≤ #pending`, and the cluster has stopped
migrating iff `k = #pending` -/
theorem C10_terminates {name : String} {s s' : Store} {k : Nat} (hch : CommitChain name s k s')
    {c : Cluster} (hf : s.findCluster name = some c) (hinv : CommitInv c) :
    ∃ c', s'.findCluster name = some c' ∧ CommitInv c' ∧ (Cluster.pending c).length = (Cluster.pending c').length + k ∧
      (c'.isMigrating = false ↔ k = (Cluster.pending c).length) := by
  obtain ⟨c', hf', hinv', hcount⟩ := commitChain_count hch hf hinv
  refine ⟨c', hf', hinv', hcount, ?_⟩
  rw [Cluster.isMigrating_eq_false_iff, ← Cluster.pending_nil_iff hinv'.twin]
  constructor
  · intro h; rw [h] at hcount; simpa using hcount.symm
  · intro h
    have : (Cluster.pending c').length = 0 := by omega
    exact List.eq_nil_of_length_eq_zero this

/-- on a stored cluster with a valid name `auto_delete_free_nodes` can fail only with the two
codes that `auto_delete_free_nodes_if_exists` swallows -/
theorem autoDeleteFreeNodes_errs {s : Store} {name : String} {cl : Cluster} (hv : validName name = true)
    (hf : s.findCluster name = some cl) {s' : Store} {e : Err} (h : autoDeleteFreeNodes s name = (s', R.err e)) :
    e = Err.migrationRunning ∨ e = Err.freeNodeNotFound := by
  unfold autoDeleteFreeNodes at h
  simp only [hv, Bool.not_true, Bool.false_eq_true, if_false, hf] at h
  split at h
  · simp only [Prod.mk.injEq, R.err.injEq] at h; exact Or.inl h.2.symm
  · split at h
    · simp only [Prod.mk.injEq, R.err.injEq] at h; exact Or.inr h.2.symm
    · simp only [Prod.mk.injEq] at h; exact absurd h.2 (by simp)

/-- **C10_progress**: a migrating cluster with `CommitInv` has a pending entry, and the
`commit_migration` call for *any* pending entry succeeds (with `clear = true` provided the name is
a valid cluster name, which the API type guarantees) — the chain of `C10_terminates` can always be
extended until nothing is pending -/
theorem C10_progress {s : Store} {name : String} {c : Cluster} (hf : s.findCluster name = some c)
    (hinv : CommitInv c) :
    (c.isMigrating = true → (Cluster.pending c) ≠ []) ∧
    ∀ m ∈ (Cluster.pending c), ∀ clear, (clear = true → validName name = true) →
      ∃ s', commitMigration s name m.ranges m.mm.epoch false clear = (s', R.ok ()) := by
  constructor
  · intro hmig hnil
    have := (Cluster.pending_nil_iff hinv.twin).mp hnil
    rw [← Cluster.isMigrating_eq_false_iff] at this
    rw [this] at hmig; cases hmig
  · intro m hm clear hv
    obtain ⟨hm1, hm2⟩ := List.mem_filter.mp hm
    obtain ⟨A, dch, B, t, _, _, _, _, _, _, hcore⟩ := commitCore_pending (s := s) hf hinv hm1 hm2
    unfold commitMigration
    rw [hcore]
    cases clear with
    | false => exact ⟨_, rfl⟩
    | true =>
      simp only [if_true]
      generalize hc' : ({ c with chunks := commitRes m.ranges m.mm A dch B, epoch := s.globalEpoch + 1 } : Cluster) = c'
      have hf' : ((s.setCluster c').bump).findCluster name = some c' := by
        rw [Store.findCluster_bump]; exact Store.findCluster_setCluster hf (by subst hc'; rfl)
      unfold autoDeleteFreeNodesIfExists
      rcases autoDeleteFreeNodes_not_ok (s := (s.setCluster c').bump) (name := name) with ⟨s3, h3⟩ | ⟨e, h3⟩
      · rw [h3]; exact ⟨s3, rfl⟩
      · rw [h3]
        rcases autoDeleteFreeNodes_errs (hv rfl) hf' h3 with rfl | rfl <;> exact ⟨_, rfl⟩

/-! ## balance -/

/-- **C10_balanced_create**: `add_cluster` (at most `SLOT_NUM` masters) creates a balanced
cluster: `nodeNum / 4` chunks, master `i` of `m = nodeNum / 2` owns `quota m i` slots -/
theorem C10_balanced_create {s s' : Store} {name : String} {nodeNum : Nat} {cfg : Config}
    {choice : List (String × String)} (h : addCluster s name nodeNum cfg choice = (s', R.ok ()))
    (hsz : nodeNum ≤ 2 * SLOT_NUM) :
    ∃ cl, s'.findCluster name = some cl ∧ Balanced cl ∧ cl.chunks.length * 4 = nodeNum ∧
      BalancedShape cl.chunks cl.chunks.length :=
  addCluster_balanced h hsz

/-- **C10_add_nodes_shape**: a successful `auto_add_nodes` appends `num / 4` whole empty chunks
without migration entries and changes nothing else in the cluster but the epoch; hence the
balanced shape `n` is kept (with more trailing slot-less chunks) — the starting point of
`C10_balanced_scale_out` -/
theorem C10_add_nodes_shape {s s' : Store} {name : String} {num : Nat} {choice : List (String × String)}
    {cl : Cluster} (hf : s.findCluster name = some cl) (h : autoAddNodes s name num choice = (s', R.ok ())) :
    ∃ extra, s'.findCluster name = some { cl with chunks := cl.chunks ++ extra, epoch := s.globalEpoch + 1 } ∧
      EmptyChunks extra ∧ NoMigs extra ∧ extra.length * 4 = num ∧
      ∀ n, BalancedShape cl.chunks n → BalancedShape (cl.chunks ++ extra) n := by
  obtain ⟨extra, h1, h2, h3, h4⟩ := autoAddNodes_shape hf h
  exact ⟨extra, h1, h2, h3, h4, fun n hn => balancedShape_append_empty hn h2⟩

/-- the quotas of a balanced cluster differ by at most one and add up to `SLOT_NUM` -/
theorem C10_quota (m : Nat) (hm : 0 < m) :
    (∀ i j, quota m i ≤ quota m j + 1) ∧ sumTo (quota m) m = SLOT_NUM := by
  refine ⟨?_, sum_quota m hm⟩
  intro i j; unfold quota; split <;> split <;> omega

/-- **C10_scale_out_plan** (plan half of `C10_balanced` for scale-out): see
`removeSlotsFromSrc_balanced` -/
theorem C10_scale_out_plan {cl : Cluster} {A B : List Chunk} {n k : Nat} (e : Nat)
    (hch : cl.chunks = A ++ B) (hA : A.length = n) (hB : B.length = k) (hn : 0 < n) (hk : 0 < k)
    (hfull : FullChunks (n * 2) A 0) (hempty : EmptyChunks B) (hM : (n + k) * 2 ≤ SLOT_NUM) :
    ∃ A' out, removeSlotsFromSrc cl e = R.ok (A' ++ B, out) ∧ A'.length = n ∧
      FullChunks ((n + k) * 2) A' 0 ∧ OutPlan n k e out ∧ (NoMigs A → NoMigs A') :=
  removeSlotsFromSrc_balanced e hch hA hB hn hk hfull hempty hM

/-- **C10_scale_down_plan** (plan half of `C10_balanced` for scale-down): see
`removeSlotsToScaleDown_balanced` -/
theorem C10_scale_down_plan {cl : Cluster} {n n' : Nat} (e : Nat)
    (hfull : FullChunks (n * 2) cl.chunks 0) (hlen : cl.chunks.length = n) (h0 : 0 < n') (hlt : n' < n)
    (hM : n * 2 ≤ SLOT_NUM) :
    ∃ out, removeSlotsToScaleDown cl e n' =
        R.ok (cl.chunks.take n' ++ (cl.chunks.drop n').map (fun ch => { ch with stable0 := none, stable1 := none }),
              out) ∧ DownPlan n n' e out :=
  removeSlotsToScaleDown_balanced e hfull hlen h0 hlt hM


/-- `ProjInv` (stable and importing ranges of every half are pairwise disjoint) follows from the
shared invariants -/
theorem C10_projInv_of_invs {c : Cluster} (ht : TwinInv c) (hs : SlotInv c) : ProjInv c :=
  projInv_of_invs ht hs

/-- **C10_balanced_scale_out**: a balanced cluster of `n` chunks (master `i` of `2n` owns
`quota (2n) i` slots) followed by `k > 0` empty chunks, nothing pending, `2(n+k) ≤ SLOT_NUM`.
`migrate_slots` succeeds; and if the cluster it writes satisfies the shared invariants, every
`ScaleChain` with `#pending` successful `commit_migration` calls (any order, any `clear` flags,
failovers interleaved — each failover's result again required to satisfy the shared invariants)
ends in a balanced cluster of `n + k` chunks: master `i` of `2(n+k)` owns `quota (2(n+k)) i` slots. -/
theorem C10_balanced_scale_out {s : Store} {name : String} {cl : Cluster} {A B : List Chunk} {n k : Nat}
    (hv : validName name = true) (hf : s.findCluster name = some cl)
    (hch : cl.chunks = A ++ B) (hA : A.length = n) (hB : B.length = k) (hn : 0 < n) (hk : 0 < k)
    (hfull : FullChunks (n * 2) A 0) (hempty : EmptyChunks B) (hnm : NoMigs cl.chunks)
    (hM : (n + k) * 2 ≤ SLOT_NUM) :
    ∃ c1, migrateSlots s name = (s.bump.setCluster c1, R.ok ()) ∧
      (s.bump.setCluster c1).findCluster name = some c1 ∧ c1.chunks.length = n + k ∧
      (PosInv c1 → TwinInv c1 → SlotInv c1 →
        ∀ s', ScaleChain name (s.bump.setCluster c1) (Cluster.pending c1).length s' →
          ∃ c', s'.findCluster name = some c' ∧ Balanced c' ∧ BalancedShape c'.chunks (n + k)) := by
  obtain ⟨c1, h1, h2, h3, h4⟩ := scaleOut_balanced hv hf hch hA hB hn hk hfull hempty hnm hM
  refine ⟨c1, h1, h2, h3, ?_⟩
  intro hp ht hs s' hchain
  exact scaleChain_to_balanced (by omega) hM (fun _ _ => rfl) hchain h2
    (Or.inl ⟨C10_commitInv_of_invs hp ht hs, h4.withDisj (projInv_of_invs ht hs), rfl⟩)

/-- **C10_balanced_scale_down**: a balanced cluster of `n` chunks, nothing pending, shrinking to
`0 < n' < n` chunks.  `migrate_slots_to_scale_down` succeeds; and if the cluster it writes satisfies
the shared invariants, every `ScaleChain` with `#pending` successful commits (failovers interleaved)
ends in a cluster whose first `n'` chunks are balanced over `2n'` masters and whose remaining chunks
are exactly the slot-less ones (`BalancedShape … n'`; they are gone if a commit cleared them). -/
theorem C10_balanced_scale_down {s : Store} {name : String} {cl : Cluster} {n n' : Nat}
    (hv : validName name = true) (hf : s.findCluster name = some cl)
    (hfull : FullChunks (n * 2) cl.chunks 0) (hlen : cl.chunks.length = n) (hnm : NoMigs cl.chunks)
    (h0 : 0 < n') (hlt : n' < n) (hM : n * 2 ≤ SLOT_NUM) :
    ∃ c1, migrateSlotsToScaleDown s name (n' * 4) = (s.bump.setCluster c1, R.ok ()) ∧
      (s.bump.setCluster c1).findCluster name = some c1 ∧ c1.chunks.length = n ∧
      (PosInv c1 → TwinInv c1 → SlotInv c1 →
        ∀ s', ScaleChain name (s.bump.setCluster c1) (Cluster.pending c1).length s' →
          ∃ c', s'.findCluster name = some c' ∧ Balanced c' ∧ BalancedShape c'.chunks n') := by
  obtain ⟨c1, h1, h2, h3, h4⟩ := scaleDown_balanced hv hf hfull hlen hnm h0 hlt hM
  refine ⟨c1, h1, h2, h3, ?_⟩
  intro hp ht hs s' hchain
  exact scaleChain_to_balanced h0 (by omega) (fun idx hidx => by simp [hidx]) hchain h2
    (Or.inl ⟨C10_commitInv_of_invs hp ht hs, h4.withDisj (projInv_of_invs ht hs), rfl⟩)

/-- pure commit chains (`C10_terminates`) are `ScaleChain`s -/
theorem C10_chain_embeds {name : String} {s s' : Store} {k : Nat} (h : CommitChain name s k s') :
    ScaleChain name s k s' :=
  ScaleChain.of_commitChain h

/-- what `Balanced` / `BalancedShape` say, spelled out by index: the first `N` chunks have both
halves `Some`, master `i < 2N` owns `quota (2N) i` slots, every later chunk has both halves `None` -/
theorem C10_balanced_spelled {chunks : List Chunk} {N : Nat} (h : BalancedShape chunks N) :
    (∀ j ch, chunks[j]? = some ch → j < N → ∃ a b, ch.stable0 = some a ∧ ch.stable1 = some b ∧
      slotsNum a = quota (N * 2) (j * 2) ∧ slotsNum b = quota (N * 2) (j * 2 + 1)) ∧
    (∀ j ch, chunks[j]? = some ch → N ≤ j → ch.stable0 = none ∧ ch.stable1 = none) := by
  obtain ⟨A, B, rfl, hA, hfull, hempty⟩ := h
  constructor
  · intro j ch hj hjN
    rw [List.getElem?_append_left (by omega)] at hj
    obtain ⟨a, b, e0, e1, _, _, c0, c1⟩ := fullChunks_get _ A 0 hfull j ch hj
    exact ⟨a, b, e0, e1, by simpa using c0, by simpa using c1⟩
  · intro j ch hj hjN
    rw [List.getElem?_append_right (by omega)] at hj
    exact hempty ch (List.mem_of_getElem? hj)


/-! ## over all (boundedly) reachable states

`ReachableB s` (C01, `UmProofs/BrokerSlotsPlanJ.lean`): `s` is reached from the empty store by any
operation sequence all of whose intermediate stores keep every cluster at `≤ SLOT_NUM` masters
(`PlanBound`).  C01's `cinv_reachableB` provides `PosInv ∧ TwinInv ∧ SlotInv` there; the
per-cluster invariant `SInv` (profile of a balanced target) is carried by every operation
(`allS_stepFull`: one lemma per `Op` constructor in `UmProofs/BrokerScaleReach*.lean`). -/

/-- **C10_reachable_balanced**: in every boundedly reachable store every cluster that is not
migrating is `Balanced` — chains of resizes from previously resized states, any commit order, any
`clear` flags, failovers / balances / config / epoch operations interleaved, stay balanced at
every quiescent point -/
theorem C10_reachable_balanced {s : Store} (hs : Plan.ReachableB s) {c : Cluster} (hc : c ∈ s.clusters)
    (hidle : c.isMigrating = false) : Balanced c :=
  reachable_balanced hs hc hidle

/-- the same over operation lists: every prefix of the run respects the bound -/
theorem C10_reachable_balanced_run (ops : List Op) (hb : ∀ k, Plan.PlanBound (run (ops.take k)))
    {c : Cluster} (hc : c ∈ (run ops).clusters) (hidle : c.isMigrating = false) : Balanced c :=
  reachable_balanced (reachableB_run ops hb) hc hidle

/-- **C10_reachable_on_track** (companion for migrating states): every cluster of a boundedly
reachable store satisfies `CommitInv` and carries the profile of a balanced target with `N` chunks:
each half's stable count plus the counts being imported into it is its final quota
`quota (2N) idx` (0 beyond `2N`), chunks `≥ N` own nothing and are nobody's destination -/
theorem C10_reachable_on_track {s : Store} (hs : Plan.ReachableB s) {c : Cluster} (hc : c ∈ s.clusters) :
    ∃ N, 0 < N ∧ N * 2 ≤ SLOT_NUM ∧ CommitInv c ∧ Profile (target N) N c := by
  obtain ⟨N, hN, hsz, htr⟩ := reachable_onTrack hs hc
  rcases htr with ⟨h1, h2, _⟩ | ⟨h0, hidle, _, hshape⟩
  · exact ⟨N, hN, hsz, h1, h2⟩
  · obtain ⟨hp, ht, hsl⟩ := Plan.cinv_reachableB s hs c hc
    exact ⟨N, hN, hsz, commitInv_of_invs hp ht hsl,
      (core_of_balanced hshape hidle).withDisj (projInv_of_invs ht hsl)⟩

/-- **C10_reachable_chain_balanced**: from any boundedly reachable store, committing the
`#pending` tasks of a cluster in any order (any `clear` flags, failovers interleaved) reaches a
`Balanced` cluster -/
theorem C10_reachable_chain_balanced {s s' : Store} (hs : Plan.ReachableB s) {c : Cluster} (hc : c ∈ s.clusters)
    (hch : ScaleChain c.name s (Cluster.pending c).length s') :
    ∃ c' N, s'.findCluster c.name = some c' ∧ 0 < N ∧ Balanced c' ∧ BalancedShape c'.chunks N :=
  reachable_chain_balanced hs hc hch

/-- for C12: the size hypothesis of the planners holds on all boundedly reachable states -/
theorem C10_reachable_migPre {s : Store} (hs : Plan.ReachableB s) {c : Cluster} (hc : c ∈ s.clusters) : MigPre c :=
  reachable_migPre hs hc

/-- for C12: every kept master owns at most its final share, for every scale-down target up to the
balanced size `N` of the cluster -/
theorem C10_reachable_downPre {s : Store} (hs : Plan.ReachableB s) {c : Cluster} (hc : c ∈ s.clusters) :
    ∃ N, 0 < N ∧ N ≤ c.chunks.length ∧ (c.isMigrating = false → BalancedShape c.chunks N) ∧
      ∀ k, k ≤ N → DownPre c k :=
  reachable_downPre hs hc

/-- for C12: `DownPre` holds whenever `migrate_slots_to_scale_down` reaches its planner -/
theorem C10_reachable_downPre_planner {s : Store} (hs : Plan.ReachableB s) {c : Cluster} (hc : c ∈ s.clusters)
    (hany : c.chunks.any (fun ch => ch.stable0.isNone || ch.stable1.isNone) = false)
    (hidle : c.isMigrating = false) {k : Nat} (hk : k < c.chunks.length) : DownPre c k :=
  reachable_downPre_planner hs hc hany hidle hk

/-- **C10_planner_no_panic**: on every boundedly reachable store `migrate_slots`,
`auto_scale_out_node_number`, `migrate_slots_to_scale_down` and `auto_change_node_number` never
panic (no `need_num` underflow, no empty range list, no missing `dst_existing_slots_num`, no index
`expect` in `assign_dst_slots`, loop fuel suffices) — the hypothesis `PlannerPre` of C12's
`C12_no_panic_planner_partial` is discharged on these states -/
theorem C10_planner_no_panic {s : Store} (hs : Plan.ReachableB s) :
    (∀ n, (stepFull s (.migrate n)).2 ≠ .panic) ∧
    (∀ n k, (stepFull s (.scaleOutNum n k)).2 ≠ .panic) ∧
    (∀ n k, (stepFull s (.scaleDown n k)).2 ≠ .panic) ∧
    (∀ n k c, (stepFull s (.changeNum n k c)).2 ≠ .panic) :=
  planner_noPanicB hs

/-! ## non-vacuity witnesses -/

def exMM : MigMeta := { epoch := 5, srcChunk := 0, srcPart := 0, dstChunk := 1, dstPart := 0 }
def exM : MigStore := { ranges := [(8000, 8191)], isMigrating := true, mm := exMM }
def exT : MigStore := { ranges := [(8000, 8191)], isMigrating := false, mm := exMM }

def exChunk (s0 s1 : Option RangeList) (m0 : List MigStore) (p0 p1 : String) : Chunk :=
  { role := .normal, stable0 := s0, stable1 := s1, mig0 := m0, mig1 := [], proxy0 := p0, proxy1 := p1,
    host0 := "h0", host1 := "h1", node0 := "", node1 := "", node2 := "", node3 := "" }

/-- a cluster in the middle of a scale-out: chunk 0 → chunk 1 -/
def exMig : Cluster :=
  { epoch := 5, name := "c", config := defaultConfig,
    chunks := [exChunk (some [(0, 7999)]) (some [(8192, 16383)]) [exM] "a:1" "b:1",
               exChunk none none [exT] "c:1" "d:1"] }

/-- an idle cluster with a free trailing chunk -/
def exIdle : Cluster :=
  { epoch := 5, name := "c", config := defaultConfig,
    chunks := [exChunk (some [(0, 8191)]) (some [(8192, 16383)]) [] "a:1" "b:1",
               exChunk none none [] "c:1" "d:1"] }

def exStore (c : Cluster) : Store := { Store.init with globalEpoch := 5, clusters := [c] }

example : (exStore exMig).findCluster "c" = some exMig ∧ exMig.isMigrating = true := ⟨rfl, rfl⟩

example : ∃ s', autoDeleteFreeNodes (exStore exIdle) "c" = (s', R.ok ()) := ⟨_, rfl⟩

theorem witness_commitInv : CommitInv exMig := by
  refine ⟨?_, ⟨?_, ?_⟩, ?_⟩
  · intro i ch h
    match i with
    | 0 => simp [exMig] at h; subst h; simp [exChunk, Chunk.migs, exM, exMM, exMig]
    | 1 => simp [exMig] at h; subst h; simp [exChunk, Chunk.migs, exT, exMM, exMig]
    | i + 2 => simp [exMig] at h
  · exact List.Perm.refl _
  · decide
  · intro m hm
    have : m = exM ∨ m = exT := by simpa [exMig, Cluster.migs, Chunk.migs, exChunk] using hm
    rcases this with rfl | rfl <;> exact Scale.compact_of_normal (show (8000 : Nat) ≤ 8191 by decide)

example : ∃ s', CommitChain "c" (exStore exMig) 1 s' := by
  have hm : exM ∈ (Cluster.pending exMig) := by decide
  obtain ⟨s', h⟩ := (C10_progress (s := exStore exMig) (name := "c") rfl witness_commitInv).2 exM hm false (by simp)
  exact ⟨s', CommitChain.cons _ _ _ h (CommitChain.nil _)⟩

example : ¬ (∀ m ∈ exMig.migs, m.isMigrating = true → ¬ (m.ranges = [(8000, 8191)] ∧ m.mm.epoch = 5)) := by
  intro h; exact h exM (by decide) rfl ⟨rfl, rfl⟩

/-- balanced single chunk, and the same followed by one empty chunk -/
example : FullChunks (1 * 2) exIdle.chunks.dropLast 0 ∧ EmptyChunks [exChunk none none [] "c:1" "d:1"] := by
  refine ⟨⟨⟨[(0, 8191)], [(8192, 16383)], rfl, rfl, ?_, ?_, by decide, by decide⟩, trivial⟩, ?_⟩
  · exact ⟨by simp, by simp⟩
  · exact ⟨by simp, by simp⟩
  · intro ch hch; simp at hch; subst hch; exact ⟨rfl, rfl⟩

example : ∃ A' out, removeSlotsFromSrc exIdle 6 = R.ok (A' ++ [exChunk none none [] "c:1" "d:1"], out) ∧
    A'.length = 1 ∧ FullChunks ((1 + 1) * 2) A' 0 ∧ OutPlan 1 1 6 out ∧
    (NoMigs exIdle.chunks.dropLast → NoMigs A') := by
  apply C10_scale_out_plan 6 (A := exIdle.chunks.dropLast) (B := [exChunk none none [] "c:1" "d:1"])
    rfl rfl rfl (by decide) (by decide)
  · refine ⟨⟨[(0, 8191)], [(8192, 16383)], rfl, rfl, ⟨by simp, by simp⟩, ⟨by simp, by simp⟩, by decide, by decide⟩, trivial⟩
  · intro ch hch; simp at hch; subst hch; exact ⟨rfl, rfl⟩
  · decide

/-- two balanced chunks shrinking to one -/
def exTwo : Cluster :=
  { epoch := 5, name := "c", config := defaultConfig,
    chunks := [exChunk (some [(0, 4095)]) (some [(4096, 8191)]) [] "a:1" "b:1",
               exChunk (some [(8192, 12287)]) (some [(12288, 16383)]) [] "c:1" "d:1"] }

example : ∃ out, removeSlotsToScaleDown exTwo 6 1 =
    R.ok (exTwo.chunks.take 1 ++ (exTwo.chunks.drop 1).map (fun ch => { ch with stable0 := none, stable1 := none }), out) ∧
    DownPlan 2 1 6 out := by
  apply C10_scale_down_plan (n := 2) 6 _ rfl (by decide) (by decide) (by decide)
  refine ⟨⟨[(0, 4095)], [(4096, 8191)], rfl, rfl, ⟨by simp, by simp⟩, ⟨by simp, by simp⟩, by decide, by decide⟩,
    ⟨[(8192, 12287)], [(12288, 16383)], rfl, rfl, ⟨by simp, by simp⟩, ⟨by simp, by simp⟩, by decide, by decide⟩, trivial⟩


example : ∃ c1, migrateSlots (exStore exIdle) "c" = ((exStore exIdle).bump.setCluster c1, R.ok ()) ∧
    ((exStore exIdle).bump.setCluster c1).findCluster "c" = some c1 ∧ c1.chunks.length = 1 + 1 ∧
    (PosInv c1 → TwinInv c1 → SlotInv c1 →
      ∀ s', ScaleChain "c" ((exStore exIdle).bump.setCluster c1) (Cluster.pending c1).length s' →
        ∃ c', s'.findCluster "c" = some c' ∧ Balanced c' ∧ BalancedShape c'.chunks (1 + 1)) := by
  apply C10_balanced_scale_out (A := exIdle.chunks.dropLast) (B := [exChunk none none [] "c:1" "d:1"])
    (by decide) rfl rfl rfl rfl (by decide) (by decide)
  · refine ⟨⟨[(0, 8191)], [(8192, 16383)], rfl, rfl, ⟨by simp, by simp⟩, ⟨by simp, by simp⟩, by decide, by decide⟩, trivial⟩
  · intro ch hch; simp at hch; subst hch; exact ⟨rfl, rfl⟩
  · intro ch hch
    have : ch = exChunk (some [(0, 8191)]) (some [(8192, 16383)]) [] "a:1" "b:1" ∨ ch = exChunk none none [] "c:1" "d:1" := by
      simpa [exIdle] using hch
    rcases this with rfl | rfl <;> exact ⟨rfl, rfl⟩
  · decide

example : ∃ c1, migrateSlotsToScaleDown (exStore exTwo) "c" (1 * 4) = ((exStore exTwo).bump.setCluster c1, R.ok ()) ∧
    ((exStore exTwo).bump.setCluster c1).findCluster "c" = some c1 ∧ c1.chunks.length = 2 ∧
    (PosInv c1 → TwinInv c1 → SlotInv c1 →
      ∀ s', ScaleChain "c" ((exStore exTwo).bump.setCluster c1) (Cluster.pending c1).length s' →
        ∃ c', s'.findCluster "c" = some c' ∧ Balanced c' ∧ BalancedShape c'.chunks 1) := by
  apply C10_balanced_scale_down (n := 2) (by decide) rfl _ rfl _ (by decide) (by decide) (by decide)
  · refine ⟨⟨[(0, 4095)], [(4096, 8191)], rfl, rfl, ⟨by simp, by simp⟩, ⟨by simp, by simp⟩, by decide, by decide⟩,
      ⟨[(8192, 12287)], [(12288, 16383)], rfl, rfl, ⟨by simp, by simp⟩, ⟨by simp, by simp⟩, by decide, by decide⟩, trivial⟩
  · intro ch hch
    have : ch = exChunk (some [(0, 4095)]) (some [(4096, 8191)]) [] "a:1" "b:1" ∨
        ch = exChunk (some [(8192, 12287)]) (some [(12288, 16383)]) [] "c:1" "d:1" := by
      simpa [exTwo] using hch
    rcases this with rfl | rfl <;> exact ⟨rfl, rfl⟩

/-- the shared invariants are satisfiable by a cluster with pending tasks (the scale-out witness) -/
example : PosInv exMig ∧ TwinInv exMig := ⟨witness_commitInv.pos, witness_commitInv.twin⟩

/-- a bounded run that creates a cluster -/
def exOps : List Op :=
  [.addProxy "p0:1" "n0" "n1" (some "h0") none, .addProxy "p1:1" "n2" "n3" (some "h1") none,
   .addCluster "c" 4 [("p0:1", "p1:1")]]

theorem witness_exOps_bound : ∀ k, Plan.PlanBound (run (exOps.take k)) := by
  intro k
  match k with
  | 0 => unfold Plan.PlanBound; decide
  | 1 => unfold Plan.PlanBound; decide
  | 2 => unfold Plan.PlanBound; decide
  | k + 3 =>
    have : exOps.take (k + 3) = exOps := by simp [exOps]
    rw [this]; unfold Plan.PlanBound; decide

example : ∃ c ∈ (run exOps).clusters, c.isMigrating = false ∧ Balanced c := by
  have hne : (run exOps).clusters ≠ [] := by decide
  obtain ⟨c, hc⟩ := List.exists_mem_of_ne_nil _ hne
  have hidle : ∀ c ∈ (run exOps).clusters, c.isMigrating = false := by decide
  exact ⟨c, hc, hidle c hc, C10_reachable_balanced_run exOps witness_exOps_bound hc (hidle c hc)⟩

example : ∃ c ∈ (run exOps).clusters, MigPre c ∧ ∃ N, 0 < N ∧ ∀ k, k ≤ N → DownPre c k := by
  have hne : (run exOps).clusters ≠ [] := by decide
  obtain ⟨c, hc⟩ := List.exists_mem_of_ne_nil _ hne
  have hs := reachableB_run exOps witness_exOps_bound
  obtain ⟨N, hN, _, _, hd⟩ := C10_reachable_downPre hs hc
  exact ⟨c, hc, C10_reachable_migPre hs hc, N, hN, hd⟩

/-! ## ordered-proxy mode

`ReachableB` / `run` contain the histories of a broker started with `enable_ordered_proxy = true`
(they start with `Op.setOrdered`); the scaling theorems hold for them verbatim (the planner and
`commit_migration` do not read the mode; allocation is by proxy index). -/

/-- an ordered-mode run: cluster on the proxies with indices 0,1 (same host), scale-out onto 2,3 -/
def ordOps : List Op :=
  [.setOrdered,
   .addProxy "p0:1" "n0" "n1" (some "h0") (some 0), .addProxy "p1:1" "n2" "n3" (some "h0") (some 1),
   .addProxy "p2:1" "n4" "n5" (some "h0") (some 2), .addProxy "p3:1" "n6" "n7" (some "h0") (some 3),
   .addCluster "c" 4 [("p0:1", "p1:1")], .addNodes "c" 4 [("p2:1", "p3:1")]]

theorem witness_ordOps_bound : ∀ k, Plan.PlanBound (run (ordOps.take k)) := by
  have hsmall : ∀ k, k < 8 → ∀ c ∈ (run (ordOps.take k)).clusters, c.chunks.length * 2 ≤ SLOT_NUM := by
    decide +kernel
  intro k
  by_cases hk : k < 8
  · exact hsmall k hk
  · have : ordOps.take k = ordOps.take 7 := by
      rw [List.take_of_length_le (by simp [ordOps]; omega), List.take_of_length_le (by simp [ordOps])]
    rw [this]; exact hsmall 7 (by omega)

example : (run ordOps).ordered = true ∧ (run ordOps).clusters.map (·.chunks.length) = [2] := by decide +kernel

example : ∃ c ∈ (run ordOps).clusters, c.isMigrating = false ∧ Balanced c := by
  have hne : (run ordOps).clusters ≠ [] := by decide +kernel
  obtain ⟨c, hc⟩ := List.exists_mem_of_ne_nil _ hne
  have hidle : ∀ c ∈ (run ordOps).clusters, c.isMigrating = false := by decide +kernel
  exact ⟨c, hc, hidle c hc, C10_reachable_balanced_run ordOps witness_ordOps_bound hc (hidle c hc)⟩

end Um.Broker.C10
