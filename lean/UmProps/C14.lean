import UmProofs.NodesExample
import UmProofs.NodesHist
/-!
# C14 — CLUSTER NODES and CLUSTER SLOTS advertise each slot once and agree with routing

Model: `UmModel/ClusterNodes.lean` (`should_ignore_slots` read off the generated truth table
`UmGen/NodesTable.lean`, `gen_cluster_nodes_helper` for both format versions, `gen_cluster_slots_helper`,
`gen_node_id` with a bit-serial CRC-64/Jones, `get_states`, and the parsers `parseNodes` / `parseSlots`).

Vocabulary (defined in `UmProofs/Nodes*.lean`):
* `View` — what `ClusterBackendMap::from_cluster_map` keeps of an installed `ProxyClusterMeta` plus the proxy's
  announce address; local and peer node maps are lists in the (arbitrary) visiting order of the `HashMap`s.
* `States = RangeL → Option MigState` — the phase map of `MigrationMap::get_states`, keyed by range list.
  Every theorem quantifies over **all** phase maps.
* `triples vw` — every range of every `SlotRange` of the view with the address it is advertised under
  (the announce address for local nodes, the proxy address for peers); `owns s t` / `imports s t`:
  `t` covers slot `s` and is stable-or-migrating / importing.
* `Partition vw` — the partition property (C01 of the broker's views): every slot is covered by exactly one
  range of a stable-or-migrating `SlotRange`; importing ranges mirror migrating ones (same range list, each
  migrating slot covered by exactly one importing range, nothing else imported).
* `WfView` / `ColonView` — rendered numbers are machine integers; cluster name and addresses contain no
  blank / newline / `@`; every address is `host:port` with exactly one `:`.
* `nodesOwners ns s` / `slotsOwners es s` — the addresses listing slot `s` in the parsed replies, **one list
  element per listing token / entry** (so `= [a]` says "listed exactly once, under `a`").
-/
namespace Um.C14
open Um Um.Route Um.RouteCmd Um.Crc16 Um.Nodes

/-! ## the generated truth table -/

/-- **`should_ignore_slots`** (closed form of the table generated from src/proxy/cluster.rs): a migrating
range is hidden unless the state found under its range list is `PreCheck`; an importing range is hidden
iff that state is `PreCheck`; a stable range is never hidden. -/
theorem C14_should_ignore (st : Option MigState) :
    shouldIgnore .none st = false ∧
    shouldIgnore .migrating st = (st != some .preCheck) ∧
    shouldIgnore .importing st = (st == some .preCheck) :=
  ⟨shouldIgnore_none st, shouldIgnore_migrating st, shouldIgnore_importing st⟩

example : shouldIgnore .migrating none = true ∧ shouldIgnore .importing none = false := by decide
example : shouldIgnore .migrating (some .preCheck) = false ∧ shouldIgnore .importing (some .scanning) = false := by decide

/-- `get_states` keeps the last task inserted under a range list -/
theorem C14_getStates_last (tasks : List (RangeL × MigState)) (rl : RangeL) (st : MigState) :
    getStates (tasks ++ [(rl, st)]) rl = some st := by
  simp [getStates]

/-- `gen_node_id`: always 40 bytes (24 of the padded / truncated cluster name, 16 of the padded hash) -/
theorem C14_node_id_len (name : String) (addr : Addr) : (genNodeId name addr).length = 40 := by
  have h : ∀ (w : Nat) (pad : UInt8) (s : Bytes), (padTrunc w pad s).length = w := by
    intro w pad s
    simp only [padTrunc, List.length_take, List.length_append, List.length_replicate]
    omega
  simp only [genNodeId, List.length_append, h]
  decide

set_option maxRecDepth 8192 in
example : (crc64 [49, 50, 51, 52, 53, 54, 55, 56, 57]).toNat = 0xe9c6d914c4b8d9ca := by decide +kernel  -- check value

/-! ## parse ∘ gen -/

/-- **parse ∘ gen** (no partition assumed; both format versions; every phase map): both replies parse, and
for every slot the addresses listing it — with multiplicity — are the same in NODES and in SLOTS, namely
`advList`: one entry per range of a `SlotRange` that `should_ignore_slots` lets through. In particular
**clause (2)**: the slot→address maps parsed back from the two outputs are equal. -/
theorem C14_parse_gen (vw : View) (states : States) (v : Version) (hw : WfView vw) (hc : ColonView vw) :
    ∃ ns es, parseNodes (genClusterNodes vw states v) = some ns ∧
      parseSlots (genClusterSlots vw states) = some es ∧
      (∀ s, nodesOwners ns s = (advList vw states s).map bs) ∧
      (∀ s, slotsOwners es s = (advList vw states s).map bs) ∧
      (∀ s, nodesOwners ns s = slotsOwners es s) := by
  obtain ⟨es, hes, hso⟩ := parseSlots_gen vw states hw hc
  refine ⟨expNodes vw states, es, parseNodes_gen vw states v hw, hes, ?_, hso, ?_⟩
  · exact fun s => nodesOwners_expNodes vw states s
  · intro s; rw [nodesOwners_expNodes, hso]

/-- the NODES reply has one line per peer plus the `myself` line, each with the node id of its address -/
theorem C14_nodes_lines (vw : View) (states : States) (v : Version) (hw : WfView vw) :
    ∃ ns, parseNodes (genClusterNodes vw states v) = some ns ∧ ns.length = vw.peer.length + 1 ∧
      ns.map (·.addr) = bs vw.me :: vw.peer.map (fun n => bs n.1) ∧
      ns.map (·.flags) = Um.Gen.Nodes.flagsLocal :: vw.peer.map (fun _ => Um.Gen.Nodes.flagsPeer) ∧
      ∀ n ∈ ns, n.epoch = vw.epoch := by
  refine ⟨expNodes vw states, parseNodes_gen vw states v hw, ?_, ?_, ?_, ?_⟩
  · simp [expNodes]
  · simp [expNodes, expNode, Function.comp_def]
  · simp [expNodes, expNode, lineFlags, Function.comp_def]
  · intro n hn
    simp only [expNodes, List.mem_cons, List.mem_map] at hn
    rcases hn with rfl | ⟨m, _, rfl⟩ <;> rfl

/-! ## the property -/

/-- **C14** — for every installed view with the partition property, every phase map
`RangeList → MigrationState`, both NODES format versions, every slot `s < 16384`:

1. `s` is listed by exactly one token of exactly one line of `CLUSTER NODES` and by exactly one entry of
   `CLUSTER SLOTS`;
2. under the same address in both (and the two replies agree on *every* slot, with multiplicity);
3. if `s` is not under migration (its owner `o` is a stable range) it is advertised at the owner's address,
   the proxy executes a command for `s` locally iff that address is its own, and otherwise answers
   `MOVED s <that address>` (with active redirection: forwards to that address);
4. if `s` is under migration from the holder of the migrating range `o` to the holder of the importing
   range `u`: it is advertised at the source `o` when the state found under the range list is `PreCheck`,
   at the destination `u` in every other case — in particular in every later state of a local task, and on
   a bystander (neither range is local), which has no state for the range list. -/
theorem C14_advertise (cfg : RouteCfg) (rt : Option Nat) (vw : View) (states : States) (v : Version)
    (hw : WfView vw) (hc : ColonView vw) (hname : vw.name ≠ "") (hself : ∀ n ∈ vw.peer, n.1 ≠ vw.me)
    (hp : Partition vw) :
    ∃ ns es, parseNodes (genClusterNodes vw states v) = some ns ∧
      parseSlots (genClusterSlots vw states) = some es ∧
      (∀ s, nodesOwners ns s = slotsOwners es s) ∧
      ∀ s, s < SLOT_NUM →
        (∃ a, nodesOwners ns s = [bs a] ∧ slotsOwners es s = [bs a]) ∧
        (∀ o ∈ triples vw, owns s o = true → o.2.1.tag = .none →
          nodesOwners ns s = [bs o.1] ∧
          (o.1 = vw.me → ∃ n, routeSlot cfg (vw.clusterMap cfg) rt (some s) = .exec n ∧ n ∈ vw.loc.map (·.1)) ∧
          (o.1 ≠ vw.me →
            (routeSlot cfg (vw.clusterMap cfg) rt (some s) =
              if cfg.activeRedirection then sendRemoteDirectly cfg (vw.clusterMap cfg) rt s o.1 else .moved s o.1) ∧
            ∀ n, routeSlot cfg (vw.clusterMap cfg) rt (some s) ≠ .exec n)) ∧
        (∀ o ∈ triples vw, owns s o = true → o.2.1.tag = .migrating → ∀ u ∈ triples vw, imports s u = true →
          (states o.2.1.ranges = some .preCheck → nodesOwners ns s = [bs o.1]) ∧
          (states o.2.1.ranges ≠ some .preCheck → nodesOwners ns s = [bs u.1]) ∧
          (StatesOfLocalTasks vw states → o.1 ≠ vw.me → u.1 ≠ vw.me → nodesOwners ns s = [bs u.1])) := by
  obtain ⟨ns, es, hns, hes, hno, hso, heq⟩ := C14_parse_gen vw states v hw hc
  refine ⟨ns, es, hns, hes, heq, ?_⟩
  intro s hs
  refine ⟨?_, ?_, ?_⟩
  · -- (1) exactly once
    obtain ⟨o, ho, hown⟩ := owner_exists hp hs
    have hadv : ∃ a, advList vw states s = [a] := by
      cases htag : o.2.1.tag with
      | none => exact ⟨o.1, advList_stable hp states hs ho hown htag⟩
      | importing =>
        simp only [owns, htag, Bool.and_eq_true] at hown
        exact absurd hown.1 (by decide)
      | migrating =>
        by_cases hst : states o.2.1.ranges = some .preCheck
        · exact ⟨o.1, advList_migrating_pre hp states hs ho hown htag hst⟩
        · obtain ⟨u, hu, hi⟩ := importer_exists hp hs ho hown htag
          exact ⟨u.1, advList_migrating_post hp states hs ho hown htag hu hi hst⟩
    obtain ⟨a, ha⟩ := hadv
    exact ⟨a, by rw [hno, ha]; rfl, by rw [hso, ha]; rfl⟩
  · -- (3) stable slots and routing
    intro o ho hown hst
    refine ⟨by rw [hno, advList_stable hp states hs ho hown hst]; rfl, ?_, ?_⟩
    · exact fun hme => route_stable_local hs cfg rt hname hself ho hown hme
    · intro hme
      have hr := route_stable_peer hp hs cfg rt hname ho hown hst hme
      refine ⟨hr, ?_⟩
      intro n hn
      rw [hr] at hn
      by_cases har : cfg.activeRedirection = true
      · rw [if_pos har] at hn
        exact sendRemoteDirectly_ne_exec _ _ _ _ _ _ hn
      · rw [if_neg har] at hn
        cases hn
  · -- (4) migrating slots
    intro o ho hown hmig u hu hi
    refine ⟨?_, ?_, ?_⟩
    · intro hst
      rw [hno, advList_migrating_pre hp states hs ho hown hmig hst]; rfl
    · intro hst
      rw [hno, advList_migrating_post hp states hs ho hown hmig hu hi hst]; rfl
    · intro hloc hos hus
      have hnone := bystander_no_state hp hs states hloc ho hown hmig hu hi hos hus
      rw [hno, advList_migrating_post hp states hs ho hown hmig hu hi (by rw [hnone]; simp)]; rfl

/-- **clause (3) as an iff**: for a slot that is not under migration, the proxy advertises itself iff
`routeSlot` executes the command on one of its own nodes -/
theorem C14_self_iff_exec (cfg : RouteCfg) (rt : Option Nat) (vw : View) (hname : vw.name ≠ "")
    (hself : ∀ n ∈ vw.peer, n.1 ≠ vw.me) (hp : Partition vw) (s : Nat) (hs : s < SLOT_NUM)
    (o : Triple) (ho : o ∈ triples vw) (hown : owns s o = true) (hst : o.2.1.tag = .none) (states : States) :
    advList vw states s = [o.1] ∧
    (o.1 = vw.me ↔ ∃ n, routeSlot cfg (vw.clusterMap cfg) rt (some s) = .exec n) := by
  refine ⟨advList_stable hp states hs ho hown hst, ?_, ?_⟩
  · intro hme
    obtain ⟨n, hn, _⟩ := route_stable_local hs cfg rt hname hself ho hown hme
    exact ⟨n, hn⟩
  · rintro ⟨n, hn⟩
    by_cases hme : o.1 = vw.me
    · exact hme
    · exfalso
      rw [route_stable_peer hp hs cfg rt hname ho hown hst hme] at hn
      by_cases har : cfg.activeRedirection = true
      · rw [if_pos har] at hn
        exact sendRemoteDirectly_ne_exec _ _ _ _ _ _ hn
      · rw [if_neg har] at hn
        cases hn

/-! ## long-lived proxies: install histories on the same `MetaManager` -/

/-- **what the two commands read after an accepted `set_meta`** (`Hist.setMeta` = C02's `setMeta` + the view):
the view is the one of the last accepted metadata alone, the set of task keys is the one of a fresh install
of that metadata (C02 `setMeta_last_only`), and the replies are generated from that view and the phase map of
those tasks — nothing else of the history survives. -/
theorem C14_history_last_only (h0 h1 : Hist) (m : Um.E2E.EMeta) (hs : h0.setMeta m = (h1, .ok)) (v : Version) :
    h1.vw = viewOf h0.vw.me m ∧
    (h1.p.tasks.map (·.key)).Perm ((Um.E2E.installFresh h0.p.cfg m).tasks.map (·.key)) ∧
    h1.nodes v = genClusterNodes (viewOf h0.vw.me m) (statesOf h1.p) v ∧
    h1.slots = genClusterSlots (viewOf h0.vw.me m) (statesOf h1.p) := by
  unfold Hist.setMeta at hs
  cases hsm : Um.E2E.setMeta h0.p m with
  | mk p' r =>
    rw [hsm] at hs
    cases r with
    | ok =>
      simp only [Prod.mk.injEq, and_true] at hs
      subst hs
      exact ⟨rfl, (Um.E2E.setMeta_last_only h0.p m p' hsm).2.2.2.2.2.1, rfl, rfl⟩
    | oldEpoch => simp at hs
    | notMyMeta => simp at hs

/-- **the task map after an accepted `set_meta`** (`update_from_old_task_map`): every tagged local range of the
new metadata has a task — the old one with its phase when its `MigrationTaskMeta` is unchanged, a fresh one in
`PreCheck` otherwise —, the phase map has no other key, and a range list that no other tagged local range
shares is looked up to the phase of its own task. -/
theorem C14_install_history (p0 p : Um.E2E.ProxyState) (m : Um.E2E.EMeta) (me : Addr)
    (h : Um.E2E.setMeta p0 m = (p, .ok)) :
    StatesOfLocalTasks (viewOf me m) (statesOf p) ∧
    ∀ n ∈ m.loc, ∀ s ∈ n.2, Um.E2E.SlotRange.tagged s = true →
      (∃ t ∈ p.tasks, t.key = ⟨m.cluster, s⟩ ∧
        (t ∈ p0.tasks ∨ (t.state = .preCheck ∧ ∀ o ∈ p0.tasks, o.key ≠ t.key))) ∧
      ((∀ n' ∈ m.loc, ∀ s' ∈ n'.2, Um.E2E.SlotRange.tagged s' = true → s'.ranges = s.ranges → s' = s) →
        ∃ t ∈ p.tasks, t.key = ⟨m.cluster, s⟩ ∧ statesOf p s.ranges = some (stateOf t.state) ∧
          (t ∈ p0.tasks ∨ (t.state = .preCheck ∧ ∀ o ∈ p0.tasks, o.key ≠ t.key))) :=
  ⟨statesOfLocalTasks_installed h me,
    fun _ hn _ hs htag => ⟨installed_has_task h hn hs htag, fun hu => statesOf_installed h hn hs htag hu⟩⟩

/-- **a migration that an install newly exposes is advertised at its source** ("before the switch handshake"),
whatever was installed before: on a long-lived proxy that accepts metadata `m` with the partition property, a
tagged local range `s` (migrating: the proxy is the source; importing: it is the destination) that had no task
before this install and whose range list no other tagged local range shares is found in `PreCheck`, so every
slot of that migration is listed exactly once in NODES and in SLOTS, at the holder `o` of the migrating range. -/
theorem C14_new_migration_at_source (p0 p : Um.E2E.ProxyState) (m : Um.E2E.EMeta) (me : Addr) (v : Version)
    (h : Um.E2E.setMeta p0 m = (p, .ok))
    (hw : WfView (viewOf me m)) (hc : ColonView (viewOf me m)) (hp : Partition (viewOf me m))
    (n : String × List Um.Broker.SlotRange) (hn : n ∈ m.loc) (s : Um.Broker.SlotRange) (hs : s ∈ n.2)
    (htag : Um.E2E.SlotRange.tagged s = true)
    (hnew : ∀ o ∈ p0.tasks, o.key ≠ ⟨m.cluster, s⟩)
    (huniq : ∀ n' ∈ m.loc, ∀ s' ∈ n'.2, Um.E2E.SlotRange.tagged s' = true → s'.ranges = s.ranges → s' = s)
    (sl : Nat) (hsl : sl < SLOT_NUM) (o : Triple) (ho : o ∈ triples (viewOf me m)) (hown : owns sl o = true)
    (hmig : o.2.1.tag = .migrating) (hrl : o.2.1.ranges = s.ranges) :
    statesOf p s.ranges = some .preCheck ∧
    ∃ ns es, parseNodes (genClusterNodes (viewOf me m) (statesOf p) v) = some ns ∧
      parseSlots (genClusterSlots (viewOf me m) (statesOf p)) = some es ∧
      nodesOwners ns sl = [bs o.1] ∧ slotsOwners es sl = [bs o.1] := by
  obtain ⟨t, ht, hkey, hst, hkept⟩ := statesOf_installed h hn hs htag huniq
  have hpre : statesOf p s.ranges = some .preCheck := by
    rcases hkept with hin | ⟨hpc, _⟩
    · exact absurd hkey (hnew t hin)
    · rw [hst, hpc]; rfl
  refine ⟨hpre, ?_⟩
  obtain ⟨ns, es, hns, hes, hno, hso, _⟩ := C14_parse_gen (viewOf me m) (statesOf p) v hw hc
  have hadv := advList_migrating_pre hp (statesOf p) hsl ho hown hmig (by rw [hrl]; exact hpre)
  exact ⟨ns, es, hns, hes, by rw [hno, hadv]; rfl, by rw [hso, hadv]; rfl⟩

/-- **a switch command with a foreign meta is refused and leaves the advert unchanged**: `UMCTL PRECHECK /
PRESWITCH / FINALSWITCH` is accepted only under the exact `MigrationTaskMeta` (cluster, range list, migration epoch,
the four addresses) of an installed task; a command whose importing-tagged meta is not a key of the task map — a late
command of a replaced migration over the same range, another epoch, another address, a shifted range — is not
answered OK, and every command that is not answered OK leaves the proxy state, hence CLUSTER NODES and CLUSTER SLOTS,
exactly as they were. -/
theorem C14_stray_switch (h : Hist) (key : Um.E2E.TaskKey) (sub : Um.E2E.MgrSub) (v : Version) :
    ((∀ k', importingKey key = some k' → ∀ t ∈ h.p.tasks, t.key ≠ k') → (h.switch key sub).2 ≠ .ok) ∧
    ((h.switch key sub).2 ≠ .ok →
      (h.switch key sub).1 = h ∧ (h.switch key sub).1.nodes v = h.nodes v ∧ (h.switch key sub).1.slots = h.slots) := by
  refine ⟨fun hk => handleSwitch_foreign h.p key sub hk, fun hr => ?_⟩
  have hp : (Um.E2E.handleSwitch h.p key sub).1 = h.p := handleSwitch_refused h.p key sub hr
  have : (h.switch key sub).1 = h := by
    unfold Hist.switch
    simp only [hp]
  rw [this]
  exact ⟨rfl, rfl, rfl⟩

/-- **timers alone never move a range**: the expiry of `max_migration_time` ("force to commit migration") or of
`max_blocking_time` stores no state — a migrating task leaves `PreCheck` only on an acknowledged PRECHECK, … and
reaches `SwitchCommitted` only on an acknowledged FINALSWITCH (`srcStep`) — so what the source advertises is unchanged
until the destination has acknowledged a step. -/
theorem C14_timer_changes_nothing (h : Hist) (key : Um.E2E.TaskKey) (t : SrcTimer) (v : Version) :
    statesOf (h.timer key t).p = statesOf h.p ∧ (h.timer key t).nodes v = h.nodes v ∧ (h.timer key t).slots = h.slots :=
  ⟨rfl, rfl, rfl⟩

-- non-vacuity of `C14_stray_switch`: after `exM2` a late FINALSWITCH of a former migration over the same range
-- 8192-9191 (older migration epoch, other source) is answered TASK_NOT_FOUND, the exact one is accepted
example : (Um.E2E.handleSwitch { epoch := 2, migCluster := "hist", tasks := Um.E2E.updateTasks "hist" exTasks1 exM2.loc }
      ⟨"hist", ⟨[(8192, 9191)], .migrating { exI2 with epoch := 0, srcProxy := "127.0.0.1:5199" }⟩⟩ .finalSwitch).2 = .taskNotFound ∧
    (Um.E2E.handleSwitch { epoch := 2, migCluster := "hist", tasks := Um.E2E.updateTasks "hist" exTasks1 exM2.loc }
      ⟨"hist", ⟨[(8192, 9191)], .migrating exI2⟩⟩ .finalSwitch).2 = .ok := by decide +kernel

-- non-vacuity (`exM1`, `exM2`, `exTasks1` in UmProofs/NodesHist.lean): the destination keeps the running task of
-- 0-999 in `PreSwitch` and gets a task in `PreCheck` for 8192-9191, which a later install lists after it
example : taskStates (Um.E2E.updateTasks "hist" exTasks1 exM2.loc) =
    [([(0, 999)], .preSwitch), ([(8192, 9191)], .preCheck)] := by decide +kernel
example : getStates (taskStates (Um.E2E.updateTasks "hist" exTasks1 exM2.loc)) [(8192, 9191)] = some .preCheck ∧
    advList (viewOf "127.0.0.1:5299" exM2) (getStates (taskStates (Um.E2E.updateTasks "hist" exTasks1 exM2.loc))) 8192 =
      ["127.0.0.1:6002"] ∧
    advList (viewOf "127.0.0.1:5299" exM2) (getStates (taskStates (Um.E2E.updateTasks "hist" exTasks1 exM2.loc))) 500 =
      ["127.0.0.1:5299"] := by decide +kernel

/-- before anything is installed nothing is advertised (one `myself` line without slots) -/
theorem C14_nothing_installed (me : Addr) (states : States) (s : Nat) :
    advList (View.empty me) states s = [] := by
  simp [advList, visPairs, allNodes, View.empty, localSlots, visRanges]

/-! ## non-vacuity: a proxy that is source of one migration and bystander of another -/

section example_
-- `exView` (UmProofs/NodesExample.lean): source of one migration, bystander of another; `exView_partition`,
-- `exView_wf`, `exView_colon` establish the hypotheses of `C14_advertise` for it.

/-- the source in `PreCheck` advertises its migrating slots itself; the bystander view of the other
migration advertises the destination -/
example : advList exView (getStates [([(100, 199), (300, 300)], .preCheck)]) 150 = ["127.0.0.1:5299"] ∧
    advList exView (getStates [([(100, 199), (300, 300)], .preCheck)]) 250 = ["10.0.0.3:5299"] ∧
    advList exView (getStates [([(100, 199), (300, 300)], .scanning)]) 300 = ["10.0.0.2:5299"] ∧
    advList exView (getStates [([(100, 199), (300, 300)], .scanning)]) 50 = ["127.0.0.1:5299"] := by
  decide +kernel

example : ∃ ns es, parseNodes (genClusterNodes exView (getStates [([(100, 199), (300, 300)], .preSwitch)]) .v2) = some ns ∧
    parseSlots (genClusterSlots exView (getStates [([(100, 199), (300, 300)], .preSwitch)])) = some es ∧
    nodesOwners ns 150 = [bs "10.0.0.2:5299"] ∧ slotsOwners es 150 = [bs "10.0.0.2:5299"] := by
  obtain ⟨ns, es, h1, h2, h3, h4⟩ :=
    C14_advertise {} none exView (getStates [([(100, 199), (300, 300)], .preSwitch)]) .v2 exView_wf exView_colon
      (by decide) (by decide) exView_partition
  obtain ⟨_, _, h⟩ := h4 150 (by decide)
  have ho : (("127.0.0.1:5299", ⟨[(100, 199), (300, 300)], .migrating⟩, (100, 199)) : Triple) ∈ triples exView := by
    decide +kernel
  have hu : (("10.0.0.2:5299", ⟨[(100, 199), (300, 300)], .importing⟩, (100, 199)) : Triple) ∈ triples exView := by
    decide +kernel
  have := (h _ ho (by decide) rfl _ hu (by decide)).2.1 (by decide)
  exact ⟨ns, es, h1, h2, this, by rw [← h3 150]; exact this⟩
end example_

end Um.C14
