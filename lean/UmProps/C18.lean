import UmModel.Failures
import UmProofs.Failures
/-!
# C18 — Failover needs a quorum of fresh, distinct reports

`GET /api/v3/failures` = `get_failures(Duration::seconds(cfg.failure_ttl as i64), cfg.failure_quorum)`.
Clocks (`now`, report times `τ`) and the ttl are in nanoseconds; stored report times are whole
seconds `τ / NS` (floor).  The code's guards, kept verbatim in the statements:

* a report is counted iff `now - t·1s < ttl` (strict; `t` = stored whole seconds);
* an address is listed iff its number of counted reports is `≥ quorum` (a `usize` comparison) and
  `all_proxies.contains_key(address)`; addresses whose counted reports are zero are dropped before
  the quorum filter, so `quorum = 0` behaves like `quorum = 1`;
* `add_failure` stores `now.timestamp()` only if the reporter has no stored report for the address.

All theorems are about every state reachable from `MetaStore::new(ordered)` by any sequence of the
operations of `Um.Failures.Op` whose inputs satisfy `OpOk` (report clocks representable by chrono,
restored blobs are maps with representable times), i.e. unbounded.
-/
namespace Um.Failures.C18
open Um.Failures

/-- reachable states are well-formed and `get_failures` cannot panic on them -/
theorem reachable_ok (ordered : Bool) (ops : List Op) (hok : ∀ op ∈ ops, OpOk op) :
    WF (run (init ordered) ops) ∧ allTimesInRange (run (init ordered) ops).failures = true :=
  ⟨wf_run (wf_init ordered) hok, allTimesInRange_iff.mpr (timesOk_run (timesOk_init ordered) hok)⟩

/-- the state-level core of `C18_quorum`, for any well-formed store -/
theorem listed_iff {s s' : State} (hw : WF s) {now ttl : Int} {quorum : Nat} (hq : 1 ≤ quorum)
    {out : List Addr} (hg : getFailures s now ttl quorum = .ok s' out) (a : Addr) :
    a ∈ out ↔ registered s a = true ∧
      ∃ R : List Reporter, R.Nodup ∧ quorum ≤ R.length ∧
        ∀ r ∈ R, ∃ t, stored s a r = some t ∧ now - t * NS < ttl := by
  rw [mem_listed hg]
  constructor
  · rintro ⟨m', hm', hlen, hreg⟩
    refine ⟨hreg, m'.map (·.1), ?_, by simpa using hlen, ?_⟩
    · exact (wf_purge hw now ttl).2.2.2 _ hm'
    · intro r hr
      obtain ⟨⟨r', t⟩, hrt, rfl⟩ := List.mem_map.mp hr
      have hst : Stored { s with failures := purge now ttl s.failures } a r' t := ⟨m', hm', hrt⟩
      obtain ⟨h1, h2⟩ := Stored_purge.mp hst
      exact ⟨t, (stored_iff hw).mpr h1, by simpa [fresh] using h2⟩
  · rintro ⟨hreg, R, hnd, hlen, hR⟩
    -- the first reporter fixes the (unique) reporter map of `a`
    have hne : R ≠ [] := by
      intro e; subst e; simp at hlen; omega
    obtain ⟨r0, hr0⟩ := List.exists_mem_of_ne_nil R hne
    obtain ⟨t0, hs0, _⟩ := hR r0 hr0
    obtain ⟨m, hm, _⟩ := (stored_iff hw).mp hs0
    let m' := m.filter (fun q => fresh now ttl q.2)
    have hsub : ∀ r ∈ R, r ∈ m'.map (·.1) := by
      intro r hr
      obtain ⟨t, hs, hf⟩ := hR r hr
      obtain ⟨m1, hm1, hrt⟩ := (stored_iff hw).mp hs
      have : m1 = m := nodup_keys_unique hw.2.2.1 hm1 hm
      subst this
      exact List.mem_map.mpr ⟨(r, t), List.mem_filter.mpr ⟨hrt, by simpa [fresh] using hf⟩, rfl⟩
    have hle : R.length ≤ (m'.map (·.1)).length := hnd.length_le_of_subset hsub
    have hlen' : quorum ≤ m'.length := by simpa using Nat.le_trans hlen hle
    refine ⟨m', mem_purge.mpr ⟨m, hm, rfl, ?_⟩, hlen', hreg⟩
    intro e
    simp only at e
    rw [show m' = [] from e] at hlen'
    simp at hlen'; omega

/-- **C18 (quorum of fresh, distinct reports)**: after every sequence of reports, queries,
clean-ups, registrations, removals, failovers, allocations and restores, for every clock `now`,
every `ttl` and every `quorum ≥ 1`, `get_failures` does not panic and lists `a` **iff** `a` is
registered and at least `quorum` *distinct* reporters have a stored report about `a` with
`now − t·1s < ttl`. -/
theorem C18_quorum (ordered : Bool) (ops : List Op) (hok : ∀ op ∈ ops, OpOk op)
    (now ttl : Int) (quorum : Nat) (hq : 1 ≤ quorum) :
    ∃ s' out, getFailures (run (init ordered) ops) now ttl quorum = .ok s' out ∧
      ∀ a, a ∈ out ↔ registered (run (init ordered) ops) a = true ∧
        ∃ R : List Reporter, R.Nodup ∧ quorum ≤ R.length ∧
          ∀ r ∈ R, ∃ t, stored (run (init ordered) ops) a r = some t ∧ now - t * NS < ttl := by
  obtain ⟨hw, ht⟩ := reachable_ok ordered ops hok
  obtain ⟨out, hg⟩ := getFailures_of_inRange now ttl quorum ht
  exact ⟨_, out, hg, fun a => listed_iff hw hq hg a⟩

/-- `quorum = 0` (accepted by the configuration) lists exactly what `quorum = 1` lists: addresses
without a fresh report are dropped before the quorum filter. -/
theorem C18_quorum_zero (s : State) (now ttl : Int) :
    getFailures s now ttl 0 = getFailures s now ttl 1 := by
  have hf : (purge now ttl s.failures).filter (fun p => decide (p.2.length ≥ 0)) =
      (purge now ttl s.failures).filter (fun p => decide (p.2.length ≥ 1)) := by
    apply List.filter_congr
    intro p hp
    obtain ⟨_, _, _, hne⟩ := mem_purge.mp hp
    have : 1 ≤ p.2.length := by
      cases h : p.2 with
      | nil => exact absurd h hne
      | cons _ _ => simp
    simp [this]
  unfold getFailures
  simp only [hf]

/-- **repeated reports by one reporter count once**: `add_failure` changes the stored reports at
exactly one point, only if that point was empty (first timestamp kept, whole seconds); it returns
`true` and bumps the epoch exactly then. -/
theorem C18_report (s : State) (now : Int) (a : Addr) (r : Reporter) :
    (∀ a' r', stored (addFailure s now a r).1 a' r' =
        if a' = a ∧ r' = r ∧ stored s a r = none then some (now / NS) else stored s a' r') ∧
    ((addFailure s now a r).2 = true ↔ stored s a r = none) ∧
    (addFailure s now a r).1.epoch = s.epoch + (if stored s a r = none then 1 else 0) ∧
    (addFailure s now a r).1.allProxies = s.allProxies ∧
    (addFailure s now a r).1.failedProxies = s.failedProxies := by
  refine ⟨fun a' r' => stored_addFailure s now a r a' r', ?_, ?_, ?_, ?_⟩
  · unfold addFailure stored ahas
    rcases hm : aget a s.failures with _ | m
    · simp
    · rcases hr : aget r m with _ | t <;> simp [hr]
  · unfold addFailure stored ahas
    rcases hm : aget a s.failures with _ | m
    · simp
    · rcases hr : aget r m with _ | t <;> simp [hr]
  · unfold addFailure ahas
    rcases hm : aget a s.failures with _ | m
    · simp
    · rcases hr : aget r m with _ | t <;> simp [hr]
  · unfold addFailure ahas
    rcases hm : aget a s.failures with _ | m
    · simp
    · rcases hr : aget r m with _ | t <;> simp [hr]

/-- … in particular any burst of further reports by a reporter whose report is stored leaves the
whole store (reports, epoch) unchanged, whatever the clocks. -/
theorem C18_repeat (s : State) (a : Addr) (r : Reporter) (t : Int) (h : stored s a r = some t)
    (clocks : List Int) : run s (clocks.map fun n => Op.report n a r) = s := by
  induction clocks with
  | nil => rfl
  | cons n rest ih =>
    have h1 : (addFailure s n a r).1 = s := by
      unfold addFailure
      unfold stored at h
      cases hm : aget a s.failures with
      | none => simp [hm] at h
      | some m =>
        simp only [hm] at h
        simp [ahas, h]
    simp only [List.map_cons, run_cons, step, h1]
    exact ih

/-- what a query leaves behind: exactly the reports that were fresh at that query.  Expired
reports are physically gone, so no later query (earlier clock, larger ttl) can count them. -/
theorem C18_purged {s s' : State} (hw : WF s) {now ttl : Int} {quorum : Nat} {out : List Addr}
    (hg : getFailures s now ttl quorum = .ok s' out) (a : Addr) (r : Reporter) :
    stored s' a r = (stored s a r).bind fun t => if now - t * NS < ttl then some t else none := by
  have hs' := (getFailures_inv hg).2.1
  have hw' : WF s' := wf_getFailures hw hg
  subst hs'
  cases hs : stored s a r with
  | none =>
    simp only [Option.bind_none]
    apply (stored_none_iff hw').mpr
    intro t ht
    exact (stored_none_iff hw).mp hs t (Stored_purge.mp ht).1
  | some t =>
    simp only [Option.bind_some]
    by_cases hf : now - t * NS < ttl
    · simp only [hf, if_true]
      exact (stored_iff hw').mpr (Stored_purge.mpr ⟨(stored_iff hw).mp hs, by simpa [fresh] using hf⟩)
    · simp only [hf, if_false]
      apply (stored_none_iff hw').mpr
      intro t' ht'
      obtain ⟨h1, h2⟩ := Stored_purge.mp ht'
      have := (stored_iff hw).mpr h1
      rw [hs] at this
      cases this
      exact hf (by simpa [fresh] using h2)

/-- **never late, never without a real report**: starting from an empty store, if `a` is listed
then `quorum` *distinct* reporters each issued a `report` operation about `a` at a true time `τ`
(nanoseconds) with `now − τ < ttl`, and `a` was not re-registered (no accepted `add_proxy a`)
after that report.  (Sequences without `restore`, which would import reports that nobody made.) -/
theorem C18_fresh_history (ordered : Bool) (ops : List Op) (hok : ∀ op ∈ ops, OpOk op)
    (hnr : ∀ op ∈ ops, op.isRestore = false)
    (now ttl : Int) (quorum : Nat) (hq : 1 ≤ quorum) (s' : State) (out : List Addr)
    (hg : getFailures (run (init ordered) ops) now ttl quorum = .ok s' out) (a : Addr)
    (ha : a ∈ out) :
    registered (run (init ordered) ops) a = true ∧
    ∃ R : List Reporter, R.Nodup ∧ quorum ≤ R.length ∧
      ∀ r ∈ R, ∃ pre post τ, ops = pre ++ Op.report τ a r :: post ∧ now - τ < ttl ∧
        ∀ op ∈ post, ¬ effAdd ordered a op := by
  have hw := (reachable_ok ordered ops hok).1
  obtain ⟨hreg, R, hnd, hlen, hR⟩ := (listed_iff hw hq hg a).mp ha
  refine ⟨hreg, R, hnd, hlen, ?_⟩
  intro r hr
  obtain ⟨t, hs, hf⟩ := hR r hr
  have hj := justified_run ops [] (init ordered) rfl hnr (justified_init ordered)
  obtain ⟨pre, post, τ, hh, ht, hp⟩ := hj a r t ((stored_iff hw).mp hs)
  refine ⟨pre, post, τ, by simpa using hh, ?_, hp⟩
  subst ht
  unfold NS at hf
  omega

/-- **at most one second early**: a stored report made at true time `τ` (stored as `τ / 1s`) is
still counted whenever its true age is at most `ttl − 1s`; and it is not counted once its true
age reaches `ttl` (restating the "never late" half on one report). -/
theorem C18_expiry_window (now ttl τ : Int) :
    (now - τ + NS ≤ ttl → fresh now ttl (τ / NS) = true) ∧
    (ttl ≤ now - τ → fresh now ttl (τ / NS) = false) := by
  unfold fresh NS
  constructor
  · intro h; simp only [decide_eq_true_eq]; omega
  · intro h; simp only [decide_eq_false_iff_not]; omega

/-- … and on whole listings: if `a` is registered and `quorum` distinct reporters have stored
reports whose true report times are at most `ttl − 1s` old, `a` **is** listed. -/
theorem C18_listed_within_window {s s' : State} (hw : WF s) {now ttl : Int} {quorum : Nat}
    (hq : 1 ≤ quorum) {out : List Addr} (hg : getFailures s now ttl quorum = .ok s' out) (a : Addr)
    (hreg : registered s a = true) (R : List Reporter) (hnd : R.Nodup) (hlen : quorum ≤ R.length)
    (hR : ∀ r ∈ R, ∃ τ, stored s a r = some (τ / NS) ∧ now - τ + NS ≤ ttl) : a ∈ out := by
  apply (listed_iff hw hq hg a).mpr
  refine ⟨hreg, R, hnd, hlen, ?_⟩
  intro r hr
  obtain ⟨τ, hs, hτ⟩ := hR r hr
  refine ⟨τ / NS, hs, ?_⟩
  have := (C18_expiry_window now ttl τ).1 hτ
  simpa [fresh] using this

/-- the one-second window is real: with `ttl = 1 s`, a report made 1 ms before a second boundary
is already expired 2 ms later (truncation), although its true age is 2 ms. -/
theorem C18_early_witness :
    fresh 1000001000000 NS (999999000000 / NS) = false ∧ (1000001000000 - 999999000000 : Int) < NS := by
  decide

/-- **re-registration clears**: an accepted `add_proxy a` (valid address; an index in ordered
mode), whether `a` is new or already registered, leaves `a` registered, without any stored report
and without the failed mark, answers `Ok`/`ALREADY_EXISTED`, and no query lists `a` until it is
reported again; a refused call changes nothing. -/
theorem C18_reregister (s : State) (a : Addr) (i : Bool) :
    (addProxyAccepted s.ordered a i = true →
      registered (addProxy s a i).1 a = true ∧
      (∀ r, stored (addProxy s a i).1 a r = none) ∧
      a ∉ getFailedProxies (addProxy s a i).1 ∧
      (addProxy s a i).2 = (if registered s a then some Err.alreadyExisted else none) ∧
      (∀ now ttl quorum s' out,
        getFailures (addProxy s a i).1 now ttl quorum = .ok s' out → a ∉ out)) ∧
    (addProxyAccepted s.ordered a i = false →
      (addProxy s a i).1 = s ∧ (addProxy s a i).2 ≠ none) := by
  constructor
  · intro hacc
    have hacc' := hacc
    unfold addProxyAccepted at hacc'
    simp only [Bool.and_eq_true, Bool.or_eq_true, Bool.not_eq_true'] at hacc'
    have h1 : validAddr a = true := hacc'.1
    have h2 : (s.ordered && !i) = false := by
      rcases hacc'.2 with h | h <;> simp [h]
    have hnone : ∀ r, stored (addProxy s a i).1 a r = none := by
      intro r
      cases hs : stored (addProxy s a i).1 a r with
      | none => rfl
      | some t =>
        exfalso
        unfold stored at hs
        cases hm : aget a (addProxy s a i).1.failures with
        | none => simp [hm] at hs
        | some m =>
          have hmem := aget_some_mem hm
          unfold addProxy at hmem
          simp only [h1, h2, Bool.not_true, Bool.false_eq_true, if_false] at hmem
          exact (mem_adel.mp hmem).2 rfl
    refine ⟨?_, hnone, ?_, ?_, ?_⟩
    · unfold addProxy registered
      simp only [h1, h2, Bool.not_true, Bool.false_eq_true, if_false]
      by_cases hr : ahas a s.allProxies = true
      · simp [hr]
      · simp only [hr, Bool.false_eq_true, if_false]
        exact ahas_iff.mpr (by simp)
    · unfold addProxy getFailedProxies
      simp [h1, h2, List.mem_filter]
    · unfold addProxy
      simp only [h1, h2, Bool.not_true, Bool.false_eq_true, if_false]
      cases registered s a <;> simp
    · intro now ttl quorum s' out hg hin
      obtain ⟨m, hm, _, _⟩ := (mem_listed hg a).mp hin
      obtain ⟨m0, hm0, _, _⟩ := mem_purge.mp hm
      simp only at hm0
      unfold addProxy at hm0
      simp only [h1, h2, Bool.not_true, Bool.false_eq_true, if_false] at hm0
      exact (mem_adel.mp hm0).2 rfl
  · intro hacc
    refine ⟨addProxy_refused hacc, ?_⟩
    unfold addProxyAccepted at hacc
    unfold addProxy
    by_cases h1 : validAddr a = true
    · simp only [h1, Bool.true_and, Bool.or_eq_false_iff, Bool.not_eq_false'] at hacc
      simp [h1, hacc.1, hacc.2]
    · simp [h1]

/-- `remove_proxy` on a registered free proxy forgets it completely; otherwise
(`PROXY_NOT_FOUND`, `IN_USE`) nothing changes. -/
theorem C18_remove (s : State) (a : Addr) :
    ((removeProxy s a).2 = none →
      registered (removeProxy s a).1 a = false ∧ (∀ r, stored (removeProxy s a).1 a r = none) ∧
      a ∉ getFailedProxies (removeProxy s a).1) ∧
    ((removeProxy s a).2 ≠ none → (removeProxy s a).1 = s) := by
  rcases hm : aget a s.allProxies with _ | b
  · have : removeProxy s a = (s, some .proxyNotFound) := by unfold removeProxy; simp [hm]
    simp [this]
  · cases b with
    | true =>
      have : removeProxy s a = (s, some .inUse) := by unfold removeProxy; simp [hm]
      simp [this]
    | false =>
      have : removeProxy s a =
          ({ s with allProxies := adel a s.allProxies,
                    failedProxies := s.failedProxies.filter (fun x => decide (x ≠ a)),
                    failures := adel a s.failures,
                    epoch := s.epoch + 1 }, none) := by unfold removeProxy; simp [hm]
      rw [this]
      refine ⟨fun _ => ⟨?_, ?_, ?_⟩, fun h => absurd rfl h⟩
      · unfold registered ahas
        simp [aget_adel]
      · intro r; unfold stored; simp [aget_adel]
      · unfold getFailedProxies; simp [List.mem_filter]

/-- `replace_failed_proxy` on a registered free proxy: reports forgotten, failed mark set, no
epoch bump, `Ok(None)`; on an unknown address: `PROXY_NOT_FOUND`, nothing changes; on a proxy that
serves a cluster the reports are *kept* (only the failed mark may be added). -/
theorem C18_replace (s : State) (a : Addr) (o : InCluster) :
    (aget a s.allProxies = some false →
      (replaceFailedProxy s a o).2 = .none ∧
      (∀ r, stored (replaceFailedProxy s a o).1 a r = none) ∧
      a ∈ getFailedProxies (replaceFailedProxy s a o).1 ∧
      registered (replaceFailedProxy s a o).1 a = true ∧
      (replaceFailedProxy s a o).1.epoch = s.epoch) ∧
    (aget a s.allProxies = none →
      replaceFailedProxy s a o = (s, .err .proxyNotFound)) ∧
    (aget a s.allProxies = some true →
      (replaceFailedProxy s a o).1.failures = s.failures) := by
  refine ⟨?_, ?_, ?_⟩
  · intro h
    unfold replaceFailedProxy
    simp only [h, true_and]
    refine ⟨?_, ?_, ?_⟩
    · intro r; unfold stored; simp [aget_adel]
    · unfold getFailedProxies sinsert
      by_cases hc : a ∈ s.failedProxies <;> simp [hc]
    · unfold registered ahas; simp [h]
  · intro h; unfold replaceFailedProxy; simp [h]
  · intro h; unfold replaceFailedProxy; simp only [h]; cases o <;> rfl

/-! ## non-vacuity -/

/-- two registered proxies, three reporters, a repeated report, an unknown address -/
def demo : List Op :=
  [ .addProxy "h1:7000" false, .addProxy "h2:7000" false,
    .report 1000000000000 "h1:7000" "c1", .report 1003500000000 "h1:7000" "c2",
    .report 1004000000000 "h1:7000" "c1", .report 1004000000000 "ghost:1" "c1",
    .report 1004000000000 "ghost:1" "c2" ]

example : ∀ op ∈ demo, OpOk op := by decide
example : ∀ op ∈ demo, op.isRestore = false := by decide
-- quorum 2, ttl 5 s: at 1004.9 s both reports count; at 1005.0 s c1's (stored 1000) has expired;
-- the unknown address is never listed although it has two fresh reports
example : getFailures (run (init false) demo) 1004900000000 (5 * NS) 2 =
    .ok { (run (init false) demo) with } ["h1:7000"] := by decide
example : (match getFailures (run (init false) demo) 1005000000000 (5 * NS) 2 with
    | .ok _ out => out | .panic => ["?"]) = [] := by decide
example : stored (run (init false) demo) "h1:7000" "c1" = some 1000 := by decide
example : addProxyAccepted false "h1:7000" false = true ∧ addProxyAccepted true "h1:7000" false = false
    ∧ addProxyAccepted false "nocolon" false = false := by decide
example : (removeProxy (run (init false) demo) "h2:7000").2 = none := by decide
example : aget "h2:7000" (run (init false) demo).allProxies = some false := by decide

end Um.Failures.C18
