import UmProofs.BrokerSlotsA
/-!
# C01 — Every slot has exactly one owner in every broker view

Work in progress: the store-level invariants (`SlotInv`, `PosInv`, `TwinInv` in
`UmProofs/BrokerDefs.lean`) are evaluated on every state of every correspondence run (driver op
`inv`); the theorems below are the layers proved so far. See `tools/props.d/C01.py` (`gaps`).
-/
namespace Um.Broker.C01
open Um Um.Slots Um.Broker

/-- `RangeList::compact` (used by every planning, commit and view operation) never changes which
slots a list of well-formed, pairwise disjoint ranges covers, and produces the normal form. -/
theorem C01_compact_keeps_slots_partial (l : RangeList) (hwf : ∀ r ∈ l, r.1 ≤ r.2)
    (hnd : (slotsOf l).Nodup) :
    (slotsOf (compact l)).Perm (slotsOf l) ∧ NormalRanges (compact l) :=
  compact_spec l hwf hnd

/-- merging a migrated range list into a stable one (`merge_another`) keeps the slots -/
theorem C01_merge_keeps_slots_partial (a b : RangeList) (ha : ∀ r ∈ a, r.1 ≤ r.2) (hb : ∀ r ∈ b, r.1 ≤ r.2)
    (hnd : (slotsOf a ++ slotsOf b).Nodup) :
    (slotsOf (mergeAnother a b)).Perm (slotsOf a ++ slotsOf b) ∧ NormalRanges (mergeAnother a b) := by
  unfold mergeAnother
  have h := compact_spec (a ++ b)
    (fun r hr => by rcases List.mem_append.mp hr with h | h; exact ha r h; exact hb r h)
    (by rw [slotsOf_append]; exact hnd)
  rw [slotsOf_append] at h
  exact h

/-- non-vacuity: two adjacent ranges given in reverse order -/
example : compact [(5, 9), (0, 4)] = [(0, 9)] := by
  simp [compact, normRange, List.mergeSort, List.MergeSort.Internal.splitInTwo, List.merge, startLe,
    mergeSorted, mergeGo]

/-- the hypothesis "well-formed" is necessary: a reversed (zero-length) range is *swapped* by
`compact` and then covers two slots — the mechanism of finding F3 -/
theorem C01_reversed_range_witness : slotsOf (compact [(7, 6)]) = [6, 7] ∧ slotsOf [(7, 6)] = [] := by
  have h : compact [(7, 6)] = [(6, 7)] := by
    simp [compact, normRange, List.mergeSort, mergeSorted, mergeGo]
  rw [h]; decide

end Um.Broker.C01
