import UmProofs.BrokerSlotsPlanJ
import UmProofs.BrokerViewPartG
import UmProofs.BrokerResReach
/-!
# C01 — Every slot has exactly one owner in every broker view

`PartitionView v` (`UmProofs/BrokerViewPartB.lean`) is the property for one served whole-cluster
view `v`:
* `owned`: the slots of the stable and migrating-out ranges over all master nodes are a
  permutation of `0 … 16383` (each slot exactly one owner);
* `replicas`: replica nodes own nothing;
* `migrating` / `importing`: every migrating-out range sits on the node/proxy its meta names as
  source, on a master, and there is *exactly one* importing range in the whole view with the same
  range list and the same meta (epoch, source and destination addresses), sitting on the master
  the meta names as destination — and symmetrically.

The theorems quantify over **every operation list** (`run ops`, any order of commits, failovers,
scalings, any allocation choices, any `now`), **every migration limit** and every cluster name /
proxy address; the induction covers every intermediate state. The single hypothesis is the size
bound `PlanBound`: no cluster ever has more than 16384 masters (with more masters
`SLOT_NUM / masters = 0` and the code cuts zero-length ranges; see DESIGN §7 F11 and the
witnesses in `notes/C01-plan.md`). Both modes of the broker are covered: an operation list that
starts with `Op.setOrdered` is a history of a broker started with `enable_ordered_proxy = true`
(`runOrdered`; index-ordered allocation, one cluster, failover without replacement — see
`ordOps` at the end of the file).
-/
namespace Um.Broker.C01
open Um Um.Slots Um.Broker Um.Broker.Plan

/-- the store invariants hold in every state of every bounded run -/
theorem C01_store_invariants (ops : List Op) (hb : ∀ k, PlanBound (run (ops.take k))) :
    ∀ c ∈ (run ops).clusters, PosInv c ∧ TwinInv c ∧ SlotInv c :=
  cinv_run ops hb

theorem mem_of_findCluster (s : Store) (name : String) (cl : Cluster) (h : s.findCluster name = some cl) :
    cl ∈ s.clusters := by
  unfold Store.findCluster at h
  exact List.mem_of_find?_eq_some h

/-- **C01, whole-cluster query** (`GET /api/v3/clusters/meta/<name>`): in every reachable state,
under every migration limit, the served view — if the cluster exists — is a partition view. -/
theorem C01_partition (ops : List Op) (hb : ∀ k, PlanBound (run (ops.take k)))
    (name : String) (limit : Nat) :
    clusterView (run ops) name limit = .ok none ∨
    ∃ v, clusterView (run ops) name limit = .ok (some v) ∧ PartitionView v := by
  by_cases hn : validName name = true
  · cases hc : (run ops).findCluster name with
    | none => left; simp [clusterView, hn, hc]
    | some cl =>
      right
      have hinv := cinv_run ops hb cl (mem_of_findCluster _ _ _ hc)
      obtain ⟨lc, hl, hlc, _⟩ := limitMigration_spec cl limit hinv
      exact clusterView_partition _ name limit cl lc hn hc hl hlc.1 hlc.2.1 hlc.2.2
  · left; simp [clusterView, hn]

/-- **C01, per-proxy query** (`GET /api/v3/proxies/meta/<addr>`): for a proxy that belongs to a
cluster the served `VProxy` is the projection of a partition view onto that proxy: its local
master ranges plus its peers' ranges own every slot exactly once (`ownedSlots`), and pending
ranges keep their unique twins (`proxy_twin_of_migrating/importing` in `BrokerViewPartF`). -/
theorem C01_partition_proxy (ops : List Op) (hb : ∀ k, PlanBound (run (ops.take k)))
    (addr : String) (limit : Nat) (p : ProxyRes) (cl : Cluster)
    (hp : (run ops).findProxy addr = some p) (hc : p.cluster.bind (run ops).findCluster = some cl) :
    ∃ v, proxyView (run ops) addr limit = .ok (some (proxyOfView addr v)) ∧ PartitionView v ∧
      (proxyOfView addr v).ownedSlots.Perm (List.range SLOT_NUM) := by
  have hmem : cl ∈ (run ops).clusters := by
    cases hpc : p.cluster with
    | none => simp [hpc] at hc
    | some n => simp [hpc] at hc; exact mem_of_findCluster _ _ _ hc
  have hinv := cinv_run ops hb cl hmem
  obtain ⟨lc, hl, hlc, _⟩ := limitMigration_spec cl limit hinv
  exact proxyView_partition _ addr limit p cl lc hp hc hl hlc.1 hlc.2.1 hlc.2.2

theorem nodup_of_nodup_flatMap {α β : Type} (f : α → List β) :
    ∀ (l : List α), (l.flatMap f).Nodup → ∀ x ∈ l, (f x).Nodup
  | [], _, x, hx => by cases hx
  | a :: as, h, x, hx => by
    rw [List.flatMap_cons] at h
    have h' := List.nodup_append.mp h
    rcases List.mem_cons.mp hx with rfl | hx
    · exact h'.1
    · exact nodup_of_nodup_flatMap f as h'.2.1 x hx

theorem proxyAddrs_of_addrs (a b : Cluster) (h : a.chunks.map Chunk.addrs = b.chunks.map Chunk.addrs) :
    a.proxyAddrs = b.proxyAddrs := by
  unfold Cluster.proxyAddrs
  have : ∀ (l1 l2 : List Chunk), l1.map Chunk.addrs = l2.map Chunk.addrs →
      (l1.flatMap fun ch => [ch.proxy0, ch.proxy1]) = (l2.flatMap fun ch => [ch.proxy0, ch.proxy1]) := by
    intro l1
    induction l1 with
    | nil => intro l2 h; cases l2 with
      | nil => rfl
      | cons _ _ => simp at h
    | cons c cs ih =>
      intro l2 h
      cases l2 with
      | nil => simp at h
      | cons d ds =>
        simp only [List.map_cons, List.cons.injEq] at h
        have hcd : c.proxy0 = d.proxy0 ∧ c.proxy1 = d.proxy1 := by
          have := h.1; unfold Chunk.addrs at this; simp at this; exact ⟨this.2.1.1, this.2.1.2⟩
        simp only [List.flatMap_cons, hcd.1, hcd.2, ih ds h.2]
  exact this _ _ h

/-- **C01, all proxies together**: in every reachable state, under every migration limit, the
local master ranges served to the proxies of a cluster — taken over all its proxies — own every
slot exactly once (so the per-proxy queries are mutually consistent, not only each one
internally). Uses C12's accounting invariant for the uniqueness of proxy addresses. -/
theorem C01_union_over_proxies (ops : List Op) (hb : ∀ k, PlanBound (run (ops.take k)))
    (name : String) (limit : Nat) (cl : Cluster) (hc : (run ops).findCluster name = some cl) :
    ∃ lc, limitMigration cl limit = .ok lc ∧
      (lc.proxyAddrs.flatMap fun a =>
        ((proxyOfView a (viewP lc)).nodes.filter fun n => !n.replica).flatMap VNode.ownedSlots).Perm
        (List.range SLOT_NUM) := by
  have hmem := mem_of_findCluster _ _ _ hc
  have hinv := cinv_run ops hb cl hmem
  obtain ⟨lc, hl, hlc, _, _, _, _, haddrs⟩ := limitMigration_spec cl limit hinv
  refine ⟨lc, hl, union_local_partition_cluster lc hlc.1 hlc.2.1 hlc.2.2 ?_⟩
  have hres := resInv_reachable (reachable_run ops)
  have hnd : cl.proxyAddrs.Nodup := by
    have h3 := hres.2.2.1
    exact nodup_of_nodup_flatMap _ _ h3 cl hmem
  rw [proxyAddrs_of_addrs lc cl haddrs]
  exact hnd

/-- no served view query panics on a reachable state (`limit_migration`'s and
`to_slot_range`'s `expect`s are unreachable) -/
theorem C01_views_total (ops : List Op) (hb : ∀ k, PlanBound (run (ops.take k)))
    (name : String) (limit : Nat) : ∃ r, clusterView (run ops) name limit = .ok r := by
  rcases C01_partition ops hb name limit with h | ⟨v, h, _⟩
  · exact ⟨none, h⟩
  · exact ⟨some v, h⟩

/-- `RangeList::compact` never changes which slots a list of well-formed, pairwise disjoint
ranges covers, and produces the normal form (the range-list layer everything rests on) -/
theorem C01_compact_keeps_slots (l : RangeList) (hwf : ∀ r ∈ l, r.1 ≤ r.2)
    (hnd : (slotsOf l).Nodup) :
    (slotsOf (compact l)).Perm (slotsOf l) ∧ NormalRanges (compact l) :=
  compact_spec l hwf hnd

/-- the well-formedness hypothesis is necessary: a reversed (zero-length) range is *swapped* by
`compact` and then covers two slots — the mechanism of finding F3 (repaired in fd69f7a) -/
theorem C01_reversed_range_witness : slotsOf (compact [(7, 6)]) = [6, 7] ∧ slotsOf [(7, 6)] = [] := by
  have h : compact [(7, 6)] = [(6, 7)] := by
    simp [compact, normRange, List.mergeSort, mergeSorted, mergeGo]
  rw [h]; decide

/-- non-vacuity: the worked example `exCluster` (the state after 4 × `addProxy`,
`addCluster c 4`, `addNodes c 4`, `migrate c`: two migrations in flight) satisfies the three
invariants, and its served view is a partition view -/
example : PartitionView exView := exView_partition

/-! ## ordered-proxy mode: the same theorems on a history of a broker started with
`enable_ordered_proxy = true` (all four proxies on one host, indices 0..3; cluster on 0,1;
scale-out onto 2,3; migration started; failover of `p0:1`, which is not replaced) -/

def ordOps : List Op :=
  [.setOrdered,
   .addProxy "p0:1" "n0" "n1" (some "h0") (some 0), .addProxy "p1:1" "n2" "n3" (some "h0") (some 1),
   .addProxy "p2:1" "n4" "n5" (some "h0") (some 2), .addProxy "p3:1" "n6" "n7" (some "h0") (some 3),
   .addCluster "c" 4 [("p0:1", "p1:1")], .addNodes "c" 4 [("p2:1", "p3:1")], .migrate "c",
   .failover "p0:1" "-"]

theorem ordOps_bound : ∀ k, PlanBound (run (ordOps.take k)) := by
  have hsmall : ∀ k, k < 10 → ∀ c ∈ (run (ordOps.take k)).clusters, c.chunks.length * 2 ≤ SLOT_NUM := by
    decide +kernel
  intro k
  by_cases hk : k < 10
  · exact hsmall k hk
  · have : ordOps.take k = ordOps.take 9 := by
      rw [List.take_of_length_le (by simp [ordOps]; omega), List.take_of_length_le (by simp [ordOps])]
    rw [this]; exact hsmall 9 (by omega)

example : (run ordOps).ordered = true ∧ ((run ordOps).findCluster "c").isSome = true ∧
    ((run ordOps).findCluster "c").map (·.isMigrating) = some true := by decide +kernel
example : ∀ c ∈ (run ordOps).clusters, PosInv c ∧ TwinInv c ∧ SlotInv c := C01_store_invariants ordOps ordOps_bound
example (limit : Nat) : clusterView (run ordOps) "c" limit = .ok none ∨
    ∃ v, clusterView (run ordOps) "c" limit = .ok (some v) ∧ PartitionView v :=
  C01_partition ordOps ordOps_bound "c" limit

end Um.Broker.C01
