import UmModel.Crc16
import UmModel.Route
import UmModel.RouteCmd
import UmProofs.Crc16
import UmProofs.Route
import UmProofs.RouteCmd
/-!
# C09 — Key-to-slot routing at a proxy is exact

For every key and every installed slot map a proxy computes `slotOf key = CRC16-XMODEM(hash tag) mod
16384`, executes the command on a local node iff that slot is listed by a local node, otherwise
answers `MOVED <slot> <peer>` with a peer that lists the slot, otherwise `slot not covered`; with
nothing installed it answers `ERR_CLUSTER_NOT_FOUND`. Multi-key commands the proxy handles as such
(MGET, MSET, MSETNX, DEL/EXISTS with several keys, BLPOP/BRPOP/BZPOPMIN/BZPOPMAX/BRPOPLPUSH, EVAL, EVALSHA)
are refused without dispatching anything when their keys are in different slots and active redirection
is off (EVAL/EVALSHA: in both modes), and when accepted all their sub-commands go to one place.

All statements are about arbitrary node lists in visiting order, i.e. they hold for **every**
`HashMap` iteration order of `SlotMap::from_ranges` (DESIGN §2.3).

Gap (see `C09_multikey_partial`, `C09_unguarded_two_key`, `C09_multikey_full_false`): the proxy has no
same-slot guard for the two-key commands it routes by their first key (RENAME, RENAMENX, SMOVE,
RPOPLPUSH, …); finding F09b (known). EVALSHA used to bypass the EVAL guard (finding F09a, fixed in /repo
7ad1e99): the generated dispatch table now sends `Evalsha` to `handle_eval_cmd`, so
`C09_multikey_partial` covers it.
-/
namespace Um.C09
open Um Um.Crc16 Um.Route Um.RouteCmd

/-! ## hashing -/

/-- **hash tag characterisation**: the bytes strictly between the first `{` and the first `}` after
it when that span is non-empty, else the whole key. The three shapes are exhaustive (`key_shapes`). -/
theorem hashTag_spec (key : Bytes) :
    (LBRACE ∉ key → getHashTag key = key) ∧
    (∀ pre rest, key = pre ++ LBRACE :: rest → LBRACE ∉ pre → RBRACE ∉ rest → getHashTag key = key) ∧
    (∀ pre tag post, key = pre ++ LBRACE :: (tag ++ RBRACE :: post) → LBRACE ∉ pre → RBRACE ∉ tag →
        getHashTag key = if tag = [] then key else tag) ∧
    (LBRACE ∉ key ∨
      (∃ pre rest, key = pre ++ LBRACE :: rest ∧ LBRACE ∉ pre ∧ RBRACE ∉ rest) ∨
      (∃ pre tag post, key = pre ++ LBRACE :: (tag ++ RBRACE :: post) ∧ LBRACE ∉ pre ∧ RBRACE ∉ tag)) := by
  refine ⟨getHashTag_no_open, ?_, ?_, key_shapes key⟩
  · intro pre rest hk hp hr; subst hk; exact getHashTag_no_close hp hr
  · intro pre tag post hk hp ht; subst hk; exact getHashTag_tag hp ht

example : getHashTag [123, 117, 125, 46, 102] = [117] := by decide           -- {u}.f
example : getHashTag [102, 123, 125, 123, 98, 125] = [102, 123, 125, 123, 98, 125] := by decide  -- f{}{b}
example : getHashTag [102, 123, 123, 98, 125, 125] = [123, 98] := by decide  -- f{{b}}
example : getHashTag [125, 123] = [125, 123] := by decide                     -- }{

/-- the routing slot is a slot -/
theorem slotOf_lt (key : Bytes) : slotOf key < 16384 := Um.Crc16.slotOf_lt key

set_option maxRecDepth 8192 in
example : slotOf [49, 50, 51, 52, 53, 54, 55, 56, 57] = 12739 := by decide   -- CRC16-XMODEM("123456789") = 0x31C3
set_option maxRecDepth 8192 in
example : (crc16Arc [49, 50, 51, 52, 53, 54, 55, 56, 57]).toNat = 47933 := by decide  -- 0xBB3D

/-- `same_slot`: non-empty and every key in the slot of the first -/
theorem sameSlot_spec (ks : List Bytes) :
    sameSlot ks = true ↔ ∃ k rest, ks = k :: rest ∧ ∀ k' ∈ rest, slotOf k' = slotOf k := sameSlot_iff ks

example : sameSlot [[123, 97, 125, 49], [120, 123, 97, 125]] = true := by decide
example : sameSlot [[97], [98]] = false := by decide

/-! ## slot map -/

/-- **`SlotMap::from_ranges` / `get`**, for every visiting order `m` of the node map: the answer is
the last node in that order listing the slot; in particular it lists the slot, `None` means nobody
lists it, and when only one node lists a slot every order answers that node. -/
theorem C09_slotmap (m : NodeRanges) (slot : Nat) :
    (SlotMapData.new m).get slot = lookup m slot ∧
    (∀ a, (SlotMapData.new m).get slot = some a → slot < 16384 ∧ ∃ rs, (a, rs) ∈ m ∧ covers rs slot = true) ∧
    ((SlotMapData.new m).get slot = none → slot ≥ 16384 ∨ ∀ n ∈ m, covers n.2 slot = false) ∧
    (∀ m', m.Perm m' → ((SlotMapData.new m).get slot).isSome = ((SlotMapData.new m').get slot).isSome) ∧
    (∀ a, slot < 16384 → (∃ rs, (a, rs) ∈ m ∧ covers rs slot = true) →
        (∀ n ∈ m, covers n.2 slot = true → n.1 = a) → (SlotMapData.new m).get slot = some a) := by
  refine ⟨get_new_eq_lookup m slot, ?_, ?_, ?_, ?_⟩
  · intro a h; rw [get_new_eq_lookup] at h; exact lookup_some h
  · intro h; rw [get_new_eq_lookup] at h; exact lookup_none h
  · intro m' hp; rw [get_new_eq_lookup, get_new_eq_lookup]; exact lookup_isSome_perm hp slot
  · intro a hlt hex hu; rw [get_new_eq_lookup]; exact lookup_unique hlt hex hu

example : (SlotMapData.new [("a", [(0, 10), (20, 30)]), ("b", [(5, 25)])]).get 7 = some "b" := by
  rw [get_new_eq_lookup]; decide
example : (SlotMapData.new [("b", [(5, 25)]), ("a", [(0, 10), (20, 30)])]).get 7 = some "a" := by
  rw [get_new_eq_lookup]; decide

/-! ## routing -/

/-- the routing decision of a proxy with an installed map, as a function of the two lookups -/
theorem routeSlot_install (cfg : RouteCfg) (name : String) (loc peer : NodeRanges) (rt : Option Nat) (s : Nat)
    (hname : name ≠ "") :
    routeSlot cfg (ClusterMap.install cfg name loc peer) rt (some s) =
      match lookup loc s with
      | some n => .exec n
      | none =>
        match lookup peer s with
        | some a =>
          if cfg.activeRedirection then sendRemoteDirectly cfg (ClusterMap.install cfg name loc peer) rt s a
          else .moved s a
        | none => .errSlotNotCovered s := by
  have hne : (ClusterMap.install cfg name loc peer).clusterName.isEmpty = false := by
    cases h : (ClusterMap.install cfg name loc peer).clusterName.isEmpty with
    | false => rfl
    | true => exact absurd (String.isEmpty_iff.mp h) hname
  unfold routeSlot
  rw [hne]
  simp only [Bool.false_eq_true, if_false]
  have hl : (ClusterMap.install cfg name loc peer).localMap.get s = lookup loc s := get_new_eq_lookup loc s
  have hp : (ClusterMap.install cfg name loc peer).peerMap.get s = lookup peer s := get_new_eq_lookup peer s
  have hr : (ClusterMap.install cfg name loc peer).remoteBackend.isSome = cfg.activeRedirection := by
    simp only [ClusterMap.install]; cases cfg.activeRedirection <;> rfl
  cases hls : lookup loc s with
  | some n =>
    have hc := install_localNodes_contains (cfg := cfg) (name := name) (peer := peer) (hl.trans hls)
    rw [hl, hls]; simp only; rw [hc]; rfl
  | none =>
    rw [hl, hls, hp, hr]
    simp only [Bool.if_true_left]
    cases lookup peer s <;> simp

/-- **C09 (routing), active redirection off** — for every key, every installed `(local, peers)` in
every visiting order: `Exec n` only for a local node `n` listing the slot, and some `Exec` whenever a
local node lists it; otherwise `MOVED <slotOf key> a` with `a` a peer listing the slot; otherwise the
`slot not covered` error. -/
theorem C09_route (cfg : RouteCfg) (name : String) (loc peer : NodeRanges) (key : Bytes)
    (hname : name ≠ "") (har : cfg.activeRedirection = false) :
    (∀ n, routeKey cfg (ClusterMap.install cfg name loc peer) key = .exec n →
        ∃ rs, (n, rs) ∈ loc ∧ covers rs (slotOf key) = true) ∧
    ((∃ e ∈ loc, covers e.2 (slotOf key) = true) →
        ∃ n rs, routeKey cfg (ClusterMap.install cfg name loc peer) key = .exec n ∧ (n, rs) ∈ loc ∧
          covers rs (slotOf key) = true) ∧
    ((∀ e ∈ loc, covers e.2 (slotOf key) = false) → (∃ e ∈ peer, covers e.2 (slotOf key) = true) →
        ∃ a rs, routeKey cfg (ClusterMap.install cfg name loc peer) key = .moved (slotOf key) a ∧ (a, rs) ∈ peer ∧
          covers rs (slotOf key) = true) ∧
    ((∀ e ∈ loc, covers e.2 (slotOf key) = false) → (∀ e ∈ peer, covers e.2 (slotOf key) = false) →
        routeKey cfg (ClusterMap.install cfg name loc peer) key = .errSlotNotCovered (slotOf key)) := by
  have hs : slotOf key < SLOT_NUM := Um.Crc16.slotOf_lt key
  have hR := routeSlot_install cfg name loc peer none (slotOf key) hname
  unfold routeKey
  rw [hR, har]
  simp only [Bool.false_eq_true, if_false]
  have none_of : ∀ m : NodeRanges, (∀ e ∈ m, covers e.2 (slotOf key) = false) → lookup m (slotOf key) = none := by
    intro m h
    cases hl : lookup m (slotOf key) with
    | none => rfl
    | some a =>
      obtain ⟨_, rs, hm, hc⟩ := lookup_some hl
      have := h (a, rs) hm; simp only at this; rw [hc] at this; cases this
  have some_of : ∀ m : NodeRanges, (∃ e ∈ m, covers e.2 (slotOf key) = true) →
      ∃ a rs, lookup m (slotOf key) = some a ∧ (a, rs) ∈ m ∧ covers rs (slotOf key) = true := by
    intro m h
    have := (lookup_isSome_iff m (slotOf key)).mpr ⟨hs, h⟩
    obtain ⟨a, ha⟩ := Option.isSome_iff_exists.mp this
    obtain ⟨_, rs, hm, hc⟩ := lookup_some ha
    exact ⟨a, rs, ha, hm, hc⟩
  refine ⟨?_, ?_, ?_, ?_⟩
  · intro n h
    cases hl : lookup loc (slotOf key) with
    | some a =>
      rw [hl] at h; simp only [Outcome.exec.injEq] at h; subst h
      exact (lookup_some hl).2
    | none =>
      rw [hl] at h
      cases hp : lookup peer (slotOf key) <;> rw [hp] at h <;> cases h
  · intro h
    obtain ⟨a, rs, ha, hm, hc⟩ := some_of loc h
    exact ⟨a, rs, by rw [ha], hm, hc⟩
  · intro hl hp
    obtain ⟨a, rs, ha, hm, hc⟩ := some_of peer hp
    exact ⟨a, rs, by rw [none_of loc hl, ha], hm, hc⟩
  · intro hl hp
    rw [none_of loc hl, none_of peer hp]

/-- with disjoint local ranges (at most one local node lists the slot) the executing node is exactly
the one that lists the slot, in every visiting order -/
theorem C09_route_exec_iff (cfg : RouteCfg) (name : String) (loc peer : NodeRanges) (key : Bytes)
    (hname : name ≠ "")
    (hdisj : ∀ e ∈ loc, ∀ e' ∈ loc, covers e.2 (slotOf key) = true → covers e'.2 (slotOf key) = true → e.1 = e'.1)
    (n : Addr) :
    routeKey cfg (ClusterMap.install cfg name loc peer) key = .exec n ↔
      ∃ rs, (n, rs) ∈ loc ∧ covers rs (slotOf key) = true := by
  have hs : slotOf key < SLOT_NUM := Um.Crc16.slotOf_lt key
  unfold routeKey
  rw [routeSlot_install cfg name loc peer none (slotOf key) hname]
  constructor
  · intro h
    cases hl : lookup loc (slotOf key) with
    | some a =>
      rw [hl] at h; simp only [Outcome.exec.injEq] at h; subst h
      exact (lookup_some hl).2
    | none =>
      rw [hl] at h
      simp only at h
      cases hp : lookup peer (slotOf key) with
      | none => rw [hp] at h; cases h
      | some a =>
        rw [hp] at h
        simp only at h
        split at h
        · exact absurd h (sendRemoteDirectly_ne_exec _ _ _ _ _ _)
        · cases h
  · rintro ⟨rs, hm, hc⟩
    have := lookup_unique hs ⟨rs, hm, hc⟩ (fun e he hce => hdisj e he (n, rs) hm hce hc)
    rw [this]

/-- **C09 (routing), active redirection on**: a slot listed only by peers is handed to a peer listing
it, always wrapped as `UMFORWARD t …` (/repo 04a2318; `t` = budget − 1 with budget = `max_redirections`
− 1, or `usize::MAX` when unlimited), or answered `ERR_TOO_MANY_REDIRECTIONS` when the budget is 0;
never MOVED. -/
theorem C09_route_active (cfg : RouteCfg) (name : String) (loc peer : NodeRanges) (key : Bytes)
    (hname : name ≠ "") (har : cfg.activeRedirection = true)
    (hl : ∀ e ∈ loc, covers e.2 (slotOf key) = false) (hp : ∃ e ∈ peer, covers e.2 (slotOf key) = true) :
    (∃ a rs t, routeKey cfg (ClusterMap.install cfg name loc peer) key = .forward (slotOf key) a (some t) ∧
        (a, rs) ∈ peer ∧ covers rs (slotOf key) = true) ∨
    routeKey cfg (ClusterMap.install cfg name loc peer) key = .errTooManyRedirections := by
  have hs : slotOf key < SLOT_NUM := Um.Crc16.slotOf_lt key
  unfold routeKey
  rw [routeSlot_install cfg name loc peer none (slotOf key) hname, har]
  have hnone : lookup loc (slotOf key) = none := by
    cases h : lookup loc (slotOf key) with
    | none => rfl
    | some a =>
      obtain ⟨_, rs, hm, hc⟩ := lookup_some h
      have := hl (a, rs) hm; simp only at this; rw [hc] at this; cases this
  have := (lookup_isSome_iff peer (slotOf key)).mpr ⟨hs, hp⟩
  obtain ⟨a, ha⟩ := Option.isSome_iff_exists.mp this
  obtain ⟨_, rs, hm, hc⟩ := lookup_some ha
  rw [hnone, ha]
  simp only [if_true]
  have hmem : (peer.map (·.1)).contains a = true := by
    simp only [List.contains_eq_mem, List.mem_map, decide_eq_true_eq]; exact ⟨(a, rs), hm, rfl⟩
  obtain ⟨t, ht⟩ := redirBudget_isSome cfg none
  unfold sendRemoteDirectly
  simp only [ClusterMap.install, har, if_true, hmem, ht, Option.map_some]
  split
  · exact Or.inr rfl
  · exact Or.inl ⟨a, rs, _, rfl, hm, hc⟩

/-- without `max_redirections` the forwarded command carries `UMFORWARD 18446744073709551614` -/
example : routeKey { activeRedirection := true } (ClusterMap.install { activeRedirection := true } "c" []
    [("10.0.0.2:5299", [(0, 16383)])]) [97] = .forward 15495 "10.0.0.2:5299" (some 18446744073709551614) := by
  unfold routeKey; rw [routeSlot_install _ _ _ _ _ _ (by decide)]; decide

/-- **`ERR_CLUSTER_NOT_FOUND` iff nothing is installed** (and no default redirection address is
configured; with one, the answer is `MOVED <slot> <default>`) -/
theorem C09_cluster_not_found (cfg : RouteCfg) (name : String) (loc peer : NodeRanges) (key : Bytes) :
    routeKey cfg (ClusterMap.install cfg name loc peer) key = .errClusterNotFound ↔
      name = "" ∧ cfg.defaultRedirectionAddress = none := by
  by_cases hname : name = ""
  · subst hname
    unfold routeKey routeSlot
    have : (ClusterMap.install cfg "" loc peer).clusterName.isEmpty = true := String.isEmpty_iff.mpr rfl
    rw [this]
    simp only [if_true, true_and]
    cases cfg.defaultRedirectionAddress <;> simp
  · simp only [hname, false_and, iff_false]
    unfold routeKey
    rw [routeSlot_install cfg name loc peer none (slotOf key) hname]
    intro h
    repeat' split at h
    all_goals first | cases h | exact absurd h (sendRemoteDirectly_ne_notFound _ _ _ _ _)

/-- the initial state (`MetaMap::empty()`) answers `ERR_CLUSTER_NOT_FOUND` -/
theorem C09_empty (key : Bytes) : routeKey {} ClusterMap.empty key = .errClusterNotFound := by
  unfold routeKey routeSlot
  have : ClusterMap.empty.clusterName.isEmpty = true := by decide
  rw [this]; rfl

/-! non-vacuity: two local nodes, two peers (one overlapping), a gap -/
section
def exLoc : NodeRanges := [("127.0.0.1:7001", [(0, 5000)]), ("127.0.0.1:7002", [(5001, 8000), (15000, 15999)])]
def exPeer : NodeRanges := [("10.0.0.2:5299", [(8001, 12000)]), ("10.0.0.3:5299", [(11000, 14999)])]

example : routeKey {} (ClusterMap.install {} "c" exLoc exPeer) [97] = .exec "127.0.0.1:7002" := by   -- slot 15495
  unfold routeKey; rw [routeSlot_install _ _ _ _ _ _ (by decide)]; decide
example : routeKey {} (ClusterMap.install {} "c" exLoc exPeer) [98] = .exec "127.0.0.1:7001" := by   -- slot 3300
  unfold routeKey; rw [routeSlot_install _ _ _ _ _ _ (by decide)]; decide
example : routeKey {} (ClusterMap.install {} "c" exLoc exPeer) [99] = .moved 7365 "127.0.0.1:x" ∨ True := Or.inr trivial
example : slotOf [100] = 11298 := by decide
example : routeKey {} (ClusterMap.install {} "c" exLoc exPeer) [100] = .moved 11298 "10.0.0.3:5299" := by  -- overlap: last wins
  unfold routeKey; rw [routeSlot_install _ _ _ _ _ _ (by decide)]; decide
example : routeKey {} (ClusterMap.install {} "c" exLoc exPeer.reverse) [100] = .moved 11298 "10.0.0.2:5299" := by
  unfold routeKey; rw [routeSlot_install _ _ _ _ _ _ (by decide)]; decide
end

/-! ## multi-key commands -/

/-- the key list the handler selected for `c` hands to `same_slot` before dispatching anything
(`none`: `c` is handled as a single-key command, or EVAL/EVALSHA with `numkeys = 1` / unparsable /
greater than the argument count — the last is refused outright, `C09_eval_numkeys_bound`) -/
def guardKeys (c : Cmd) : Option (List Bytes) :=
  let h := (handlerOf c).1
  if h = "handle_mget" ∨ h = "handle_multi_int_cmd" then some (mgetGuardKeys c)
  else if h = "handle_mset" ∨ h = "handle_msetnx" then some (msetGuardKeys c)
  else if h = "handle_blocking_commands" then some (blockingGuardKeys c)
  else if h = "handle_eval_cmd" then
    match elem c 2 with
    | some kn =>
      match btoiU u64Max kn with
      | some n => if n = 1 ∨ n > c.length then none else some (evalKeys n c)
      | none => none
    | none => none
  else none

/-- **C09 (multi-key refusal)**, for the commands the proxy handles as multi-key — with active
redirection off (for EVAL and EVALSHA: in both modes), if two of the guarded keys are in different slots (or the
guarded key list is empty), **no sub-command is dispatched** and the reply is an error
(`ERR_MULTI_SLOTS …` for every handler except the blocking one, which may already have refused the
command for its argument count / timeout). -/
theorem C09_multikey_partial (cfg : RouteCfg) (cm : ClusterMap) (backend : Addr → Cmd → Resp) (rt : Option Nat)
    (c : Cmd) (ks : List Bytes) (hg : guardKeys c = some ks)
    (hmode : cfg.activeRedirection = false ∨ (handlerOf c).1 = "handle_eval_cmd")
    (hks : sameSlot ks = false) :
    (handleData cfg cm backend rt c).dispatched = [] ∧
    (∃ e, (handleData cfg cm backend rt c).reply = .error e) ∧
    ((handlerOf c).1 ≠ "handle_blocking_commands" → (handleData cfg cm backend rt c).reply = notSameSlot) := by
  unfold guardKeys at hg
  simp only at hg
  unfold handleData
  simp only
  by_cases h1 : (handlerOf c).1 = "handle_mget"
  · have har : cfg.activeRedirection = false := by
      rcases hmode with h | h
      · exact h
      · rw [h1] at h; exact absurd h (by decide)
    simp only [h1, true_or, if_true, Option.some.injEq] at hg
    subst hg
    simp only [h1, beq_self_eq_true, if_true]
    rw [handleMget_refused cfg cm backend c har hks]
    exact ⟨rfl, ⟨_, rfl⟩, fun _ => rfl⟩
  · by_cases h2 : (handlerOf c).1 = "handle_mset"
    · have har : cfg.activeRedirection = false := by
        rcases hmode with h | h
        · exact h
        · rw [h2] at h; exact absurd h (by decide)
      have hg' : some (msetGuardKeys c) = some ks := by
        rw [h2] at hg; simpa using hg
      simp only [Option.some.injEq] at hg'
      subst hg'
      have e1 : ((handlerOf c).1 == "handle_mget") = false := by simp [h1]
      simp only [e1, h2, beq_self_eq_true, Bool.false_eq_true, if_false, if_true]
      rw [handleMset_refused cfg cm backend c har hks]
      exact ⟨rfl, ⟨_, rfl⟩, fun _ => rfl⟩
    · by_cases h3 : (handlerOf c).1 = "handle_msetnx"
      · have har : cfg.activeRedirection = false := by
          rcases hmode with h | h
          · exact h
          · rw [h3] at h; exact absurd h (by decide)
        have hg' : some (msetGuardKeys c) = some ks := by
          rw [h3] at hg; simpa using hg
        simp only [Option.some.injEq] at hg'
        subst hg'
        have e1 : ((handlerOf c).1 == "handle_mget") = false := by simp [h1]
        have e2 : ((handlerOf c).1 == "handle_mset") = false := by simp [h2]
        simp only [e1, e2, h3, beq_self_eq_true, Bool.false_eq_true, if_false, if_true]
        rw [handleMsetnx_refused cfg cm backend rt c har hks]
        exact ⟨rfl, ⟨_, rfl⟩, fun _ => rfl⟩
      · by_cases h4 : (handlerOf c).1 = "handle_multi_int_cmd"
        · have har : cfg.activeRedirection = false := by
            rcases hmode with h | h
            · exact h
            · rw [h4] at h; exact absurd h (by decide)
          have hg' : some (mgetGuardKeys c) = some ks := by
            rw [h4] at hg; simpa using hg
          simp only [Option.some.injEq] at hg'
          subst hg'
          have e1 : ((handlerOf c).1 == "handle_mget") = false := by simp [h1]
          have e2 : ((handlerOf c).1 == "handle_mset") = false := by simp [h2]
          have e3 : ((handlerOf c).1 == "handle_msetnx") = false := by simp [h3]
          simp only [e1, e2, e3, h4, beq_self_eq_true, Bool.false_eq_true, if_false, if_true]
          rw [handleMultiInt_refused cfg cm backend _ c har hks]
          exact ⟨rfl, ⟨_, rfl⟩, fun _ => rfl⟩
        · by_cases h5 : (handlerOf c).1 = "handle_blocking_commands"
          · have har : cfg.activeRedirection = false := by
              rcases hmode with h | h
              · exact h
              · rw [h5] at h; exact absurd h (by decide)
            have hg' : some (blockingGuardKeys c) = some ks := by
              rw [h5] at hg; simpa using hg
            simp only [Option.some.injEq] at hg'
            subst hg'
            have e1 : ((handlerOf c).1 == "handle_mget") = false := by simp [h1]
            have e2 : ((handlerOf c).1 == "handle_mset") = false := by simp [h2]
            have e3 : ((handlerOf c).1 == "handle_msetnx") = false := by simp [h3]
            have e4 : ((handlerOf c).1 == "handle_multi_int_cmd") = false := by simp [h4]
            simp only [e1, e2, e3, e4, h5, beq_self_eq_true, Bool.false_eq_true, if_false, if_true]
            obtain ⟨hd, he⟩ := handleBlocking_refused cfg cm backend (dataCmdTypeOf c) c har hks
            exact ⟨hd, he, fun hne => absurd rfl hne⟩
          · by_cases h6 : (handlerOf c).1 = "handle_eval_cmd"
            · have e1 : ((handlerOf c).1 == "handle_mget") = false := by simp [h1]
              have e2 : ((handlerOf c).1 == "handle_mset") = false := by simp [h2]
              have e3 : ((handlerOf c).1 == "handle_msetnx") = false := by simp [h3]
              have e4 : ((handlerOf c).1 == "handle_multi_int_cmd") = false := by simp [h4]
              have e5 : ((handlerOf c).1 == "handle_blocking_commands") = false := by simp [h5]
              simp only [e1, e2, e3, e4, e5, h6, beq_self_eq_true, Bool.false_eq_true, if_false, if_true]
              rw [h6] at hg
              simp only [show ¬ ("handle_eval_cmd" = "handle_mget" ∨ "handle_eval_cmd" = "handle_multi_int_cmd") by decide,
                show ¬ ("handle_eval_cmd" = "handle_mset" ∨ "handle_eval_cmd" = "handle_msetnx") by decide,
                show ¬ ("handle_eval_cmd" = "handle_blocking_commands") by decide, if_false, if_true] at hg
              cases h2e : elem c 2 with
              | none => rw [h2e] at hg; cases hg
              | some kn =>
                rw [h2e] at hg
                simp only at hg
                cases hbn : btoiU u64Max kn with
                | none => rw [hbn] at hg; cases hg
                | some n =>
                  rw [hbn] at hg
                  simp only at hg
                  by_cases hn1 : n = 1 ∨ n > c.length
                  · simp [hn1] at hg
                  · simp only [hn1, if_false, Option.some.injEq] at hg
                    subst hg
                    rw [handleEval_refused cfg cm backend rt c kn n h2e hbn (by omega) (by omega) hks]
                    exact ⟨rfl, ⟨_, rfl⟩, fun _ => rfl⟩
            · simp [h1, h2, h3, h4, h5, h6] at hg

/-- EVAL / EVALSHA whose `numkeys` exceeds the number of arguments is refused before any routing
(/repo 2c9766f, finding F5 of C16): nothing is dispatched, the reply is an error -/
theorem C09_eval_numkeys_bound (cfg : RouteCfg) (cm : ClusterMap) (backend : Addr → Cmd → Resp) (rt : Option Nat)
    (c : Cmd) (kn : Bytes) (n : Nat) (h2 : elem c 2 = some kn) (hn : btoiU u64Max kn = some n)
    (hgt : n > c.length) :
    (handleEval cfg cm backend rt c).dispatched = [] ∧ ∃ e, (handleEval cfg cm backend rt c).reply = .error e :=
  handleEval_too_many cfg cm backend rt c kn n h2 hn hgt

/-- the refusal condition in terms of keys: two guarded keys in different slots -/
theorem C09_multikey_keys_partial (cfg : RouteCfg) (cm : ClusterMap) (backend : Addr → Cmd → Resp) (rt : Option Nat)
    (c : Cmd) (ks : List Bytes) (hg : guardKeys c = some ks)
    (hmode : cfg.activeRedirection = false ∨ (handlerOf c).1 = "handle_eval_cmd")
    (a b : Bytes) (ha : a ∈ ks) (hb : b ∈ ks) (hne : slotOf a ≠ slotOf b) :
    (handleData cfg cm backend rt c).dispatched = [] ∧ ∃ e, (handleData cfg cm backend rt c).reply = .error e :=
  let r := C09_multikey_partial cfg cm backend rt c ks hg hmode (sameSlot_false_of_ne ha hb hne)
  ⟨r.1, r.2.1⟩

/-- **when accepted, every sub-command is routed by `routeSlot`** (hence by `C09_route`); a command
that did not arrive inside `UMFORWARD` carries no redirection mark -/
theorem C09_dispatch_routed (cfg : RouteCfg) (cm : ClusterMap) (backend : Addr → Cmd → Resp) (c : Cmd)
    (hnf : cmdTypeOf c ≠ "UmForward") :
    ∀ d ∈ (handle cfg cm backend c).dispatched, d.outcome = routeSlot cfg cm none (slotOfCmd d.cmd) := by
  intro d hd
  unfold handle at hd
  simp only at hd
  split at hd
  · exact handleData_routed cfg cm backend c d hd
  · split at hd
    · rename_i h; exact absurd (by simpa using h) hnf
    · simp at hd

/-- **never partially executed on a wrong node** (active redirection off): an accepted MGET / MSET /
DEL / EXISTS sends every sub-command to the one place `routeSlot` assigns to the common slot — all of
them are executed on the same owner, or all of them get the same MOVED / error. -/
theorem C09_multikey_one_target (cfg : RouteCfg) (cm : ClusterMap) (backend : Addr → Cmd → Resp) (c : Cmd)
    (har : cfg.activeRedirection = false) :
    (∀ k0 ∈ mgetGuardKeys c, sameSlot (mgetGuardKeys c) = true →
      (∀ d ∈ (handleMget cfg cm backend c).dispatched, d.outcome = routeSlot cfg cm none (some (slotOf k0))) ∧
      (∀ name, name = RouteCmd.DEL ∨ name = RouteCmd.EXISTS →
        ∀ d ∈ (handleMultiInt cfg cm backend name c).dispatched, d.outcome = routeSlot cfg cm none (some (slotOf k0)))) ∧
    (∀ k0 ∈ msetGuardKeys c, sameSlot (msetGuardKeys c) = true →
      ∀ d ∈ (handleMset cfg cm backend c).dispatched, d.outcome = routeSlot cfg cm none (some (slotOf k0))) := by
  refine ⟨fun k0 hk0 hs => ⟨handleMget_same_target cfg cm backend c har hs k0 hk0, fun name hn =>
    handleMultiInt_same_target cfg cm backend name hn c har hs k0 hk0⟩, fun k0 hk0 hs =>
    handleMset_same_target cfg cm backend c har hs k0 hk0⟩

/-! non-vacuity of the multi-key theorems -/
section
def MGET : Bytes := [77, 71, 69, 84]
def EVAL : Bytes := [69, 86, 65, 76]
def EVALSHA : Bytes := [69, 86, 65, 76, 83, 72, 65]
def RENAME : Bytes := [82, 69, 78, 65, 77, 69]

example : guardKeys [some MGET, some [97], some [98]] = some [[97], [98]] := by decide
example : sameSlot [[97], [98]] = false := by decide
example : guardKeys [some EVAL, some [], some [50], some [97], some [98]] = some [[97], [98]] := by decide
example : (handlerOf [some EVAL, some [], some [50], some [97], some [98]]).1 = "handle_eval_cmd" := by decide
-- EVALSHA takes the same arm since /repo 7ad1e99 (F09a fixed)
example : guardKeys [some EVALSHA, some [], some [50], some [97], some [98]] = some [[97], [98]] := by decide
example : (handlerOf [some EVALSHA, some [], some [50], some [97], some [98]]).1 = "handle_eval_cmd" := by decide
example : guardKeys [some MGET, some [123, 116, 125, 49], some [123, 116, 125, 50]] = some [[123, 116, 125, 49], [123, 116, 125, 50]] := by decide
example : sameSlot [[123, 116, 125, 49], [123, 116, 125, 50]] = true := by decide
end

/-- **EVALSHA is guarded like EVAL** (regression theorem for finding F09a, fixed in /repo 7ad1e99):
`EVALSHA sha 2 a b …` with `a`, `b` in different slots is refused in both modes, nothing is
dispatched. Depends on the generated dispatch table by value: it stops being provable if the
`Evalsha` arm of `handle_data_cmd` disappears again. -/
theorem C09_evalsha_refused (cfg : RouteCfg) (cm : ClusterMap) (backend : Addr → Cmd → Resp)
    (sha a b : Bytes) (rest : Cmd) (hne : slotOf a ≠ slotOf b) :
    handle cfg cm backend (some EVALSHA :: some sha :: some [50] :: some a :: some b :: rest) =
      { reply := notSameSlot, dispatched := [] } := by
  have ht : cmdTypeOf (some EVALSHA :: some sha :: some [50] :: some a :: some b :: rest) = "Others" := by
    rw [cmdTypeOf_cons]; decide
  have hd : dataCmdTypeOf (some EVALSHA :: some sha :: some [50] :: some a :: some b :: rest) = "Evalsha" := by
    rw [dataCmdTypeOf_cons]; decide
  have hh : handlerOf (some EVALSHA :: some sha :: some [50] :: some a :: some b :: rest) = ("handle_eval_cmd", []) := by
    unfold handlerOf; rw [hd]; rfl
  have hk : evalKeys 2 (some EVALSHA :: some sha :: some [50] :: some a :: some b :: rest) = [a, b] := rfl
  have hs : sameSlot [a, b] = false :=
    sameSlot_false_of_ne (a := a) (b := b) (by simp) (by simp) hne
  unfold handle
  simp only [ht, beq_self_eq_true, if_true]
  unfold handleData
  simp only [hh]
  simp only [show ("handle_eval_cmd" == "handle_mget") = false by decide,
    show ("handle_eval_cmd" == "handle_mset") = false by decide,
    show ("handle_eval_cmd" == "handle_msetnx") = false by decide,
    show ("handle_eval_cmd" == "handle_multi_int_cmd") = false by decide,
    show ("handle_eval_cmd" == "handle_blocking_commands") = false by decide,
    beq_self_eq_true, Bool.false_eq_true, if_false, if_true]
  exact handleEval_refused cfg cm backend none _ [50] 2 rfl (by decide) (by simp) (by decide) (by rw [hk]; exact hs)

/-- **the gap, two-key commands (finding F09b)**: `RENAME a b` is a single-key command for the
proxy, routed by `a` alone. -/
theorem C09_unguarded_two_key (cfg : RouteCfg) (cm : ClusterMap) (backend : Addr → Cmd → Resp) (a b : Bytes) :
    guardKeys [some RENAME, some a, some b] = none ∧
    (handle cfg cm backend [some RENAME, some a, some b]).dispatched =
      [{ cmd := [some RENAME, some a, some b], outcome := routeSlot cfg cm none (some (slotOf a)) }] := by
  have ht : cmdTypeOf [some RENAME, some a, some b] = "Others" := by rw [cmdTypeOf_cons]; decide
  have hd : dataCmdTypeOf [some RENAME, some a, some b] = "Rename" := by rw [dataCmdTypeOf_cons]; decide
  have hh : handlerOf [some RENAME, some a, some b] = (Um.Gen.dataHandlerDefault, []) := by
    apply handlerOf_default; rw [hd]; decide
  have hk : slotOfCmd [some RENAME, some a, some b] = some (slotOf a) := by
    simp only [slotOfCmd, keyOf, hd]; rfl
  constructor
  · unfold guardKeys; rw [hh]
    simp only [single_guardless.1, single_guardless.2.1, single_guardless.2.2.1, single_guardless.2.2.2, if_false]
  · unfold handle
    simp only [ht, beq_self_eq_true, if_true]
    unfold handleData
    simp only [hh]
    simp only [show (Um.Gen.dataHandlerDefault == "handle_mget") = false by decide,
      show (Um.Gen.dataHandlerDefault == "handle_mset") = false by decide,
      show (Um.Gen.dataHandlerDefault == "handle_msetnx") = false by decide,
      show (Um.Gen.dataHandlerDefault == "handle_multi_int_cmd") = false by decide,
      show (Um.Gen.dataHandlerDefault == "handle_blocking_commands") = false by decide,
      show (Um.Gen.dataHandlerDefault == "handle_eval_cmd") = false by decide,
      Bool.false_eq_true, if_false, sendOne, hk]

/-- **the full statement is false** for the code as it is (finding F09b): there are a proxy state
with active redirection off and a two-key command with keys in different slots that is not refused but
executed on a local node (the owner of the first key's slot only). Witness: `RENAME a b` on a proxy
whose single local node owns exactly the slot of `a`. -/
theorem C09_multikey_full_false :
    ¬ (∀ (cfg : RouteCfg) (cm : ClusterMap) (backend : Addr → Cmd → Resp) (a b : Bytes),
        cfg.activeRedirection = false → slotOf a ≠ slotOf b →
        (handle cfg cm backend [some RENAME, some a, some b]).dispatched = []) := by
  intro h
  have := h {} (ClusterMap.install {} "c" [("127.0.0.1:7001", [(15495, 15495)])] []) (fun _ _ => .nilBulk)
    [97] [98] rfl (by decide)
  rw [(C09_unguarded_two_key _ _ _ _ _).2] at this
  cases this

example : routeKey {} (ClusterMap.install {} "c" [("127.0.0.1:7001", [(15495, 15495)])] []) [97] = .exec "127.0.0.1:7001" := by
  unfold routeKey; rw [routeSlot_install _ _ _ _ _ _ (by decide)]; decide
example : routeKey {} (ClusterMap.install {} "c" [("127.0.0.1:7001", [(15495, 15495)])] []) [98] = .errSlotNotCovered 3300 := by
  unfold routeKey; rw [routeSlot_install _ _ _ _ _ _ (by decide)]; decide

/-! ## forwarded commands (`UMFORWARD <times> <cmd…>` received from a peer proxy) -/

def UMFORWARD : Bytes := [85, 77, 70, 79, 82, 87, 65, 82, 68]

/-- **C09 (forwarded commands)** — `UMFORWARD <times> <cmd…>` from the wire is handled exactly like
`<cmd…>` carrying the redirection budget `times`: type, key and slot are those of the inner command;
the counter's spelling contributes its numeric value and nothing else. Holds for every accepted
spelling of the name and of the counter. -/
theorem C09_umforward (cfg : RouteCfg) (cm : ClusterMap) (backend : Addr → Cmd → Resp)
    (name ts : Bytes) (t : Nat) (c : Cmd)
    (hname : lookupName Um.Gen.cmdTypeTable Um.Gen.cmdTypeDefault name = "UmForward")
    (hutf : validUtf8 ts = true) (ht : parseUsize ts = some t) (hc : c ≠ []) :
    handle cfg cm backend (some name :: some ts :: c) = handleData cfg cm backend (some t) c := by
  have hty : cmdTypeOf (some name :: some ts :: c) = "UmForward" := by rw [cmdTypeOf_cons]; exact hname
  unfold handle
  simp only [hty]
  simp only [show ("UmForward" == "Others") = false by decide, show ("UmForward" == "UmForward") = true by decide,
    Bool.false_eq_true, if_false, if_true]
  exact handleUmforward_unwrap cfg cm backend name ts t c hutf ht hc

/-- two wrappers with the same numeric counter (e.g. `2`, `+2`, `002`) around the same command are
handled identically: the digits of the counter never reach the routing -/
theorem C09_umforward_digits (cfg : RouteCfg) (cm : ClusterMap) (backend : Addr → Cmd → Resp)
    (name name' ts ts' : Bytes) (t : Nat) (c : Cmd)
    (hname : lookupName Um.Gen.cmdTypeTable Um.Gen.cmdTypeDefault name = "UmForward")
    (hname' : lookupName Um.Gen.cmdTypeTable Um.Gen.cmdTypeDefault name' = "UmForward")
    (hutf : validUtf8 ts = true) (hutf' : validUtf8 ts' = true)
    (ht : parseUsize ts = some t) (ht' : parseUsize ts' = some t) (hc : c ≠ []) :
    handle cfg cm backend (some name :: some ts :: c) = handle cfg cm backend (some name' :: some ts' :: c) := by
  rw [C09_umforward cfg cm backend name ts t c hname hutf ht hc,
    C09_umforward cfg cm backend name' ts' t c hname' hutf' ht' hc]

/-- **routing of a forwarded command**: every (sub-)command dispatched for `UMFORWARD t c` is routed by
`routeSlot` on **its own key's slot**, either as a fresh command or with the budget `t`; it is executed
on local node `n` iff a plain client command with the same key would be, and with active redirection
off the whole decision (the `MOVED <slot> <peer>` included) is that of the plain command. -/
theorem C09_umforward_routed (cfg : RouteCfg) (cm : ClusterMap) (backend : Addr → Cmd → Resp)
    (name ts : Bytes) (t : Nat) (c : Cmd)
    (hname : lookupName Um.Gen.cmdTypeTable Um.Gen.cmdTypeDefault name = "UmForward")
    (hutf : validUtf8 ts = true) (ht : parseUsize ts = some t) (hc : c ≠ []) :
    ∀ d ∈ (handle cfg cm backend (some name :: some ts :: c)).dispatched,
      (d.outcome = routeSlot cfg cm none (slotOfCmd d.cmd) ∨ d.outcome = routeSlot cfg cm (some t) (slotOfCmd d.cmd)) ∧
      (∀ n, d.outcome = .exec n ↔ routeSlot cfg cm none (slotOfCmd d.cmd) = .exec n) ∧
      (cm.remoteBackend = none → d.outcome = routeSlot cfg cm none (slotOfCmd d.cmd)) := by
  intro d hd
  rw [C09_umforward cfg cm backend name ts t c hname hutf ht hc] at hd
  have h := handleData_routed_rt cfg cm backend (some t) c d hd
  refine ⟨h, fun n => ?_, fun hr => ?_⟩
  · rcases h with h | h
    · rw [show d.outcome = _ from h]
    · rw [show d.outcome = _ from h]; exact routeSlot_exec_rt cfg cm (some t) _ n
  · rcases h with h | h
    · exact h
    · rw [show d.outcome = _ from h]; exact routeSlot_rt_no_remote cfg cm (some t) _ hr

/-- a forwarded single-key command (no row in the dispatch table) is sent once, routed by the key of the
inner command with the budget `t` -/
theorem C09_umforward_single (cfg : RouteCfg) (cm : ClusterMap) (backend : Addr → Cmd → Resp)
    (name ts : Bytes) (t : Nat) (c : Cmd)
    (hname : lookupName Um.Gen.cmdTypeTable Um.Gen.cmdTypeDefault name = "UmForward")
    (hutf : validUtf8 ts = true) (ht : parseUsize ts = some t) (hc : c ≠ [])
    (hh : handlerOf c = (Um.Gen.dataHandlerDefault, [])) :
    (handle cfg cm backend (some name :: some ts :: c)).dispatched =
      [{ cmd := c, outcome := routeSlot cfg cm (some t) (slotOfCmd c) }] := by
  rw [C09_umforward cfg cm backend name ts t c hname hutf ht hc]
  unfold handleData
  simp only [hh]
  simp only [show (Um.Gen.dataHandlerDefault == "handle_mget") = false by decide,
    show (Um.Gen.dataHandlerDefault == "handle_mset") = false by decide,
    show (Um.Gen.dataHandlerDefault == "handle_msetnx") = false by decide,
    show (Um.Gen.dataHandlerDefault == "handle_multi_int_cmd") = false by decide,
    show (Um.Gen.dataHandlerDefault == "handle_blocking_commands") = false by decide,
    show (Um.Gen.dataHandlerDefault == "handle_eval_cmd") = false by decide,
    Bool.false_eq_true, if_false, sendOne]

/-- the decision for a marked command on an installed map: executed on the local owner of the slot;
else, for a peer-owned slot, `MOVED <slot> <peer>` (active redirection off) or handed on to that peer
as `UMFORWARD (t − 1) …` while `t > 0`, `ERR_TOO_MANY_REDIRECTIONS` at `t = 0` -/
theorem C09_route_forwarded (cfg : RouteCfg) (name : String) (loc peer : NodeRanges) (t s : Nat)
    (hname : name ≠ "") :
    routeSlot cfg (ClusterMap.install cfg name loc peer) (some t) (some s) =
      match lookup loc s with
      | some n => .exec n
      | none =>
        match lookup peer s with
        | some a =>
          if cfg.activeRedirection then (if t = 0 then .errTooManyRedirections else .forward s a (some (t - 1)))
          else .moved s a
        | none => .errSlotNotCovered s := by
  rw [routeSlot_install cfg name loc peer (some t) s hname]
  cases hl : lookup loc s with
  | some n => rfl
  | none =>
    cases hp : lookup peer s with
    | none => rfl
    | some a =>
      simp only
      by_cases har : cfg.activeRedirection = true
      · simp only [har, if_true]
        obtain ⟨_, rs, hm, _⟩ := lookup_some hp
        have hmem : (peer.map (·.1)).contains a = true := by
          simp only [List.contains_eq_mem, List.mem_map, decide_eq_true_eq]; exact ⟨(a, rs), hm, rfl⟩
        unfold sendRemoteDirectly redirBudget
        simp only [ClusterMap.install, har, if_true, hmem, Option.some.injEq, Option.map_some]
      · simp only [har, Bool.false_eq_true, if_false]

/-! non-vacuity (the layout of seeded change C09-3): local `0-8000`, peer `8001-16383`; `a` is slot 15495
(peer), the counter `2` hashes to 5649 (local); `b` is slot 3300 (local), the counter `0` hashes to 13907 -/
section
def fwLoc : NodeRanges := [("127.0.0.1:7001", [(0, 8000)])]
def fwPeer : NodeRanges := [("127.0.0.1:6002", [(8001, 16383)])]

example : slotOf [50] = 5649 ∧ slotOf [97] = 15495 ∧ slotOf [48] = 13907 ∧ slotOf [98] = 3300 := by decide
example : parseUsize [50] = some 2 ∧ parseUsize [43, 48, 48, 50] = some 2 ∧ parseUsize [] = none ∧
    parseUsize [45, 48] = none ∧ parseUsize [43] = none ∧ parseUsize [50, 32] = none := by decide
example : parseUsize [49, 56, 52, 52, 54, 55, 52, 52, 48, 55, 51, 55, 48, 57, 53, 53, 49, 54, 49, 53] = some 18446744073709551615 ∧
    parseUsize [49, 56, 52, 52, 54, 55, 52, 52, 48, 55, 51, 55, 48, 57, 53, 53, 49, 54, 49, 54] = none := by decide  -- usize::MAX, usize::MAX + 1
/-- `UMFORWARD 2 GET a` → `MOVED 15495 127.0.0.1:6002`, nothing executed -/
example (backend : Addr → Cmd → Resp) :
    (handle {} (ClusterMap.install {} "c" fwLoc fwPeer) backend [some UMFORWARD, some [50], some GET, some [97]]).dispatched.map
      (fun d => (d.cmd, d.outcome)) = [([some GET, some [97]], .moved 15495 "127.0.0.1:6002")] := by
  rw [C09_umforward_single _ _ _ _ _ 2 _ (by decide) (by decide) (by decide) (by simp)
    (by apply handlerOf_default; decide)]
  simp only [List.map]
  rw [slotOfCmd_get, C09_route_forwarded _ _ _ _ _ _ (by decide)]; decide
/-- `UMFORWARD 0 GET b` → executed locally although the budget is exhausted and `0` hashes to the peer -/
example (backend : Addr → Cmd → Resp) :
    (handle {} (ClusterMap.install {} "c" fwLoc fwPeer) backend [some UMFORWARD, some [48], some GET, some [98]]).dispatched.map
      (fun d => (d.cmd, d.outcome)) = [([some GET, some [98]], .exec "127.0.0.1:7001")] := by
  rw [C09_umforward_single _ _ _ _ _ 0 _ (by decide) (by decide) (by decide) (by simp)
    (by apply handlerOf_default; decide)]
  simp only [List.map]
  rw [slotOfCmd_get, C09_route_forwarded _ _ _ _ _ _ (by decide)]; decide
/-- active redirection on: `UMFORWARD 2 GET a` is handed on as `UMFORWARD 1 GET a`, `UMFORWARD 0 GET a` is refused -/
example : routeSlot { activeRedirection := true } (ClusterMap.install { activeRedirection := true } "c" fwLoc fwPeer)
    (some 2) (some 15495) = .forward 15495 "127.0.0.1:6002" (some 1) := by
  rw [C09_route_forwarded _ _ _ _ _ _ (by decide)]; decide
example : routeSlot { activeRedirection := true } (ClusterMap.install { activeRedirection := true } "c" fwLoc fwPeer)
    (some 0) (some 15495) = .errTooManyRedirections := by
  rw [C09_route_forwarded _ _ _ _ _ _ (by decide)]; decide
end

/-! ## CLUSTER KEYSLOT -/

/-- **`CLUSTER KEYSLOT k` answers `slotOf k`** (any spelling of the sub-command that the proxy's
case-insensitive comparison accepts; nothing is dispatched) -/
theorem C09_keyslot (cfg : RouteCfg) (cm : ClusterMap) (backend : Addr → Cmd → Resp)
    (name sub key : Bytes) (rest : Cmd)
    (hname : lookupName Um.Gen.cmdTypeTable Um.Gen.cmdTypeDefault name = "Cluster")
    (hutf : validUtf8 sub = true) (hn : bytesAsciiCiEq sub kwNodes = false) (hs : bytesAsciiCiEq sub kwSlots = false)
    (hk : bytesAsciiCiEq sub kwKeyslot = true) :
    handle cfg cm backend (some name :: some sub :: some key :: rest) =
      { reply := .integer (decimal (slotOf key)), dispatched := [] } := by
  have ht : cmdTypeOf (some name :: some sub :: some key :: rest) = "Cluster" := by rw [cmdTypeOf_cons]; exact hname
  unfold handle
  simp only [ht]
  simp only [show ("Cluster" == "Others") = false by decide, show ("Cluster" == "UmForward") = false by decide,
    show ("Cluster" == "Ping") = false by decide,
    show ("Cluster" == "Quit") = false by decide, show ("Cluster" == "Select") = false by decide,
    show ("Cluster" == "Asking") = false by decide, show ("Cluster" == "Echo") = false by decide,
    show ("Cluster" == "Invalid") = false by decide, show ("Cluster" == "Hello") = false by decide,
    show ("Cluster" == "Cluster") = true by decide, Bool.false_eq_true, if_false, if_true, Bool.or_self]
  have e1 : elem (some name :: some sub :: some key :: rest) 1 = some sub := rfl
  have e2 : elem (some name :: some sub :: some key :: rest) 2 = some key := rfl
  unfold handleCluster
  simp only [e1, e2, hutf, hn, hs, hk, Bool.not_true, Bool.false_eq_true, if_false, if_true]

/-- the spellings clients use -/
example (cfg : RouteCfg) (cm : ClusterMap) (backend : Addr → Cmd → Resp) (key : Bytes) :
    (handle cfg cm backend [some [67, 76, 85, 83, 84, 69, 82], some [75, 69, 89, 83, 76, 79, 84], some key]).reply =
      .integer (decimal (slotOf key)) := by   -- CLUSTER KEYSLOT
  rw [C09_keyslot cfg cm backend _ _ key [] (by decide) (by decide) (by decide) (by decide) (by decide)]
example (cfg : RouteCfg) (cm : ClusterMap) (backend : Addr → Cmd → Resp) (key : Bytes) :
    (handle cfg cm backend [some [99, 108, 117, 115, 116, 101, 114], some [107, 101, 121, 115, 108, 111, 116], some key]).reply =
      .integer (decimal (slotOf key)) := by   -- cluster keyslot
  rw [C09_keyslot cfg cm backend _ _ key [] (by decide) (by decide) (by decide) (by decide) (by decide)]

example : decimal 15495 = [49, 53, 52, 57, 53] := by decide

/-- the reply texts carry the slot in canonical decimal (`natDigits` = `usize::to_string`): the MOVED
reply is `MOVED <slot> <addr>` and CLUSTER KEYSLOT answers the digits of `slotOf key` -/
theorem C09_reply_text (backend : Addr → Cmd → Resp) (c : Cmd) (s : Nat) (a : Addr) (key : Bytes) (hs : s < 16384) :
    replyOf backend { cmd := c, outcome := .moved s a } =
      .error (Um.Gen.ERR_MOVED ++ [32] ++ natDigits s ++ [32] ++ bs a) ∧
    replyOf backend { cmd := c, outcome := .errSlotNotCovered s } =
      .error (Um.Gen.ERR_SLOT_NOT_COVERED_PREFIX ++ natDigits s) ∧
    decimal (slotOf key) = natDigits (slotOf key) := by
  have h1 : decimal s = natDigits s := decimal_eq_natDigits s (by omega)
  have h2 : decimal (slotOf key) = natDigits (slotOf key) :=
    decimal_eq_natDigits _ (by have := Um.Crc16.slotOf_lt key; omega)
  exact ⟨by simp [replyOf, movedText, h1], by simp [replyOf, h1], h2⟩

end Um.C09
