import UmProofs.BrokerEpochRecover
/-!
# C13 — Broker state loss is recoverable by epoch recovery

The snapshot a restarted broker loads is *any* reachable state `s` (a prefix of any history —
mid-migration and mid-failover included). `PUT /api/v3/epoch/recovery` runs
`MemBrokerService::recover_epoch`: it asks every proxy for its epoch (`fetch_max_epoch`,
result `E`; abstract here — any `E`), calls `MemoryStorage::recover_epoch(E + 1)`, which calls
`MetaStore::recover_epoch(E + 1 + 1)` = `recoverEpoch s (E + 2)` (`serviceRecoverEpoch`; the two
increments are generated constants).

* `C13_recover`: afterwards the global epoch exceeds `E` and the old global epoch, and every
  cluster epoch equals the global epoch;
* `C13_floor_step`, `C13_views_after_recovery`: "global epoch and all cluster epochs `≥ K`" is
  preserved by every operation, hence every view (`get_proxy_by_address`, `get_cluster_by_name`,
  any `migration_limit`) served by the recovered broker or by any state reached from it by
  further operations carries an epoch `> E` — strictly newer than what any proxy holds;
* `C13_recovered_reachable`, `C13_epochInv`: the recovered state is itself a reachable state
  (`recover_epoch` is an `Op`), so `EpochInv` and every theorem about reachable states (C04 in
  particular) applies to the recovered broker;
* `C13_only_epochs`, `C13_epoch_blind`, `C13_inv_untouched`: recovery changes nothing but the
  global epoch and the cluster epochs, so every invariant that does not read them (`ResInv`,
  `PosInv`, `TwinInv`, `SlotInv`) is carried over; with `EpochInv`: `BrokerInv` is preserved;
* `restore` (PUT /api/v3/metadata, the replica path): version guard, `SmallEpoch` guard;
  `C13_restore_mono`: an accepted restore never lowers the global epoch; a rejected one changes
  nothing; `C13_restore_then_recover`: after restoring any reachable snapshot (however stale) and running
  recovery with the proxies' largest epoch, the same guarantee holds.
-/
namespace Um.Broker.C13
open Um Um.Slots Um.Broker Um.Broker.Epoch

/-- the generated constants the statements below depend on: the call chain adds at least one, the
external-storage variant adds the same as the in-memory one, and `MetaStore::recover_epoch` uses
`global_epoch + 1` as the model's `recoverEpoch` does -/
theorem C13_source_tie :
    1 ≤ Um.Gen.EpochRecovery.SERVICE_INC + Um.Gen.EpochRecovery.STORAGE_INC ∧
    Um.Gen.EpochRecovery.EXTERNAL_STORAGE_INC = Um.Gen.EpochRecovery.STORAGE_INC ∧
    (∀ s x, (recoverEpoch s x).globalEpoch = max x (s.globalEpoch + Um.Gen.EpochRecovery.STORE_GLOBAL_INC)) := by
  refine ⟨by decide, by decide, fun s x => rfl⟩

/-- the effect of recovery on the epochs, for any store and any `E` -/
theorem C13_recover (s : Store) (E : Nat) :
    let s' := serviceRecoverEpoch s E
    E < s'.globalEpoch ∧ s.globalEpoch < s'.globalEpoch ∧ ∀ c ∈ s'.clusters, c.epoch = s'.globalEpoch := by
  have htie := C13_source_tie.1
  simp only [serviceRecoverEpoch, recoverEpoch]
  refine ⟨by omega, by omega, fun c hc => ?_⟩
  obtain ⟨x, _, rfl⟩ := List.mem_map.mp hc
  rfl

/-- the recovered state is a reachable state of the model -/
theorem C13_recovered_reachable (s : Store) (hs : Reachable s) (E : Nat) :
    Reachable (serviceRecoverEpoch s E) :=
  Reachable.step (.recover (E + Um.Gen.EpochRecovery.SERVICE_INC + Um.Gen.EpochRecovery.STORAGE_INC)) hs

theorem C13_epochInv (s : Store) (hs : Reachable s) (E : Nat) : EpochInv (serviceRecoverEpoch s E) :=
  epochInv_reachable _ (C13_recovered_reachable s hs E)

/-- "all epochs `≥ K`" is preserved by every operation -/
theorem C13_floor_step (K : Nat) (s : Store) (hs : Reachable s) (op : Op) (h : FloorInv K s) :
    FloorInv K (step s op) := floor_step hs op h

/-- every view served after recovery — immediately or after any further operations — is strictly
newer than `E` -/
theorem C13_views_after_recovery (s : Store) (hs : Reachable s) (E : Nat) (ops : List Op) :
    let u := ops.foldl step (serviceRecoverEpoch s E)
    (∀ a limit v, proxyView u a limit = .ok (some v) → E < v.epoch) ∧
    (∀ n limit v, clusterView u n limit = .ok (some v) → E < v.epoch) ∧
    E < u.globalEpoch := by
  intro u
  have hrec := C13_recover s E
  have hfl0 : FloorInv (E + 1) (serviceRecoverEpoch s E) :=
    ⟨hrec.1, fun c hc => by rw [hrec.2.2 c hc]; exact hrec.1⟩
  have hfl : FloorInv (E + 1) u :=
    floor_steps (C13_recovered_reachable s hs E) (steps_foldl _ ops) hfl0
  refine ⟨fun a limit v hv => ?_, fun n limit v hv => ?_, hfl.1⟩
  · obtain ⟨p, _, e⟩ := proxyView_epoch hv
    rw [e]; exact servedEpoch_floor hfl p
  · obtain ⟨c, hc, e⟩ := clusterView_epoch hv
    rw [e]; exact hfl.2 c hc

/-! ## recovery touches nothing but epochs -/

theorem C13_only_epochs (s : Store) (x : Nat) : eraseEpochs (recoverEpoch s x) = eraseEpochs s := by
  simp only [eraseEpochs, recoverEpoch, List.map_map]
  rfl

/-- any predicate that cannot see those epochs is carried over -/
theorem C13_epoch_blind (P : Store → Prop) (hP : ∀ s1 s2, eraseEpochs s1 = eraseEpochs s2 → P s1 → P s2)
    (s : Store) (x : Nat) (h : P s) : P (recoverEpoch s x) :=
  hP _ _ (C13_only_epochs s x).symm h

/-- the invariant packages of `BrokerDefs` survive recovery (`EpochInv` because recovery re-epochs
consistently, the others because they do not read what recovery writes) -/
theorem C13_inv_untouched (s : Store) (x : Nat) (h : BrokerInv s) : BrokerInv (recoverEpoch s x) := by
  obtain ⟨he, hr, hc⟩ := h
  refine ⟨(recoverEpoch_ok s x).epoch he, resInv_recover s x hr, fun c' hc' => ?_⟩
  obtain ⟨c, hcm, rfl⟩ := List.mem_map.mp hc'
  exact hc c hcm

/-! ## `MetaStore::restore` (PUT /api/v3/metadata) -/

/-- an accepted restore never lowers the global epoch (and installs `other`); a rejected one
leaves the store untouched -/
theorem C13_restore_mono (sv : String) (self : Store) (ov : String) (other : Store) :
    self.globalEpoch ≤ (restore sv self ov other).1.globalEpoch ∧
    ((restore sv self ov other).2 = none → (restore sv self ov other).1 = other ∧ sv = ov) ∧
    ((restore sv self ov other).2 ≠ none → (restore sv self ov other).1 = self) := by
  unfold restore
  split
  · exact ⟨Nat.le_refl _, fun h => (by cases h), fun _ => rfl⟩
  · rename_i hv
    split
    · exact ⟨Nat.le_refl _, fun h => (by cases h), fun _ => rfl⟩
    · rename_i hg
      refine ⟨?_, fun _ => ⟨rfl, by simpa using hv⟩, fun h => absurd rfl h⟩
      exact epochRejected_false (by simpa using hg)

/-- the `restore` of the statements here is the function the correspondence drives: the broker
stream's `push_snap` runs the real `MetaStore::restore` on a live store against `restoreInto`
(same version on both sides, as everywhere in one build of the crate) -/
theorem C13_restore_driven (v : String) (s o : Store) :
    (restore v s v o).1 = (restoreInto s o).1 ∧
    ((restore v s v o).2 = none ↔ (restoreInto s o).2 matches .ok _) ∧
    ((restore v s v o).2 = some .smallEpoch ↔ (restoreInto s o).2 matches .err .smallEpoch) := by
  unfold restore restoreInto epochRejected
  have hc : Um.Gen.EpochRecovery.RESTORE_REJECTS_EQUAL = false := by decide
  simp only [bne_self_eq_false, Bool.false_eq_true, if_false, hc]
  by_cases h : s.globalEpoch > o.globalEpoch <;> simp [h]

/-- the replica path end to end: whatever reachable snapshot `other` a broker was restored from,
recovery with the proxies' largest epoch `E` makes every later view newer than `E` and keeps the
global epoch above the one the broker had before the restore -/
theorem C13_restore_then_recover (sv ov : String) (self other : Store) (ho : Reachable other) (E : Nat)
    (hacc : (restore sv self ov other).2 = none) (ops : List Op) :
    let u := ops.foldl step (serviceRecoverEpoch (restore sv self ov other).1 E)
    self.globalEpoch < u.globalEpoch ∧
    (∀ a limit v, proxyView u a limit = .ok (some v) → E < v.epoch) ∧
    (∀ n limit v, clusterView u n limit = .ok (some v) → E < v.epoch) := by
  intro u
  have hm := C13_restore_mono sv self ov other
  have heq := (hm.2.1 hacc).1
  have hu : u = ops.foldl step (serviceRecoverEpoch other E) := by simp only [u, heq]
  have hv := C13_views_after_recovery other ho E ops
  have h1 := (C13_recover other E).2.1
  have h2 := (steps_foldl (serviceRecoverEpoch other E) ops).mono
  have h3 := hm.1
  rw [heq] at h3
  rw [hu]
  exact ⟨by omega, hv.1, hv.2.1⟩

/-! ## non-vacuity -/

def demo : List Op := [
  .addProxy "h1:1" "n1" "n2" none none, .addProxy "h1:2" "n3" "n4" none none,
  .addProxy "h2:1" "n5" "n6" none none, .addProxy "h2:2" "n7" "n8" none none,
  .addCluster "c" 4 [("h1:1", "h2:1")]]

-- snapshot with global epoch 5; proxies report up to 40: recovered epochs are 42
example : (run demo).globalEpoch = 5 ∧ (serviceRecoverEpoch (run demo) 40).globalEpoch = 42 ∧
    (serviceRecoverEpoch (run demo) 40).clusters.map (·.epoch) = [42] := by decide
-- proxies report less than the snapshot holds: `global + 1` wins
example : (serviceRecoverEpoch (run demo) 1).globalEpoch = 6 := by decide
example : ∃ v, proxyView (step (serviceRecoverEpoch (run demo) 40) (.balance "c")) "h1:1" 0 = .ok (some v) ∧
    v.epoch = 43 := ⟨_, rfl, rfl⟩
example : ∃ v, clusterView (serviceRecoverEpoch (run demo) 40) "c" 1 = .ok (some v) ∧ v.epoch = 42 :=
  ⟨_, rfl, rfl⟩
example : FloorInv 42 (serviceRecoverEpoch (run demo) 40) := by
  have h := C13_recover (run demo) 40
  have hg : (serviceRecoverEpoch (run demo) 40).globalEpoch = 42 := by decide
  exact ⟨by omega, fun c hc => by rw [h.2.2 c hc]; omega⟩
example : (restore "v" (run demo) "v" (step (run demo) (.balance "c"))).2 = none := by decide
example : (restore "v" (step (run demo) (.balance "c")) "v" (run demo)).2 = some .smallEpoch := by decide
example : (restore "v" (run demo) "w" (run demo)).2 = some .invalidMetaVersion := by decide
-- the guard is on the global epoch only: a store with the same global epoch but an older cluster
-- epoch is accepted (epoch recovery is what re-establishes monotonicity on that path)
example : (restore "v" (run demo) "v"
    { (run demo) with clusters := (run demo).clusters.map fun c => { c with epoch := 1 } }).2 = none := by
  decide

/-- ordered-proxy mode (`enable_ordered_proxy = true`): the snapshot carries the mode, recovery keeps it -/
def demoOrdered : List Op := [
  .setOrdered,
  .addProxy "h1:1" "n1" "n2" none (some 0), .addProxy "h1:2" "n3" "n4" none (some 1),
  .addCluster "c" 4 [("h1:1", "h1:2")]]

example : (run demoOrdered).ordered = true ∧ (serviceRecoverEpoch (run demoOrdered) 40).ordered = true ∧
    (serviceRecoverEpoch (run demoOrdered) 40).globalEpoch = 42 ∧
    (serviceRecoverEpoch (run demoOrdered) 40).clusters.map (·.epoch) = [42] := by decide
example : ∃ v, proxyView (step (serviceRecoverEpoch (run demoOrdered) 40) (.failover "h1:1" "-")) "h1:2" 0 =
    .ok (some v) ∧ v.epoch = 43 := ⟨_, rfl, rfl⟩

end Um.Broker.C13
