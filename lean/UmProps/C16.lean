import UmModel.ParserCost
import UmProofs.ParserCostTop
import UmProofs.ParserCostHandlers
/-!
# C16 — No client input can crash, abort or wedge a proxy

The logic part of the property, on the executable model `UmModel/ParserCost.lean`:

* **parser** (`src/protocol/stateless.rs`, through `RespCodec::decode` in `handle_session`):
  `parseC c b = (verdict, cost)`; `cost.allocBytes` is the memory requested from the allocator
  (`allocRequested`), `cost.steps` the work, `cost.height` the recursion depth.
* **executor** (`src/proxy/executor.rs`, `command.rs`, `slowlog.rs`): every modelled handler
  returns an `HOut`; `panic` and `wedge` (request never answered) are explicit outcomes.

`Cfg` / `HCfg` select the code variant.  `Cfg.cur` / `HCfg.cur` is what the extractor sees in /repo/src
on this run: since the fix commits F4 95be7d4, F5 2c9766f, F16a 0d5fc60, F16b 3074c1a, F16c 8a9faf8,
F16d 23e5d8f, F16e b391770 every switch (`capRemaining`, `maxNesting = 128`, `numkeysBounded`,
`blockingEmptyGuard`, `slowlogBoundarySafe`, `rangeMapBounded`, `compressedCompact`) is on, and the
section "the current tree" instantiates the full statements there (`*_cur`).  `pinned` / `hPinned` is
the tree before those fixes: the `_partial` theorems (any variant, under guards) and the
`_full_false` witnesses are statements about those switch values and document what the fixes removed.
-/
namespace Um.PC.C16
open Um Um.PC

/-- the parser of the pinned tree, `size_of::<RespIndex>() = 32` -/
def pinned : Cfg := ⟨false, false, none, 32⟩
/-- the executor of the pinned tree (release profile: no overflow checks), either redirection mode -/
def hPinned (ar : Bool) : HCfg := ⟨ar, false, false, false, false, 1024⟩

def str (s : String) : Bytes := bytesOfString s
def bulk (s : String) : Option Bytes := some (bytesOfString s)

/-! ## the parser: allocation -/

/-- **C16_alloc (full statement)** — with the capacity capped by the bytes left (f4.diff) and a
nesting limit `M` (f16b.diff), one `parse_resp(buf)` call requests at most
`c₁ · buf.len() + c₂` bytes, `c₁ = c₂ = size_of::<RespIndex>() · (M + 1)`. -/
theorem C16_alloc (c : Cfg) (M : Nat) (hcap : c.capRemaining = true) (hM : c.maxNesting = some M) (b : Bytes) :
    (parseC c b).2.allocBytes c ≤ (c.elemSize * (M + 1)) * b.length + c.elemSize * (M + 1) := by
  have f := parseC_facts c b
  have h1 := f.alloc_le (.inl hcap)
  have h2 := f.nest M hM
  have h3 : (b.length + 1) * (parseC c b).2.height ≤ (b.length + 1) * (M + 1) := Nat.mul_le_mul_left _ h2
  have h4 : (parseC c b).2.alloc * c.elemSize ≤ ((b.length + 1) * (M + 1)) * c.elemSize :=
    Nat.mul_le_mul_right _ (Nat.le_trans h1 h3)
  unfold Cost.allocBytes
  have e : (c.elemSize * (M + 1)) * b.length + c.elemSize * (M + 1) = ((b.length + 1) * (M + 1)) * c.elemSize := by
    rw [Nat.add_mul, Nat.one_mul, Nat.add_mul, Nat.mul_comm (b.length * (M + 1)) c.elemSize,
      Nat.mul_comm (M + 1) c.elemSize, Nat.mul_assoc, Nat.mul_comm (M + 1) b.length]
  omega

/-- **C16_alloc_partial** — any variant (the current code included): if no array header visited
by the parser declared more elements than there were bytes left (`over = false`), the bytes
requested are at most `size_of::<RespIndex>() · (buf.len() + 1) · height`, and the recursion
height is at most `buf.len() + 1`.  (Linear for bounded nesting, quadratic otherwise: nested
headers that each declare "everything that is left" are within the guard.) -/
theorem C16_alloc_partial (c : Cfg) (b : Bytes) (hover : (parseC c b).2.over = false) :
    (parseC c b).2.allocBytes c ≤ c.elemSize * ((b.length + 1) * (parseC c b).2.height) ∧
    (parseC c b).2.height ≤ b.length + 1 := by
  have f := parseC_facts c b
  refine ⟨?_, f.h_le⟩
  unfold Cost.allocBytes
  rw [Nat.mul_comm]
  exact Nat.mul_le_mul_left _ (f.alloc_le (.inr hover))

/-- F4 witness: 14 bytes make the pinned parser request 3 199 999 999 968 bytes before it has
read a single element -/
theorem C16_alloc_witness :
    (parseC pinned (str "*99999999999\r\n")).2.allocBytes pinned = 3199999999968 ∧
    (str "*99999999999\r\n").length = 14 := by
  decide +kernel

/-- **negation of the full statement on the pinned tree (F4)**: no linear bound with constants
below 10¹⁰ holds -/
theorem C16_alloc_full_false :
    ¬ ∃ c₁ c₂, c₁ ≤ 10000000000 ∧ c₂ ≤ 10000000000 ∧
      ∀ b, (parseC pinned b).2.allocBytes pinned ≤ c₁ * b.length + c₂ := by
  rintro ⟨c₁, c₂, h1, h2, h⟩
  have hw := h (str "*99999999999\r\n")
  rw [C16_alloc_witness.1, C16_alloc_witness.2] at hw
  omega

/-! ## the parser: time and stack -/

/-- **C16_steps (parser, one `parse_resp` call)** — `steps ≤ 2 · (n + 1) · height` with
`height ≤ n + 1`, `n = buf.len()`: hence `steps ≤ 2·(n+1)²` on any variant (`advance` re-walks
the sub-tree at every nesting level), and `steps ≤ 2·(M+1)·(n+1)` — linear — with a nesting
limit `M`. -/
theorem C16_steps (c : Cfg) (b : Bytes) :
    (parseC c b).2.steps ≤ 2 * ((b.length + 1) * (parseC c b).2.height) ∧
    (parseC c b).2.height ≤ b.length + 1 ∧
    (parseC c b).2.steps ≤ 2 * ((b.length + 1) * (b.length + 1)) ∧
    (∀ M, c.maxNesting = some M → (parseC c b).2.steps ≤ 2 * ((b.length + 1) * (M + 1))) := by
  have f := parseC_facts c b
  refine ⟨f.steps_le, f.h_le, ?_, ?_⟩
  · have := Nat.mul_le_mul_left (b.length + 1) f.h_le
    have := f.steps_le
    omega
  · intro M hM
    have := Nat.mul_le_mul_left (b.length + 1) (f.nest M hM)
    have := f.steps_le
    omega

/-- **C16_steps (parser, across re-parses)** — `RespCodec::decode` parses the buffered bytes from
scratch whenever more bytes arrive; in the worst case (a decode attempt after every byte of an
`n`-byte packet) the total is at most `(n + 1)` times the single-call bound: cubic without a
nesting limit, `2·(M+1)·(n+1)²` — quadratic, "by design" — with one. -/
theorem C16_steps_reparse (c : Cfg) (b : Bytes) :
    reparseSteps c b ≤ (b.length + 1) * (2 * ((b.length + 1) * (b.length + 1))) ∧
    (∀ M, c.maxNesting = some M → reparseSteps c b ≤ (b.length + 1) * (2 * ((b.length + 1) * (M + 1)))) := by
  refine ⟨?_, ?_⟩
  · apply reparseSteps_le
    intro i
    have := (parseC_facts c (b.take i)).h_le
    have : (b.take i).length ≤ b.length := by simp; omega
    omega
  · intro M hM
    apply reparseSteps_le
    intro i
    exact (parseC_facts c (b.take i)).nest M hM

/-- `*1\r\n` repeated `n` times, then `*0\r\n` -/
def nest (n : Nat) : Bytes := (List.replicate n (str "*1\r\n")).flatten ++ str "*0\r\n"

/-- F16b witness: on the pinned tree the recursion depth grows with the input (one `parse_resp`
+ `parse_array` frame pair per 4 bytes), and the work grows quadratically: 164 bytes → 41
levels, 1 926 steps; 404 bytes → 101 levels, 10 806 steps.  (Measured on the real binary:
48 000 bytes overflow the 2 MiB worker stack — SIGABRT of the whole process.) -/
theorem C16_depth_witness :
    (parseC pinned (nest 40)).2.height = 41 ∧ (parseC pinned (nest 40)).2.steps = 1926 ∧
    (parseC pinned (nest 100)).2.height = 101 ∧ (parseC pinned (nest 100)).2.steps = 10806 := by
  decide +kernel

/-- with the nesting limit the same input is rejected after `M + 1` levels -/
theorem C16_depth_limited (c : Cfg) (M : Nat) (hM : c.maxNesting = some M) (b : Bytes) :
    (parseC c b).2.height ≤ M + 1 :=
  (parseC_facts c b).nest M hM

/-! ## the parser: no panic -/

/-- the fuel of the model is never exhausted: `parseC` is the code's function -/
theorem parseC_ne_fuel (c : Cfg) (b : Bytes) : (parseC c b).1 ≠ .error .fuel :=
  (parseC_facts c b).no_fuel

/-- **C16_total (decoder)** — with the capacity capped by the bytes left, no `decode` call panics
(buffers below `isize::MAX / 32` bytes), and the decoded packet lies within the buffer, so
`buf.split_to(consumed)` is in range. -/
theorem C16_total_decode (c : Cfg) (hcap : c.capRemaining = true) (b : Bytes)
    (hsz : b.length * c.elemSize ≤ isizeMax) : (decodeC c b).1.isPanic = false :=
  decodeC_no_panic c b (.inl hcap) hsz

/-- **C16_total (connection)** — … and a whole connection's byte stream never ends in a panicked
session task: it is drained, waits for more bytes, or is closed on a protocol error. -/
theorem C16_total_stream (c : Cfg) (hcap : c.capRemaining = true) (b : Bytes)
    (hsz : b.length * c.elemSize ≤ isizeMax) : (stream c b).end ≠ .panicked :=
  streamC_no_panic c hcap _ b hsz

/-- **C16_total_partial (decoder)** — any variant: no panic when no header over-declares -/
theorem C16_total_decode_partial (c : Cfg) (b : Bytes) (hover : (parseC c b).2.over = false)
    (hsz : b.length * c.elemSize ≤ isizeMax) : (decodeC c b).1.isPanic = false :=
  decodeC_no_panic c b (.inr hover) hsz

/-- **negation on the pinned tree**: `*9223372036854775807\r\n` panics (`capacity overflow`) -/
theorem C16_total_decode_full_false :
    (decodeC pinned (str "*9223372036854775807\r\n")).1.isPanic = true := by
  decide +kernel

/-! ## the executor -/

/-- **C16_total (handlers, full statement)** — with `numkeys` bounded (f5.diff) and the empty
sub-command list answered (f16a.diff), no modelled handler panics or leaves a request unanswered,
for every argument vector (array or not), in either redirection mode and with or without overflow
checks; with f16c.diff recording a request in the slow log cannot panic either. -/
theorem C16_total (h : HCfg) (h5 : h.numkeysBounded = true) (h16 : h.blockingEmptyGuard = true) :
    (∀ cmd r, cmd.length + 3 ≤ usizeMax → handleCmd h (some cmd) = some r → r.out.Good) ∧
    (∀ r, handleCmd h none = some r → r.out.Good) ∧
    (h.slowlogBoundarySafe = true → ∀ cmd, (handleSlowlogAdd h cmd).out.Good) :=
  ⟨fun cmd r hl hr => handleCmd_good h cmd r (dataGuard_of_fixed h cmd h5 h16 hl) hr,
   fun r hr => handleCmd_none_good h r hr,
   fun hs cmd => handleSlowlogAdd_good h cmd hs⟩

/-- **C16_total_partial (handlers)** — any variant built without overflow checks (the shipped
release profile): a request whose first key argument — and, for `UMFORWARD n …`, the forwarded
command's — is a bulk string is answered and does not panic. -/
theorem C16_total_partial (h : HCfg) (hoc : h.overflowChecks = false) (cmd : Cmd) (r : HRes)
    (hk : (elem cmd 1).isSome) (hk' : (elem (cmd.drop 2) 1).isSome)
    (hr : handleCmd h (some cmd) = some r) : r.out.Good :=
  handleCmd_good h cmd r ⟨⟨.inl hoc, .inr hk⟩, ⟨.inl hoc, .inr hk'⟩⟩ hr

/-- **negations on the pinned tree**: F16a — `BLPOP <nil> k 1` (`*4 $5 BLPOP $-1 $1 k $1 1`) is
never answered, whatever the redirection mode; with overflow checks `EVAL s 18446744073709551615`
would panic; F16c — recording `ECHO <99×a, é, a>` in the slow log panics. -/
theorem C16_total_full_false :
    (∀ ar, handleCmd (hPinned ar) (some [bulk "BLPOP", none, bulk "k", bulk "1"])
        = some ⟨.wedge, 14⟩) ∧
    (handleEval ⟨false, false, true, false, false, 1024⟩ [bulk "EVAL", bulk "s", bulk "18446744073709551615"]).out
        = .panic "attempt to add with overflow" ∧
    (handleSlowlogAdd (hPinned false)
        [bulk "ECHO", some (List.replicate 99 97 ++ [195, 169, 97])]).out
        = .panic "String::truncate: not a char boundary" := by
  refine ⟨?_, ?_, ?_⟩
  · intro ar; cases ar <;> decide +kernel
  · decide +kernel
  · decide +kernel

/-- **C16_steps (handlers, full statement)** — with `numkeys` bounded, the argument handling of a
request takes at most `6 · (bytes of its arguments) + 2 · argc + 1` iterations. -/
theorem C16_steps_handlers (h : HCfg) (h5 : h.numkeysBounded = true) (cmd : Cmd) (r : HRes)
    (hr : handleCmd h (some cmd) = some r) : r.steps ≤ 6 * argBytes cmd + 2 * cmd.length + 1 :=
  handleCmd_steps h cmd r (.inl h5) hr

/-- **C16_steps_partial (handlers)** — any variant: the same bound when `numkeys ≤ argc` for the
command and (for `UMFORWARD`) the forwarded command. -/
theorem C16_steps_handlers_partial (h : HCfg) (cmd : Cmd) (r : HRes)
    (hn : ∀ n, numkeysOf cmd = some n → n ≤ cmd.length)
    (hn' : ∀ n, numkeysOf (cmd.drop 2) = some n → n ≤ (cmd.drop 2).length)
    (hr : handleCmd h (some cmd) = some r) : r.steps ≤ 6 * argBytes cmd + 2 * cmd.length + 1 :=
  handleCmd_steps h cmd r (.inr ⟨hn, hn'⟩) hr

/-- **negation on the pinned tree (F5)**: `EVAL s 999999999999999999 k` walks the range
`3 .. 3 + numkeys` to its end: 10¹⁸ iterations for a 4-argument, 27-byte request; and
`numkeys = usize::MAX` wraps to an empty range (answered at once). -/
theorem C16_steps_handlers_full_false :
    (∀ ar, handleCmd (hPinned ar) (some [bulk "EVAL", bulk "s", bulk "999999999999999999", bulk "k"])
        = some ⟨.dispatch 1, 1000000000000000025⟩) ∧
    argBytes [bulk "EVAL", bulk "s", bulk "999999999999999999", bulk "k"] = 24 ∧
    (∀ ar, handleCmd (hPinned ar) (some [bulk "EVAL", bulk "s", bulk "18446744073709551615", bulk "k"])
        = some ⟨.reply "not-same-slot", 28⟩) := by
  refine ⟨?_, ?_, ?_⟩
  · intro ar; cases ar <;> decide +kernel
  · decide +kernel
  · intro ar; cases ar <;> decide +kernel

/-- the remaining argument handling is bounded by constants of the code: the slow-log report walks
the `slowlog_len` slots whatever `n` is in `UMCTL SLOWLOG GET n` and returns at most that many
records; a slow-log record renders at most `LOG_ELEMENT_NUMBER` elements; the command name is
scanned for at most `MAX_COMMAND_NAME_LENGTH + 1` bytes; a cluster name accepted by
`ClusterName::try_from` has at most `CLUSTER_NAME_MAX_LENGTH` bytes (longer ones are an error
value, not a panic: the function is total). -/
theorem C16_constant_bounds (h : HCfg) :
    (∀ stored arg, (handleSlowlogGet h stored arg).1 ≤ h.slowlogLen ∧
        (handleSlowlogGet h stored arg).2.steps = h.slowlogLen ∧ (handleSlowlogGet h stored arg).2.out.Good) ∧
    (∀ cmd, (handleSlowlogAdd h cmd).steps ≤ 5) ∧
    (∀ name, (upperName name).2 ≤ 65 ∧ (upperName name).2 ≤ name.length) ∧
    (∀ s, clusterNameOk s = true → s.length ≤ 31) := by
  refine ⟨?_, ?_, ?_, ?_⟩
  · intro stored arg
    refine ⟨?_, rfl, good_reply _⟩
    simp only [handleSlowlogGet]
    omega
  · intro cmd; exact handleSlowlogAdd_steps h cmd
  · intro name; exact ⟨upperName_steps_const name, upperName_steps name⟩
  · intro s hs
    unfold clusterNameOk at hs
    simp only [Bool.and_eq_true, decide_eq_true_eq] at hs
    exact hs.2

/-! ## `UMCTL SETCLUSTER`: the `RangeMap` of a tagged slot range -/

/-- **C16_rangemap (full statement)** — with f16e.diff, `RangeMap::from` is total on every range list
(sorted or not, any slot numbers, with or without overflow checks), allocates at most `SLOT_NUM`
flags and walks at most `SLOT_NUM` slots per range. -/
theorem C16_rangemap (oc : Bool) (rs : List Um.Proto.Range) :
    (rangeMapFrom true oc rs).out.Good ∧ (rangeMapFrom true oc rs).mapLen ≤ 16384 ∧
    (rangeMapFrom true oc rs).steps ≤ rs.length * 16384 := by
  have hS : SLOT_NUM = 16384 := by decide
  unfold rangeMapFrom
  simp only [hS]
  have hsum : ((rs.map fun r : Um.Proto.Range =>
      if r.s ≤ (if true = true then min r.e (16384 - 1) else r.e)
      then (if true = true then min r.e (16384 - 1) else r.e) - r.s + 1 else 0)).sum ≤ rs.length * 16384 := by
    apply sum_map_le
    intro r _
    simp only [if_true]
    split <;> omega
  split
  · rename_i mn mx h1 h2
    have hmx : mx < 16384 := by
      cases hl : rs.getLast? with
      | none => simp [hl] at h2
      | some r =>
        simp only [hl, Option.bind_some] at h2
        split at h2
        · simp at h2
        · simp only [Option.some.injEq] at h2; omega
    split
    · exact ⟨good_reply _, by simp only; omega, hsum⟩
    · simp only [if_true]
      exact ⟨good_reply _, by simp, hsum⟩
  · exact ⟨good_reply _, by simp, hsum⟩

/-- **C16_rangemap_partial** — any variant: a list whose first start is not above its last end and
whose ends are all below `SLOT_NUM` (what `compact` yields for slot numbers in range) is handled
without panic in at most `SLOT_NUM` steps per range. -/
theorem C16_rangemap_partial (b oc : Bool) (rs : List Um.Proto.Range)
    (hend : ∀ r ∈ rs, r.e < 16384)
    (hord : ∀ f l, rs.head? = some f → rs.getLast? = some l → f.s ≤ l.e) :
    (rangeMapFrom b oc rs).out.Good ∧ (rangeMapFrom b oc rs).steps ≤ rs.length * 16384 := by
  have hS : SLOT_NUM = 16384 := by decide
  unfold rangeMapFrom
  simp only [hS]
  have hsum : ((rs.map fun r : Um.Proto.Range =>
      if r.s ≤ (if b = true then min r.e (16384 - 1) else r.e)
      then (if b = true then min r.e (16384 - 1) else r.e) - r.s + 1 else 0)).sum ≤ rs.length * 16384 := by
    apply sum_map_le
    intro r hr
    have := hend r hr
    split <;> (split <;> omega)
  split
  · rename_i mn mx h1 h2
    have hle : mn ≤ mx := by
      cases hf : rs.head? with
      | none => simp [hf] at h1
      | some f =>
        cases hl : rs.getLast? with
        | none => simp [hl] at h2
        | some l =>
          have := hord f l hf hl
          simp only [hf, Option.bind_some] at h1
          simp only [hl, Option.bind_some] at h2
          split at h1
          · simp at h1
          · split at h2
            · simp at h2
            · simp only [Option.some.injEq] at h1 h2; omega
    simp only [hle, if_true]
    exact ⟨good_reply _, hsum⟩
  · exact ⟨good_reply _, hsum⟩

/-- **C16_slotmap** — the slot tables of local and peer nodes: with the `s >= SLOT_NUM` exit the fill loop takes at
most `SLOT_NUM + 1` steps per range, whatever slot numbers either SETCLUSTER form (textual or compressed — the
compressed form passes no parser that could validate them) delivers. -/
theorem C16_slotmap (rs : List Um.Proto.Range) : slotMapSteps true rs ≤ rs.length * 16385 := by
  have hS : SLOT_NUM = 16384 := by decide
  unfold slotMapSteps
  apply sum_map_le
  intro r _
  simp only [hS, if_true]
  split
  · omega
  · split <;> omega

/-- without that exit a compressed SETCLUSTER with the local range `0-1000000000000000` walks 10¹⁵ slots under the lock -/
theorem C16_slotmap_full_false : slotMapSteps false [⟨0, 1000000000000000⟩] = 1000000000000001 := by
  decide +kernel

/-- **negations on the current tree**: F16d — the compressed form hands a descending list
`[300-300, 100-199]` to `RangeMap::from` uncompacted: `199 - 300 + 1` wraps, `vec![false; n]`
panics; F16e — `MIGRATING 1 0-999999999999999` (textual form, compaction does not help) makes
the fill loop walk 10¹⁵ numbers while `set_meta` holds the metadata lock. -/
theorem C16_rangemap_full_false :
    (rangeMapFrom false false (rangesSeen false false [⟨300, 300⟩, ⟨100, 199⟩])).out = .panic "capacity overflow" ∧
    (rangeMapFrom false false (rangesSeen false true [⟨300, 300⟩, ⟨100, 199⟩])).out = .reply "range-map" ∧
    (rangeMapFrom false false (rangesSeen false true [⟨0, 999999999999999⟩])).steps = 1000000000000000 := by
  decide +kernel

/-! ## control-plane arguments: cluster names in node ids, declared counts -/

theorem clusterNameChar_ascii {b : UInt8} (h : clusterNameChar b = true) : b.toNat < 128 := by
  unfold clusterNameChar at h
  simp only [Bool.or_eq_true, Bool.and_eq_true, decide_eq_true_eq, beq_iff_eq] at h
  omega

theorem charCount_le (s : Bytes) : charCount s ≤ s.length := List.countP_le_length

/-- **C16_node_id** — a name accepted by the ASCII-only `ClusterName::try_from` is cut by
`gen_node_id`'s `truncate(24)` on a char boundary: `CLUSTER NODES` / `CLUSTER SLOTS` cannot panic
there, whatever name a client managed to install. -/
theorem C16_node_id (name : Bytes) (h : clusterNameOk name = true) : nodeIdPanics name = false := by
  have hN : Um.Gen.Hostile.NODE_ID_NAME_LEN = 24 := by decide
  unfold clusterNameOk at h
  simp only [Bool.and_eq_true, List.all_eq_true] at h
  have hall : ∀ b ∈ nodeIdNameSeg name, b.toNat < 128 := by
    intro b hb
    unfold nodeIdNameSeg at hb
    simp only [List.mem_append, List.mem_replicate] at hb
    cases hb with
    | inl h1 => exact clusterNameChar_ascii (h.1 b h1)
    | inr h2 => rw [h2.2]; decide
  have hlen : 24 ≤ (nodeIdNameSeg name).length := by
    unfold nodeIdNameSeg
    have := charCount_le name
    simp only [List.length_append, List.length_replicate, hN]
    omega
  unfold nodeIdPanics isCharBoundary
  simp only [hN]
  have h24 : ¬ (24 = 0) := by decide
  simp only [h24, if_false]
  cases hg : (nodeIdNameSeg name)[24]? with
  | none =>
    have : (nodeIdNameSeg name).length ≤ 24 := by
      rw [List.getElem?_eq_none_iff] at hg; exact hg
    have : 24 = (nodeIdNameSeg name).length := by omega
    simp [this]
  | some b =>
    have hm : b ∈ nodeIdNameSeg name := List.mem_of_getElem? hg
    have := hall b hm
    simp only [Bool.not_not]
    unfold utf8Cont
    simp only [Bool.and_eq_false_iff, decide_eq_false_iff_not]
    left; omega

/-- what the restriction to ASCII buys: with `char::is_alphanumeric` the 25-byte name `a…a é` (23
ASCII letters and a two-byte letter) would be accepted and make `gen_node_id` panic -/
theorem C16_node_id_full_false :
    clusterNameOkV false (List.replicate 23 97 ++ [195, 169]) = true ∧
    nodeIdPanics (List.replicate 23 97 ++ [195, 169]) = true ∧
    clusterNameOkV true (List.replicate 23 97 ++ [195, 169]) = false := by
  decide +kernel

/-- **C16_umctl_counts** — a counted loop of the UMCTL parsers that does not pre-size its vector
starts at most `avail + 1` iterations and requests at most `4·elem·(avail + 1)` bytes, whatever
count `n` the client declares. -/
theorem C16_umctl_counts (elem per n avail : Nat) :
    (countLoop false elem per n avail).iters ≤ avail + 1 ∧
    (countLoop false elem per n avail).allocBytes elem ≤ 4 * elem * (avail + 1) := by
  have hdiv : avail / max per 1 ≤ avail := Nat.div_le_self _ _
  unfold CountLoopRes.allocBytes countLoop
  simp only [if_false, Bool.false_eq_true]
  refine ⟨by split <;> omega, ?_⟩
  have : min n (avail / max per 1) + 1 ≤ avail + 1 := by omega
  have := Nat.mul_le_mul_left (4 * elem) this
  omega

/-- a variant that pre-sizes with the declared count (`Vec::with_capacity(peer_num)`): `UMCTL SETREPL 1
NOFLAG master c 127.0.0.1:7001 100000000000000` would request 4.8·10¹⁵ bytes for 7 arguments -/
theorem C16_umctl_counts_full_false :
    (countLoop true 48 2 100000000000000 0).reserve = 4800000000000000 ∧
    (countLoop true 48 2 100000000000000 0).iters = 1 := by
  decide +kernel

/-! ## routing keys and runtime configuration -/

theorem position_lt {c : UInt8} {b : Bytes} {i : Nat} (h : Um.Crc16.position c b = some i) : i < b.length := by
  induction b generalizing i with
  | nil => simp [Um.Crc16.position] at h
  | cons x xs ih =>
    unfold Um.Crc16.position at h
    split at h
    · simp only [Option.some.injEq] at h; subst h; simp
    · cases hm : Um.Crc16.position c xs with
      | none => simp [hm] at h
      | some j =>
        simp only [hm, Option.map_some, Option.some.injEq] at h
        have := ih hm
        subst h; simp; omega

/-- **C16_hash_tag** — `get_hash_tag` as the tree has it is total: its final `expect` cannot fire for
any byte string (any order and number of braces, empty key, any bytes), and what it returns is
C09's `getHashTag`.  So `Command::new` cannot panic on a routing key. -/
theorem C16_hash_tag (key : Bytes) :
    hashTagChecked true key = some (Um.Crc16.getHashTag key) ∧
    (∀ cmd, commandNewPanics true cmd = false) := by
  have h1 : ∀ k, hashTagChecked true k = some (Um.Crc16.getHashTag k) := by
    intro k
    unfold hashTagChecked Um.Crc16.getHashTag
    have hL : LBRACE = Um.Crc16.LBRACE := rfl
    have hR : RBRACE = Um.Crc16.RBRACE := rfl
    rw [hL, hR]
    cases hb : Um.Crc16.position Um.Crc16.LBRACE k with
    | none => rfl
    | some b =>
      have hbl := position_lt hb
      simp only [if_true]
      cases he : Um.Crc16.position Um.Crc16.RBRACE (k.drop (b + 1)) with
      | none => rfl
      | some e =>
        have hel := position_lt he
        simp only [List.length_drop] at hel
        simp only
        split
        · rfl
        · unfold sliceOpt
          have : b + 1 ≤ b + 1 + e ∧ b + 1 + e ≤ k.length := by omega
          simp only [this, and_self, if_true]
          congr 2; omega
  refine ⟨h1 key, ?_⟩
  intro cmd
  unfold commandNewPanics
  cases cmd.bind routingKey with
  | none => rfl
  | some k => simp [h1 k]

/-- the `memchr` shape (first `}` of the whole key): `}{`, `a}b{c`, `user}1{x}` make the `expect` fire -/
theorem C16_hash_tag_full_false :
    hashTagChecked false (str "}{") = none ∧ hashTagChecked false (str "a}b{c") = none ∧
    hashTagChecked false (str "user}1{x}") = none ∧
    commandNewPanics false (some [bulk "GET", bulk "}{"]) = true ∧
    commandNewPanics false (some [bulk "EVAL", bulk "s", bulk "1", bulk "a}b{c"]) = true ∧
    hashTagChecked false (str "{user1000}.following") = some (str "user1000") := by
  decide +kernel

/-- **C16_rate_limiter** — with the per-request clamp the limiter's decision is defined for every
value a client can store with `CONFIG SET slowlog_sample_rate` (0 included) and every request count. -/
theorem C16_rate_limiter (st : ConfStore) (field value : Bytes) (count : Nat) :
    (limiterDecision true (configSet st field value).1.sampleRate count).isSome = true := by
  unfold limiterDecision
  simp only [if_true]
  have : max 1 (configSet st field value).1.sampleRate ≠ 0 := by omega
  simp [this]

/-- without the clamp `CONFIG SET slowlog_sample_rate 0` (answered `+OK`) leaves every later request of
every session with `count % 0` -/
theorem C16_rate_limiter_full_false :
    (configSet {} (str "slowlog_sample_rate") (str "0")) = (⟨0, 50000⟩, true) ∧
    (configSet {} (str "SLOWLOG_SAMPLE_RATE") (str "+0")).1.sampleRate = 0 ∧
    limiterDecision false 0 7 = none ∧
    (configSet {} (str "slowlog_sample_rate") (str "-0")).2 = false ∧
    (configSet {} (str "slowlog_len") (str "5")).2 = false ∧
    (configSet {} (str "slowlog_log_slower_than") (str "-9223372036854775808")) = (⟨1000, -9223372036854775808⟩, true) := by
  decide +kernel

/-! ## the current tree

The statements above are per variant; these instantiate the full ones at what the extractor found
in /repo/src on this run (`Cfg.cur`, `HCfg.cur`, the generated switches).  They depend on the
generated values *by value*: reverting one of the fixes (F4 95be7d4, F5 2c9766f, F16a 0d5fc60, F16b 3074c1a,
F16c 8a9faf8, F16d 23e5d8f, F16e b391770) makes the corresponding proof fail to build. -/

/-- the nesting limit found in the source -/
def curNesting : Nat := Um.Gen.Hostile.maxNesting.getD 0

theorem C16_alloc_cur (es : Nat) (b : Bytes) :
    (parseC (Cfg.cur es) b).2.allocBytes (Cfg.cur es) ≤ (es * (curNesting + 1)) * b.length + es * (curNesting + 1) :=
  C16_alloc (Cfg.cur es) curNesting rfl rfl b

theorem C16_steps_cur (es : Nat) (b : Bytes) :
    (parseC (Cfg.cur es) b).2.steps ≤ 2 * ((b.length + 1) * (curNesting + 1)) ∧
    (parseC (Cfg.cur es) b).2.height ≤ curNesting + 1 :=
  ⟨(C16_steps (Cfg.cur es) b).2.2.2 curNesting rfl, C16_depth_limited (Cfg.cur es) curNesting rfl b⟩

theorem C16_total_stream_cur (es : Nat) (b : Bytes) (hsz : b.length * es ≤ isizeMax) :
    (stream (Cfg.cur es) b).end ≠ .panicked ∧ (decodeC (Cfg.cur es) b).1.isPanic = false :=
  ⟨C16_total_stream (Cfg.cur es) rfl b hsz, C16_total_decode (Cfg.cur es) rfl b hsz⟩

theorem C16_total_cur (ar : Bool) :
    (∀ cmd r, cmd.length + 3 ≤ usizeMax → handleCmd (HCfg.cur ar) (some cmd) = some r → r.out.Good) ∧
    (∀ r, handleCmd (HCfg.cur ar) none = some r → r.out.Good) ∧
    (∀ cmd, (handleSlowlogAdd (HCfg.cur ar) cmd).out.Good) := by
  obtain ⟨h1, h2, h3⟩ := C16_total (HCfg.cur ar) rfl rfl
  exact ⟨h1, h2, h3 rfl⟩

theorem C16_steps_handlers_cur (ar : Bool) (cmd : Cmd) (r : HRes)
    (hr : handleCmd (HCfg.cur ar) (some cmd) = some r) : r.steps ≤ 6 * argBytes cmd + 2 * cmd.length + 1 :=
  C16_steps_handlers (HCfg.cur ar) rfl cmd r hr

/-- `RangeMap::from` as the current tree has it, on the list either SETCLUSTER form delivers -/
theorem C16_rangemap_cur (textual : Bool) (rs : List Um.Proto.Range) :
    let seen := rangesSeen Um.Gen.Hostile.compressedCompact textual rs
    (rangeMapFrom Um.Gen.Hostile.rangeMapBounded Um.Gen.Hostile.overflowChecks seen).out.Good ∧
    (rangeMapFrom Um.Gen.Hostile.rangeMapBounded Um.Gen.Hostile.overflowChecks seen).steps ≤ seen.length * 16384 := by
  have h := C16_rangemap Um.Gen.Hostile.overflowChecks (rangesSeen Um.Gen.Hostile.compressedCompact textual rs)
  exact ⟨h.1, h.2.2⟩

/-- the control-plane facts at the switch values read from the source: names are ASCII (so
`gen_node_id` never panics on an installed name) and no UMCTL parser reserves by a declared count -/
theorem C16_control_plane_cur :
    (∀ name, clusterNameOkV Um.Gen.Hostile.clusterNameAscii name = true → nodeIdPanics name = false) ∧
    (∀ elem per n avail,
      (countLoop Um.Gen.Hostile.umctlCountPrealloc elem per n avail).allocBytes elem ≤ 4 * elem * (avail + 1)) :=
  ⟨fun name h => C16_node_id name h, fun elem per n avail => (C16_umctl_counts elem per n avail).2⟩

/-- routing keys and the rate limiter at the switch values read from the source -/
theorem C16_keys_config_cur :
    (∀ cmd, commandNewPanics Um.Gen.Hostile.hashTagEndAfterBegin cmd = false) ∧
    (∀ st field value count,
      (limiterDecision Um.Gen.Hostile.rateLimiterClamped (configSet st field value).1.sampleRate count).isSome = true) :=
  ⟨fun cmd => (C16_hash_tag []).2 cmd, fun st field value count => C16_rate_limiter st field value count⟩

theorem C16_slotmap_cur (rs : List Um.Proto.Range) :
    slotMapSteps Um.Gen.Hostile.slotMapBounded rs ≤ rs.length * 16385 := C16_slotmap rs

/-- the regression inputs of the seven findings, on the current tree -/
theorem C16_regressions_cur :
    (parseC (Cfg.cur 32) (str "*99999999999\r\n")).2.allocBytes (Cfg.cur 32) = 0 ∧
    (decodeC (Cfg.cur 32) (str "*9223372036854775807\r\n")).1.isPanic = false ∧
    (parseC (Cfg.cur 32) (nest 200)).2.height = 129 ∧
    (∀ ar, handleCmd (HCfg.cur ar) (some [bulk "EVAL", bulk "s", bulk "999999999999999999", bulk "k"])
        = some ⟨.reply "numkeys-too-large", 26⟩) ∧
    (∀ ar, handleCmd (HCfg.cur ar) (some [bulk "BLPOP", none, bulk "k", bulk "1"]) = some ⟨.reply "invalid-key", 14⟩) ∧
    (handleSlowlogAdd (HCfg.cur false) [bulk "ECHO", some (List.replicate 99 97 ++ [195, 169, 97])]).out
        = .reply "recorded" := by
  refine ⟨by decide +kernel, by decide +kernel, by decide +kernel, ?_, ?_, by decide +kernel⟩
  · intro ar; cases ar <;> decide +kernel
  · intro ar; cases ar <;> decide +kernel

/-! ## non-vacuity -/

/-- the patched variants exist and the hypotheses of the full statements are met by them -/
example : (parseC ⟨true, true, some 128, 32⟩ (str "*99999999999\r\n")).2.allocBytes ⟨true, true, some 128, 32⟩ = 0 := by
  decide +kernel
example : (parseC ⟨false, true, some 128, 32⟩ (str "*2\r\n$3\r\nGET\r\n$1\r\nk\r\n")).2.alloc = 2 := by decide +kernel
example : (parseC pinned (str "*2\r\n$3\r\nGET\r\n$1\r\nk\r\n")).2.over = false := by decide +kernel
example : (decodeC ⟨false, true, none, 32⟩ (str "*9223372036854775807\r\n")).1.isPanic = false := by decide +kernel
example : (stream pinned (str "*1\r\n$4\r\nPING\r\n*1\r\n$4\r\nPING\r\n$5\r\nab")).end = .pending := by decide +kernel
example : (stream pinned (str "*1\r\n$4\r\nPING\r\n?")).end = .closed := by decide +kernel
example : handleCmd ⟨false, true, false, true, true, 1024⟩ (some [bulk "BLPOP", none, bulk "k", bulk "1"])
    = some ⟨.reply "invalid-key", 14⟩ := by decide +kernel
example : handleCmd ⟨false, true, false, true, true, 1024⟩
    (some [bulk "EVAL", bulk "s", bulk "999999999999999999", bulk "k"]) = some ⟨.reply "numkeys-too-large", 26⟩ := by
  decide +kernel
example : handleCmd (hPinned false) (some [bulk "BLPOP", bulk "k", bulk "1"]) = some ⟨.poll 1 1, 14⟩ := by
  decide +kernel
example : (rangeMapFrom true false [⟨300, 300⟩, ⟨100, 199⟩]).out = .reply "range-map" := by decide +kernel
example : (rangeMapFrom false false (rangesSeen true false [⟨300, 300⟩, ⟨100, 199⟩])).contains = 101 := by
  decide +kernel
example : (rangeMapFrom true false [⟨5, 18446744073709551615⟩, ⟨7, 9⟩]).contains = 5 := by decide +kernel
example : (handleSlowlogAdd ⟨false, true, false, true, true, 1024⟩
    [bulk "ECHO", some (List.replicate 99 97 ++ [195, 169, 97])]).out = .reply "recorded" := by decide +kernel

end Um.PC.C16
