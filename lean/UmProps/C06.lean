import UmProofs.BrokerFailoverLimitView
import UmProofs.BrokerSlotsPlanJ
import UmProofs.BrokerEpochStep
import UmProofs.BrokerResReach
import UmProofs.BrokerFailoverAlloc
/-!
# C06 — Failover promotes the replica without changing slot ownership

Model: `UmModel/Broker.lean` (`takeoverMaster`, `replaceFailedProxy`, `balanceMasters`,
`generateFreeChunks`, `generateNewFreeProxy`), served view `UmModel/BrokerView.lean`
(`clusterStoreToCluster`, `toSlotRange`), index tables `UmGen/ChunkTables.lean` (generated from
`src/broker/store.rs`/`query.rs` on every run).

Vocabulary (definitions in `UmProofs/BrokerFailover*.lean`, namespace `Um.Broker.C06`):
* `specView cl` — the pure function computing the served view (`C06_view_exact`: it *is*
  `clusterStoreToCluster cl` whenever that does not panic); `vnode v i j` = node `j < 4` of chunk `i`;
  `srKey` = `(range list, kind)` of a served slot range, kind 0 stable / 1 migrating / 2 importing;
  `keysAt v i j` the keys held by a node; `peerIdx` = `peerIndexTab` (0↔3, 1↔2).
* `failedAt p chunks = some (k, h)` — chunk `k` is the first chunk carrying proxy `p`, on half `h`;
  `newRole h` — role position after half `h` failed; `afterTakeover` — the stored cluster after
  `takeover_master`; `dest k h i j` — peer index if node `(i, j)` is on the failed half, else `j`.
* `tkEntry pos e` — what the second loop of `takeover_master` does to one stored entry
  (`peer_position` = `pos`); `tfPos h c` — `peer_position` after the first loop;
  `srcMoved`/`dstMoved` — the entry's source/destination part was served by the failing half;
  `specInfo m chunks` — the migration descriptor served for stored entry `m`.
* `Alloc.FreeIn s a`, `Alloc.OldIn`, `Alloc.AllocOK` — allocation discipline.
Invariants of other properties enter only as hypotheses: `PosInv`, `TwinInv`, `EpochInv`, `ResInv`
(`UmProofs/BrokerDefs.lean`).
-/
namespace Um.Broker.C06
open Um Um.Slots Um.Gen.Chunk Um.Broker.C06.Alloc

/-- **The served view is a pure function of the stored cluster.** `clusterStoreToCluster cl`
succeeds exactly when every stored entry names existing chunk indices and parts (`clusterOk`,
implied by `PosInv`), its result then is `specView cl`, whose node `j` of chunk `i` is
`specNode chunk chunks j`. -/
theorem C06_view_exact (cl : Cluster) :
    (∀ v, clusterStoreToCluster cl = R.ok v ↔ (clusterOk cl = true ∧ v = specView cl)) ∧
    (PosInv cl → clusterStoreToCluster cl = R.ok (specView cl)) ∧
    (specView cl).nodes.length = 4 * cl.chunks.length ∧
    (∀ i j, j < 4 → vnode (specView cl) i j = (cl.chunks[i]?).map fun c => specNode c cl.chunks j) := by
  refine ⟨fun v => ⟨clusterStoreToCluster_eq_ok, ?_⟩, view_of_posInv, specView_length cl,
    fun i j hj => specView_node cl i j hj⟩
  rintro ⟨hok, rfl⟩
  rw [clusterStoreToCluster_eq, hok]; rfl

/-- **(a) ownership after `takeover_master`, node by node.** For every store `s` (reachable or not), cluster `cl` found under `name` with `PosInv`, and proxy `p` sitting on half
`h` of chunk `k`: the cluster found afterwards has a view `v'`, with the same nodes at the same
positions (address, proxy, peer record), and node `j` of chunk `i` holds
* outside chunk `k`: exactly the ranges it held before;
* in chunk `k`, on the failed half: nothing;
* in chunk `k`, on the partner half: what it held before followed by what its chunk peer
  (`peerIndexTab`) held before.
No hypothesis on the role position before the call (holds for all three, and for repeat calls). -/
theorem C06_a_ownership {s : Store} {name p : String} {cl : Cluster}
    (hcl : s.findCluster name = some cl) (hpos : PosInv cl) {k h : Nat} {c : Chunk}
    (hf : failedAt p cl.chunks = some (k, h)) (hk : cl.chunks[k]? = some c) :
    ∃ cl' v v', (takeoverMaster s name p).1.findCluster name = some cl' ∧
      clusterStoreToCluster cl = R.ok v ∧ clusterStoreToCluster cl' = R.ok v' ∧
      v'.nodes.length = v.nodes.length ∧
      ∀ i j, i < cl.chunks.length → j < 4 →
        ∃ n np n', vnode v i j = some n ∧ vnode v i (peerIdx j) = some np ∧ vnode v' i j = some n' ∧
          n'.address = n.address ∧ n'.proxy = n.proxy ∧ n'.peers = n.peers ∧
          ((i = k ∧ j / 2 = h) → n.proxy = p) ∧
          n'.slots.map srKey =
            if i = k then (if j / 2 = h then [] else n.slots.map srKey ++ np.slots.map srKey)
            else n.slots.map srKey := by
  obtain ⟨c', hk', hh, hpa, -, -⟩ := failedAt_some hf
  rw [hk] at hk'; cases hk'
  obtain ⟨-, -, -, -, -, hfind⟩ := takeoverMaster_find hcl hf hk
  have hok := clusterOk_of_posInv hpos
  have hok' := clusterOk_afterTakeover (h := h) (e := s.globalEpoch + 1) hk hok
  obtain ⟨c1, -, -, -, hlen⟩ := afterTakeover_chunk (e := s.globalEpoch + 1) hf hk
  refine ⟨_, specView cl, specView (afterTakeover cl k h (s.globalEpoch + 1) c), hfind, view_of_posInv hpos,
    by rw [clusterStoreToCluster_eq, hok']; rfl, by rw [specView_length, specView_length, hlen], ?_⟩
  intro i j hi hj
  have hx : cl.chunks[i]? = some cl.chunks[i] := List.getElem?_eq_getElem hi
  obtain ⟨n, np, n', h1, h2, h3, h4, h5, h6, -, h8⟩ := afterTakeover_owner (s.globalEpoch + 1) hk hh i j hj hx
  refine ⟨n, np, n', h1, h2, h3, h4, h5, h6, ?_, h8⟩
  rintro ⟨rfl, rfl⟩
  rw [specView_node cl i j hj, hk] at h1
  cases h1
  simp [specNode, proxyAtD, hpa]

/-- **(a) ownership, range by range** (the wording of the property): with `dest` = "chunk peer if the
node is on the failed half of chunk `k`, else the node itself", every range held by node `j` of
chunk `i` before is held by node `dest j` of chunk `i` afterwards, and every range held by a node
afterwards was held before by a node that `dest` maps to it — nothing else changes owner. -/
theorem C06_a_per_range {s : Store} {name p : String} {cl : Cluster}
    (hcl : s.findCluster name = some cl) (hpos : PosInv cl) {k h : Nat} {c : Chunk}
    (hf : failedAt p cl.chunks = some (k, h)) (hk : cl.chunks[k]? = some c) :
    ∃ cl' v v', (takeoverMaster s name p).1.findCluster name = some cl' ∧
      clusterStoreToCluster cl = R.ok v ∧ clusterStoreToCluster cl' = R.ok v' ∧
      ∀ i j, i < cl.chunks.length → j < 4 → ∀ key : Key,
        (key ∈ keysAt v i j → dest k h i j < 4 ∧ key ∈ keysAt v' i (dest k h i j)) ∧
        (key ∈ keysAt v' i j → ∃ j0, j0 < 4 ∧ dest k h i j0 = j ∧ key ∈ keysAt v i j0) := by
  obtain ⟨cl', v, v', h1, h2, h3, -, h5⟩ := C06_a_ownership hcl hpos hf hk
  obtain ⟨-, -, hh, -⟩ := failedAt_some hf
  refine ⟨cl', v, v', h1, h2, h3, ?_⟩
  intro i j hi hj key
  apply per_range hh (fun j => keysAt v i j) (fun j => keysAt v' i j) _ j hj key
  intro j' hj'
  obtain ⟨n, np, n', a1, a2, a3, -, -, -, -, a8⟩ := h5 i j' hi hj'
  simp only [keysAt, a1, a2, a3, Option.map_some, Option.getD_some]
  exact a8

/-- **(b) after the call no node of `p` is master.** With pairwise distinct proxy addresses in the
cluster (part of `ResInv`), in every view of the cluster found after `takeover_master` every node
served by `p` is a replica and holds no slot range. -/
theorem C06_b_no_master_on_failed {s : Store} {name p : String} {cl : Cluster}
    (hcl : s.findCluster name = some cl) (hnd : cl.proxyAddrs.Nodup) {k h : Nat}
    (hf : failedAt p cl.chunks = some (k, h)) :
    ∃ cl', (takeoverMaster s name p).1.findCluster name = some cl' ∧
      ∀ v', clusterStoreToCluster cl' = R.ok v' → ∀ n ∈ v'.nodes, n.proxy = p → n.replica = true ∧ n.slots = [] := by
  obtain ⟨c, hk, -⟩ := failedAt_some hf
  obtain ⟨-, -, -, -, -, hfind⟩ := takeoverMaster_find hcl hf hk
  refine ⟨_, hfind, ?_⟩
  intro v' hv'
  obtain ⟨-, rfl⟩ := clusterStoreToCluster_eq_ok hv'
  obtain ⟨c1, hk1, hr1, hf1, -⟩ := afterTakeover_chunk (e := s.globalEpoch + 1) hf hk
  exact no_master_on (by rw [proxyAddrs_tk hk]; exact hnd) hf1 hk1 hr1

/-- **(c) every view of every cluster, any role positions.** The view has four nodes per chunk;
each chunk has exactly two masters; for node `j` of chunk `i` (`n`) and the node at its peer index
(`np`): they are on the two different proxies of the chunk, exactly one of them is a replica,
each one's peer record is exactly `[(address, proxy)]` of the other, and a replica holds no slot
range. Hence every master has exactly one replica, on the other proxy of its chunk, with mutually
consistent peer records. -/
theorem C06_c_peers (cl : Cluster) (v : VCluster) (hv : clusterStoreToCluster cl = R.ok v) :
    v.nodes.length = 4 * cl.chunks.length ∧
    ∀ i x, cl.chunks[i]? = some x →
      ((List.range 4).filter fun j => !isReplica x.role j).length = 2 ∧
      ∀ j, j < 4 →
        ∃ n np, vnode v i j = some n ∧ vnode v i (peerIdx j) = some np ∧
          peerIndexTab[j]? = some (peerIdx j) ∧ peerIdx (peerIdx j) = j ∧
          n.address = nodeAtD x j ∧ n.proxy = proxyAtD x (j / 2) ∧
          np.address = nodeAtD x (peerIdx j) ∧ np.proxy = proxyAtD x (1 - j / 2) ∧
          n.peers = [(np.address, np.proxy)] ∧ np.peers = [(n.address, n.proxy)] ∧
          n.replica = isReplica x.role j ∧ np.replica = !n.replica ∧ (n.replica = true → n.slots = []) := by
  obtain ⟨-, rfl⟩ := clusterStoreToCluster_eq_ok hv
  refine ⟨specView_length cl, ?_⟩
  intro i x hx
  refine ⟨two_masters x.role, ?_⟩
  intro j hj
  obtain ⟨n, np, a1, a2, a3, a4, a5, a6, a7, a8, a9, a10, a11⟩ := view_peers cl i j hj hx
  obtain ⟨-, hinv, -, -⟩ := peerIdx_facts j hj
  have htab : peerIndexTab[j]? = some (peerIdx j) := by
    have hj' : j = 0 ∨ j = 1 ∨ j = 2 ∨ j = 3 := by omega
    rcases hj' with rfl | rfl | rfl | rfl <;> decide
  exact ⟨n, np, a1, a2, htab, hinv, a3, a4, a5, a6, a7, a8, a9, a10, a11⟩

/-- **(d) migration epochs and served addresses after a (non-repeat) `takeover_master`.**
`e = old global epoch + 1` becomes the global epoch and the cluster epoch. With `pos = tfPos h c` (the
source and destination positions of the entries stored in the parts of chunk `k` that the failing
half served — `peer_position` of the code) every stored entry `m` becomes `m' = tkEntry pos e m`:
nothing but `mm.epoch` changes, and `mm.epoch` becomes `e` exactly when the source or the
destination position of `m` is in `pos` — entries that only *share a position* with a re-issued
entry are re-issued too, all others keep their epoch. Given `PosInv`, `TwinInv` (twin entries exist)
and `EpochInv`:
* every entry whose served source or destination address differs after the call has epoch `e`
  afterwards, and `e` exceeds every epoch served before (`≤ s.globalEpoch`);
* a moved end is served with the partner proxy and the node at the peer index of the old owner
  (the promoted replica); an end that is not moved keeps its addresses.
This is the clause that failed before fix 2ba2638 (F2): `srcMoved`/`dstMoved` cover *both* parts
when the chunk was in `FirstChunkMaster`/`SecondChunkMaster`. -/
theorem C06_d_migration_epochs {s : Store} (hE : EpochInv s) {name p : String} {cl : Cluster}
    (hcl : s.findCluster name = some cl) (hpos : PosInv cl) (htw : TwinInv cl) {k h : Nat} {c : Chunk}
    (hf : failedAt p cl.chunks = some (k, h)) (hk : cl.chunks[k]? = some c) (hnr : c.role ≠ newRole h) :
    ∃ cl', (takeoverMaster s name p).1.findCluster name = some cl' ∧
      (takeoverMaster s name p).1.globalEpoch = s.globalEpoch + 1 ∧ cl'.epoch = s.globalEpoch + 1 ∧
      cl.epoch ≤ s.globalEpoch ∧ cl'.chunks.length = cl.chunks.length ∧
      cl'.migs = cl.migs.map (tkEntry (tfPos h c) (s.globalEpoch + 1)) ∧
      (∀ (i : Nat) (x : Chunk), cl.chunks[i]? = some x → ∃ x' : Chunk, cl'.chunks[i]? = some x' ∧
        x'.mig0 = x.mig0.map (tkEntry (tfPos h c) (s.globalEpoch + 1)) ∧
        x'.mig1 = x.mig1.map (tkEntry (tfPos h c) (s.globalEpoch + 1)) ∧
        x'.stable0 = x.stable0 ∧ x'.stable1 = x.stable1) ∧
      ∀ m ∈ cl.migs,
        let m' := tkEntry (tfPos h c) (s.globalEpoch + 1) m
        let I := specInfo m cl.chunks
        let I' := specInfo m' cl'.chunks
        m'.ranges = m.ranges ∧ m'.isMigrating = m.isMigrating ∧ srcPos m' = srcPos m ∧ dstPos m' = dstPos m ∧
        I.epoch ≤ s.globalEpoch ∧
        I'.epoch = (if srcPos m ∈ tfPos h c ∨ dstPos m ∈ tfPos h c then s.globalEpoch + 1 else I.epoch) ∧
        ((I'.srcProxy, I'.srcNode, I'.dstProxy, I'.dstNode) ≠ (I.srcProxy, I.srcNode, I.dstProxy, I.dstNode) →
          I'.epoch = s.globalEpoch + 1) ∧
        (srcMoved k h c m → I'.epoch = s.globalEpoch + 1 ∧ I'.srcProxy = proxyAtD c (1 - h) ∧
          I'.srcNode = nodeAtD c (peerIdx (ownerIdx c.role m.mm.srcPart))) ∧
        (dstMoved k h c m → I'.epoch = s.globalEpoch + 1 ∧ I'.dstProxy = proxyAtD c (1 - h) ∧
          I'.dstNode = nodeAtD c (peerIdx (ownerIdx c.role m.mm.dstPart))) ∧
        (¬ srcMoved k h c m → I'.srcProxy = I.srcProxy ∧ I'.srcNode = I.srcNode) ∧
        (¬ dstMoved k h c m → I'.dstProxy = I.dstProxy ∧ I'.dstNode = I.dstNode) := by
  obtain ⟨-, -, hh, -⟩ := failedAt_some hf
  obtain ⟨-, hge, -, -, -, hfind⟩ := takeoverMaster_find hcl hf hk
  simp only [afterTakeover, if_neg hnr] at hfind
  obtain ⟨hmem, -⟩ := findCluster_some hcl
  obtain ⟨hce, hme⟩ := hE cl hmem
  refine ⟨_, hfind, hge, rfl, hce, tkChunks_length _ _ _ _ _, migs_tk hk, ?_, ?_⟩
  · intro i x hx
    have hxc : i = k → x = c := by intro e; subst e; rw [hk] at hx; exact (Option.some.inj hx).symm
    obtain ⟨m0, m1⟩ := tkChunk_migs k h (s.globalEpoch + 1) c i x hxc
    refine ⟨_, tkChunks_get hk hx, m0, m1, ?_, ?_⟩ <;>
      (unfold tkChunk; split <;> rfl)
  · intro m hm
    have hin := inRange_of_posInv hpos hm
    obtain ⟨f1, f2, f3, f4, -⟩ := tkEntry_fields (tfPos h c) (s.globalEpoch + 1) m
    obtain ⟨a, b, c', d, ep⟩ := specInfo_after (e := s.globalEpoch + 1) hk hh hin
    obtain ⟨mv, ns, nd⟩ := moved_epoch (e := s.globalEpoch + 1) hpos htw hk hh hm
    have hle : (specInfo m cl.chunks).epoch ≤ s.globalEpoch := Nat.le_trans (hme m hm) hce
    refine ⟨f1, f2, f3, f4, hle, ep, ?_, ?_, ?_, ns, nd⟩
    · intro hne
      by_cases hsm : srcMoved k h c m
      · exact mv (Or.inl hsm)
      · by_cases hdm : dstMoved k h c m
        · exact mv (Or.inr hdm)
        · exfalso; apply hne
          rw [(ns hsm).1, (ns hsm).2, (nd hdm).1, (nd hdm).2]
    · intro hsm; refine ⟨mv (Or.inl hsm), ?_, ?_⟩
      · rw [a, if_pos hsm]
      · rw [b, if_pos hsm]
    · intro hdm; refine ⟨mv (Or.inr hdm), ?_, ?_⟩
      · rw [c', if_pos hdm]
      · rw [d, if_pos hdm]

/-- **(d) the promoted node**: for a part `q` of chunk `k` that the failing half served, the node at the
peer index of its old owner — whose address and proxy the re-issued migrations name — is a master
of the partner proxy in the view after the call and holds (at least) every range of that part. -/
theorem C06_d_promoted {cl : Cluster} {p : String} {k h : Nat} {c : Chunk} (e : Nat)
    (hf : failedAt p cl.chunks = some (k, h)) (hk : cl.chunks[k]? = some c) {q : Nat} (hq : q < 2)
    (hmv : movedPart c.role h q = true) :
    let o := ownerIdx c.role q
    ∃ n n', vnode (specView cl) k o = some n ∧ vnode (specView (afterTakeover cl k h e c)) k (peerIdx o) = some n' ∧
      n.proxy = p ∧ n.slots.map srKey = partKeys (if q = 0 then c.stable0 else c.stable1) (migOf c q) ∧
      n'.replica = false ∧ n'.address = nodeAtD c (peerIdx o) ∧ n'.proxy = proxyAtD c (1 - h) ∧
      ∀ key ∈ n.slots.map srKey, key ∈ n'.slots.map srKey := by
  intro o
  obtain ⟨c', hk', hh, hpa, -, -⟩ := failedAt_some hf
  rw [hk] at hk'; cases hk'
  obtain ⟨o', ho, ho4, hpo, hiff, -, -⟩ := owner_newRole c.role h q hh hq
  have hoo : o = o' := by simp [o, ownerIdx, ho]
  have hoh : o / 2 = h := by rw [hoo]; exact hiff.1 hmv
  obtain ⟨hp4, hinv, hhalf, -⟩ := peerIdx_facts o (by rw [hoo]; exact ho4)
  obtain ⟨n, np, n', a1, a2, a3, a4, a5, -, a7, a8⟩ :=
    afterTakeover_owner e hk hh k (peerIdx o) hp4 hk
  rw [hinv] at a2
  have hn : n = specNode c cl.chunks (peerIdx o) := by
    rw [specView_node cl k _ hp4, hk] at a1; exact (Option.some.inj a1).symm
  have hnp : np = specNode c cl.chunks o := by
    rw [specView_node cl k _ (by rw [hoo]; exact ho4), hk] at a2; exact (Option.some.inj a2).symm
  have hkeys : np.slots.map srKey = partKeys (if q = 0 then c.stable0 else c.stable1) (migOf c q) := by
    rw [hnp, specNode_keys]
    obtain ⟨t0, t1, -, -⟩ := tables_consistent c.role
    obtain ⟨k0, k1⟩ := nk_slotIdx c.role (partKeys c.stable0 c.mig0) (partKeys c.stable1 c.mig1)
    have hq' : q = 0 ∨ q = 1 := by omega
    unfold nodeKeys
    rcases hq' with rfl | rfl
    · have : o = (slotIdx c.role).1 := by simp [o, ownerIdx, t0]
      rw [this, k0]; rfl
    · have : o = (slotIdx c.role).2 := by simp [o, ownerIdx, t1]
      rw [this, k1]; rfl
  refine ⟨np, n', a2, a3, ?_, hkeys, ?_, ?_, ?_, ?_⟩
  · rw [hnp]; simp only [specNode, hoh, proxyAtD, hpa, Option.getD_some]
  · rw [a7]; simp only [if_true, decide_eq_false_iff_not]; omega
  · rw [a4, hn]; rfl
  · rw [a5, hn]; simp only [specNode, hhalf, hoh]
  · intro key hkey
    rw [a8, if_pos rfl, if_neg (by omega)]
    exact List.mem_append_right _ hkey

/-- **(e) repeat calls.** A second `takeover_master` for the same proxy (still in its chunk) returns
`Ok` through the early `return` and changes nothing but the global epoch. -/
theorem C06_e_repeat {s : Store} {name p : String} {cl : Cluster}
    (hcl : s.findCluster name = some cl) {k h : Nat} (hf : failedAt p cl.chunks = some (k, h)) :
    takeoverMaster (takeoverMaster s name p).1 name p = ((takeoverMaster s name p).1.bump, R.ok ()) :=
  takeoverMaster_repeat hcl hf

/-- **(e) repeat calls of the API** (normal mode; `C06_e_repeat_failover_ordered` is the ordered-mode
counterpart). If `replace_failed_proxy` found no replacement (error), calling it
again — with any choice — and again finding none changes nothing but the global epoch. -/
theorem C06_e_repeat_failover {s : Store} {p choice choice' name : String} {pr : ProxyRes}
    {cl : Cluster} {k h : Nat} (ho : s.ordered = false)
    (hp : s.findProxy p = some pr) (hc : pr.cluster = some name)
    (hcl : s.findCluster name = some cl) (hf : failedAt p cl.chunks = some (k, h))
    (hno : ∀ a, (replaceFailedProxy s p choice).2 ≠ R.ok (some a))
    (hno' : ∀ a, (replaceFailedProxy (replaceFailedProxy s p choice).1 p choice').2 ≠ R.ok (some a)) :
    (replaceFailedProxy (replaceFailedProxy s p choice).1 p choice').1 = (replaceFailedProxy s p choice).1.bump := by
  obtain ⟨c, hk, hh, -⟩ := failedAt_some hf
  rcases replaceFailedProxy_cases (choice := choice) hp hc hcl hf hk with
    ⟨-, hfind, -, -, hfailed, hprox, -, hs1⟩ | ⟨-, np, c1, -, -, -, hr, -⟩ | ⟨ho', -⟩
  · generalize (replaceFailedProxy s p choice).1 = s1 at *
    have hp1 : s1.findProxy p = some pr := by unfold Store.findProxy at *; rw [hprox]; exact hp
    obtain ⟨c1, hk1, hr1, hf1, -⟩ := afterTakeover_chunk (e := s.globalEpoch + 1) hf hk
    rcases replaceFailedProxy_cases (choice := choice') hp1 hc hfind hf1 hk1 with
      ⟨-, -, -, -, -, -, -, hs2⟩ | ⟨-, np, c2, -, -, -, hr, -⟩ | ⟨ho2, -⟩
    · rw [hs2, takeoverMaster_eq hfind hf1 hk1, if_pos hr1]
      unfold markFailed
      have : (s1.bump.failed.contains p) = true := by simpa using hfailed
      simp only [this, if_true]
    · exact absurd hr (hno' _)
    · -- the mode does not change
      exfalso
      have : s1.ordered = s.ordered := by
        rw [hs1]; exact Ord.takeoverMaster_ordered s name p
      rw [this, ho] at ho2; cases ho2
  · exact absurd hr (hno _)
  · rw [ho] at ho'; cases ho'

/-- **(e) repeat calls of the API, ordered mode** (`enable_ordered_proxy`): the call never installs a
replacement; a repeated call runs the early-`return` takeover (one epoch bump) and the second
`bump_global_epoch` of `replace_failed_proxy`, and changes nothing else. -/
theorem C06_e_repeat_failover_ordered {s : Store} {p choice choice' name : String} {pr : ProxyRes}
    {cl : Cluster} {k h : Nat} (ho : s.ordered = true)
    (hp : s.findProxy p = some pr) (hc : pr.cluster = some name)
    (hcl : s.findCluster name = some cl) (hf : failedAt p cl.chunks = some (k, h)) :
    (replaceFailedProxy (replaceFailedProxy s p choice).1 p choice').1 =
      (replaceFailedProxy s p choice).1.bump.bump ∧
    (replaceFailedProxy (replaceFailedProxy s p choice).1 p choice').2 = R.ok none := by
  obtain ⟨c, hk, hh, -⟩ := failedAt_some hf
  rcases replaceFailedProxy_cases (choice := choice) hp hc hcl hf hk with
    ⟨ho', -⟩ | ⟨ho', -⟩ | ⟨-, hfind, -, -, -, hprox, -, hs1⟩
  · rw [ho] at ho'; cases ho'
  · rw [ho] at ho'; cases ho'
  · have hord1 : (replaceFailedProxy s p choice).1.ordered = true := by
      rw [Ord.replaceFailedProxy_ordered]; exact ho
    generalize (replaceFailedProxy s p choice).1 = s1 at *
    have hp1 : s1.findProxy p = some pr := by unfold Store.findProxy at *; rw [hprox]; exact hp
    obtain ⟨c1, hk1, hr1, hf1, -⟩ := afterTakeover_chunk (e := s.globalEpoch + 1) hf hk
    rcases replaceFailedProxy_cases (choice := choice') hp1 hc hfind hf1 hk1 with
      ⟨ho2, -⟩ | ⟨ho2, -⟩ | ⟨-, -, hr2, -, -, -, -, hs2⟩
    · rw [hord1] at ho2; cases ho2
    · rw [hord1] at ho2; cases ho2
    · refine ⟨?_, hr2⟩
      rw [hs2, takeoverMaster_eq hfind hf1 hk1, if_pos hr1]

/-- **(f) allocation never hands out failed or reported proxies.** The two allocators accept only
members of `Store.freeProxies`, which are exactly the registered proxies that are in no cluster,
not in `failed` and without a failure report; and for *every* operation (any arguments, any
choices, also when it errs, panics or the choice is rejected) every proxy address in a chunk of
the post-state either already was in a same-named cluster of the pre-state or was such a free
proxy of the pre-state. -/
theorem C06_f_allocation (s : Store) (op : Op) :
    AllocOK s (step s op) ∧ AllocOK s (stepFull s op).1 ∧
    (∀ n choice arr, generateFreeChunks s n choice = R.ok arr → ∀ x ∈ arr, x.1 ∈ s.freeProxies ∧ x.2 ∈ s.freeProxies) ∧
    (∀ f choice np, generateNewFreeProxy s f choice = R.ok np → np ∈ s.freeProxies) ∧
    (∀ pr, pr ∈ s.freeProxies ↔
      pr ∈ s.proxies ∧ pr.cluster = none ∧ pr.addr ∉ s.failed ∧ s.hasFailureKey pr.addr = false) ∧
    (∀ s' a choice, op = Op.failover a choice → ∀ b, replaceFailedProxy s a choice = (s', R.ok (some b)) → FreeIn s b) :=
  ⟨allocOK_step s op, allocOK_stepFull s op, fun _ _ _ h => generateFreeChunks_free h,
    fun _ _ _ h => generateNewFreeProxy_free h, fun pr => mem_freeProxies s pr,
    fun _ _ _ _ _ h => replaceFailedProxy_replacement_free h⟩

/-- (f) along every history -/
theorem C06_f_allocation_run (ops : List Op) (op : Op) : AllocOK (run ops) (run (ops ++ [op])) := by
  rw [run_snoc]; exact allocOK_step _ op

/-- **(g) `balance_masters`.** It succeeds for an existing cluster, bumps the epochs, and changes
nothing but role positions: chunk `i` keeps every field except `role`; the role is reset to `Normal`
exactly for the chunks none of whose two proxies is in `failed` or has a failure report (all
others keep their role position, whatever it is). Slot ownership stays intact part by part: in the
view after the call every node keeps its address, proxy and peer record; in a chunk that was
reset node 0 holds the ranges of part 0 (those the old first slot node `n0` held), node 2 those
of part 1 (old second slot node `n1`), nodes 1 and 3 nothing — the nodes the `Normal` position
designates —, and in a chunk that was not reset every node holds what it held. -/
theorem C06_g_balance {s : Store} {name : String} {cl : Cluster}
    (hv : validName name = true) (hcl : s.findCluster name = some cl) :
    (balanceMasters s name).2 = R.ok () ∧ (balanceMasters s name).1.globalEpoch = s.globalEpoch + 1 ∧
    ∃ cl', (balanceMasters s name).1.findCluster name = some cl' ∧ cl'.epoch = s.globalEpoch + 1 ∧
      cl'.chunks.length = cl.chunks.length ∧
      (∀ v, clusterStoreToCluster cl = R.ok v → clusterStoreToCluster cl' = R.ok (specView cl')) ∧
      ∀ (i : Nat) (x : Chunk), cl.chunks[i]? = some x → ∃ x' : Chunk, cl'.chunks[i]? = some x' ∧
        x' = { x with role := x'.role } ∧
        (x'.role = x.role ∨ (x'.role = .normal ∧ x.proxy0 ∉ s.failed ∧ x.proxy1 ∉ s.failed ∧
            s.hasFailureKey x.proxy0 = false ∧ s.hasFailureKey x.proxy1 = false)) ∧
        (badProxy s x.proxy0 = false → badProxy s x.proxy1 = false → x'.role = .normal) ∧
        ∀ j, j < 4 →
          ∃ n n0 n1 n', vnode (specView cl) i j = some n ∧
            vnode (specView cl) i (slotIdx x.role).1 = some n0 ∧ vnode (specView cl) i (slotIdx x.role).2 = some n1 ∧
            vnode (specView cl') i j = some n' ∧
            n'.address = n.address ∧ n'.proxy = n.proxy ∧ n'.peers = n.peers ∧
            n'.replica = isReplica x'.role j ∧
            n'.slots.map srKey =
              if x'.role = x.role then n.slots.map srKey
              else (if j = 0 then n0.slots.map srKey else []) ++ (if j = 2 then n1.slots.map srKey else []) := by
  rw [balanceMasters_eq hv hcl]
  refine ⟨rfl, rfl, _, findCluster_setCluster hcl rfl, rfl, by simp, ?_, ?_⟩
  · intro v hv'
    obtain ⟨hok, -⟩ := clusterStoreToCluster_eq_ok hv'
    rw [clusterStoreToCluster_eq, clusterOk_bm s _ hok]; rfl
  · intro i x hx
    obtain ⟨f1, f2, f3⟩ := bmChunk_facts s x
    refine ⟨bmChunk s x, bmChunks_get hx, f3, f1, f2, ?_⟩
    intro j hj
    exact balance_owner s cl i j hj hx

/-- **C06 for the API call `replace_failed_proxy`** (= `takeover_master`, mark failed, optional
replacement). For a registered proxy `p` tagged with cluster `name`, sitting on half `h` of chunk `k`
of that cluster (`PosInv`, distinct proxy addresses): whatever the call returns, `p` is marked
failed (normal mode; in ordered mode — `enable_ordered_proxy` — the failed set is untouched and the
call answers `Ok(None)`: the takeover happens, a replacement never), the cluster found afterwards
has a view `v'` with the same number of nodes, and for node
`j` of chunk `i` (`n` before, `np` its peer before, `n'` after):
* the ranges are redistributed exactly as in (a);
* the role is: replica on the failed half of chunk `k`, master on the partner half, unchanged elsewhere;
* outside the failed half address and proxy are unchanged; on the failed half the node was served
  by `p` and afterwards either still is (no replacement: the call returned an error, or, in ordered
  mode, `Ok(None)`) or (normal mode only) is served by
  the returned replacement proxy, which was free, not failed and unreported before the call;
* no node served by `p` is master or holds a slot range. -/
theorem C06_failover {s : Store} {p choice name : String} {pr : ProxyRes} {cl : Cluster}
    {k h : Nat} {c : Chunk} (hp : s.findProxy p = some pr) (hc : pr.cluster = some name)
    (hcl : s.findCluster name = some cl) (hpos : PosInv cl) (hnd : cl.proxyAddrs.Nodup)
    (hf : failedAt p cl.chunks = some (k, h)) (hk : cl.chunks[k]? = some c) :
    (if s.ordered = true then
        (replaceFailedProxy s p choice).1.failed = s.failed ∧ (replaceFailedProxy s p choice).2 = R.ok none
      else p ∈ (replaceFailedProxy s p choice).1.failed) ∧
    ∃ cl' v v', (replaceFailedProxy s p choice).1.findCluster name = some cl' ∧
      clusterStoreToCluster cl = R.ok v ∧ clusterStoreToCluster cl' = R.ok v' ∧
      v'.nodes.length = v.nodes.length ∧
      (∀ i j, i < cl.chunks.length → j < 4 →
        ∃ n np n', vnode v i j = some n ∧ vnode v i (peerIdx j) = some np ∧ vnode v' i j = some n' ∧
          n'.slots.map srKey =
            (if i = k then (if j / 2 = h then [] else n.slots.map srKey ++ np.slots.map srKey)
             else n.slots.map srKey) ∧
          n'.replica = (if i = k then decide (j / 2 = h) else n.replica) ∧
          (¬ (i = k ∧ j / 2 = h) → n'.address = n.address ∧ n'.proxy = n.proxy) ∧
          ((i = k ∧ j / 2 = h) → n.proxy = p ∧
            ((n'.proxy = p ∧ n'.address = n.address ∧
                (if s.ordered = true then (replaceFailedProxy s p choice).2 = R.ok none
                 else ∀ a, (replaceFailedProxy s p choice).2 ≠ R.ok a)) ∨
             (s.ordered = false ∧
               ∃ a, (replaceFailedProxy s p choice).2 = R.ok (some a) ∧ n'.proxy = a ∧ FreeIn s a)))) ∧
      (∀ n ∈ v'.nodes, n.proxy = p → n.replica = true ∧ n.slots = []) := by
  obtain ⟨c', hk', hh, hpa, -, -⟩ := failedAt_some hf
  rw [hk] at hk'; cases hk'
  have hok := clusterOk_of_posInv hpos
  have hok1 := clusterOk_afterTakeover (h := h) (e := s.globalEpoch + 1) hk hok
  obtain ⟨c1, hk1, hr1, hf1, hlen⟩ := afterTakeover_chunk (e := s.globalEpoch + 1) hf hk
  have hnd1 : (afterTakeover cl k h (s.globalEpoch + 1) c).proxyAddrs.Nodup := by rw [proxyAddrs_tk hk]; exact hnd
  have honp : ∀ i j, j < 4 → i = k ∧ j / 2 = h → ∀ n, vnode (specView cl) i j = some n → n.proxy = p := by
    rintro i j hj ⟨rfl, rfl⟩ n hn
    rw [specView_node cl i j hj, hk] at hn; cases hn
    simp [specNode, proxyAtD, hpa]
  -- no replacement (normal mode: error; ordered mode: by design): the cluster is the one after the takeover
  have hnorepl : (replaceFailedProxy s p choice).1.findCluster name =
        some (afterTakeover cl k h (s.globalEpoch + 1) c) →
      (if s.ordered = true then (replaceFailedProxy s p choice).2 = R.ok none
        else ∀ a, (replaceFailedProxy s p choice).2 ≠ R.ok a) →
      ∃ cl' v v', (replaceFailedProxy s p choice).1.findCluster name = some cl' ∧
        clusterStoreToCluster cl = R.ok v ∧ clusterStoreToCluster cl' = R.ok v' ∧
        v'.nodes.length = v.nodes.length ∧
        (∀ i j, i < cl.chunks.length → j < 4 →
          ∃ n np n', vnode v i j = some n ∧ vnode v i (peerIdx j) = some np ∧ vnode v' i j = some n' ∧
            n'.slots.map srKey =
              (if i = k then (if j / 2 = h then [] else n.slots.map srKey ++ np.slots.map srKey)
               else n.slots.map srKey) ∧
            n'.replica = (if i = k then decide (j / 2 = h) else n.replica) ∧
            (¬ (i = k ∧ j / 2 = h) → n'.address = n.address ∧ n'.proxy = n.proxy) ∧
            ((i = k ∧ j / 2 = h) → n.proxy = p ∧
              ((n'.proxy = p ∧ n'.address = n.address ∧
                  (if s.ordered = true then (replaceFailedProxy s p choice).2 = R.ok none
                   else ∀ a, (replaceFailedProxy s p choice).2 ≠ R.ok a)) ∨
               (s.ordered = false ∧
                 ∃ a, (replaceFailedProxy s p choice).2 = R.ok (some a) ∧ n'.proxy = a ∧ FreeIn s a)))) ∧
        (∀ n ∈ v'.nodes, n.proxy = p → n.replica = true ∧ n.slots = []) := by
    intro hfind hno
    refine ⟨_, specView cl, specView (afterTakeover cl k h (s.globalEpoch + 1) c), hfind,
      view_of_posInv hpos, by rw [clusterStoreToCluster_eq, hok1]; rfl,
      by rw [specView_length, specView_length, hlen], ?_, no_master_on hnd1 hf1 hk1 hr1⟩
    intro i j hi hj
    have hx : cl.chunks[i]? = some cl.chunks[i] := List.getElem?_eq_getElem hi
    obtain ⟨n, np, n', h1, h2, h3, h4, h5, -, h7, h8⟩ := afterTakeover_owner (s.globalEpoch + 1) hk hh i j hj hx
    exact ⟨n, np, n', h1, h2, h3, h8, h7, fun _ => ⟨h4, h5⟩,
      fun hkh => ⟨honp i j hj hkh n h1, Or.inl ⟨by rw [h5]; exact honp i j hj hkh n h1, h4, hno⟩⟩⟩
  rcases replaceFailedProxy_cases (choice := choice) hp hc hcl hf hk with
    ⟨ho, hfind, hno, -, hfailed, -, -, -⟩ | ⟨ho, np, c1', -, hk1', -, hr, -, hfailed, hfind⟩ |
    ⟨ho, hfind, hres, -, hfailed, -, -, -⟩
  · -- normal mode, no replacement
    have hno' : (if s.ordered = true then (replaceFailedProxy s p choice).2 = R.ok none
        else ∀ a, (replaceFailedProxy s p choice).2 ≠ R.ok a) := by
      rw [if_neg (by rw [ho]; exact Bool.false_ne_true)]; exact hno
    refine ⟨by rw [if_neg (by rw [ho]; exact Bool.false_ne_true)]; exact hfailed, hnorepl hfind hno'⟩
  rotate_left
  · -- ordered mode: takeover, `Ok(None)`, the failed set untouched
    have hno' : (if s.ordered = true then (replaceFailedProxy s p choice).2 = R.ok none
        else ∀ a, (replaceFailedProxy s p choice).2 ≠ R.ok a) := by
      rw [if_pos ho]; exact hres
    refine ⟨by rw [if_pos ho]; exact ⟨hfailed, hres⟩, hnorepl hfind hno'⟩
  · -- replacement by `np`
    have hfailed : (if s.ordered = true then
        (replaceFailedProxy s p choice).1.failed = s.failed ∧ (replaceFailedProxy s p choice).2 = R.ok none
        else p ∈ (replaceFailedProxy s p choice).1.failed) := by
      rw [if_neg (by rw [ho]; exact Bool.false_ne_true)]; exact hfailed
    rw [hk1] at hk1'; cases hk1'
    have hfree : FreeIn s np.addr :=
      replaceFailedProxy_replacement_free (s' := (replaceFailedProxy s p choice).1)
        (by rw [← hr])
    have hokr := clusterOk_repl (h := h) (np := np) (s.globalEpoch + 1 + 1) hk1 hok1
    have hnode : ∀ i j, i < cl.chunks.length → j < 4 →
        ∃ n np' n1 n', vnode (specView cl) i j = some n ∧ vnode (specView cl) i (peerIdx j) = some np' ∧
          vnode (specView (afterTakeover cl k h (s.globalEpoch + 1) c)) i j = some n1 ∧
          vnode (specView (replCluster (afterTakeover cl k h (s.globalEpoch + 1) c) k h np c1
            (s.globalEpoch + 1 + 1))) i j = some n' ∧
          n1.address = n.address ∧ n1.proxy = n.proxy ∧
          n1.replica = (if i = k then decide (j / 2 = h) else n.replica) ∧
          n1.slots.map srKey =
            (if i = k then (if j / 2 = h then [] else n.slots.map srKey ++ np'.slots.map srKey)
             else n.slots.map srKey) ∧
          n'.slots = n1.slots ∧ n'.replica = n1.replica ∧
          (¬ (i = k ∧ j / 2 = h) → n'.address = n1.address ∧ n'.proxy = n1.proxy) ∧
          ((i = k ∧ j / 2 = h) → n'.proxy = np.addr) := by
      intro i j hi hj
      have hx : cl.chunks[i]? = some cl.chunks[i] := List.getElem?_eq_getElem hi
      have hi1 : i < (afterTakeover cl k h (s.globalEpoch + 1) c).chunks.length := by rw [hlen]; exact hi
      obtain ⟨n, np', n1, h1, h2, h3, h4, h5, -, h7, h8⟩ := afterTakeover_owner (s.globalEpoch + 1) hk hh i j hj hx
      obtain ⟨n1', n', g1, g2, g3, g4, g5, g6⟩ :=
        repl_view (np := np) (s.globalEpoch + 1 + 1) hk1 hh hr1 i j hj (List.getElem?_eq_getElem hi1)
      rw [h3] at g1; cases g1
      exact ⟨n, np', n1, n', h1, h2, h3, g2, h4, h5, h7, h8, g3, g4, g5, fun hkh => (g6 hkh).1⟩
    refine ⟨hfailed, _, specView cl, _, hfind, view_of_posInv hpos,
      by rw [clusterStoreToCluster_eq, hokr]; rfl, ?_, ?_, ?_⟩
    · rw [specView_length, specView_length]; simp [replCluster, hlen]
    · intro i j hi hj
      obtain ⟨n, np', n1, n', a1, a2, -, a4, a5, a6, a7, a8, a9, a10, a11, a12⟩ := hnode i j hi hj
      refine ⟨n, np', n', a1, a2, a4, by rw [a9, a8], by rw [a10, a7], ?_, ?_⟩
      · intro hn; obtain ⟨b1, b2⟩ := a11 hn; exact ⟨by rw [b1, a5], by rw [b2, a6]⟩
      · intro hkh
        exact ⟨honp i j hj hkh n a1, Or.inr ⟨ho, np.addr, hr, a12 hkh, hfree⟩⟩
    · intro n hn hpn
      obtain ⟨i, j, y, hj, hy, hv, -⟩ := mem_specView_nodes hn
      have hi : i < cl.chunks.length := by
        have : i < (replCluster (afterTakeover cl k h (s.globalEpoch + 1) c) k h np c1
            (s.globalEpoch + 1 + 1)).chunks.length := by
          apply Classical.byContradiction; intro hcon
          rw [List.getElem?_eq_none (by omega)] at hy; cases hy
        simpa [replCluster, hlen] using this
      obtain ⟨n0, np', n1, n', a1, a2, a3, a4, a5, a6, a7, a8, a9, a10, a11, a12⟩ := hnode i j hi hj
      rw [hv] at a4; cases a4
      have hi1 : i < (afterTakeover cl k h (s.globalEpoch + 1) c).chunks.length := by rw [hlen]; exact hi
      obtain ⟨m, mp, b1, -, -, -, -, -, -, -, -, -, b11⟩ :=
        view_peers (afterTakeover cl k h (s.globalEpoch + 1) c) i j hj (List.getElem?_eq_getElem hi1)
      rw [a3] at b1; cases b1
      by_cases hkh : i = k ∧ j / 2 = h
      · have hrep : n1.replica = true := by rw [a7, if_pos hkh.1]; simpa using hkh.2
        exact ⟨by rw [a10, hrep], by rw [a9, b11 hrep]⟩
      · have hp1 : n1.proxy = p := by rw [← (a11 hkh).2]; exact hpn
        have hmem : n1 ∈ (specView (afterTakeover cl k h (s.globalEpoch + 1) c)).nodes :=
          List.mem_of_getElem? a3
        obtain ⟨r1, r2⟩ := no_master_on hnd1 hf1 hk1 hr1 n1 hmem hp1
        exact ⟨by rw [a10, r1], by rw [a9, r2]⟩

/-- **C06 failover in ordered-proxy mode** (`enable_ordered_proxy = true`; corollary of `C06_failover`):
the call answers `Ok(None)`, the failed set is untouched, ownership moves exactly as in (a) — the
ranges of the failed half go to the peer nodes on the partner proxy — and *every* node keeps its
address and proxy: the failed proxy is not replaced, its nodes stay in the chunk as replicas
without slots. -/
theorem C06_failover_ordered {s : Store} {p choice name : String} {pr : ProxyRes} {cl : Cluster}
    {k h : Nat} {c : Chunk} (ho : s.ordered = true)
    (hp : s.findProxy p = some pr) (hc : pr.cluster = some name)
    (hcl : s.findCluster name = some cl) (hpos : PosInv cl) (hnd : cl.proxyAddrs.Nodup)
    (hf : failedAt p cl.chunks = some (k, h)) (hk : cl.chunks[k]? = some c) :
    (replaceFailedProxy s p choice).1.failed = s.failed ∧ (replaceFailedProxy s p choice).2 = R.ok none ∧
    ∃ cl' v v', (replaceFailedProxy s p choice).1.findCluster name = some cl' ∧
      clusterStoreToCluster cl = R.ok v ∧ clusterStoreToCluster cl' = R.ok v' ∧
      v'.nodes.length = v.nodes.length ∧
      (∀ i j, i < cl.chunks.length → j < 4 →
        ∃ n np n', vnode v i j = some n ∧ vnode v i (peerIdx j) = some np ∧ vnode v' i j = some n' ∧
          n'.slots.map srKey =
            (if i = k then (if j / 2 = h then [] else n.slots.map srKey ++ np.slots.map srKey)
             else n.slots.map srKey) ∧
          n'.replica = (if i = k then decide (j / 2 = h) else n.replica) ∧
          n'.address = n.address ∧ n'.proxy = n.proxy) ∧
      (∀ n ∈ v'.nodes, n.proxy = p → n.replica = true ∧ n.slots = []) := by
  obtain ⟨hmode, cl', v, v', h1, h2, h3, h4, h5, h6⟩ :=
    C06_failover (choice := choice) hp hc hcl hpos hnd hf hk
  rw [if_pos ho] at hmode
  refine ⟨hmode.1, hmode.2, cl', v, v', h1, h2, h3, h4, ?_, h6⟩
  intro i j hi hj
  obtain ⟨n, np, n', a1, a2, a3, a4, a5, a6, a7⟩ := h5 i j hi hj
  refine ⟨n, np, n', a1, a2, a3, a4, a5, ?_⟩
  by_cases hkh : i = k ∧ j / 2 = h
  · obtain ⟨b1, b2⟩ := a7 hkh
    rcases b2 with ⟨c1, c2, -⟩ | ⟨hno, -⟩
    · exact ⟨c2, by rw [c1, b1]⟩
    · rw [ho] at hno; cases hno
  · exact a6 hkh

/-- **(a), (b), (d) for the views served under a migration limit.** `limit_migration` (any `limit`)
reads neither role positions nor epochs. If it succeeds on the stored cluster (`lc`, view `v`) it
succeeds on the cluster after `takeover_master` (`lc'`, view `v'`): `lc'` is `lc` with the entries mapped
by `tkMap` (= `tkEntry pos e`, identity for a repeat call) and the role of chunk `k` flipped; the nodes
relate exactly as in (a); no node served by `p` is master; and every entry of `lc` is served, before
and after, with the descriptor that the stored entry of the same meta gets in the unlimited view —
so the statements of (d) hold for the limited views verbatim. No invariant hypothesis. -/
theorem C06_limited {s : Store} {name p : String} {cl : Cluster} (hcl : s.findCluster name = some cl)
    {k h : Nat} {c : Chunk} (hf : failedAt p cl.chunks = some (k, h)) (hk : cl.chunks[k]? = some c)
    (limit : Nat) {lc : Cluster} {v : VCluster}
    (hl : limitMigration cl limit = R.ok lc) (hv : clusterStoreToCluster lc = R.ok v) :
    ∃ cl' lc' v', (takeoverMaster s name p).1.findCluster name = some cl' ∧
      limitMigration cl' limit = R.ok lc' ∧ clusterStoreToCluster lc' = R.ok v' ∧
      v'.nodes.length = v.nodes.length ∧ lc.chunks.length = cl.chunks.length ∧
      (∀ i j, i < cl.chunks.length → j < 4 →
        ∃ n np n', vnode v i j = some n ∧ vnode v i (peerIdx j) = some np ∧ vnode v' i j = some n' ∧
          n'.address = n.address ∧ n'.proxy = n.proxy ∧ n'.peers = n.peers ∧
          n'.replica = (if i = k then decide (j / 2 = h) else n.replica) ∧
          n'.slots.map srKey =
            if i = k then (if j / 2 = h then [] else n.slots.map srKey ++ np.slots.map srKey)
            else n.slots.map srKey) ∧
      (cl.proxyAddrs.Nodup → ∀ n ∈ v'.nodes, n.proxy = p → n.replica = true ∧ n.slots = []) ∧
      (∀ (i : Nat) (x : Chunk), lc.chunks[i]? = some x → ∃ x' : Chunk, lc'.chunks[i]? = some x' ∧
        x'.stable0 = x.stable0 ∧ x'.stable1 = x.stable1 ∧
        x'.mig0 = x.mig0.map (tkMap h (s.globalEpoch + 1) c) ∧ x'.mig1 = x.mig1.map (tkMap h (s.globalEpoch + 1) c)) ∧
      (∀ x ∈ lc.migs, ∃ m ∈ cl.migs, x.mm = m.mm ∧ specInfo x lc.chunks = specInfo m cl.chunks ∧
        specInfo (tkMap h (s.globalEpoch + 1) c x) lc'.chunks = specInfo (tkMap h (s.globalEpoch + 1) c m) cl'.chunks) := by
  obtain ⟨-, -, -, -, -, hfind⟩ := takeoverMaster_find hcl hf hk
  obtain ⟨lc', hl', hrel⟩ :=
    limitMigration_rel (tkMap_invisible h (s.globalEpoch + 1) c) limit (afterTakeover_rel (s.globalEpoch + 1) hk) hl
  obtain ⟨hok, rfl⟩ := clusterStoreToCluster_eq_ok hv
  have hok' := clusterOk_relC (tkMap_invisible h (s.globalEpoch + 1) c) hrel hok
  obtain ⟨fr, -⟩ := limitMigration_frame limit hl
  refine ⟨_, lc', specView lc', hfind, hl', by rw [clusterStoreToCluster_eq, hok']; rfl,
    by rw [specView_length, specView_length, hrel.length_eq], fr.length_eq, ?_, ?_, ?_, ?_⟩
  · intro i j hi hj
    have hi' : i < lc.chunks.length := by rw [fr.length_eq]; exact hi
    exact limited_owner (s.globalEpoch + 1) limit hf hk hl hl' hrel i j hj (List.getElem?_eq_getElem hi')
  · intro hnd
    exact limited_no_master (s.globalEpoch + 1) limit hnd hf hk hl'
  · intro i x hx
    obtain ⟨y, hy, a, b, c', d⟩ := hrel.get hx
    exact ⟨y, hy, a, b, c', d⟩
  · exact limited_tags (s.globalEpoch + 1) limit hl hl'

/-! ## lifted to every reachable state

`C06_failover_at` / `C06_epochs_at` collect the clauses for one store whose clusters satisfy the
invariants; `C06_failover_run` / `C06_epochs_run` discharge those invariants with the theorems of
C01 (`Plan.cinv_run`: `PosInv`, `TwinInv` on every bounded run), C04 (`Epoch.epochInv_reachable`) and
C12 (`resInv_reachable`), so that nothing but the master bound `PlanBound` (≤ 16384 masters per
cluster in every prefix of the history) remains as a premise. `C06_reachable_*` are the same with
the lifted invariants as premises. -/

/-- clauses (a), (b), (c), (e) and the replacement clause for the step `failover p choice` at store `s`,
`p` registered and tagged with cluster `name`. Both modes: the only mode-dependent clause is the
failed mark (normal mode: `p` is marked failed; ordered mode: the failed set is untouched and the
call answers `Ok(None)` — takeover without replacement). -/
def FailoverClauses (s : Store) (p choice name : String) : Prop :=
    ∃ cl k h, s.findCluster name = some cl ∧ failedAt p cl.chunks = some (k, h) ∧
      (if s.ordered = true then
          (stepFull s (Op.failover p choice)).1.failed = s.failed ∧
          (replaceFailedProxy s p choice).2 = R.ok none
        else p ∈ (stepFull s (Op.failover p choice)).1.failed) ∧
      takeoverMaster (takeoverMaster s name p).1 name p = ((takeoverMaster s name p).1.bump, R.ok ()) ∧
      ∃ cl' v v', (stepFull s (Op.failover p choice)).1.findCluster name = some cl' ∧
        clusterStoreToCluster cl = R.ok v ∧ clusterStoreToCluster cl' = R.ok v' ∧
        (∀ i j, i < cl.chunks.length → j < 4 →
          keysAt v' i j = (if i = k then (if j / 2 = h then [] else keysAt v i j ++ keysAt v i (peerIdx j))
                           else keysAt v i j)) ∧
        (∀ i j, i < cl.chunks.length → j < 4 → ∀ key : Key,
          (key ∈ keysAt v i j → dest k h i j < 4 ∧ key ∈ keysAt v' i (dest k h i j)) ∧
          (key ∈ keysAt v' i j → ∃ j0, j0 < 4 ∧ dest k h i j0 = j ∧ key ∈ keysAt v i j0)) ∧
        (∀ n ∈ v'.nodes, n.proxy = p → n.replica = true ∧ n.slots = []) ∧
        (v'.nodes.length = 4 * cl'.chunks.length ∧
          ∀ i j, i < cl'.chunks.length → j < 4 →
            ∃ n np, vnode v' i j = some n ∧ vnode v' i (peerIdx j) = some np ∧
              n.peers = [(np.address, np.proxy)] ∧ np.peers = [(n.address, n.proxy)] ∧
              np.replica = !n.replica ∧ (n.replica = true → n.slots = []))

/-- (a)+(b)+(c)+(e)+replacement at one store: for every registered proxy `p` tagged with a
cluster, the failover step `failover p choice` (any choice, any role position, healthy partner or
not) has the effect described by `C06_failover`, `C06_a_per_range`, `C06_c_peers`, `C06_e_repeat`. -/
theorem C06_failover_at {s : Store} (hPos : ∀ c ∈ s.clusters, PosInv c) (hRes : ResInv s)
    (p choice name : String) (pr : ProxyRes)
    (hp : s.findProxy p = some pr) (hc : pr.cluster = some name) :
    FailoverClauses s p choice name := by
  unfold FailoverClauses
  obtain ⟨cl, k, h, hcl, hnd, hf⟩ := resInv_failedAt hRes hp hc
  obtain ⟨c, hk, hh, -⟩ := failedAt_some hf
  have hpos := hPos cl (findCluster_some hcl).1
  obtain ⟨hfailed, cl', v, v', h1, h2, h3, -, h5, h6⟩ :=
    C06_failover (choice := choice) hp hc hcl hpos hnd hf hk
  have heq : ∀ i j, i < cl.chunks.length → j < 4 →
      keysAt v' i j = (if i = k then (if j / 2 = h then [] else keysAt v i j ++ keysAt v i (peerIdx j))
                       else keysAt v i j) := by
    intro i j hi hj
    obtain ⟨n, np, n', a1, a2, a3, a4, -⟩ := h5 i j hi hj
    simp only [keysAt, a1, a2, a3, Option.map_some, Option.getD_some]
    exact a4
  obtain ⟨hlen, hpeers⟩ := C06_c_peers cl' v' h3
  refine ⟨cl, k, h, hcl, hf, hfailed, takeoverMaster_repeat hcl hf, cl', v, v', h1, h2, h3, heq, ?_, h6, hlen, ?_⟩
  · intro i j hi hj key
    exact per_range hh (fun j => keysAt v i j) (fun j => keysAt v' i j) (fun j' hj' => heq i j' hi hj') j hj key
  · intro i j hi hj
    obtain ⟨-, hp'⟩ := hpeers i cl'.chunks[i] (List.getElem?_eq_getElem hi)
    obtain ⟨n, np, a1, a2, -, -, -, -, -, -, a9, a10, -, a12, a13⟩ := hp' j hj
    exact ⟨n, np, a1, a2, a9, a10, a12, a13⟩

/-- clause (d) for `takeover_master` of `p` (registered, tagged with cluster `name`) at store `s` -/
def EpochClauses (s : Store) (p name : String) : Prop :=
    ∃ cl k h c, s.findCluster name = some cl ∧ failedAt p cl.chunks = some (k, h) ∧
      cl.chunks[k]? = some c ∧
      (c.role ≠ newRole h →
        ∃ cl', (takeoverMaster s name p).1.findCluster name = some cl' ∧
          cl'.migs = cl.migs.map (tkEntry (tfPos h c) (s.globalEpoch + 1)) ∧
          ∀ m ∈ cl.migs,
            let I := specInfo m cl.chunks
            let I' := specInfo (tkEntry (tfPos h c) (s.globalEpoch + 1) m) cl'.chunks
            I.epoch < s.globalEpoch + 1 ∧ cl.epoch < s.globalEpoch + 1 ∧
            ((I'.srcProxy, I'.srcNode, I'.dstProxy, I'.dstNode) ≠ (I.srcProxy, I.srcNode, I.dstProxy, I.dstNode) →
              I'.epoch = s.globalEpoch + 1) ∧
            (srcMoved k h c m → I'.epoch = s.globalEpoch + 1 ∧ I'.srcProxy = proxyAtD c (1 - h) ∧
              I'.srcNode = nodeAtD c (peerIdx (ownerIdx c.role m.mm.srcPart))) ∧
            (dstMoved k h c m → I'.epoch = s.globalEpoch + 1 ∧ I'.dstProxy = proxyAtD c (1 - h) ∧
              I'.dstNode = nodeAtD c (peerIdx (ownerIdx c.role m.mm.dstPart))) ∧
            (¬ srcMoved k h c m → I'.srcProxy = I.srcProxy ∧ I'.srcNode = I.srcNode) ∧
            (¬ dstMoved k h c m → I'.dstProxy = I.dstProxy ∧ I'.dstNode = I.dstNode))

/-- (d) at one store: a `takeover_master` for a registered, cluster-tagged proxy that is not a
repeat call re-issues — with an epoch above every epoch served before — every migration whose
served source or destination address it changes; moved ends name the partner proxy and the
promoted node, other ends keep their addresses. -/
theorem C06_epochs_at {s : Store} (hPos : ∀ c ∈ s.clusters, PosInv c) (hTwin : ∀ c ∈ s.clusters, TwinInv c)
    (hEpoch : EpochInv s) (hRes : ResInv s) (p name : String) (pr : ProxyRes)
    (hp : s.findProxy p = some pr) (hc : pr.cluster = some name) :
    EpochClauses s p name := by
  unfold EpochClauses
  obtain ⟨cl, k, h, hcl, -, hf⟩ := resInv_failedAt hRes hp hc
  obtain ⟨c, hk, -⟩ := failedAt_some hf
  have hmem := (findCluster_some hcl).1
  refine ⟨cl, k, h, c, hcl, hf, hk, ?_⟩
  intro hnr
  obtain ⟨cl', a1, -, -, a4, -, amigs, -, a6⟩ :=
    C06_d_migration_epochs hEpoch hcl (hPos cl hmem) (hTwin cl hmem) hf hk hnr
  refine ⟨cl', a1, amigs, ?_⟩
  intro m hm
  obtain ⟨-, -, -, -, b5, -, b7, b8, b9, b10, b11⟩ := a6 m hm
  exact ⟨Nat.lt_succ_of_le b5, Nat.lt_succ_of_le a4, b7, b8, b9, b10, b11⟩

/-- `C06_failover_at` along every history, with the lifted invariants as premises -/
theorem C06_reachable_failover
    (hPos : ∀ s, Reachable s → ∀ c ∈ s.clusters, PosInv c) (hRes : ∀ s, Reachable s → ResInv s)
    (ops : List Op) (p choice name : String) (pr : ProxyRes)
    (hp : (run ops).findProxy p = some pr) (hc : pr.cluster = some name) :
    FailoverClauses (run ops) p choice name :=
  C06_failover_at (hPos _ (reachable_run ops)) (hRes _ (reachable_run ops)) p choice name pr hp hc

/-- `C06_epochs_at` along every history, with the lifted invariants as premises -/
theorem C06_reachable_epochs
    (hPos : ∀ s, Reachable s → ∀ c ∈ s.clusters, PosInv c) (hTwin : ∀ s, Reachable s → ∀ c ∈ s.clusters, TwinInv c)
    (hEpoch : ∀ s, Reachable s → EpochInv s) (hRes : ∀ s, Reachable s → ResInv s)
    (ops : List Op) (p name : String) (pr : ProxyRes)
    (hp : (run ops).findProxy p = some pr) (hc : pr.cluster = some name) :
    EpochClauses (run ops) p name :=
  C06_epochs_at (hPos _ (reachable_run ops)) (hTwin _ (reachable_run ops)) (hEpoch _ (reachable_run ops))
    (hRes _ (reachable_run ops)) p name pr hp hc

/-- **C06 (a), (b), (c), (e) for every bounded history, no further premise.** For every operation
list `ops` all of whose prefixes keep every cluster at ≤ 16384 masters (`PlanBound`), and every
registered proxy `p` tagged with a cluster: appending `failover p choice` (any choice; the chunk
partner may be healthy or not) has the effects of `C06_failover_at`. -/
theorem C06_failover_run (ops : List Op) (hb : ∀ k, Plan.PlanBound (run (ops.take k)))
    (p choice name : String) (pr : ProxyRes)
    (hp : (run ops).findProxy p = some pr) (hc : pr.cluster = some name) :
    FailoverClauses (run ops) p choice name :=
  C06_failover_at (fun c hc' => (Plan.cinv_run ops hb c hc').1) (resInv_reachable (reachable_run ops))
    p choice name pr hp hc

/-- **C06 (d) for every bounded history, no further premise.** -/
theorem C06_epochs_run (ops : List Op) (hb : ∀ k, Plan.PlanBound (run (ops.take k)))
    (p name : String) (pr : ProxyRes)
    (hp : (run ops).findProxy p = some pr) (hc : pr.cluster = some name) :
    EpochClauses (run ops) p name :=
  C06_epochs_at (fun c hc' => (Plan.cinv_run ops hb c hc').1) (fun c hc' => (Plan.cinv_run ops hb c hc').2.1)
    (Epoch.epochInv_reachable _ (reachable_run ops)) (resInv_reachable (reachable_run ops)) p name pr hp hc

/-! ## non-vacuity: a reachable 2-chunk cluster in the middle of a migration

`exS` = five proxies registered, cluster `k` created on `a:1,b:1`, scaled to two chunks with
`c:1,d:1`, migration started (chunk 0 part 0 → chunk 1 part 0, chunk 0 part 1 → chunk 1 part 1, epoch 8);
`e:1` is the spare. Everything below is evaluated by the kernel (`decide +kernel`). -/

def exOps : List Op := [
  .addProxy "a:1" "a:11" "a:12" none none,
  .addProxy "b:1" "b:11" "b:12" none none,
  .addProxy "c:1" "c:11" "c:12" none none,
  .addProxy "d:1" "d:11" "d:12" none none,
  .addProxy "e:1" "e:11" "e:12" none none,
  .addCluster "k" 4 [("a:1", "b:1")],
  .addNodes "k" 4 [("c:1", "d:1")],
  .migrate "k"]

def exS : Store := run exOps

/-- keys held by the eight nodes of a two-chunk cluster in the served view -/
def exKeys (s : Store) (name : String) : Option (List (List Key)) :=
  match s.findCluster name with
  | none => none
  | some cl =>
    match clusterStoreToCluster cl with
    | .ok v => some ((List.range 8).map fun t => keysAt v (t / 4) (t % 4))
    | _ => none

/-- role position index and stored migration epochs, chunk by chunk -/
def exEpochs (s : Store) (name : String) : List (Nat × List Nat × List Nat) :=
  match s.findCluster name with
  | none => []
  | some cl => cl.chunks.map fun c => (c.role.idx, c.mig0.map (·.mm.epoch), c.mig1.map (·.mm.epoch))

/-- served migration descriptors of the stored entries, chunk by chunk -/
def exTags (s : Store) (name : String) : List (List MigInfo) :=
  match s.findCluster name with
  | none => []
  | some cl => cl.chunks.map fun c => (c.mig0 ++ c.mig1).map fun m => specInfo m cl.chunks

def exOk : Outcome → Bool
  | .ok _ => true
  | _ => false

set_option maxRecDepth 100000

/-- the hypotheses of the theorems hold together in the reachable state `exS`, for a proxy of a
source chunk (`a:1`, half 0 of chunk 0) and of a destination chunk (`d:1`, half 1 of chunk 1) -/
theorem ex_hyps : Reachable exS ∧ EpochInv exS ∧
    ∃ cl pa pd c0 c1, exS.findCluster "k" = some cl ∧ PosInv cl ∧ TwinInv cl ∧ cl.proxyAddrs.Nodup ∧
      exS.findProxy "a:1" = some pa ∧ pa.cluster = some "k" ∧
      exS.findProxy "d:1" = some pd ∧ pd.cluster = some "k" ∧
      failedAt "a:1" cl.chunks = some (0, 0) ∧ failedAt "d:1" cl.chunks = some (1, 1) ∧
      cl.chunks[0]? = some c0 ∧ cl.chunks[1]? = some c1 ∧
      c0.role ≠ newRole 0 ∧ c1.role ≠ newRole 1 ∧ cl.chunks.length = 2 ∧ cl.migs.length = 4 := by
  refine ⟨reachable_run exOps, ?_, ?_⟩
  · show ∀ c ∈ exS.clusters, c.epoch ≤ exS.globalEpoch ∧ ∀ m ∈ c.migs, m.mm.epoch ≤ c.epoch
    decide +kernel
  · have h1 : (exS.findCluster "k").isSome = true := by decide +kernel
    have h2 : (exS.findProxy "a:1").isSome = true := by decide +kernel
    have h3 : (exS.findProxy "d:1").isSome = true := by decide +kernel
    have g1 : (exS.findCluster "k").map posInvB = some true := by decide +kernel
    have g2 : (exS.findCluster "k").map twinInvB = some true := by decide +kernel
    have g3 : (exS.findCluster "k").map (fun cl => decide cl.proxyAddrs.Nodup) = some true := by decide +kernel
    have g4 : (exS.findProxy "a:1").map (·.cluster) = some (some "k") := by decide +kernel
    have g5 : (exS.findProxy "d:1").map (·.cluster) = some (some "k") := by decide +kernel
    have g6 : (exS.findCluster "k").map (fun cl => (failedAt "a:1" cl.chunks, failedAt "d:1" cl.chunks,
        cl.chunks.map (·.role.idx), cl.migs.length)) = some (some (0, 0), some (1, 1), [0, 0], 4) := by decide +kernel
    cases hcl : exS.findCluster "k" with
    | none => rw [hcl] at h1; cases h1
    | some cl =>
      cases hpa : exS.findProxy "a:1" with
      | none => rw [hpa] at h2; cases h2
      | some pa =>
        cases hpd : exS.findProxy "d:1" with
        | none => rw [hpd] at h3; cases h3
        | some pd =>
          rw [hcl] at g1 g2 g3 g6; rw [hpa] at g4; rw [hpd] at g5
          simp only [Option.map_some, Option.some.injEq, decide_eq_true_eq, Prod.mk.injEq] at g1 g2 g3 g4 g5 g6
          obtain ⟨f1, f2, f3, f4⟩ := g6
          obtain ⟨c0, hk0, -⟩ := failedAt_some f1
          obtain ⟨c1, hk1, -⟩ := failedAt_some f2
          have r0 := congrArg (fun l => l[0]?) f3
          have r1 := congrArg (fun l => l[1]?) f3
          simp only [List.getElem?_map, hk0, hk1, Option.map_some, List.getElem?_cons_zero, List.getElem?_cons_succ,
            Option.some.injEq] at r0 r1
          have hlen := congrArg List.length f3
          simp only [List.length_map, List.length_cons, List.length_nil] at hlen
          refine ⟨cl, pa, pd, c0, c1, rfl, posInv_of_B g1, twinInv_of_B g2, g3, rfl, g4, rfl, g5, f1, f2,
            hk0, hk1, ?_, ?_, hlen, f4⟩
          · intro h; rw [h] at r0; revert r0; decide
          · intro h; rw [h] at r1; revert r1; decide

/-- every prefix of the example history respects the master bound -/
theorem ex_bound : ∀ k, Plan.PlanBound (run (exOps.take k)) := by
  have hsmall : ∀ k, k < 9 → ∀ c ∈ (run (exOps.take k)).clusters, c.chunks.length * 2 ≤ SLOT_NUM := by
    decide +kernel
  intro k
  by_cases hk : k < 9
  · exact hsmall k hk
  · have : exOps.take k = exOps.take 8 := by
      rw [List.take_of_length_le (by simp [exOps]; omega), List.take_of_length_le (by simp [exOps])]
    rw [this]; exact hsmall 8 (by omega)

/-- `C06_failover_run` / `C06_epochs_run` on the example history: all clauses, no premise left -/
example : FailoverClauses exS "a:1" "e:1" "k" ∧ FailoverClauses exS "d:1" "e:1" "k" ∧
    EpochClauses exS "a:1" "k" ∧ EpochClauses exS "d:1" "k" := by
  obtain ⟨-, -, cl, pa, pd, c0, c1, -, -, -, -, hpa, hca, hpd, hcd, -⟩ := ex_hyps
  exact ⟨C06_failover_run exOps ex_bound "a:1" "e:1" "k" pa hpa hca,
    C06_failover_run exOps ex_bound "d:1" "e:1" "k" pd hpd hcd,
    C06_epochs_run exOps ex_bound "a:1" "k" pa hpa hca, C06_epochs_run exOps ex_bound "d:1" "k" pd hpd hcd⟩

/-- (a), (b), (d), (e), `C06_failover` apply to `exS` (their hypotheses are satisfiable together) -/
example : ∃ cl' v v', (takeoverMaster exS "k" "a:1").1.findCluster "k" = some cl' ∧
    (∃ cl, clusterStoreToCluster cl = R.ok v) ∧ clusterStoreToCluster cl' = R.ok v' ∧
    v'.nodes.length = v.nodes.length := by
  obtain ⟨-, -, cl, pa, pd, c0, c1, hcl, hpos, -, -, -, -, -, -, hfa, -, hk0, -⟩ := ex_hyps
  obtain ⟨cl', v, v', h1, h2, h3, h4, -⟩ := C06_a_ownership hcl hpos hfa hk0
  exact ⟨cl', v, v', h1, ⟨cl, h2⟩, h3, h4⟩

example : ∃ cl', (takeoverMaster exS "k" "d:1").1.findCluster "k" = some cl' ∧
    cl'.epoch = exS.globalEpoch + 1 ∧ cl'.migs.length = 4 := by
  obtain ⟨-, hE, cl, pa, pd, c0, c1, hcl, hpos, htw, -, -, -, -, -, -, hfd, -, hk1, -, hn1, -, hm⟩ := ex_hyps
  obtain ⟨cl', h1, -, h3, -, -, h6, -⟩ := C06_d_migration_epochs hE hcl hpos htw hfd hk1 hn1
  exact ⟨cl', h1, h3, by rw [h6, List.length_map, hm]⟩

example : "a:1" ∈ (replaceFailedProxy exS "a:1" "e:1").1.failed := by
  obtain ⟨-, -, cl, pa, pd, c0, c1, hcl, hpos, -, hnd, hpa, hca, -, -, hfa, -, hk0, -⟩ := ex_hyps
  exact (C06_failover (choice := "e:1") hpa hca hcl hpos hnd hfa hk0).1

/-- the view before: chunk 0 masters on nodes 0 and 2, chunk 1 importing on nodes 0 and 2 -/
example : exKeys exS "k" = some
    [[([(0, 4095)], 0), ([(4096, 8191)], 1)], [], [([(8192, 12287)], 0), ([(12288, 16383)], 1)], [],
     [([(4096, 8191)], 2)], [], [([(12288, 16383)], 2)], []] := by decide +kernel

/-- failover of half 0 of the *source* chunk (with replacement `e:1`): node 0's ranges go to its
peer node 3, everything else stays; the epoch of the migration out of part 0 and of its importing
twin becomes 9 = new global epoch of `takeover_master`, the other migration keeps 8 -/
example : exOk (stepFull exS (.failover "a:1" "e:1")).2 = true ∧
    exKeys (step exS (.failover "a:1" "e:1")) "k" = some
      [[], [], [([(8192, 12287)], 0), ([(12288, 16383)], 1)], [([(0, 4095)], 0), ([(4096, 8191)], 1)],
       [([(4096, 8191)], 2)], [], [([(12288, 16383)], 2)], []] ∧
    exEpochs (step exS (.failover "a:1" "e:1")) "k" = [(2, [9], [8]), (0, [9], [8])] ∧
    exTags (takeoverMaster exS "k" "a:1").1 "k" =
      [[⟨9, "b:1", "b:12", "c:1", "c:11"⟩, ⟨8, "b:1", "b:11", "d:1", "d:11"⟩],
       [⟨9, "b:1", "b:12", "c:1", "c:11"⟩, ⟨8, "b:1", "b:11", "d:1", "d:11"⟩]] := by
  refine ⟨?_, ?_, ?_, ?_⟩ <;> decide +kernel

/-- failover of half 1 of the *destination* chunk: the importing range of node 2 goes to node 1 -/
example : exKeys (step exS (.failover "d:1" "e:1")) "k" = some
      [[([(0, 4095)], 0), ([(4096, 8191)], 1)], [], [([(8192, 12287)], 0), ([(12288, 16383)], 1)], [],
       [([(4096, 8191)], 2)], [([(12288, 16383)], 2)], [], []] ∧
    exEpochs (step exS (.failover "d:1" "e:1")) "k" = [(0, [8], [9]), (1, [8], [9])] := by
  refine ⟨?_, ?_⟩ <;> decide +kernel

/-- the F2 situation (fixed by 2ba2638): `b:1` fails and is replaced (chunk 0 in `FirstChunkMaster`),
then `a:1` fails with no spare left: *both* parts of chunk 0 move, both migrations and their
twins carry the new epoch 11 and name the promoted nodes `e:12`, `e:11`; a repeat call changes
only the global epoch (the early `return Ok(())`) -/
def exF2 : Store := step exS (.failover "b:1" "e:1")

example : exEpochs exF2 "k" = [(1, [8], [9]), (0, [8], [9])] ∧
    exEpochs (step exF2 (.failover "a:1" "x")) "k" = [(2, [11], [11]), (0, [11], [11])] ∧
    (step exF2 (.failover "a:1" "x")).globalEpoch = 11 ∧
    exTags exF2 "k" =
      [[⟨8, "a:1", "a:11", "c:1", "c:11"⟩, ⟨9, "a:1", "a:12", "d:1", "d:11"⟩],
       [⟨8, "a:1", "a:11", "c:1", "c:11"⟩, ⟨9, "a:1", "a:12", "d:1", "d:11"⟩]] ∧
    exTags (step exF2 (.failover "a:1" "x")) "k" =
      [[⟨11, "e:1", "e:12", "c:1", "c:11"⟩, ⟨11, "e:1", "e:11", "d:1", "d:11"⟩],
       [⟨11, "e:1", "e:12", "c:1", "c:11"⟩, ⟨11, "e:1", "e:11", "d:1", "d:11"⟩]] ∧
    exEpochs (step (step exF2 (.failover "a:1" "x")) (.failover "a:1" "x")) "k" = [(2, [11], [11]), (0, [11], [11])] ∧
    (step (step exF2 (.failover "a:1" "x")) (.failover "a:1" "x")).globalEpoch = 12 := by
  refine ⟨?_, ?_, ?_, ?_, ?_, ?_, ?_⟩ <;> decide +kernel

/-- (f): the replacement handed out was free, not failed, unreported; a failed proxy is not free -/
example : FreeIn exS "e:1" ∧ ¬ FreeIn (step exS (.failover "a:1" "e:1")) "a:1" := by
  constructor
  · have h : (exS.findProxy "e:1").map (fun p => (p.cluster, decide ("e:1" ∉ exS.failed), exS.hasFailureKey "e:1")) =
        some (none, true, false) := by decide +kernel
    cases hp : exS.findProxy "e:1" with
    | none => rw [hp] at h; cases h
    | some pr =>
      rw [hp] at h
      simp only [Option.map_some, Option.some.injEq, Prod.mk.injEq, decide_eq_true_eq] at h
      exact ⟨pr, (findProxy_some hp).1, (findProxy_some hp).2, h.1, h.2.1, h.2.2⟩
  · rintro ⟨pr, -, -, -, hnf, -⟩
    exact hnf (by decide +kernel)

/-- (g): `balance_masters` after the replacement of `b:1` resets chunk 0 to `Normal`: part 1 goes back
from node 1 to node 2 (now `e:11`), the stored migration epochs stay 8 and 9. Observation (outside
the property text): the served source of the second migration changes from `a:1/a:12` to
`e:1/e:11` while its migration epoch stays 9 — `balance_masters` does not re-issue migrations. -/
example : exKeys exF2 "k" = some
      [[([(0, 4095)], 0), ([(4096, 8191)], 1)], [([(8192, 12287)], 0), ([(12288, 16383)], 1)], [], [],
       [([(4096, 8191)], 2)], [], [([(12288, 16383)], 2)], []] ∧
    exKeys (step exF2 (.balance "k")) "k" = some
      [[([(0, 4095)], 0), ([(4096, 8191)], 1)], [], [([(8192, 12287)], 0), ([(12288, 16383)], 1)], [],
       [([(4096, 8191)], 2)], [], [([(12288, 16383)], 2)], []] ∧
    exEpochs (step exF2 (.balance "k")) "k" = [(0, [8], [9]), (0, [8], [9])] ∧
    exTags (step exF2 (.balance "k")) "k" =
      [[⟨8, "a:1", "a:11", "c:1", "c:11"⟩, ⟨9, "e:1", "e:11", "d:1", "d:11"⟩],
       [⟨8, "a:1", "a:11", "c:1", "c:11"⟩, ⟨9, "e:1", "e:11", "d:1", "d:11"⟩]] := by
  refine ⟨?_, ?_, ?_, ?_⟩ <;> decide +kernel

/-! ### ordered-proxy mode

`ordS`: a broker started with `enable_ordered_proxy = true`; four proxies **on one host** with the
indices 0..3, cluster `k` on indices 0,1, scaled out onto 2,3, migration started. -/

def ordOps : List Op := [
  .setOrdered,
  .addProxy "a:1" "a:11" "a:12" (some "h") (some 0),
  .addProxy "b:1" "b:11" "b:12" (some "h") (some 1),
  .addProxy "c:1" "c:11" "c:12" (some "h") (some 2),
  .addProxy "d:1" "d:11" "d:12" (some "h") (some 3),
  .addCluster "k" 4 [("a:1", "b:1")],
  .addNodes "k" 4 [("c:1", "d:1")],
  .migrate "k"]

def ordS : Store := run ordOps

theorem ord_bound : ∀ k, Plan.PlanBound (run (ordOps.take k)) := by
  have hsmall : ∀ k, k < 9 → ∀ c ∈ (run (ordOps.take k)).clusters, c.chunks.length * 2 ≤ SLOT_NUM := by
    decide +kernel
  intro k
  by_cases hk : k < 9
  · exact hsmall k hk
  · have : ordOps.take k = ordOps.take 8 := by
      rw [List.take_of_length_le (by simp [ordOps]; omega), List.take_of_length_le (by simp [ordOps])]
    rw [this]; exact hsmall 8 (by omega)

/-- `C06_failover_run` / `C06_epochs_run` on the ordered-mode history -/
example : ordS.ordered = true ∧ FailoverClauses ordS "a:1" "-" "k" ∧ EpochClauses ordS "a:1" "k" := by
  have ho : ordS.ordered = true := by decide +kernel
  have g : (ordS.findProxy "a:1").map (·.cluster) = some (some "k") := by decide +kernel
  cases hp : ordS.findProxy "a:1" with
  | none => rw [hp] at g; cases g
  | some pa =>
    rw [hp] at g
    simp only [Option.map_some, Option.some.injEq] at g
    exact ⟨ho, C06_failover_run ordOps ord_bound "a:1" "-" "k" pa hp g,
      C06_epochs_run ordOps ord_bound "a:1" "k" pa hp g⟩

/-- ordered failover of half 0 of the source chunk: node 0's ranges go to its peer node 3, `a:1` stays
in the chunk (no replacement, not marked failed), the call answers `Ok(None)` after two epoch bumps;
the migration out of part 0 and its twin are re-issued with epoch 8 -/
example : exOk (stepFull ordS (.failover "a:1" "-")).2 = true ∧
    exKeys (step ordS (.failover "a:1" "-")) "k" = some
      [[], [], [([(8192, 12287)], 0), ([(12288, 16383)], 1)], [([(0, 4095)], 0), ([(4096, 8191)], 1)],
       [([(4096, 8191)], 2)], [], [([(12288, 16383)], 2)], []] ∧
    exEpochs (step ordS (.failover "a:1" "-")) "k" = [(2, [8], [7]), (0, [8], [7])] ∧
    (step ordS (.failover "a:1" "-")).failed = [] ∧
    (step ordS (.failover "a:1" "-")).globalEpoch = ordS.globalEpoch + 2 ∧
    ((step ordS (.failover "a:1" "-")).findCluster "k").map (fun c => c.chunks.map (·.proxy0)) =
      some ["a:1", "c:1"] := by
  refine ⟨?_, ?_, ?_, ?_, ?_, ?_⟩ <;> decide +kernel

/-- keys held by the eight nodes in the view served under a migration limit -/
def exKeysL (s : Store) (name : String) (limit : Nat) : Option (List (List Key)) :=
  match s.findCluster name with
  | none => none
  | some cl =>
    match limitMigration cl limit with
    | .ok lc =>
      match clusterStoreToCluster lc with
      | .ok v => some ((List.range 8).map fun t => keysAt v (t / 4) (t % 4))
      | _ => none
    | _ => none

/-- `C06_limited` on `exS` with `migration_limit = 2` (both migrations are rebuilt by `limit_migration`; a limit
of 1 defers the second one, whose `merge_another` sorts with `List.mergeSort`, which the kernel cannot
evaluate): failing `a:1` moves node 0's ranges to node 3, failing `b:1` moves node 2's to node 1 -/
example : exKeysL exS "k" 2 = some
      [[([(0, 4095)], 0), ([(4096, 8191)], 1)], [], [([(8192, 12287)], 0), ([(12288, 16383)], 1)], [],
       [([(4096, 8191)], 2)], [], [([(12288, 16383)], 2)], []] ∧
    exKeysL (step exS (.failover "a:1" "e:1")) "k" 2 = some
      [[], [], [([(8192, 12287)], 0), ([(12288, 16383)], 1)], [([(0, 4095)], 0), ([(4096, 8191)], 1)],
       [([(4096, 8191)], 2)], [], [([(12288, 16383)], 2)], []] ∧
    exKeysL (step exS (.failover "b:1" "e:1")) "k" 2 = some
      [[([(0, 4095)], 0), ([(4096, 8191)], 1)], [([(8192, 12287)], 0), ([(12288, 16383)], 1)], [], [],
       [([(4096, 8191)], 2)], [], [([(12288, 16383)], 2)], []] := by
  refine ⟨?_, ?_, ?_⟩ <;> decide +kernel

example : ∃ cl' lc' v', (takeoverMaster exS "k" "a:1").1.findCluster "k" = some cl' ∧
    limitMigration cl' 2 = R.ok lc' ∧ clusterStoreToCluster lc' = R.ok v' := by
  obtain ⟨-, -, cl, pa, pd, c0, c1, hcl, hpos, -, -, -, -, -, -, hfa, -, hk0, -⟩ := ex_hyps
  have h1 : (exS.findCluster "k").map (fun cl => match limitMigration cl 2 with
      | .ok lc => clusterOk lc | _ => false) = some true := by decide +kernel
  rw [hcl] at h1
  simp only [Option.map_some, Option.some.injEq] at h1
  cases hl : limitMigration cl 2 with
  | ok lc =>
    rw [hl] at h1
    simp only [] at h1
    obtain ⟨cl', lc', v', a1, a2, a3, -⟩ :=
      C06_limited hcl hfa hk0 2 hl (by rw [clusterStoreToCluster_eq, h1]; rfl)
    exact ⟨cl', lc', v', a1, a2, a3⟩
  | err e => rw [hl] at h1; simp at h1
  | panic w => rw [hl] at h1; simp at h1
  | badChoice w => rw [hl] at h1; simp at h1

/-- (c) on a concrete view -/
example : ∃ v, (exS.findCluster "k").map clusterOk = some true ∧ v = (exS.findCluster "k").map specView ∧
    (v.map fun v => v.nodes.map fun n => (n.address, n.replica, n.peers)) = some
      [("a:11", false, [("b:12", "b:1")]), ("a:12", true, [("b:11", "b:1")]),
       ("b:11", false, [("a:12", "a:1")]), ("b:12", true, [("a:11", "a:1")]),
       ("c:11", false, [("d:12", "d:1")]), ("c:12", true, [("d:11", "d:1")]),
       ("d:11", false, [("c:12", "c:1")]), ("d:12", true, [("c:11", "c:1")])] := by
  refine ⟨_, ?_, rfl, ?_⟩ <;> decide +kernel

end Um.Broker.C06
