import UmProofs.RespStreamProofs
/-!
# C15 — RESP encoding and incremental decoding are lossless

Model: `UmModel/Resp.lean` (`encode_resp`, `parse_resp` with index trees, `IndexedResp::decode`,
`RespVec::decode`) and `UmModel/RespStream.lean` (the `FramedRead` loop over `RespCodec`, the
`OptionalMultiPacketDecoder` hint machine).  Every theorem is stated for both variants `s` of
the terminator checks (`s = false`: the pinned tree; `s = true`: with `f7.diff`), hence for the
variant the source has (`strictTerm`, generated).

`Accepts s v e` (`UmProofs/RespValue.lean`) is the grammar of what the decoder takes for `v`:
type byte, payload, a byte `ch` and LF (`ch ≠ LF`; `ch = CR` when `s`), length fields in any
`btoi::<i64>` spelling, two bytes after a bulk payload (`CRLF` when `s`).  `Wf v` is what every
in-memory value satisfies that `encode_resp` can frame (no LF in line payloads, lengths in range).
`NestOk 0 v` says that every array of `v` (nil ones included) sits at a nesting depth the parser
admits: `nesting v ≤ MAX_NESTING` when the source has a limit (`nestOk_zero_iff`), always true
otherwise (`nestOk_of_unbounded`).  The two other source-derived switches (`maxNesting`,
`capRemaining`) are constants that no proof unfolds: the theorems hold for every setting.
-/
namespace Um.Resp.C15
open Um Um.Resp

/-! ## round trip -/

/-- **decoding the encoding of a value, followed by any bytes, yields that value and consumes
exactly its bytes**: the packet's raw bytes are `encode v`, the buffer left is `rest`. -/
theorem C15_roundtrip (s : Bool) (v : Resp) (rest : Bytes) (h : Wf v) (hn : NestOk 0 v) :
    decodeVec s (encode v ++ rest) = .item v rest ∧
    ∃ idx, decodeIndexed s (encode v ++ rest) = .item ⟨idx, encode v⟩ rest ∧
      toRespVec (encode v) idx = some v ∧
      parse s (encode v ++ rest) = .ok (idx, (encode v).length) := by
  have ha := encode_accepted s v h
  obtain ⟨idx, hp, hv⟩ := parse_complete ha hn rest
  refine ⟨decodeVec_complete ha hn rest, idx, ?_, hv, hp⟩
  rw [decodeIndexed_of_ok hp, List.take_left' rfl, List.drop_left' rfl]

example : decodeVec false (encode (.arr [.bulk [97, 13, 10], .bulkNil, .arr [], .integer [49]]) ++ [43]) =
    .item (.arr [.bulk [97, 13, 10], .bulkNil, .arr [], .integer [49]]) [43] := by rfl
example : Wf (.arr [.bulk [97, 13, 10], .bulkNil, .arr [], .integer [49]]) := by
  simp [Wf, WfList, LF_val, reservePanics, capacityOverflow, respIndexSize, isizeMax, i64Max]

/-- the nesting hypothesis in the terms of the source: at most `MAX_NESTING` array levels (a nil
array counts as one); no condition when the source has no limit -/
theorem C15_nesting_bound (v : Resp) :
    (∀ m, maxNesting = some m → (NestOk 0 v ↔ nesting v ≤ m)) ∧ (maxNesting = none → NestOk 0 v) :=
  ⟨fun m hm => nestOk_zero_iff m hm v, fun hm => nestOk_of_unbounded hm v 0⟩

/-- **the nesting limit is a property of everything decoded** and a value beyond it is rejected
(an expected rejection, not a round-trip failure): its encoding never decodes to it. -/
theorem C15_nesting (s : Bool) :
    (∀ b p rest, decodeIndexed s b = .item p rest →
      ∃ v, toRespVec p.data p.resp = some v ∧ NestOk 0 v) ∧
    (∀ v rest rest', ¬ NestOk 0 v → decodeVec s (encode v ++ rest) ≠ .item v rest') := by
  constructor
  · intro b p rest h
    obtain ⟨_, v, hv, _, hn⟩ := decodeIndexed_sound h
    exact ⟨v, hv, hn⟩
  · intro v rest rest' hn hd
    obtain ⟨e1, e2, e3, e4⟩ := decodeVec_eq s (encode v ++ rest)
    cases hi : decodeIndexed s (encode v ++ rest) with
    | item p r =>
      obtain ⟨v', hv', hd'⟩ := e1 p r hi
      rw [hd] at hd'
      simp only [Dec.item.injEq] at hd'
      obtain ⟨h1, _⟩ := hd'
      subst h1
      obtain ⟨_, v'', hv'', _, hn''⟩ := decodeIndexed_sound hi
      rw [hv'] at hv''; simp only [Option.some.injEq] at hv''; subst hv''
      exact hn hn''
    | none => rw [e2 hi] at hd; cases hd
    | invalid => rw [e3 hi] at hd; cases hd
    | panic => rw [e4 hi] at hd; cases hd

/-- a chain of `k` arrays around an integer -/
def chain : Nat → Resp
  | 0 => .integer [49]
  | k + 1 => .arr [chain k]

example : nesting (chain 5) = 5 := by rfl
example : decodeVec true (encode (chain 5) ++ [43]) = .item (chain 5) [43] := by rfl

/-- the hypothesis of the round trip cannot be dropped: a line payload containing LF is framed
by `encode_resp` into bytes that read back as something else -/
theorem C15_roundtrip_needs_wf :
    ∃ v, ∀ s, decodeVec s (encode v) ≠ .item v [] := by
  refine ⟨.simple [97, 13, 10, 98], ?_⟩
  intro s; cases s <;> (intro h; cases h)

/-! ## verdicts are stable; strict prefixes are incomplete -/

/-- **a verdict other than `Ok(None)` never changes when more bytes arrive** (same packet, same
index tree, same raw bytes; the remaining buffer just grows), for both decode entry points. -/
theorem C15_extension (s : Bool) (b x : Bytes) :
    (∀ p rest, decodeIndexed s b = .item p rest → decodeIndexed s (b ++ x) = .item p (rest ++ x)) ∧
    (decodeIndexed s b = .invalid → decodeIndexed s (b ++ x) = .invalid) ∧
    (decodeIndexed s b = .panic → decodeIndexed s (b ++ x) = .panic) ∧
    (∀ v rest, decodeVec s b = .item v rest → decodeVec s (b ++ x) = .item v (rest ++ x)) ∧
    (decodeVec s b = .invalid → decodeVec s (b ++ x) = .invalid) ∧
    (decodeVec s b = .panic → decodeVec s (b ++ x) = .panic) := by
  obtain ⟨h1, h2, h3⟩ := decodeIndexed_ext (s := s) (b := b) x
  obtain ⟨h4, h5, h6⟩ := decodeVec_ext (s := s) (b := b) x
  exact ⟨h1, h2, h3, h4, h5, h6⟩

example : decodeIndexed false [36, 49, 13, 10, 97, 13, 10] = .item ⟨.bulk (4, 5), [36, 49, 13, 10, 97, 13, 10]⟩ [] := by rfl
example : decodeIndexed false [63] = .invalid := by rfl

/-- **every strict prefix of an encoding answers `Ok(None)`** — and `Ok(None)` leaves the buffer
as it is (`Dec.none` carries no buffer; `drain` returns it unchanged). -/
theorem C15_prefix (s : Bool) (v : Resp) (p q : Bytes) (h : Wf v) (hn : NestOk 0 v) (hpq : encode v = p ++ q)
    (hq : q ≠ []) :
    decodeIndexed s p = .none ∧ decodeVec s p = .none ∧ drain s p = ([], some p) := by
  obtain ⟨_, idx, hfull, _, _⟩ := C15_roundtrip s v [] h hn
  rw [List.append_nil, hpq] at hfull
  obtain ⟨h1, h2, h3⟩ := decodeIndexed_ext (s := s) (b := p) q
  have hnone : decodeIndexed s p = .none := by
    cases hd : decodeIndexed s p with
    | none => rfl
    | item pk rest =>
      rw [h1 pk rest hd] at hfull
      simp only [Dec.item.injEq] at hfull
      have := congrArg List.length hfull.2
      simp at this
      exact absurd this.2 hq
    | invalid => rw [h2 hd] at hfull; cases hfull
    | panic => rw [h3 hd] at hfull; cases hfull
  exact ⟨hnone, (decodeVec_eq s p).2.1 hnone, drain_none hnone⟩

example : decodeIndexed false [36, 49, 13, 10, 97, 13] = .none := by rfl

/-! ## chunking -/

/-- **decoding does not depend on how the byte stream is cut into reads**: same packets (values,
index trees, raw bytes), same error position, same left-over buffer. -/
theorem C15_chunking (s : Bool) (cs cs' : List Bytes) (h : cs.flatten = cs'.flatten) :
    decodeStream s cs = decodeStream s cs' := by
  unfold decodeStream
  rw [run_eq_drain s cs [] (decodeIndexed_nil s), run_eq_drain s cs' [] (decodeIndexed_nil s), h]

/-- in particular every chunking agrees with a single read of everything -/
theorem C15_chunking_one (s : Bool) (cs : List Bytes) : decodeStream s cs = decodeStream s [cs.flatten] :=
  C15_chunking s cs [cs.flatten] (by simp)

example : decodeStream false [[43, 79], [75, 13], [10, 58]] = decodeStream false [[43, 79, 75, 13, 10, 58]] := by
  exact C15_chunking false _ _ rfl

/-- **packets are forwarded unmodified and nothing is consumed from an incomplete packet**: the
raw bytes of the packets handed out, followed by the buffer kept for the next read, are exactly
the bytes read; the buffer kept holds no complete packet; every packet handed out resolves
(`to_resp_vec` does not panic) to a value of which its bytes are an accepted spelling.  After a
protocol error the packets handed out are a prefix of the bytes read. -/
theorem C15_forward (s : Bool) (cs : List Bytes) :
    (∀ left, (decodeStream s cs).2 = some left →
      rawOf (decodeStream s cs).1 ++ left = cs.flatten ∧ decodeIndexed s left = .none) ∧
    ((decodeStream s cs).2 = none → ∃ tail, rawOf (decodeStream s cs).1 ++ tail = cs.flatten) ∧
    (∀ e ∈ (decodeStream s cs).1, EvOk s e) := by
  unfold decodeStream
  rw [run_eq_drain s cs [] (decodeIndexed_nil s), List.nil_append]
  obtain ⟨h1, h2⟩ := drain_forward s _ cs.flatten rfl
  exact ⟨fun left hl => ⟨h1 left hl, drain_left_drained s _ cs.flatten rfl left hl⟩, h2,
    drain_events_ok s _ cs.flatten rfl⟩

/-- the decode loops terminate: a packet is never empty (the `else` branches of `drain` and
`hmLoop`, where the real loop would spin, are unreachable) -/
theorem C15_progress (s : Bool) (b : Bytes) (p : IndexedResp) (rest : Bytes)
    (h : decodeIndexed s b = .item p rest) : rest.length < b.length ∧ p.data ++ rest = b :=
  ⟨decodeIndexed_item_lt h, (decodeIndexed_sound h).1⟩

/-- whatever the reservation policy: the only panic of a decode call is the reservation of
`parse_array` overflowing (finding F4, property C16; unreachable with the cap, `C15_no_panic`):
`split_to` is in range, `to_resp_vec`'s `expect` never fires, the model's fuel is never
exhausted. -/
theorem C15_panic_only_capacity (s : Bool) (b : Bytes) :
    (decodeVec s b = .panic ↔ parse s b = .error .capacity) ∧ parse s b ≠ .error .fuel := by
  refine ⟨?_, parse_ne_fuel s b⟩
  obtain ⟨e1, e2, e3, e4⟩ := decodeVec_eq s b
  constructor
  · intro h
    cases hd : decodeIndexed s b with
    | item p rest => obtain ⟨v, _, hv⟩ := e1 p rest hd; rw [hv] at h; cases h
    | none => rw [e2 hd] at h; cases h
    | invalid => rw [e3 hd] at h; cases h
    | panic =>
      unfold decodeIndexed at hd
      cases hp : parse s b with
      | ok pr =>
        obtain ⟨idx, n⟩ := pr
        have hb := parse_ok_bounds hp
        have : ¬ (n > b.length) := by omega
        simp [hp, this] at hd
      | error e =>
        cases e with
        | capacity => rfl
        | fuel => exact absurd hp (parse_ne_fuel s b)
        | invalid => simp [hp] at hd
        | notEnough => simp [hp] at hd
        | unexpected => simp [hp] at hd
  · intro h
    apply e4
    unfold decodeIndexed
    rw [h]

/-- **with the capped reservation (`capRemaining`, the F4 fix) no decode call panics at all**:
not `parse_resp`, not `split_to`, not `to_resp_vec`; the streams hand out no panic event.
(Model assumption: `buf.len() * size_of::<RespIndex>() ≤ isize::MAX`, true of every buffer that
exists, so that reserving `min(array_size, remaining)` elements cannot overflow.) -/
theorem C15_no_panic (hc : capRemaining = true) (s : Bool) :
    (∀ b, decodeIndexed s b ≠ .panic ∧ decodeVec s b ≠ .panic ∧ parse s b ≠ .error .capacity) ∧
    (∀ cs, ∀ e ∈ (decodeStream s cs).1, e = Ev.panic → False) := by
  have hp : ∀ b, decodeVec s b ≠ .panic := by
    intro b h
    exact parse_ne_capacity s hc b ((C15_panic_only_capacity s b).1.mp h)
  have hi : ∀ b, decodeIndexed s b ≠ .panic := by
    intro b h
    exact hp b ((decodeVec_eq s b).2.2.2 h)
  refine ⟨fun b => ⟨hi b, hp b, parse_ne_capacity s hc b⟩, ?_⟩
  intro cs e he heq
  unfold decodeStream at he
  rw [run_eq_drain s cs [] (decodeIndexed_nil s), List.nil_append] at he
  exact drain_no_panic s hi _ cs.flatten rfl e he heq

/-! ## the hint machine -/

/-- replies a hint asks for -/
def need : Hint → Nat
  | .single => 1
  | .multi n => n

/-- the reply handed to the caller -/
def outOf : Hint → List Resp → HOut
  | .single, vs => match vs with
    | [v] => .single v
    | _ => .none
  | .multi _, vs => .multi vs

/-- decoder state with nothing pending -/
def hmIdle : HM := { shared := 0, currHint := none, pbuf := [] }

/-- **the hint machine yields exactly the first `n` replies, in order, and takes exactly their
bytes** (`Single`: one reply; `Multi n`: `n` replies, `n = 0` included), then is idle again. -/
theorem C15_multi (s : Bool) (h : Hint) (b b' : Bytes) (vs : List Resp)
    (ht : takeN s (need h) b = some (vs, b')) :
    (hmAnnounced h).decode s b = (hmIdle, b', outOf h vs) ∧
    (∀ buf, hmIdle.decode s buf = (hmIdle, buf, .none)) := by
  refine ⟨?_, fun buf => HM.decode_idle s hmIdle buf rfl rfl⟩
  cases h with
  | single =>
    rw [hmAnnounced_decode s .single (by simp)]
    simp only [need, takeN] at ht
    cases hd : decodeVec s b with
    | item v rest =>
      simp only [hd, Option.some.injEq, Prod.mk.injEq] at ht
      obtain ⟨h1, h2⟩ := ht; subst h1 h2
      rw [hmLoop]; simp only [hd]; rfl
    | none => simp [hd] at ht
    | invalid => simp [hd] at ht
    | panic => simp [hd] at ht
  | multi n =>
    by_cases hn : n = 0
    · subst hn
      simp only [need, takeN, Option.some.injEq, Prod.mk.injEq] at ht
      obtain ⟨h1, h2⟩ := ht; subst h1 h2
      rfl
    · rw [hmAnnounced_decode s (.multi n) (by simp [hn])]
      rw [hmLoop_multi_complete s n n (hmServing (.multi n)) b vs b' (by omega) (by simp [hmServing]) ht]
      rfl

example : (hmAnnounced (.multi 2)).decode false [58, 49, 13, 10, 43, 13, 10, 58] =
    (hmIdle, [58], .multi [.integer [49], .simple []]) :=
  (C15_multi false (.multi 2) [58, 49, 13, 10, 43, 13, 10, 58] [58] [.integer [49], .simple []] rfl).1

/-- **…independently of how the reply bytes arrive**: for any two ways of cutting the same bytes
into (at least one) reads, the replies handed out, the final decoder state (including the replies
buffered so far when fewer than `n` have arrived) and the final read buffer are the same. -/
theorem C15_multi_chunking (s : Bool) (h : Hint) (c c' : Bytes) (cs cs' : List Bytes)
    (hf : (c :: cs).flatten = (c' :: cs').flatten) :
    hmRun s (hmAnnounced h) (some []) (c :: cs) = hmRun s (hmAnnounced h) (some []) (c' :: cs') := by
  by_cases h0 : h = .multi 0
  · subst h0
    have e : ∀ (c : Bytes) (cs : List Bytes), hmRun s (hmAnnounced (.multi 0)) (some []) (c :: cs) =
        ([.multi []], hmIdle, some (c :: cs).flatten) := by
      intro c cs
      have hd : (hmAnnounced (.multi 0)).decode s ([] ++ c) = (hmIdle, [] ++ c, .multi []) := rfl
      simp only [hmRun, hd]
      rw [hmRun_idle s hmIdle rfl rfl]
      simp
    rw [e, e, hf]
  · rw [hmRun_announced s h h0, hmRun_announced s h h0, hf]

example : hmRun false (hmAnnounced (.multi 2)) (some []) [[58, 49, 13], [10, 43, 13, 10, 58]] =
    hmRun false (hmAnnounced (.multi 2)) (some []) [[58, 49, 13, 10, 43, 13, 10, 58]] :=
  C15_multi_chunking false (.multi 2) _ _ _ _ rfl

/-! ## strictness (the property's last sentence) -/

/-- **proved part**: whatever is decoded has its bytes in the grammar `Accepts s`; for the pinned
tree (`s = false`) that grammar allows any non-LF byte in the place of CR and any two bytes after
a bulk payload (finding F7), and — in both variants — any `btoi::<i64>` spelling of a length
(`+3`, `03`, any negative number for nil: normalisations, not violations). -/
theorem C15_strict_partial (b : Bytes) (p : IndexedResp) (rest : Bytes)
    (h : decodeIndexed strictTerm b = .item p rest) :
    ∃ v, toRespVec p.data p.resp = some v ∧ Accepts strictTerm v p.data ∧ decodeVec strictTerm b = .item v rest := by
  obtain ⟨_, v, hv, ha, _⟩ := decodeIndexed_sound h
  obtain ⟨v', hv', hd⟩ := (decodeVec_eq strictTerm b).1 p rest h
  rw [hv] at hv'; simp only [Option.some.injEq] at hv'; subst hv'
  exact ⟨v, hv, ha, hd⟩

/-- the spelling determines the value: no byte string is an accepted spelling of two values
(within the nesting limit) -/
theorem C15_unambiguous (s : Bool) (v v' : Resp) (e : Bytes) (h : Accepts s v e) (h' : Accepts s v' e)
    (hn : NestOk 0 v) (hn' : NestOk 0 v') : v = v' := by
  have a := decodeVec_complete h hn []
  have b := decodeVec_complete h' hn' []
  rw [a] at b
  simp only [Dec.item.injEq, and_true] at b
  exact b

/-- **full statement** of the last sentence — only terminators `CRLF` are taken — holds for the
tree with the terminator checks (`strictTerm = true`, i.e. after `f7.diff`) … -/
theorem C15_strict (hfix : strictTerm = true) (b : Bytes) (p : IndexedResp) (rest : Bytes)
    (h : decodeIndexed strictTerm b = .item p rest) :
    ∃ v, toRespVec p.data p.resp = some v ∧ Accepts true v p.data := by
  obtain ⟨v, hv, ha, _⟩ := C15_strict_partial b p rest h
  rw [hfix] at ha
  exact ⟨v, hv, ha⟩

/-- … and is **false on the pinned tree** (`strictTerm = false`): `+OK\n` — not RESP — is decoded
into the valid value `Simple "O"` (finding F7). -/
theorem C15_strict_violated (hcur : strictTerm = false) :
    ¬ (∀ (b : Bytes) (p : IndexedResp) (rest : Bytes), decodeIndexed strictTerm b = .item p rest →
        ∃ v, toRespVec p.data p.resp = some v ∧ Accepts true v p.data) := by
  intro hall
  rw [hcur] at hall
  obtain ⟨v, hv, ha⟩ := hall [43, 79, 75, 10] ⟨.simple (1, 2), [43, 79, 75, 10]⟩ [] rfl
  have : v = .simple [79] := by
    have : toRespVec [43, 79, 75, 10] (.simple (1, 2)) = some (.simple [79]) := rfl
    rw [this] at hv; simp only [Option.some.injEq] at hv; exact hv.symm
  subst this
  simp only [Accepts] at ha
  obtain ⟨ch, he, _, hterm⟩ := ha
  have hch : ch = 75 := by
    simp only [tSimple_val, LF_val, List.cons_append, List.nil_append, List.cons.injEq, and_true, true_and] at he
    exact he.symm
  have := hterm.2 rfl
  rw [hch] at this
  exact absurd this (by decide)

/-- the two reproduced witnesses on the unchecked variant, and their fate with the checks -/
example : decodeVec false [43, 79, 75, 10] = .item (.simple [79]) [] := by rfl
example : decodeVec false [36, 51, 13, 10, 97, 98, 99, 88, 89] = .item (.bulk [97, 98, 99]) [] := by rfl
example : decodeVec true [43, 79, 75, 10] = .invalid := by rfl
example : decodeVec true [36, 51, 13, 10, 97, 98, 99, 88, 89] = .invalid := by rfl
/-- length spellings that stay accepted in both variants (normalisations) -/
example : decodeVec true [36, 43, 51, 13, 10, 97, 98, 99, 13, 10] = .item (.bulk [97, 98, 99]) [] := by rfl
example : decodeVec true [36, 45, 55, 13, 10] = .item .bulkNil [] := by rfl

/-! ## the stateless `OptionalMulti::decode` (no caller in the crate) -/

/-- **proved part**: with all `n` replies present it returns them in order and takes exactly
their bytes. -/
theorem C15_static_multi_partial (s : Bool) (n : Nat) (b b' : Bytes) (vs : List Resp)
    (h : takeN s n b = some (vs, b')) : omStaticDecode s (.multi n) b = (b', .multi vs) := by
  simp only [omStaticDecode]
  rw [omLoop_complete s n b [] vs b' h]; simp

/-- **"never consumes bytes of an incomplete packet" is false for it** (finding F15a): with one
reply complete and the second missing it answers `Ok(None)` having removed the first reply from
the buffer (and dropped it). -/
theorem C15_static_multi_loses (s : Bool) :
    ¬ (∀ n b, (omStaticDecode s (.multi n) b).2 = .none → (omStaticDecode s (.multi n) b).1 = b) := by
  intro h
  have := h 2 [58, 49, 13, 10] (by cases s <;> rfl)
  cases s <;> cases this

end Um.Resp.C15
