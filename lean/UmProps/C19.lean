import UmModel.Ttl
import UmProofs.Decimal
import UmProofs.TtlStore
/-!
# C19 — Migration preserves key expiry

Redis answers `PTTL` with `-2` (no such key), `-1` (no expiry) or the remaining milliseconds
`n ≥ 0`; `RESTORE key ttl data` reads `ttl = 0` as "no expiry" and `ttl > 0` as milliseconds.
All three transfer paths (scan, UMSYNC push, pull) funnel the PTTL reply through
`pttl_to_restore_expire_time`; `scanTransfer` models `produce_entries`+`forward_entries`
(scan loop and UMSYNC), `pullTransfer` models `get_data_entry`+`gen_restore_resp`.
-/
namespace Um.Ttl.C19
open Um Um.Ttl

/-- what Redis emits for an integer reply -/
abbrev redisInt (i : Int) : Bytes := intDigits i

theorem redisInt_neg_one : redisInt (-1) = [45, 49] := by
  unfold redisInt intDigits natDigits; decide

theorem redisInt_neg_two : redisInt (-2) = [45, 50] := by
  unfold redisInt intDigits natDigits; decide

/-- the RESTORE ttl argument as Redis reads it -/
def ttlValue (b : Bytes) : Option Int := btoiI64 b

/-- **persistent stays persistent**: PTTL `-1` ⇒ RESTORE ttl `0`. -/
theorem C19_persistent (d : Bytes) :
    scanTransfer (.integer (redisInt (-1))) (.bulk d) = .restore RESTORE_NO_EXPIRE d ∧
    pullTransfer (.bulk d) (.integer (redisInt (-1))) = .restore RESTORE_NO_EXPIRE d := by
  rw [redisInt_neg_one]
  have h1 : ([45, 49] : Bytes) ≠ PTTL_KEY_NOT_FOUND := by decide
  have h2 : pttlToRestore [45, 49] = RESTORE_NO_EXPIRE := by decide
  constructor
  · simp [scanTransfer, h1, h2]
  · simp [pullTransfer, h1, h2]

/-- **missing key**: PTTL `-2` ⇒ nothing is restored, whatever DUMP answered. -/
theorem C19_missing (dump : Reply) :
    scanTransfer (.integer (redisInt (-2))) dump = .skip ∧
    pullTransfer dump (.integer (redisInt (-2))) ≠ .restore RESTORE_NO_EXPIRE [] ∧
    (∀ t d, pullTransfer dump (.integer (redisInt (-2))) ≠ .restore t d) := by
  rw [redisInt_neg_two]
  refine ⟨?_, ?_, ?_⟩
  · cases dump <;> simp [scanTransfer, PTTL_KEY_NOT_FOUND, Um.Gen.PTTL_KEY_NOT_FOUND]
  · cases dump <;> simp [pullTransfer, PTTL_KEY_NOT_FOUND, Um.Gen.PTTL_KEY_NOT_FOUND]
  · intro t d
    cases dump <;> simp [pullTransfer, PTTL_KEY_NOT_FOUND, Um.Gen.PTTL_KEY_NOT_FOUND]

/-- the function-level core: for every `n ≥ 0` that fits an `i64`, the ttl handed to RESTORE
reads back as `max n 1`: never `0` (= persistent), never more than the time that was left
(except the 1 ms floor at `n = 0`). -/
theorem pttlToRestore_expiring (n : Nat) (h2 : n ≤ i64Max) :
    ttlValue (pttlToRestore (redisInt n)) = some ((max n 1 : Nat) : Int) := by
  have hb := btoiI64_intDigits (n : Int) (by unfold i64NegMax; omega) (by exact_mod_cast h2)
  have hne : redisInt (n : Int) ≠ PTTL_NO_EXPIRE := by
    intro h
    have : btoiI64 (redisInt (n : Int)) = btoiI64 PTTL_NO_EXPIRE := by rw [h]
    rw [hb] at this
    have h2 : btoiI64 PTTL_NO_EXPIRE = some (-1) := by decide
    rw [h2] at this
    injection this with this
    omega
  unfold pttlToRestore pttlNeedNoExpire pttlIsZero ttlValue
  simp only [hne, if_false, hb]
  have hnn : ¬ ((n : Int) < 0) := by omega
  simp only [hnn, decide_false, Bool.false_eq_true, if_false]
  by_cases hz : n = 0
  · subst hz; decide
  · have : ¬ ((n : Int) = 0) := by omega
    simp only [this, decide_false, Bool.false_eq_true, if_false, hb]
    congr 2; omega

/-- **C19 (full statement)**: on every transfer path, for every PTTL reply `n` with
`0 ≤ n ≤ i64::MAX` and every DUMP payload, a RESTORE is emitted whose ttl `t` satisfies
`1 ≤ t ≤ max n 1`; in particular a key that has an expiry never becomes persistent. -/
theorem C19_ttl (n : Nat) (h : n ≤ i64Max) (d : Bytes) :
    ∃ ttl t, scanTransfer (.integer (redisInt n)) (.bulk d) = .restore ttl d ∧
             pullTransfer (.bulk d) (.integer (redisInt n)) = .restore ttl d ∧
             ttlValue ttl = some t ∧ 1 ≤ t ∧ t ≤ max (n : Int) 1 := by
  have hb := btoiI64_intDigits (n : Int) (by unfold i64NegMax; omega) (by exact_mod_cast h)
  have hne : redisInt (n : Int) ≠ PTTL_KEY_NOT_FOUND := by
    intro h'
    have : btoiI64 (redisInt (n : Int)) = btoiI64 PTTL_KEY_NOT_FOUND := by rw [h']
    rw [hb] at this
    have h2 : btoiI64 PTTL_KEY_NOT_FOUND = some (-2) := by decide
    rw [h2] at this
    injection this with this
    omega
  refine ⟨pttlToRestore (redisInt n), ((max n 1 : Nat) : Int), ?_, ?_, pttlToRestore_expiring n h, ?_, ?_⟩
  · simp [scanTransfer, hne]
  · simp [pullTransfer, hne]
  · omega
  · omega

/-- non-vacuity: the hypotheses are met by ordinary replies, including the boundary `0`
(which the unrepaired code mapped to ttl `0`, finding F9) -/
example : ttlValue (pttlToRestore [48]) = some 1 := by decide
example : ttlValue (pttlToRestore [49, 53, 48, 48]) = some 1500 := by decide

/-- malformed PTTL payloads (never produced by Redis) are treated as persistent: a documented
choice of the code, stated so that it is visible. -/
theorem C19_malformed (p : Bytes) (h : btoiI64 p = none) : pttlToRestore p = RESTORE_NO_EXPIRE := by
  unfold pttlToRestore pttlNeedNoExpire
  simp [h]

/-! ## end to end: a key record with an absolute expiry, a clock, one transfer

`KeyRec`, `live`, `redisPttl`, `redisDump`, `redisRestore` (`UmProofs/TtlStore.lean`) are the
assumed behaviour of the two Redis servers; the clock may advance between the two pipelined
commands (`t1 ≤ t2`: the key may expire in between) and before the RESTORE (`t2 ≤ t3`). `MoveOk`
says, in absolute time: nothing arrives from nothing; a persistent key arrives persistent with
its data; a key expiring at `e` either does not arrive (it expired on the way) or arrives with its
data and an expiry `e'`, `t3 < e' ≤ e + (t3 - tRead)` — a positive ttl, never persistent, at most
the remaining time read at `tRead`. The hypothesis is Redis' own range for a ttl (`i64`). -/

/-- **C19, scan / UMSYNC push path, every key and every timing** (`PTTL` at `t1`, `DUMP` at `t2`,
`RESTORE` at `t3`), plus: a key still there when `DUMP` runs does arrive, with its data. -/
theorem C19_scan_move (k : Option KeyRec) (t1 t2 t3 : Nat) (h12 : t1 ≤ t2) (h23 : t2 ≤ t3)
    (hr : ∀ r e, live k t1 = some r → r.exp = some e → e - t1 ≤ i64Max) :
    MoveOk k (scanMove k t1 t2 t3) t1 t3 ∧
    (∀ r, live k t2 = some r → ∃ x, scanMove k t1 t2 t3 = some x ∧ x.data = r.data) :=
  scanMove_spec k t1 t2 t3 h12 h23 hr

/-- **C19, pull path, every key and every timing** (`DUMP` at `t1`, `PTTL` at `t2`, `RESTORE` at
`t3`); a key that expires between `DUMP` and `PTTL` is not restored (the seeded change C19-1
restored it as persistent). -/
theorem C19_pull_move (k : Option KeyRec) (t1 t2 t3 : Nat) (h12 : t1 ≤ t2) (h23 : t2 ≤ t3)
    (hr : ∀ r e, live k t2 = some r → r.exp = some e → e - t2 ≤ i64Max) :
    MoveOk k (pullMove k t1 t2 t3) t2 t3 ∧
    (∀ r, live k t2 = some r → ∃ x, pullMove k t1 t2 t3 = some x ∧ x.data = r.data) :=
  pullMove_spec k t1 t2 t3 h12 h23 hr

/-- non-vacuity: a key expiring at 5000, read at 1000/1002, restored at 1010 arrives expiring at
5010 (scan) / 5008 (pull); read after its expiry it does not arrive; a persistent key arrives
persistent -/
example : ∃ x, scanMove (some ⟨[1, 2], some 5000⟩) 1000 1002 1010 = some x ∧ x.data = [1, 2] ∧
    ∃ e', x.exp = some e' ∧ 1010 < e' ∧ e' ≤ 5010 := by
  have hr : ∀ r e, live (some ⟨[1, 2], some 5000⟩) 1000 = some r → r.exp = some e → e - 1000 ≤ i64Max := by
    intro r e h he
    simp [live] at h; subst h; simp at he; subst he; decide
  have hl : live (some ⟨[1, 2], some 5000⟩) 1000 = some ⟨[1, 2], some 5000⟩ := by simp [live]
  have h := (C19_scan_move (some ⟨[1, 2], some 5000⟩) 1000 1002 1010 (by omega) (by omega) hr).1
  have harr := (C19_scan_move (some ⟨[1, 2], some 5000⟩) 1000 1002 1010 (by omega) (by omega) hr).2
    ⟨[1, 2], some 5000⟩ (by simp [live])
  obtain ⟨x, hx, hd⟩ := harr
  unfold MoveOk at h
  rw [hl] at h
  simp only at h
  rcases h with h | ⟨e', he', h1, h2⟩
  · rw [hx] at h; cases h
  · refine ⟨_, he', rfl, e', rfl, h1, by omega⟩
example : pullMove (some ⟨[1, 2], some 1001⟩) 1000 1002 1010 = none := by
  simp [pullMove, redisPttl, redisDump, live, pullTransfer, applyTransfer, intDigits_neg_two, PTTL_KEY_NOT_FOUND_eq]

end Um.Ttl.C19
