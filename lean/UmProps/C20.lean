import UmModel.Compress
import UmProofs.Compress
/-!
# C20 — Value compression is transparent

`Um.Compress` (UmModel/Compress.lean) transliterates `CmdCompressor::try_compressing_cmd_ctx`,
`CmdReplyDecompressor::decompress` + `DecompressCommitHandler`, the executor's MGET/MSET/MSETNX
splitting, `handle_umforward`, and the routing step (local backend / MOVED / UMFORWARD to the peer)
over a string-only key-value backend; zstd is a `Codec` with the single law `dec (enc v) = some v`.

* `C20_compress_args`, `C20_reply_untouched`: function level — which request positions are
  rewritten (exactly the value positions of the seven write forms) and which replies are touched
  (only bulk replies of GET/GETSET, and bulk elements for the MGET type).
* `C20_restricted_refused`: in `set_get_only` every string command that looks inside a value, sent
  by a client to any proxy, is refused before routing; nothing reaches a backend.
* `C20_transparent`: for every codec, enabled strategy, cluster layout, redirection mode (client-
  followed MOVED or active redirection with UMFORWARD hops) and sequence of supported commands sent to
  *arbitrary* proxies: every client reply equals the reply of the same cluster with compression
  disabled, the stores hold exactly the compressed form of that cluster's stores, and the backends
  received exactly the rewritten commands. (Before repo commit 04a2318 this was false for writes
  forwarded by active redirection — finding F10, double compression; the regression is kept in
  `corpus/C20/compress.f10.ops` and as a non-vacuity example below.)
* `C20_set_then_read`: the round trip spelled out for SET followed by GET / GETSET / MGET.
-/
namespace Um.Compress.C20
open Um Um.Compress Um.Gen.Compress

/-! ## function level -/

/-- **Request rewriting.** For every codec, strategy and request `name :: args`: if the compressor
accepts the request, the result has the same length, position `i` holds `enc` of the original
element exactly when `i` is a value position of Redis' syntax (`SET|SETNX|GETSET k v …` → 2,
`SETEX|PSETEX k ttl v` → 3, `MSET|MSETNX k v k v …` → every even `i ≥ 2`; names case-insensitive),
and every other position — command name, keys, ttl, options — is unchanged. -/
theorem C20_compress_args (c : Codec) (s : Strategy) (name : Bytes) (args cmd' : List Bytes)
    (h : compressCmd c s (name :: args) = .ok cmd') :
    cmd'.length = (name :: args).length ∧
    ∀ i, cmd'[i]? = if isValuePos (name.map upper) i then ((name :: args)[i]?).map c.enc
                    else (name :: args)[i]? :=
  compressCmd_spec c s name args cmd' h

/-- **Reply rewriting** (`DecompressCommitHandler`): (1) a reply that is neither a bulk string nor
an array is returned unchanged for every command; (2) for a command that is not GET/GETSET/MGET
every reply is returned unchanged; (3) for GET/GETSET everything but a bulk string is unchanged,
and a bulk string holding `enc v` becomes `v`; (4) with compression disabled nothing is touched;
(5) in the array branch (type MGET) non-bulk elements are kept and bulk elements are decoded. -/
theorem C20_reply_untouched (c : Codec) (s : Strategy) (ty : DataCmdType) (r : Resp) :
    ((∀ b, r ≠ .bulk b) → (∀ l, r ≠ .arr l) → commitReply c s ty r = r) ∧
    (decompressRule ty = .unsupported → commitReply c s ty r = r) ∧
    (decompressRule ty = .bulk → (∀ b, r ≠ .bulk b) → commitReply c s ty r = r) ∧
    (decompressRule ty = .bulk → s ≠ .disabled → ∀ v, commitReply c s ty (.bulk (c.enc v)) = .bulk v) ∧
    commitReply c .disabled ty r = r ∧
    (∀ l l', decompressElems c l = some l' → l'.length = l.length ∧
      ∀ i : Nat, (∀ b : Bytes, l[i]? ≠ some (Resp.bulk b)) → l'[i]? = l[i]?) :=
  ⟨commitReply_scalar c s ty r, commitReply_unsupported c s ty r,
   commitReply_bulkRule_other c s ty r,
   fun h hs v => commitReply_bulk_enc c s hs ty h v,
   commitReply_disabled c ty r,
   fun l l' h => ⟨(decompressElems_spec c l l' h).1, fun i => ((decompressElems_spec c l l' h).2 i).2⟩⟩

/-- the read and write forms are exactly the commands with a rewriting rule: the table gives
GET/GETSET the bulk rule, MGET the array rule and nothing else any rule -/
theorem C20_read_forms (name : Bytes) (args : List Bytes) :
    (name.map upper = nGET ∨ name.map upper = nGETSET →
      decompressRule (dataTypeOf (name :: args)) = .bulk) ∧
    (name.map upper = nMGET → decompressRule (dataTypeOf (name :: args)) = .array ∧
      dispatchRule (dataTypeOf (name :: args)) = .mget) := by
  refine ⟨?_, ?_⟩
  · rintro (h | h)
    · rw [dataTypeOf_of_upper name args nGET .Get (by decide) (by decide) h]; rfl
    · rw [dataTypeOf_of_upper name args nGETSET .Getset (by decide) (by decide) h]; rfl
  · intro h
    rw [dataTypeOf_of_upper name args nMGET .Mget (by decide) (by decide) h]
    exact ⟨rfl, rfl⟩

/-! ## restricted mode -/

/-- Redis' string commands that read or modify the *bytes* of a value (the string family minus the
write and read forms of the property) -/
def restrictedNames : List Bytes := [
  [65, 80, 80, 69, 78, 68],                       -- APPEND
  [66, 73, 84, 67, 79, 85, 78, 84],               -- BITCOUNT
  [66, 73, 84, 70, 73, 69, 76, 68],               -- BITFIELD
  [66, 73, 84, 79, 80],                           -- BITOP
  [66, 73, 84, 80, 79, 83],                       -- BITPOS
  [68, 69, 67, 82],                               -- DECR
  [68, 69, 67, 82, 66, 89],                       -- DECRBY
  [71, 69, 84, 66, 73, 84],                       -- GETBIT
  [71, 69, 84, 82, 65, 78, 71, 69],               -- GETRANGE
  [73, 78, 67, 82],                               -- INCR
  [73, 78, 67, 82, 66, 89],                       -- INCRBY
  [73, 78, 67, 82, 66, 89, 70, 76, 79, 65, 84],   -- INCRBYFLOAT
  [83, 69, 84, 66, 73, 84],                       -- SETBIT
  [83, 69, 84, 82, 65, 78, 71, 69],               -- SETRANGE
  [83, 84, 82, 76, 69, 78]]                       -- STRLEN

theorem restrictedNames_table : ∀ lit ∈ restrictedNames,
    cmdTypeNames.lookup lit = none ∧ lit.length ≤ MAX_COMMAND_NAME_LENGTH ∧
    ∃ ty, dataCmdNames.lookup lit = some ty ∧ compressRule ty = .restricted ∧
      dispatchRule ty = .single := by decide

/-- **Restricted mode.** With `set_get_only`, at any proxy, in any cluster state and redirection
mode, a client command whose (case-insensitive) name is on the list is answered with the refusal and
the cluster state — stores *and* the log of commands that reached a backend — is unchanged. (The
refusal happens at the proxy that receives the command from the client; a command carrying the
internal `UMFORWARD` mark is trusted to have been checked by its sender.) -/
theorem C20_restricted_refused (e : Env) (hs : e.strategy = .setGetOnly) (n : Nat) (sys : Sys) (p : Nat)
    (name : Bytes) (args : List Bytes) (h : name.map upper ∈ restrictedNames) :
    handle e (n + 1) sys p (name :: args) = (sys, .error ERR_RESTRICTED) := by
  obtain ⟨hc, hlen, ty, hty, hrule, hdisp⟩ := restrictedNames_table _ h
  have hct : cmdTypeOf (name :: args) = .Others := cmdTypeOf_of_upper name args _ hc rfl
  have hdt : dataTypeOf (name :: args) = ty := dataTypeOf_of_upper name args _ ty hty hlen rfl
  simp only [handle]
  unfold handleCmdCtx
  simp only [hct]
  unfold handleDataCmd
  simp only [hdt, hdisp]
  unfold handleSingle compressCmd
  simp [hs, hdt, hrule]

/-! ## transparency -/

/-- **C20.** For every codec, every enabled strategy, every slot function / owner map / address
map, both redirection modes (MOVED followed by the client; active redirection with or without a hop
limit), every hop budget, every pair of related cluster states and every sequence of supported
client commands (`Supported`: SET with any options, SETEX, PSETEX, SETNX, GETSET, MSET, MSETNX with any
number of pairs, GET, MGET, and every command the compressor passes through) sent to arbitrary
proxies: the replies equal the replies of the same cluster with compression disabled — so whatever
was written is what is read, through any proxy — and afterwards the stores hold exactly the compressed
form of that cluster's stores and the backends received exactly the rewritten form (`wire`,
described by `C20_compress_args`) of the commands its backends received. -/
theorem C20_transparent (e : Env) (hs : e.strategy ≠ .disabled) (fuel : Nat)
    (ops : List (Nat × List Bytes)) (hsup : ∀ op ∈ ops, Supported op.2)
    (sysC sysP : Sys) (hR : SysRel e.codec e.strategy sysC sysP) :
    (runOps e fuel sysC ops).2 = (runOps (plain e) fuel sysP ops).2 ∧
    SysRel e.codec e.strategy (runOps e fuel sysC ops).1 (runOps (plain e) fuel sysP ops).1 :=
  (runOps_sim e hs fuel ops hsup sysC sysP hR).symm

/-! ## the round trip spelled out for the simplest forms -/

theorem supported_set (k v : Bytes) : Supported [nSET, k, v] := by
  refine ⟨cmdTypeOf_SET _, ?_⟩
  have h : dataTypeOf [nSET, k, v] = .Set := dataTypeOf_SET _
  rw [h]
  exact supportedSingle_single2 _ _ _ _ (by rw [h]; rfl)

theorem supported_get (k : Bytes) : Supported [nGET, k] := by
  refine ⟨cmdTypeOf_GET _, ?_⟩
  have h : dataTypeOf [nGET, k] = .Get := dataTypeOf_GET _
  rw [h]
  exact supportedSingle_get k

/-- **Round trip, spelled out.** Any codec, enabled strategy, layout, redirection mode and state:
after `SET k v` at the proxy owning `k` (reply `+OK`), the reads `GET k`, `GETSET k w` and
`MGET k` at that proxy return exactly `v`. (All other write/read forms, option lists, key sets and
proxies are covered by `C20_transparent_partial`.) -/
theorem C20_set_then_read (e : Env) (hs : e.strategy ≠ .disabled) (n : Nat) (sys : Sys) (p : Nat)
    (k v w : Bytes) (ho : e.owner (e.slot k) = some p) :
    (handle e (n + 1) sys p [nSET, k, v]).2 = .simple (B "OK") ∧
    (handle e (n + 1) (handle e (n + 1) sys p [nSET, k, v]).1 p [nGET, k]).2 = .bulk v ∧
    (handle e (n + 1) (handle e (n + 1) sys p [nSET, k, v]).1 p [nGETSET, k, w]).2 = .bulk v ∧
    (handle e (n + 1) (handle e (n + 1) sys p [nSET, k, v]).1 p [nMGET, k]).2 = .arr [.bulk v] := by
  have hSet : dataTypeOf [nSET, k, v] = .Set := dataTypeOf_SET _
  have hGet : dataTypeOf [nGET, k] = .Get := dataTypeOf_GET _
  have hGetset : dataTypeOf [nGETSET, k, w] = .Getset := dataTypeOf_GETSET _
  have hwSet : wire e.codec e.strategy [nSET, k, v] = [nSET, k, e.codec.enc v] :=
    wire_single _ _ hs _ 2 (by rw [hSet]; rfl) v rfl
  have hwGet : wire e.codec e.strategy [nGET, k] = [nGET, k] := wire_pass _ _ _ (by rw [hGet]; rfl)
  have hwGetset : wire e.codec e.strategy [nGETSET, k, w] = [nGETSET, k, e.codec.enc w] :=
    wire_single _ _ hs _ 2 (by rw [hGetset]; rfl) w rfl
  have hset : handle e (n + 1) sys p [nSET, k, v] =
      ((backendCall sys p [nSET, k, e.codec.enc v]).1, .simple (B "OK")) := by
    rw [handle_single_local e hs n sys p _ (cmdTypeOf_SET _) (by rw [hSet]; rfl)
      (supportedSingle_single2 _ _ _ _ (by rw [hSet]; rfl)) ⟨k, by rw [hSet]; rfl, ho⟩,
      hwSet, hSet, backendCall_reply, redisExec_set, commitReply_unsupported _ _ _ _ rfl]
  rw [hset]
  generalize hsys : (backendCall sys p [nSET, k, e.codec.enc v]).1 = sys1
  have hstore : (sys1.stores p) k = some (e.codec.enc v) := by
    rw [← hsys, backendCall_stores_self, redisExec_set]
    simp [Store.put]
  have hget : (backendCall sys1 p [nGET, k]).2 = .bulk (e.codec.enc v) := by
    rw [backendCall_reply, redisExec_get, hstore]; rfl
  refine ⟨rfl, ?_, ?_, ?_⟩
  · rw [handle_single_local e hs n sys1 p _ (cmdTypeOf_GET _) (by rw [hGet]; rfl)
      (supportedSingle_get k) ⟨k, by rw [hGet]; rfl, ho⟩, hwGet, hGet, hget,
      commitReply_bulk_enc _ _ hs _ rfl]
  · rw [handle_single_local e hs n sys1 p _ (cmdTypeOf_GETSET _) (by rw [hGetset]; rfl)
      (supportedSingle_single2 _ _ _ _ (by rw [hGetset]; rfl)) ⟨k, by rw [hGetset]; rfl, ho⟩,
      hwGetset, hGetset, backendCall_reply, redisExec_getset, hstore]
    exact commitReply_bulk_enc _ _ hs _ rfl v
  · simp only [handle]
    unfold handleCmdCtx
    simp only [cmdTypeOf_MGET]
    unfold handleDataCmd
    simp only [dataTypeOf_MGET, dispatchRule]
    unfold handleMget
    have hss : sameSlot e.slot [k] = true := by simp [sameSlot]
    simp only [List.drop_succ_cons, List.drop_zero, List.map_cons, List.map_nil, runSubs, hss,
      Bool.not_true, Bool.and_false, Bool.false_eq_true, if_false]
    rw [handleSingle_local e hs _ sys1 p _ (supportedSingle_get k) ⟨k, by rw [hGet]; rfl, ho⟩,
      hwGet, hGet, hget, commitReply_bulk_enc _ _ hs _ rfl]
    simp [mgetReply, firstError]

/-! ## non-vacuity -/

/-- two proxies; every slot is owned by proxy 0; active redirection without a configured hop limit -/
def arEnv : Env where
  codec := toyCodec
  strategy := .setGetOnly
  activeRedirection := true
  maxRedirections := none
  slot := fun _ => 0
  owner := fun _ => some 0
  addr := fun _ => []

-- C20_compress_args: the compressor does accept and rewrite (SET, option kept; MSETNX, two pairs)
example : compressCmd toyCodec .setGetOnly [nSET, [107], [118], [78, 88]]
    = .ok [nSET, [107], toyMagic ++ [118], [78, 88]] := by rfl
example : compressCmd toyCodec .allowAll [nMSETNX, [97], [1], [98], [2]]
    = .ok [nMSETNX, [97], toyMagic ++ [1], [98], toyMagic ++ [2]] := by rfl
example : isValuePos (([115, 101, 116, 101, 120] : Bytes).map upper) 3 := by decide  -- "setex"
-- C20_reply_untouched: a bulk reply of GET is really decoded, a failed decode gives nil
example : commitReply toyCodec .allowAll .Get (.bulk (toyMagic ++ [1])) = .bulk [1] := by rfl
example : commitReply toyCodec .allowAll .Get (.bulk [1]) = .nilBulk := by rfl
-- C20_restricted_refused: lower-case "append" is on the list; the generated restricted list is the
-- literal list plus MGET (which the executor splits before the compressor sees it)
example : (([97, 112, 112, 101, 110, 100] : Bytes).map upper) ∈ restrictedNames := by decide
example : restrictedCmds.length = restrictedNames.length + 1 ∧ DataCmdType.Mget ∈ restrictedCmds := by decide
-- C20_transparent: hypotheses are satisfiable and the conclusion is not trivial
example : Supported [nSET, [107], [118]] := supported_set _ _
example : Supported [nMSET, [97], [1], [98], [2]] := ⟨by decide, trivial⟩
example : Supported [nMSETNX, [97], [1], [98], [2]] := ⟨by decide, trivial⟩
example : Supported [nMGET, [97], [98]] := ⟨by decide, trivial⟩
example : SysRel toyCodec .setGetOnly Sys.empty Sys.empty := SysRel.empty _ _
-- the pre-fix double compression does not happen for a directly received write …
example : ((handle arEnv 2 Sys.empty 0 [nSET, [107], [118]]).1.stores 0) [107]
    = some (toyMagic ++ [118]) := by rfl
-- (forwarded commands carry `UMFORWARD <usize::MAX - 1>`, whose decimal rendering is defined by
-- well-founded recursion and does not reduce in the kernel; the forwarded paths — the F10 regression
-- included — are exercised against the real code by corpus/C20/compress.f10.ops on every run)

end Um.Compress.C20
