import UmProofs.BrokerResRun
import UmProofs.BrokerOrderedReach
/-!
# C12 — Proxy resources are accounted consistently and chunks span two hosts

Model: `UmModel/Broker.lean` (every `MetaStore` mutator; `expect`/index panics are the explicit
result `R.panic`; HashMap-order dependent picks of the allocator are *choice* arguments validated
against the set of picks the code can make). `Reachable s` = `s = run ops` for some operation
list with arbitrary choices. All statements are for every reachable state / every operation /
every choice, without bounds.

Both modes of the broker are covered: a history that starts with `Op.setOrdered` is a history of a
broker started with `enable_ordered_proxy = true` (`runOrdered`), and `Reachable` contains those.
Accounting, `check_metadata`, no-panic and refusal theorems hold in both modes as stated. The
two-hosts clause is a property of the normal allocator only (hypothesis `s.ordered = false`); in
ordered mode chunks are filled in proxy-index order (`C12_ordered_addCluster`,
`C12_ordered_addNodes`), there is at most one cluster (`C12_ordered_one_cluster`) and a failed proxy
is never replaced (`C12_ordered_failover`).
-/
namespace Um.Broker
open Um Um.Slots

/-! ## accounting -/

/-- **C12_accounting.** `ResInv` (unique proxy addresses, unique cluster names, no address in two
chunk halves, every chunk half is a registered proxy tagged with its cluster and carrying the
chunk's host/node fields, every tagged proxy sits in a chunk of that cluster) holds in every
reachable state. -/
theorem C12_accounting (s : Store) (h : Reachable s) : ResInv s := resInv_reachable h

/-- the broker's own consistency check passes in every reachable state -/
theorem C12_check_metadata (s : Store) (h : Reachable s) : checkMetadata s = true :=
  checkMetadata_of_rpt (rx_reachable s h).1

/-- each proxy is in at most one cluster and one chunk half; the cluster tag, chunk occupancy and
the free pool are exact complements -/
theorem C12_membership_complement (s : Store) (h : Reachable s) :
    (∀ p ∈ s.proxies, ∀ n, p.cluster = some n ↔ Occupies s p.addr n) ∧
    (∀ p ∈ s.proxies, p.cluster = none ↔ p.addr ∉ s.clusters.flatMap Cluster.proxyAddrs) ∧
    (∀ a n1 n2, Occupies s a n1 → Occupies s a n2 → n1 = n2) ∧
    (∀ a, (s.clusters.flatMap Cluster.proxyAddrs).count a ≤ 1) ∧
    (∀ c ∈ s.clusters, ∀ a ∈ c.proxyAddrs, ∃ p ∈ s.proxies, p.addr = a) ∧
    (∀ p ∈ s.proxies, p ∈ s.freeProxies ↔
      (p.addr ∉ s.clusters.flatMap Cluster.proxyAddrs ∧ s.failed.contains p.addr = false ∧
        s.hasFailureKey p.addr = false)) := by
  obtain ⟨h1, h2, h3, h4, h5⟩ := rpt_accounting (rx_reachable s h).1
  refine ⟨h1, h2, h3, h4, h5, ?_⟩
  intro p hp
  rw [Store.mem_freeProxies, ← h2 p hp]
  simp [hp]

/-- the pool the allocator draws from contains only registered, untagged, healthy proxies:
never a failed one, never one with a pending failure report -/
theorem C12_pool_healthy (s : Store) (p : ProxyRes) (h : p ∈ s.freeProxies) :
    p ∈ s.proxies ∧ p.cluster = none ∧ p.addr ∉ s.failed ∧ ∀ e ∈ s.failures, e.1 ≠ p.addr := by
  obtain ⟨h1, h2, h3, h4⟩ := Store.mem_freeProxies.mp h
  refine ⟨h1, h2, by simpa using h3, ?_⟩
  intro e he
  unfold Store.hasFailureKey at h4
  have := List.any_eq_false.mp h4 e he
  simpa using this

/-! ## no panic -/

/-- operations that run the slot-migration planner (`remove_slots_from_src*`) -/
def Op.usesPlanner : Op → Bool
  | .migrate _ | .scaleDown _ _ | .changeNum _ _ _ | .scaleOutNum _ _ => true
  | _ => false

/-- **C12_no_panic** (all operations outside the migration planner). In every reachable state,
for every operation and every nondeterministic choice, no `expect`/index/underflow site is hit:
`allocate_chunk` (a second host exists while pairs are needed; link-table rows exist),
`add_cluster`/`auto_add_nodes` ("failed to get back proxy"), `create_slots`,
`generate_new_free_proxy` (link row of the failed proxy's host), `replace_failed_proxy`
("get cluster"). -/
theorem C12_no_panic (s : Store) (h : Reachable s) (op : Op) (hop : op.usesPlanner = false) :
    (stepFull s op).2 ≠ .panic := by
  have hx := rx_reachable s h
  cases op with
  | addProxy a n0 n1 ho io => exact Outcome.ofR_ne_panic (addProxy_noPanic s a n0 n1 ho io)
  | removeProxy a => exact Outcome.ofR_ne_panic (removeProxy_noPanic s a)
  | addCluster n k c => exact Outcome.ofR_ne_panic (addCluster_noPanic s n k defaultConfig c)
  | removeCluster n => exact Outcome.ofR_ne_panic (removeCluster_noPanic s n)
  | addNodes n k c => exact Outcome.ofR_ne_panic (autoAddNodes_noPanic hx n k c)
  | scaleUp n k c => exact Outcome.ofR_ne_panic (autoScaleUpNodes_noPanic hx n k c)
  | changeNum n k c => cases hop
  | scaleOutNum n k => cases hop
  | delFree n => exact Outcome.ofR_ne_panic (autoDeleteFreeNodes_noPanic s n)
  | migrate n => cases hop
  | scaleDown n k => cases hop
  | commit n e rl t c => exact Outcome.ofR_ne_panic (commitMigration_noPanic s n rl e t c)
  | failover a c => exact Outcome.ofR_ne_panic (replaceFailedProxy_noPanic a c hx)
  | balance n => exact Outcome.ofR_ne_panic (balanceMasters_noPanic s n)
  | config n kv => exact Outcome.ofR_ne_panic (changeConfig_noPanic s n kv)
  | bumpAll e => exact Outcome.ofR_ne_panic (forceBumpAllEpoch_noPanic s e)
  | recover e => intro e'; cases e'
  | addFailure a r t => intro e'; cases e'
  | setOrdered => intro e'; cases e'

/-- the allocator itself never panics, on *any* store (reachable or not), for any even request -/
theorem C12_no_panic_allocator (s : Store) (proxyNum : Nat) (choice : List (String × String))
    (heven : proxyNum % 2 = 0) (hpos : 0 < proxyNum) : ∀ w, generateFreeChunks s proxyNum choice ≠ R.panic w :=
  generateFreeChunks_no_panic s proxyNum choice hpos heven

/-- … nor does the allocator of ordered mode (`generate_free_chunks_for_ordered_proxy_index`, which has
no `expect`), for any request; hence the mode-selected allocator `allocChunks` never panics -/
theorem C12_no_panic_allocator_ordered (s : Store) (proxyNum first : Nat) (choice : List (String × String)) :
    (∀ w, generateFreeChunksOrdered s proxyNum first choice ≠ R.panic w) ∧
    (proxyNum % 2 = 0 → 0 < proxyNum → ∀ w, allocChunks s proxyNum first choice ≠ R.panic w) :=
  ⟨Ord.generateFreeChunksOrdered_noPanic s proxyNum first choice,
   fun heven hpos => allocChunks_no_panic s proxyNum first choice hpos heven⟩

/-- what the planner operations need beyond reachability (the gap of `C12_no_panic`):
`MigPre c` = at most `SLOT_NUM` masters and every stable range list counts at most `SLOT_NUM`
slots (this guards the *model's* loop fuel; it follows from `SlotInv c`, see `MigPre_of_SlotInv`);
`DownPre c k` = `MigPre c` and every master kept by a scale-down to `k` chunks owns at most its
final share (otherwise `need_num` of `remove_slots_from_src_to_scale_down` underflows). Both are
required only of the cluster the operation addresses and only when the planner is actually reached
(`DownGuard`: no slot-less half, no pending migration, valid smaller node number; for
`auto_change_node_number`: the cluster left after deleting its free chunks, when the call scales
down). On boundedly reachable stores C10 proves these hypotheses (`C10_reachable_migPre`,
`C10_reachable_downPre_planner`), which gives `C12_no_panic_run` below. -/
def PlannerPre (s : Store) : Op → Prop
  | .migrate n => ∀ c, s.findCluster n = some c → MigPre c
  | .scaleOutNum n _ => ∀ c, s.findCluster n = some c → MigPre c
  | .scaleDown n k => ∀ c, s.findCluster n = some c → DownGuard c k → DownPre c (k / 4)
  | .changeNum n k _ => ∀ c, (autoDeleteFreeNodes s n).1.findCluster n = some c → k < c.chunks.length * 4 →
      DownPre c (k / 4)
  | _ => True

/-- **C12_no_panic, planner part (partial).** Every operation, including `migrate_slots`,
`migrate_slots_to_scale_down`, `auto_scale_out_node_number` and `auto_change_node_number`, is
panic-free in every reachable state *provided* the addressed cluster satisfies `PlannerPre`
(`need_num` underflow, empty range list, `get dst existing slots number`, index `expect`s of
`assign_dst_slots`, loop fuel). The hypothesis is a slot-count/balance fact (properties C01/C10),
not proved here. -/
theorem C12_no_panic_planner_partial (s : Store) (h : Reachable s) (op : Op) (hpre : PlannerPre s op) :
    (stepFull s op).2 ≠ .panic := by
  have hx := rx_reachable s h
  cases op with
  | changeNum n k c => exact Outcome.ofR_ne_panic (autoChangeNodeNumber_noPanic hx n k c hpre)
  | scaleOutNum n k => exact Outcome.ofR_ne_panic (autoScaleOutNodeNumber_noPanic s n k hpre)
  | migrate n => exact Outcome.ofR_ne_panic (migrateSlots_no_panic' s n hpre)
  | scaleDown n k => exact Outcome.ofR_ne_panic (migrateSlotsToScaleDown_noPanic_guarded s n k hpre)
  | addProxy a n0 n1 ho io => exact C12_no_panic s h _ rfl
  | setOrdered => exact C12_no_panic s h _ rfl
  | removeProxy a => exact C12_no_panic s h _ rfl
  | addCluster n k c => exact C12_no_panic s h _ rfl
  | removeCluster n => exact C12_no_panic s h _ rfl
  | addNodes n k c => exact C12_no_panic s h _ rfl
  | scaleUp n k c => exact C12_no_panic s h _ rfl
  | delFree n => exact C12_no_panic s h _ rfl
  | commit n e rl t c => exact C12_no_panic s h _ rfl
  | failover a c => exact C12_no_panic s h _ rfl
  | balance n => exact C12_no_panic s h _ rfl
  | config n kv => exact C12_no_panic s h _ rfl
  | bumpAll e => exact C12_no_panic s h _ rfl
  | recover e => exact C12_no_panic s h _ rfl
  | addFailure a r t => exact C12_no_panic s h _ rfl

/-- **C12_no_panic_run** (full statement over bounded histories). For every operation list all of
whose prefixes keep every cluster at ≤ 16384 masters (`PlanBound`, the only assumption — it is what
`create_slots`/the planner arithmetic and the model's loop fuel are sized for), every next
operation and every nondeterministic choice: no `expect`, index or underflow panic. Non-planner
operations by `C12_no_panic`; `migrate_slots`, `auto_scale_out_node_number`,
`migrate_slots_to_scale_down`, `auto_change_node_number` by C10's `planner_noPanicB`
(= `C10_planner_no_panic`: slot counts and balance of boundedly reachable stores discharge `PlannerPre`). -/
theorem C12_no_panic_run (ops : List Op) (hb : ∀ k, Plan.PlanBound (run (ops.take k))) (op : Op) :
    (stepFull (run ops) op).2 ≠ .panic := by
  have hB := reachableB_run ops hb
  obtain ⟨h1, h2, h3, h4⟩ := Scale.planner_noPanicB hB
  cases hop : op.usesPlanner with
  | false => exact C12_no_panic _ (reachable_run ops) op hop
  | true =>
    cases op with
    | migrate n => exact h1 n
    | scaleOutNum n k => exact h2 n k
    | scaleDown n k => exact h3 n k
    | changeNum n k c => exact h4 n k c
    | addProxy a n0 n1 ho io => cases hop
    | setOrdered => cases hop
    | removeProxy a => cases hop
    | addCluster n k c => cases hop
    | removeCluster n => cases hop
    | addNodes n k c => cases hop
    | scaleUp n k c => cases hop
    | delFree n => cases hop
    | commit n e rl t c => cases hop
    | failover a c => cases hop
    | balance n => cases hop
    | config n kv => cases hop
    | bumpAll e => cases hop
    | recover e => cases hop
    | addFailure a r t => cases hop

/-- the `migrate_slots` half of the hypothesis follows from the slot invariant `SlotInv` (C01) and
"at most 16384 masters" -/
theorem C12_no_panic_migrate_of_slotInv_partial (s : Store) (h : Reachable s) (n : String) (k : Nat)
    (hs : ∀ c ∈ s.clusters, SlotInv c ∧ c.chunks.length * 2 ≤ SLOT_NUM) :
    (stepFull s (.migrate n)).2 ≠ .panic ∧ (stepFull s (.scaleOutNum n k)).2 ≠ .panic := by
  have hp : ∀ c, s.findCluster n = some c → MigPre c := fun c hc =>
    MigPre_of_SlotInv c (hs c (Store.findCluster_some hc).1).1 (hs c (Store.findCluster_some hc).1).2
  exact ⟨C12_no_panic_planner_partial s h (.migrate n) hp, C12_no_panic_planner_partial s h (.scaleOutNum n k) hp⟩

/-! ## atomic refusal -/

/-- operations whose refusal is *not* "state unchanged up to the epoch" (stated separately below) -/
def Op.atomicRefusal : Op → Bool
  | .failover _ _ | .changeNum _ _ _ | .addProxy _ _ _ _ _ => false
  | _ => true

/-- **C12_atomic_refusal.** If an operation answers with an error, the store is unchanged except
for `globalEpoch` (`migrate_slots*` bump it before validating) -/
theorem C12_atomic_refusal (s : Store) (h : Reachable s) (op : Op) (e : Err) (hop : op.atomicRefusal = true)
    (herr : (stepFull s op).2 = .err e) :
    (stepFull s op).1 = { s with globalEpoch := (stepFull s op).1.globalEpoch } := by
  have hx := rx_reachable s h
  apply SameButEpoch.eq
  cases op with
  | addProxy a n0 n1 ho io => cases hop
  | setOrdered => cases herr
  | removeProxy a => exact SameButEpoch.of_eq (removeProxy_refusal (Outcome.ofR_eq_err herr))
  | addCluster n k c => exact SameButEpoch.of_eq (addCluster_refusal (Outcome.ofR_eq_err herr))
  | removeCluster n => exact SameButEpoch.of_eq (removeCluster_refusal (Outcome.ofR_eq_err herr))
  | addNodes n k c => exact SameButEpoch.of_eq (autoAddNodes_refusal (Outcome.ofR_eq_err herr))
  | scaleUp n k c => exact SameButEpoch.of_eq (autoScaleUpNodes_refusal (Outcome.ofR_eq_err herr))
  | changeNum n k c => cases hop
  | scaleOutNum n k => exact autoScaleOutNodeNumber_refusal (Outcome.ofR_eq_err herr)
  | delFree n => exact SameButEpoch.of_eq (autoDeleteFreeNodes_refusal (Outcome.ofR_eq_err herr))
  | migrate n => exact migrateSlots_refusal (Outcome.ofR_eq_err herr)
  | scaleDown n k => exact migrateSlotsToScaleDown_refusal (Outcome.ofR_eq_err herr)
  | commit n ep rl t c => exact SameButEpoch.of_eq (commitMigration_refusal hx (Outcome.ofR_eq_err herr))
  | failover a c => cases hop
  | balance n => exact SameButEpoch.of_eq (balanceMasters_refusal (Outcome.ofR_eq_err herr))
  | config n kv => exact SameButEpoch.of_eq (changeConfig_refusal (Outcome.ofR_eq_err herr))
  | bumpAll ep => exact SameButEpoch.of_eq (forceBumpAllEpoch_refusal (Outcome.ofR_eq_err herr))
  | recover ep => cases herr
  | addFailure a r t => cases herr

/-- refusal of `replace_failed_proxy`: either the address is unknown (nothing changes), or no
replacement is available — then the takeover of the masters and the failed mark persist *by
design* (state `afterTakeover`), and the accounting invariant still holds -/
theorem C12_refusal_failover (s : Store) (h : Reachable s) (a c : String) (e : Err)
    (herr : (stepFull s (.failover a c)).2 = .err e) :
    (e = .proxyNotFound ∧ (stepFull s (.failover a c)).1 = s) ∨
    (e = .noAvailableResource ∧ ∃ fp name, s.findProxy a = some fp ∧ fp.cluster = some name ∧
      (stepFull s (.failover a c)).1 = afterTakeover s name a ∧ a ∈ (afterTakeover s name a).failed ∧
      (afterTakeover s name a).proxies = s.proxies ∧ ResInv (afterTakeover s name a)) := by
  have hx := rx_reachable s h
  have herr' : (replaceFailedProxy s a c).2 = R.err e := Outcome.ofR_eq_err herr
  show (e = .proxyNotFound ∧ (replaceFailedProxy s a c).1 = s) ∨
    (e = .noAvailableResource ∧ ∃ fp name, s.findProxy a = some fp ∧ fp.cluster = some name ∧
      (replaceFailedProxy s a c).1 = afterTakeover s name a ∧ _)
  rcases replaceFailedProxy_spec s a c with ⟨_, h'⟩ | ⟨p, _, _, h'⟩ | ⟨p, name, hfp, hpc, hnone, h'⟩ |
      ⟨p, name, cl0, hfp, hpc, hcl0, h'⟩
  · rw [h'] at herr' ⊢; cases herr'; exact Or.inl ⟨rfl, rfl⟩
  · rw [h'] at herr'; cases herr'
  · exfalso
    obtain ⟨hpm, _⟩ := Store.findProxy_some hfp
    obtain ⟨cl, hcl, hcn, _⟩ := hx.1.2.2.2.2 p hpm name hpc
    exact Store.findCluster_none.mp hnone cl hcl hcn
  · have hsk := afterTakeover_skelEq s name a hx.nodupNames
    rcases h' with ⟨_, h'⟩ | ⟨_, ⟨np, cl, _, _, h'⟩ | ⟨e', hg, h'⟩ | ⟨w, _, h'⟩ | ⟨w, _, h'⟩ | ⟨np, _, _, h'⟩⟩
    · -- ordered mode answers `Ok(None)`
      rw [h'] at herr'; cases herr'
    · rw [h'] at herr'; cases herr'
    · rw [h'] at herr' ⊢
      cases herr'
      rcases generateNewFreeProxy_err hg with ⟨_, hn⟩ | ⟨he, _⟩
      · rw [findProxy_congr hsk.1 a, hfp] at hn; cases hn
      · refine Or.inr ⟨he, p, name, hfp, hpc, rfl, ?_, hsk.1, hsk.resInv ((resInv_iff_rpt s).mpr hx.1)⟩
        show a ∈ (if (takeoverMaster s name a).1.failed.contains a then _ else _)
        split
        · rename_i hc; simpa using hc
        · simp
    · rw [h'] at herr'; cases herr'
    · rw [h'] at herr'; cases herr'
    · rw [h'] at herr'; cases herr'

/-- refusal of the composite `auto_change_node_number`: the deletion of the cluster's free chunks
(its first step) persists; nothing else does -/
theorem C12_refusal_changeNum (s : Store) (n : String) (k : Nat) (c : List (String × String)) (e : Err)
    (herr : (stepFull s (.changeNum n k c)).2 = .err e) :
    (stepFull s (.changeNum n k c)).1 = s ∨
    (stepFull s (.changeNum n k c)).1 =
      { (autoDeleteFreeNodes s n).1 with globalEpoch := (stepFull s (.changeNum n k c)).1.globalEpoch } := by
  rcases autoChangeNodeNumber_refusal (Outcome.ofR_eq_err herr) with h | h
  · exact Or.inl h
  · exact Or.inr h.eq

/-- refusal of `add_proxy`: an invalid address (or, in ordered mode, a missing index) changes
nothing; re-registering an existing address
answers `ALREADY_EXISTED` and (by design) clears that address's failed mark and failure reports —
clusters and proxies are untouched -/
theorem C12_refusal_addProxy (s : Store) (a n0 n1 : String) (ho : Option String) (io : Option Nat) (e : Err)
    (herr : (stepFull s (.addProxy a n0 n1 ho io)).2 = .err e) :
    ((e = .invalidProxyAddress ∨ e = .missingIndex) ∧ (stepFull s (.addProxy a n0 n1 ho io)).1 = s) ∨
    (e = .alreadyExisted ∧ (stepFull s (.addProxy a n0 n1 ho io)).1.clusters = s.clusters ∧
      (stepFull s (.addProxy a n0 n1 ho io)).1.proxies = s.proxies ∧
      (stepFull s (.addProxy a n0 n1 ho io)).1.failed = s.failed.filter (· != a) ∧
      (stepFull s (.addProxy a n0 n1 ho io)).1.failures = s.failures.filter (·.1 != a)) :=
  addProxy_refusal (Outcome.ofR_eq_err herr)

/-! ## two hosts -/

/-- **C12_two_hosts** (`add_cluster`): on success exactly one cluster is appended; it has
`nodeNum / 4` chunks, each with its halves on different hosts, built from free healthy proxies -/
theorem C12_two_hosts_addCluster (s s' : Store) (ho : s.ordered = false) (n : String) (k : Nat)
    (c : List (String × String)) (x : String)
    (h : stepFull s (.addCluster n k c) = (s', .ok x)) :
    ∃ cl, s'.clusters = s.clusters ++ [cl] ∧ cl.name = n ∧ cl.chunks.length * 4 = k ∧
      ∀ ch ∈ cl.chunks, ch.host0 ≠ ch.host1 ∧
        ∃ p0 ∈ s.freeProxies, ∃ p1 ∈ s.freeProxies, ch.proxy0 = p0.addr ∧ ch.proxy1 = p1.addr := by
  have h1 : (addCluster s n k defaultConfig c).1 = s' := congrArg Prod.fst h
  have h2 := Outcome.ofR_eq_ok (congrArg Prod.snd h)
  rcases addCluster_spec s n k defaultConfig c with ⟨_, hno⟩ | ⟨chunks, _, _, hnew, hlen, hk4, _, he⟩
  · obtain ⟨u, hu, _⟩ := h2; exact absurd hu (hno u)
  · rw [he] at h1
    subst h1
    exact ⟨_, rfl, rfl, by simp only [hlen]; omega, hnew.hosts ho⟩

/-- **C12_two_hosts** (`auto_add_nodes`) -/
theorem C12_two_hosts_addNodes (s s' : Store) (ho : s.ordered = false) (n : String) (k : Nat)
    (c : List (String × String)) (x : String)
    (h : stepFull s (.addNodes n k c) = (s', .ok x)) :
    ∃ cl new, s.findCluster n = some cl ∧
      s'.findCluster n = some { cl with chunks := cl.chunks ++ new, epoch := s.globalEpoch + 1 } ∧
      new.length * 4 = k ∧
      ∀ ch ∈ new, ch.host0 ≠ ch.host1 ∧
        ∃ p0 ∈ s.freeProxies, ∃ p1 ∈ s.freeProxies, ch.proxy0 = p0.addr ∧ ch.proxy1 = p1.addr := by
  have h1 : (autoAddNodes s n k c).1 = s' := congrArg Prod.fst h
  have h2 := Outcome.ofR_eq_ok (congrArg Prod.snd h)
  rcases autoAddNodes_spec s n k c with ⟨_, hno⟩ | ⟨cl, new, hf, hnew, hlen, hk4, _, _, he⟩
  · obtain ⟨u, hu, _⟩ := h2; exact absurd hu (hno u)
  · rw [he] at h1
    subst h1
    exact ⟨cl, new, hf, addNodesResult_findCluster hf, by omega, hnew.hosts ho⟩

/-- **C12_two_hosts** (`auto_scale_up_nodes`) -/
theorem C12_two_hosts_scaleUp (s s' : Store) (ho : s.ordered = false) (n : String) (k : Nat)
    (c : List (String × String)) (x : String)
    (h : stepFull s (.scaleUp n k c) = (s', .ok x)) :
    ∃ cl new, s.findCluster n = some cl ∧
      s'.findCluster n = some { cl with chunks := cl.chunks ++ new, epoch := s.globalEpoch + 1 } ∧
      (cl.chunks.length + new.length) * 4 = k ∧
      ∀ ch ∈ new, ch.host0 ≠ ch.host1 ∧
        ∃ p0 ∈ s.freeProxies, ∃ p1 ∈ s.freeProxies, ch.proxy0 = p0.addr ∧ ch.proxy1 = p1.addr := by
  have h1 : (autoScaleUpNodes s n k c).1 = s' := congrArg Prod.fst h
  obtain ⟨u, h2, _⟩ := Outcome.ofR_eq_ok (congrArg Prod.snd h)
  unfold autoScaleUpNodes at h1 h2
  split at h2
  · cases h2
  split at h2
  · cases h2
  rename_i hv _ cl hf
  simp only [hv, hf] at h1
  simp only at h1 h2
  split at h2
  · cases h2
  rename_i hk
  simp only [hk, if_false] at h1
  rcases autoAddNodes_spec s n (k - cl.chunks.length * 4) c with ⟨_, hno⟩ | ⟨cl', new, hf', hnew, hlen, hk4, _, _, he⟩
  · exact absurd h2 (hno u)
  · rw [he] at h1
    subst h1
    rw [hf] at hf'; cases hf'
    exact ⟨cl, new, hf, addNodesResult_findCluster hf, by omega, hnew.hosts ho⟩

/-- **C12_two_hosts** (`auto_change_node_number`, scale-out branch = result `ok 1`, which
`stepFull s (.changeNum n k c)` renders as `.ok " 1"`): the new chunks are appended to the cluster
left by the deletion of its free chunks -/
theorem C12_two_hosts_changeNum (s s' : Store) (ho : s.ordered = false) (n : String) (k : Nat)
    (c : List (String × String))
    (h : autoChangeNodeNumber s n k c = (s', R.ok 1)) :
    ∃ cl new, (autoDeleteFreeNodes s n).1.findCluster n = some cl ∧ new ≠ [] ∧
      s'.findCluster n =
        some { cl with chunks := cl.chunks ++ new, epoch := (autoDeleteFreeNodes s n).1.globalEpoch + 1 } ∧
      ∀ ch ∈ new, ch.host0 ≠ ch.host1 ∧
        ∃ p0 ∈ (autoDeleteFreeNodes s n).1.freeProxies, ∃ p1 ∈ (autoDeleteFreeNodes s n).1.freeProxies,
          ch.proxy0 = p0.addr ∧ ch.proxy1 = p1.addr := by
  obtain ⟨cl, new, hf, hnew, hne, hs'⟩ := autoChangeNodeNumber_scaleUp h
  subst hs'
  exact ⟨cl, new, hf, hne, addNodesResult_findCluster hf,
    hnew.hosts (by rw [Ord.autoDeleteFreeNodes_ordered]; exact ho)⟩

/-! ## host of the replacement -/

/-- **C12_replacement_host_partial.** When `replace_failed_proxy` installs a replacement, it is a
free healthy proxy of the state before the call (the implementation's pick), and its host differs
from the surviving partner's host `ph` whenever some host other than `ph` *and other than the failed
proxy's own host* has a free healthy proxy (such a host is a candidate: it has a link-table entry
from the failed proxy's host). -/
theorem C12_replacement_host_partial (s s' : Store) (h : Reachable s) (f choice addr : String)
    (hok : replaceFailedProxy s f choice = (s', R.ok (some addr))) :
    ∃ fp np, s.findProxy f = some fp ∧ np ∈ s.freeProxies ∧ np.addr = addr ∧
      ∀ c ∈ s.clusters, ∀ ch ∈ c.chunks, ∀ ph,
        ((ch.proxy0 = f ∧ ph = ch.host1) ∨ (ch.proxy1 = f ∧ ph = ch.host0)) →
        (∃ q ∈ s.freeProxies, q.host ≠ ph ∧ q.host ≠ fp.host) → np.host ≠ ph := by
  obtain ⟨fp, np, h1, h2, h3, _, h5⟩ := replacement_host (rx_reachable s h) hok
  exact ⟨fp, np, h1, h2, h3, h5⟩

/-- … and in that situation (some host other than the partner's and the failed proxy's own has a
free healthy proxy) the call is never refused: for every choice the outcome is a replacement or a
rejected choice, never `NO_AVAILABLE_RESOURCE` -/
theorem C12_replacement_available_partial (s : Store) (h : Reachable s) (f choice : String)
    (c : Cluster) (hc : c ∈ s.clusters) (ch : Chunk) (hch : ch ∈ c.chunks) (ph : String)
    (hph : (ch.proxy0 = f ∧ ph = ch.host1) ∨ (ch.proxy1 = f ∧ ph = ch.host0))
    (hthird : ∃ fp, s.findProxy f = some fp ∧ ∃ q ∈ s.freeProxies, q.host ≠ ph ∧ q.host ≠ fp.host) :
    ∀ e, (replaceFailedProxy s f choice).2 ≠ R.err e :=
  replacement_not_refused (rx_reachable s h) hc hch hph hthird

/-- the unrestricted statement of the property text: whenever *some* host other than the partner's
has a free healthy proxy, the call does not fail for lack of resources and the replacement is on a
host different from the partner's -/
def C12_replacement_host_full : Prop :=
  ∀ (s s' : Store) (f choice : String) (r : R (Option String)), Reachable s →
    replaceFailedProxy s f choice = (s', r) →
    ∀ c ∈ s.clusters, ∀ ch ∈ c.chunks, ∀ ph,
      ((ch.proxy0 = f ∧ ph = ch.host1) ∨ (ch.proxy1 = f ∧ ph = ch.host0)) →
      (∃ q ∈ s.freeProxies, q.host ≠ ph) →
      r ≠ R.err .noAvailableResource ∧
      ∀ addr, r = R.ok (some addr) → ∃ np ∈ s.freeProxies, np.addr = addr ∧ np.host ≠ ph

/-- `corpus/broker/broker.f1b.ops`: p0 on host A and p1 on host B form a chunk, p2 on host A is free -/
def f1bOps : List Op := [
  .addProxy "p0:6000" "n0:7000" "n0:7001" (some "A") none,
  .addProxy "p1:6001" "n1:7002" "n1:7003" (some "B") none,
  .addCluster "c0" 4 [("p0:6000", "p1:6001")],
  .addProxy "p2:6002" "n2:7004" "n2:7005" (some "A") none]

def isNoResource : R (Option String) → Bool
  | .err .noAvailableResource => true
  | _ => false

theorem isNoResource_eq {r : R (Option String)} (h : isNoResource r = true) : r = R.err .noAvailableResource := by
  cases r with
  | err e => cases e <;> first | rfl | cases h
  | ok _ => cases h
  | panic _ => cases h
  | badChoice _ => cases h

/-- **Finding F1b** (known, not repaired): the unrestricted statement is false. Witness
`broker.f1b.ops`: the only free healthy proxy is on the failed proxy's own host A (≠ partner host B),
and `replace_failed_proxy` answers `NO_AVAILABLE_RESOURCE` — the failed proxy's own host is never a
candidate. -/
theorem C12_replacement_host_full_false : ¬ C12_replacement_host_full := by
  intro hfull
  have := hfull (run f1bOps) _ "p0:6000" "p2:6002" _ (reachable_run _) rfl
    ((run f1bOps).clusters[0]'(by decide +kernel)) (List.getElem_mem _)
    (((run f1bOps).clusters[0]'(by decide +kernel)).chunks[0]'(by decide +kernel)) (List.getElem_mem _) "B"
    (Or.inl ⟨by decide +kernel, by decide +kernel⟩)
    ⟨(run f1bOps).freeProxies[0]'(by decide +kernel), List.getElem_mem _, by decide +kernel⟩
  exact this.1 (isNoResource_eq (by decide +kernel))

/-! ## ordered-proxy mode (`enable_ordered_proxy = true`, Kubernetes StatefulSets)

The theorems above quantify over `Reachable`, which contains the histories of a broker started in
ordered mode (`runOrdered ops = run (.setOrdered :: ops)`). What is specific to that mode: -/

/-- both modes are reachable and the mode is fixed by how the history starts -/
theorem C12_modes (ops : List Op) :
    Reachable (runOrdered ops) ∧ (runOrdered ops).ordered = true ∧
    ((∀ op ∈ ops, op ≠ .setOrdered) → (run ops).ordered = false) ∧
    (∀ s op, s.ordered = true → (step s op).ordered = true) ∧
    (∀ s op, op ≠ .setOrdered → (step s op).ordered = s.ordered) :=
  ⟨Ord.reachable_runOrdered ops, Ord.runOrdered_ordered ops, Ord.run_normal ops,
   fun s op h => Ord.step_ordered_mono s op h, fun s op h => Ord.step_ordered s op h⟩

/-- **ordered mode: at most one cluster** (`OneClusterAlreadyExisted`) in every reachable state -/
theorem C12_ordered_one_cluster (s : Store) (h : Reachable s) (ho : s.ordered = true) :
    s.clusters.length ≤ 1 := Ord.oneCluster_reachable s h ho

/-- **ordered `add_cluster`** (counterpart of `C12_two_hosts_addCluster`): on success there was no
cluster, the new one is the only one, it has `nodeNum / 4` chunks, and its chunk halves read in
chunk order are free healthy proxies carrying the indices `0, 1, …, nodeNum/2 - 1` — whatever
their hosts. -/
theorem C12_ordered_addCluster (s s' : Store) (ho : s.ordered = true) (n : String) (k : Nat)
    (c : List (String × String)) (x : String) (h : stepFull s (.addCluster n k c) = (s', .ok x)) :
    s.clusters = [] ∧ ∃ cl, s'.clusters = [cl] ∧ cl.name = n ∧ cl.chunks.length * 4 = k ∧
      ∃ ps : List ProxyRes, (∀ p ∈ ps, p ∈ s.freeProxies) ∧ ps.map (·.addr) = cl.proxyAddrs ∧
        ps.map (·.index) = List.range' 0 (k / 2) := by
  have h1 : (addCluster s n k defaultConfig c).1 = s' := congrArg Prod.fst h
  obtain ⟨u, hu, _⟩ := Outcome.ofR_eq_ok (congrArg Prod.snd h)
  cases u
  exact Ord.addCluster_ordered_spec ho (Prod.ext h1 hu)

/-- **ordered `auto_add_nodes`** (counterpart of `C12_two_hosts_addNodes`): the new chunks continue
the index sequence of the cluster: their halves in chunk order are free healthy proxies with the
indices `2·|chunks|, 2·|chunks| + 1, …` -/
theorem C12_ordered_addNodes (s s' : Store) (ho : s.ordered = true) (n : String) (k : Nat)
    (c : List (String × String)) (x : String) (h : stepFull s (.addNodes n k c) = (s', .ok x)) :
    ∃ cl new, s.findCluster n = some cl ∧
      s'.findCluster n = some { cl with chunks := cl.chunks ++ new, epoch := s.globalEpoch + 1 } ∧
      new.length * 4 = k ∧
      ∃ ps : List ProxyRes, (∀ p ∈ ps, p ∈ s.freeProxies) ∧ ps.map (·.addr) = chunkAddrs new ∧
        ps.map (·.index) = List.range' (cl.chunks.length * 2) (k / 2) := by
  have h1 : (autoAddNodes s n k c).1 = s' := congrArg Prod.fst h
  obtain ⟨u, hu, _⟩ := Outcome.ofR_eq_ok (congrArg Prod.snd h)
  cases u
  obtain ⟨cl, new, hf, hlen, hs', hps⟩ := Ord.autoAddNodes_ordered_spec ho (Prod.ext h1 hu)
  subst hs'
  exact ⟨cl, new, hf, addNodesResult_findCluster hf, hlen, hps⟩

/-- **ordered failover** (counterpart of the replacement theorems): for a proxy that sits in a
cluster, `replace_failed_proxy` is the takeover of its masters plus a second epoch bump; it answers
`Ok(None)`, marks nothing failed, replaces nothing, leaves proxy records and failure reports alone,
and keeps `ResInv`. -/
theorem C12_ordered_failover (s : Store) (h : Reachable s) (ho : s.ordered = true) (a c : String)
    (fp : ProxyRes) (name : String) (hfp : s.findProxy a = some fp) (hpc : fp.cluster = some name) :
    stepFull s (.failover a c) = ((takeoverMaster s name a).1.bump, .ok " none") ∧
    (stepFull s (.failover a c)).1.proxies = s.proxies ∧ (stepFull s (.failover a c)).1.failed = s.failed ∧
    (stepFull s (.failover a c)).1.failures = s.failures ∧
    (stepFull s (.failover a c)).1.globalEpoch = s.globalEpoch + 2 ∧
    ResInv (stepFull s (.failover a c)).1 := by
  obtain ⟨h1, h2, h3, h4, h5, h6⟩ := Ord.replaceFailedProxy_ordered_spec (rx_reachable s h) ho (c := c) hfp hpc
  refine ⟨?_, h2, h3, h4, h5, (resInv_iff_rpt _).mpr h6.1⟩
  show ((replaceFailedProxy s a c).1, Outcome.ofR _ (replaceFailedProxy s a c).2) = _
  rw [h1]; rfl

/-- ordered mode never installs a replacement, whatever the free pool looks like -/
theorem C12_ordered_no_replacement (s : Store) (ho : s.ordered = true) (a c addr : String) :
    (replaceFailedProxy s a c).2 ≠ R.ok (some addr) := by
  intro h
  rcases replaceFailedProxy_spec s a c with ⟨_, h'⟩ | ⟨p, _, _, h'⟩ | ⟨p, name, _, _, _, h'⟩ |
      ⟨p, name, cl0, _, _, _, ⟨_, h'⟩ | ⟨hno, _⟩⟩
  · rw [h'] at h; cases h
  · rw [h'] at h; cases h
  · rw [h'] at h; cases h
  · rw [h'] at h; cases h
  · rw [ho] at hno; cases hno

/-! ## non-vacuity: the hypotheses are satisfiable on non-trivial states, the conclusions can fail
outside reachable states, and the statements bite on concrete runs -/
section NonVacuity

private def okO : Outcome → Bool | .ok _ => true | _ => false
private def errO : Outcome → Option Err | .err e => some e | _ => none
private def panicO : Outcome → Bool | .panic => true | _ => false

/-- p0 on host A, p1 on host B -/
private def twoProxies : List Op := [
  .addProxy "p0:6000" "n0:7000" "n0:7001" (some "A") none,
  .addProxy "p1:6001" "n1:7002" "n1:7003" (some "B") none]

/-- chunk (p0@A, p1@B), free p2 on a third host C, free p3 on D -/
private def thirdHost : List Op := twoProxies ++ [
  .addCluster "c0" 4 [("p0:6000", "p1:6001")],
  .addProxy "p2:6002" "n2:7004" "n2:7005" (some "C") none,
  .addProxy "p3:6003" "n3:7006" "n3:7007" (some "D") none]

/-- a store violating the invariant: the cluster's chunk names proxies that are not registered -/
private def badStore : Store :=
  { globalEpoch := 1,
    clusters := [{ epoch := 1, name := "c0", config := defaultConfig,
                   chunks := [mkChunk { addr := "x:1", node0 := "", node1 := "", host := "X", index := 0, cluster := none }
                                      { addr := "y:1", node0 := "", node1 := "", host := "Y", index := 0, cluster := none }
                                      none none] }],
    proxies := [{ addr := "a:1", node0 := "a:2", node1 := "a:3", host := "A", index := 0, cluster := none },
                { addr := "b:1", node0 := "b:2", node1 := "b:3", host := "B", index := 0, cluster := none }],
    failed := [], failures := [], ordered := false }

-- C12_accounting / C12_check_metadata / C12_membership_complement: a reachable state with a cluster, a
-- tagged and a free proxy; the check is a real predicate (false on `badStore`)
example : ResInv (run f1bOps) := C12_accounting _ (reachable_run _)
example : (run f1bOps).clusters.length = 1 ∧ (run f1bOps).proxies.length = 3 ∧
    (run f1bOps).freeProxies.length = 1 := by decide +kernel
example : checkMetadata (run f1bOps) = true := C12_check_metadata _ (reachable_run _)
example : checkMetadata badStore = false := by decide +kernel
example : ¬ ResInv badStore := fun h => by
  have := checkMetadata_of_rpt ((resInv_iff_rpt _).mp h)
  revert this; decide +kernel
example : ∃ p ∈ (run f1bOps).freeProxies, p.addr = "p2:6002" :=
  ⟨(run f1bOps).freeProxies[0]'(by decide +kernel), List.getElem_mem _, by decide +kernel⟩

-- C12_no_panic: allocation really happens on reachable states, and the model *can* panic on a store
-- outside the invariant ("add_cluster: failed to get back proxy"), so the theorem is not vacuous
example : okO (stepFull (run twoProxies) (.addCluster "c0" 4 [("p0:6000", "p1:6001")])).2 = true := by
  decide +kernel
example : panicO (stepFull badStore (.addNodes "c0" 4 [("a:1", "b:1")])).2 = true := by decide +kernel
example : (stepFull (run thirdHost) (.failover "p0:6000" "p2:6002")).2 ≠ .panic :=
  C12_no_panic _ (reachable_run _) _ rfl

-- C12_no_panic_planner_partial: the hypothesis holds on a reachable state with a pending scale-out,
-- where `migrate` really plans a migration; without the balance hypothesis the planner does panic
private instance : DecidablePred MigPre := fun c => by unfold MigPre; infer_instance
private def scaledOut : List Op := thirdHost ++ [.addNodes "c0" 4 [("p2:6002", "p3:6003")]]
example : ∀ c ∈ (run scaledOut).clusters, MigPre c := by decide +kernel
example : okO (stepFull (run scaledOut) (.migrate "c0")).2 = true ∧
    (stepFull (run scaledOut) (.migrate "c0")).1.clusters.any Cluster.isMigrating = true := by decide +kernel
private def px (a h : String) : ProxyRes := { addr := a, node0 := "", node1 := "", host := h, index := 0, cluster := none }
-- C12_no_panic_run: a bounded history ending in a pending scale-out; its next planner step is fine
private instance : DecidablePred Plan.PlanBound := fun s => by unfold Plan.PlanBound; infer_instance
example : ∀ k, Plan.PlanBound (run (scaledOut.take k)) := by
  intro k
  have h : ∀ j, j ≤ scaledOut.length → Plan.PlanBound (run (scaledOut.take j)) := by decide +kernel
  by_cases hk : k ≤ scaledOut.length
  · exact h k hk
  · rw [List.take_of_length_le (by omega)]
    simpa using h scaledOut.length (Nat.le_refl _)
private def unbalanced : Store :=
  { globalEpoch := 1, proxies := [], failed := [], failures := [], ordered := false,
    clusters := [{ epoch := 1, name := "a", config := defaultConfig,
                   chunks := [mkChunk (px "x:1" "X") (px "y:1" "Y") (some [(0, 16383)]) (some []),
                              mkChunk (px "z:1" "Z") (px "w:1" "W") (some []) (some [])] }] }
example : panicO (stepFull unbalanced (.scaleDown "a" 4)).2 = true := by decide +kernel

-- C12_atomic_refusal: refusals occur, with and without an epoch bump
example : errO (stepFull (run twoProxies) (.addCluster "c0" 8 [])).2 = some .noAvailableResource := by
  decide +kernel
example : errO (stepFull (run f1bOps) (.addNodes "c0" 4 [])).2 = some .noAvailableResource := by decide +kernel
example : errO (stepFull (run f1bOps) (.migrate "c0")).2 = some .slotsAlreadyEven ∧
    (stepFull (run f1bOps) (.migrate "c0")).1.globalEpoch = (run f1bOps).globalEpoch + 1 := by decide +kernel

-- C12_refusal_failover: the refusal of F1b keeps the failed mark
example : errO (stepFull (run f1bOps) (.failover "p0:6000" "p2:6002")).2 = some .noAvailableResource ∧
    (stepFull (run f1bOps) (.failover "p0:6000" "p2:6002")).1.failed = ["p0:6000"] ∧
    (run f1bOps).failed = [] := by decide +kernel

-- C12_refusal_changeNum / C12_refusal_addProxy
example : errO (stepFull (run f1bOps) (.changeNum "c0" 8 [])).2 = some .noAvailableResource := by decide +kernel
example : errO (stepFull (run f1bOps) (.addProxy "p2:6002" "n2:7004" "n2:7005" (some "A") none)).2 =
    some .alreadyExisted := by decide +kernel

-- C12_two_hosts_*: successful allocations
example : okO (stepFull (run thirdHost) (.addNodes "c0" 4 [("p2:6002", "p3:6003")])).2 = true := by decide +kernel
example : okO (stepFull (run thirdHost) (.scaleUp "c0" 8 [("p2:6002", "p3:6003")])).2 = true := by decide +kernel
example : (match (autoChangeNodeNumber (run thirdHost) "c0" 8 [("p2:6002", "p3:6003")]).2 with
    | .ok 1 => true | _ => false) = true := by decide +kernel

-- C12_replacement_host_partial: with a third host the replacement is installed there
example : (match (replaceFailedProxy (run thirdHost) "p0:6000" "p2:6002").2 with
    | .ok (some a) => a == "p2:6002" | _ => false) = true := by decide +kernel

-- ordered-proxy mode: four proxies on ONE host with indices 0..3 (a fifth with a duplicate index 3),
-- a 4-node cluster on indices 0,1, scale-out onto 2,3, failover without replacement
private def orderedOps : List Op := [
  .setOrdered,
  .addProxy "p0:6000" "n0:7000" "n0:7001" (some "A") (some 0),
  .addProxy "p1:6001" "n1:7002" "n1:7003" (some "A") (some 1),
  .addProxy "p2:6002" "n2:7004" "n2:7005" (some "A") (some 2),
  .addProxy "p3:6003" "n3:7006" "n3:7007" (some "A") (some 3),
  .addProxy "p4:6004" "n4:7008" "n4:7009" (some "A") (some 3),
  .addCluster "c0" 4 [("p0:6000", "p1:6001")]]

example : (run orderedOps).ordered = true ∧ (run orderedOps).clusters.length = 1 := by decide +kernel
example : ResInv (run orderedOps) ∧ checkMetadata (run orderedOps) = true :=
  ⟨C12_accounting _ (reachable_run _), C12_check_metadata _ (reachable_run _)⟩
example : (run orderedOps).clusters.length ≤ 1 :=
  C12_ordered_one_cluster _ (reachable_run _) (by decide +kernel)
-- the two-hosts clause does not hold in ordered mode: both halves of the chunk are on host A
example : (run orderedOps).clusters.map (fun c => c.chunks.map fun ch => (ch.host0, ch.host1)) = [[("A", "A")]] := by
  decide +kernel
-- MissingIndex, OneClusterAlreadyExisted, ProxyResourceOutOfOrder
example : errO (stepFull (run orderedOps) (.addProxy "p9:1" "x" "y" none none)).2 = some .missingIndex ∧
    errO (stepFull (run orderedOps) (.addCluster "c1" 4 [])).2 = some .oneClusterAlreadyExisted ∧
    errO (stepFull (run [.setOrdered, .addProxy "p1:6001" "x" "y" none (some 1),
      .addProxy "p2:6002" "x" "y" none (some 2)]) (.addCluster "c0" 4 [])).2 = some .proxyResourceOutOfOrder := by
  decide +kernel
-- scale-out continues the index sequence; the tie on index 3 is the implementation's choice
example : okO (stepFull (run orderedOps) (.addNodes "c0" 4 [("p2:6002", "p3:6003")])).2 = true ∧
    okO (stepFull (run orderedOps) (.addNodes "c0" 4 [("p2:6002", "p4:6004")])).2 = true ∧
    (match (stepFull (run orderedOps) (.addNodes "c0" 4 [("p3:6003", "p2:6002")])).2 with
      | .badChoice _ => true | _ => false) = true := by decide +kernel
-- failover in ordered mode: `Ok(None)`, two epoch bumps, no failed mark (`C12_ordered_failover`)
example : okO (stepFull (run orderedOps) (.failover "p0:6000" "-")).2 = true ∧
    (stepFull (run orderedOps) (.failover "p0:6000" "-")).1.globalEpoch = (run orderedOps).globalEpoch + 2 ∧
    (stepFull (run orderedOps) (.failover "p0:6000" "-")).1.failed = [] ∧
    (stepFull (run orderedOps) (.failover "p0:6000" "-")).1.clusters.map (fun c => c.chunks.map (·.role)) =
      [[RolePos.second]] := by decide +kernel
-- `setOrdered` later in a history is a no-op
example : (step (run twoProxies) .setOrdered).ordered = false := by decide +kernel

end NonVacuity

end Um.Broker
