import UmProofs.ProxyMeta
import UmProofs.ReplEpochInv
import UmProofs.ReplEpochSeq
import UmProofs.ReplEpochMap
import UmProofs.SetMetaConcLin
/-!
# C05 — A proxy installs metadata iff it is strictly newer, atomically

Cluster metadata (`UMCTL SETCLUSTER` → `MetaManager::set_meta`, serialised by one mutex) is a
sequential machine (`Um.ProxyMeta`); replication metadata (`UMCTL SETREPL` →
`ReplicatorManager::update_replicators`, optimistic `updating_epoch` + re-check under the write
lock) is an interleaving semantics over its four atomic steps for any number of concurrent
callers (`Um.ReplEpoch`).

* `C05_cluster`, `C05_cluster_monotone`, `C05_cluster_same_message` — SETCLUSTER, all message lists.
* `C05_cluster_concurrent`, `C05_cluster_concurrent_step` — `set_meta` *without* assuming the mutex:
  any number of concurrent callers interleaved at the six scheduling points of hook H4, the lock as a
  shared variable; every execution is linearizable at lock acquisition.
* `C05_read_skew`, `C05_reader_epoch_first` — the two stores of `set_meta` and what a lock-free
  reader can see between them.
* `C05_repl_step` — per atomic step, in every state, whatever the flags: the installed epoch only
  decreases by a forced caller; `OK` ⇔ install, and then `force ∨ epoch > installed` held at that moment.
* `C05_repl`, `C05_repl_max` — every interleaving of any number of callers, **forced ones included**,
  started from a healthy state: `NOT_MY_META` ⇔ a foreign host; every `OLD_EPOCH` is answered to a
  non-forced caller whose epoch is, at that moment, ≤ the installed epoch or ≤ the epoch of a caller
  past its store step; at quiescence the state is healthy again (`updating_epoch ≤ installed`), so the
  next message is handled exactly (`C05_repl_seq`).  Along executions without forced callers the
  installed epoch never decreases and at quiescence it is the maximum of the previous one and the
  epochs of all callers that passed the host check.
* `C05_repl_seq` — sequential delivery (any flags) from a healthy state is exact.
* `C05_repl_pair` — the installed epoch and the installed roles always come from one caller, and
  for a message that lists no node in both roles the roles are a function of that message alone.
* `C05_repl_f05a_regression` — the schedule that exhibited finding F05a before fix be85753 (a forced
  caller racing with another one left `updating_epoch` above the installed epoch) now ends healthy.
-/
namespace Um.C05
open Um Um.ProxyMeta Um.ReplEpoch

/-! ## SETCLUSTER -/

/-- **C05 (cluster metadata), every message of every list.**  Let `sk` be the state after the
commands `pre`.  The reply to the next parsed message `m` is exactly the `pre.length`-th reply of
the whole run, and: `OK`/`WARNING` ⇔ the local nodes are on this host ∧ (forced ∨ strictly newer);
`WARNING` instead of `OK` iff the CONFIG section was invalid; `NOT_MY_META` ⇔ a foreign or
malformed local address; `OLD_EPOCH` ⇔ hosts fine, not forced, epoch ≤ installed; an accepted
message installs its epoch and its content, any other leaves the state alone. -/
theorem C05_cluster {C : Type} (announce : Bytes) (s0 : State C)
    (pre post : List (Option (Meta C × Bool))) (m : Meta C) (cfgOk : Bool) :
    let sk := (run announce s0 pre).1
    let out := handle announce sk (some (m, cfgOk))
    (run announce s0 (pre ++ some (m, cfgOk) :: post)).2[pre.length]? = some out.2 ∧
    ((out.2 = .ok ∨ out.2 = .warn) ↔ Accepts announce sk.epoch m) ∧
    (out.2 = .ok → cfgOk = true) ∧ (out.2 = .warn → cfgOk = false) ∧
    (out.2 = .notMyMeta ↔ checkHosts announce m.locals = false) ∧
    (out.2 = .oldEpoch ↔ checkHosts announce m.locals = true ∧ m.force = false ∧ m.epoch ≤ sk.epoch) ∧
    out.2 ≠ .parseErr ∧
    out.1 = (if Accepts announce sk.epoch m then installOf m else sk) := by
  intro sk out
  refine ⟨?_, ?_⟩
  · rw [run_append]
    simp only [run]
    have hl := run_length announce s0 pre
    rw [List.getElem?_append_right (by omega)]
    simp [hl, out, sk]
  · have hout : out = handle announce sk (some (m, cfgOk)) := rfl
    rw [handle_some] at hout
    unfold Accepts
    by_cases h1 : checkHosts announce m.locals = false
    · simp only [h1, if_true] at hout
      simp [hout, h1]
    · have h1' : checkHosts announce m.locals = true := by simpa using h1
      by_cases h2 : m.force = false ∧ m.epoch ≤ sk.epoch
      · simp only [h1, h2, and_self, if_true] at hout
        have : ¬ (m.force = true ∨ m.epoch > sk.epoch) := by
          rintro (h | h)
          · rw [h2.1] at h; cases h
          · omega
        have h5 : ¬ sk.epoch < m.epoch := by omega
        simp [hout, h1', h2, h5]
      · simp only [h1, if_false, h2] at hout
        have h3 : m.force = true ∨ m.epoch > sk.epoch := by
          cases hf : m.force
          · right
            rcases Nat.lt_or_ge sk.epoch m.epoch with h | h
            · exact h
            · exact absurd ⟨hf, h⟩ h2
          · left; rfl
        have h4 : ¬ (m.force = false ∧ m.epoch ≤ sk.epoch) := h2
        cases cfgOk <;> simp [hout, h1', h3, h4]

example : (handle (C := Nat) [49] ⟨5, 0⟩ (some (⟨6, false, [[49, 58, 55]], 42⟩, true))) = (⟨6, 42⟩, .ok) := by decide
example : (handle (C := Nat) [49] ⟨5, 0⟩ (some (⟨5, false, [[49, 58, 55]], 42⟩, true))) = (⟨5, 0⟩, .oldEpoch) := by decide
example : (handle (C := Nat) [49] ⟨5, 0⟩ (some (⟨3, true, [[49, 58, 55]], 42⟩, false))) = (⟨3, 42⟩, .warn) := by decide
example : (handle (C := Nat) [49] ⟨5, 0⟩ (some (⟨9, true, [[50, 58, 55]], 42⟩, true))) = (⟨5, 0⟩, .notMyMeta) := by decide

/-- **the reported epoch never decreases without a forced message**: along any suffix of commands
none of which is forced, the installed epoch is non-decreasing (and by `C05_cluster` each accepted
one raises it strictly). -/
theorem C05_cluster_monotone {C : Type} (announce : Bytes) (s0 : State C)
    (pre suf : List (Option (Meta C × Bool)))
    (hnf : ∀ p ∈ suf, ∀ m b, p = some (m, b) → m.force = false) :
    (run announce s0 pre).1.epoch ≤ (run announce s0 (pre ++ suf)).1.epoch := by
  rw [run_append]
  exact run_epoch_mono announce _ suf hnf

example : (run (C := Nat) [49] ⟨5, 0⟩ [some (⟨3, true, [], 7⟩, true)]).1.epoch = 3 := by decide

/-- **the reported epoch and the routing snapshot come from the same accepted message**: after any
command list the state is the initial one (nothing accepted) or exactly `(m.epoch, m.content)` for
the last message `m` of the list that the property says must be applied. -/
theorem C05_cluster_same_message {C : Type} (announce : Bytes) (s0 : State C)
    (xs : List (Option (Meta C × Bool))) :
    (run announce s0 xs).1 = curState s0 (lastAccepted announce s0.epoch none xs) ∧
    ∀ m, lastAccepted announce s0.epoch none xs = some m → ∃ b, some (m, b) ∈ xs := by
  constructor
  · exact run_state_lastAccepted announce s0 none xs
  · intro m h
    rcases lastAccepted_mem announce s0.epoch none xs m h with h | h
    · cases h
    · exact h

example : (run (C := Nat) [49] ⟨0, 0⟩
    [some (⟨2, false, [], 7⟩, true), some (⟨1, false, [], 8⟩, true), none, some (⟨3, false, [[50, 58]], 9⟩, true)]).1
    = ⟨2, 7⟩ := by decide

/-- **read skew, one critical section.**  The stores of an accepted message are `meta_map` first,
`epoch` second: in between the shared pair holds the *new* snapshot with the *old* epoch; no
intermediate state holds the new epoch with the old snapshot (unless nothing distinguishes them). -/
theorem C05_read_skew {C : Type} (s : State C) (m : Meta C) :
    stores m = [.map m.content, .epoch m.epoch] ∧
    s.apply (.map m.content) = ⟨s.epoch, m.content⟩ ∧
    (s.apply (.map m.content)).apply (.epoch m.epoch) = ⟨m.epoch, m.content⟩ ∧
    ∀ t ∈ [s, s.apply (.map m.content), (s.apply (.map m.content)).apply (.epoch m.epoch)],
      t.epoch = m.epoch → t.snap = s.snap → (m.epoch = s.epoch ∨ m.content = s.snap) := by
  refine ⟨stores_eq m, rfl, rfl, ?_⟩
  intro t ht he hsn
  simp only [List.mem_cons, List.not_mem_nil, or_false] at ht
  rcases ht with rfl | rfl | rfl
  · left; exact he.symm
  · left; exact he.symm
  · right; exact hsn

/-- **a reader that loads the epoch first and the snapshot afterwards** (the order of
`MetaManager::handle_switch`, the only function reading both cells — checked by the extractor, first
conjunct) never sees a snapshot older than the epoch it read: over the whole
micro-step trace of any command list, at positions `i ≤ j` the message that wrote the epoch seen at
`i` is not later than the message that wrote the snapshot seen at `j`; and at every instant the
snapshot is at most one accepted message ahead of the epoch. -/
theorem C05_reader_epoch_first {C : Type} (announce : Bytes) (s0 : State C)
    (xs : List (Option (Meta C × Bool))) :
    let tr := (⟨s0, 0, 0⟩ : GState C) :: microTrace announce ⟨s0, 0, 0⟩ 0 xs
    Um.Gen.Meta.switchReadsEpochFirst = true ∧
    (∀ (i j : Nat) (a b : GState C), i ≤ j → tr[i]? = some a → tr[j]? = some b → a.eSeq ≤ b.mSeq) ∧
    (∀ t ∈ tr, t.eSeq ≤ t.mSeq ∧ t.mSeq ≤ t.eSeq + 1) := by
  intro tr
  refine ⟨rfl, ?_⟩
  obtain ⟨h1, h2⟩ := microTrace_inv announce (⟨s0, 0, 0⟩ : GState C) 0 ⟨rfl, rfl⟩ xs
  have hall : ∀ t ∈ tr, t.eSeq ≤ t.mSeq ∧ t.mSeq ≤ t.eSeq + 1 := by
    intro t ht
    simp only [tr, List.mem_cons] at ht
    rcases ht with rfl | ht
    · simp
    · have := h2 t ht; omega
  refine ⟨?_, hall⟩
  intro i j a b hij ha hb
  rcases Nat.lt_or_ge i j with hlt | hge
  · exact List.pairwise_iff_getElem.mp h1 i j (by
      obtain ⟨h, _⟩ := List.getElem?_eq_some_iff.mp ha; exact h) (by
      obtain ⟨h, _⟩ := List.getElem?_eq_some_iff.mp hb; exact h) hlt |> fun h => by
        obtain ⟨_, ha'⟩ := List.getElem?_eq_some_iff.mp ha
        obtain ⟨_, hb'⟩ := List.getElem?_eq_some_iff.mp hb
        rw [ha', hb'] at h; exact h
  · have : i = j := by omega
    subst this
    rw [ha] at hb; cases hb
    exact (hall a (List.mem_of_getElem? ha)).1

/-- the opposite order (snapshot first, epoch afterwards) *can* pair an old snapshot with a new
epoch: the trace of one accepted message read at positions 0 (snapshot) and 2 (epoch) -/
example : let tr := (⟨⟨0, 10⟩, 0, 0⟩ : GState Nat) :: microTrace [49] ⟨⟨0, 10⟩, 0, 0⟩ 0 [some (⟨1, false, [], 11⟩, true)]
    (tr[0]?.map (·.st.snap), tr[2]?.map (·.st.epoch)) = (some 10, some 1) := by decide

/-! ## SETCLUSTER, concurrent callers -/

/-- **C05 (cluster metadata), all interleavings of any number of concurrent callers of `set_meta`.**
The mutex is not assumed, it is modelled (`owner`).  For every schedule `ls` from a proxy with epoch
`e0` and snapshot `c0` there is a sequential order — `log`, the callers in the order in which they
took the lock — such that:

1. `log` lists, once each and with their own messages, exactly the callers that have taken the lock;
2. a caller that returned without ever taking the lock was answered `NOT_MY_META`, and its message is
   refused with `NOT_MY_META` by the sequential machine in *every* state (it can be put anywhere in
   the order without changing anything);
3. whenever the lock is free (in particular at quiescence) the shared pair `(epoch, snapshot)` is
   exactly what the sequential machine `Um.ProxyMeta.run` leaves after the commands of `log`, every
   logged caller has returned, and its reply is the reply of the sequential run at its position;
   hence (by `C05_cluster`) it was answered `OK`/`WARNING` iff its message was forced or strictly newer
   than the epoch installed at its linearization point — the state after the callers before it;
4. if no caller is forced, the installed epoch is never below `e0` — not even inside a critical section. -/
theorem C05_cluster_concurrent {C : Type} (announce : Bytes) (e0 : Nat) (c0 : C)
    (ls : List (SetMetaConc.Label C)) (s : SetMetaConc.Sys C)
    (hrun : SetMetaConc.replay announce (SetMetaConc.Sys.init e0 c0) ls = some s) :
    ∃ log : List (SetMetaConc.Entry C),
      (log.map (·.1)).Nodup ∧
      (∀ t ∈ log, ∃ c : SetMetaConc.Caller C, s.callers[t.1]? = some c ∧ c.msg = t.2.1 ∧ c.cfgOk = t.2.2) ∧
      (∀ (i : Nat) (c : SetMetaConc.Caller C), s.callers[i]? = some c →
        (SetMetaConc.acquired c.pc ↔ i ∈ log.map (·.1))) ∧
      (∀ (i : Nat) (c : SetMetaConc.Caller C) (r : ProxyMeta.Reply), s.callers[i]? = some c →
        i ∉ log.map (·.1) → c.pc = .done r →
        r = .notMyMeta ∧ ∀ st : State C, handle announce st (some (c.msg, c.cfgOk)) = (st, .notMyMeta)) ∧
      (s.owner = none →
        (⟨s.epoch, s.snap⟩ : State C) = (run announce ⟨e0, c0⟩ (SetMetaConc.cmds log)).1 ∧
        ∀ (k : Nat) (t : SetMetaConc.Entry C), log[k]? = some t →
          ∃ (c : SetMetaConc.Caller C) (r : ProxyMeta.Reply), s.callers[t.1]? = some c ∧ c.pc = .done r ∧
            (run announce ⟨e0, c0⟩ (SetMetaConc.cmds log)).2[k]? = some r ∧
            ((r = .ok ∨ r = .warn) ↔
              Accepts announce (run announce ⟨e0, c0⟩ (SetMetaConc.cmds (log.take k))).1.epoch t.2.1)) ∧
      ((∀ c ∈ s.callers, c.msg.force = false) → e0 ≤ s.epoch) := by
  obtain ⟨log, hg⟩ := SetMetaConc.replayG_of_replay (announce := announce) [] hrun
  have inv := SetMetaConc.linv_replayG (SetMetaConc.linv_init announce e0 c0) hg
  refine ⟨log, inv.nodup, inv.entries, inv.mem, ?_, ?_, ?_⟩
  · intro i c r hc hnot hpc
    have hna : ¬ SetMetaConc.acquired c.pc := fun h => hnot ((inv.mem i c hc).mp h)
    obtain ⟨_, h2, h3⟩ := inv.hosts i c hc
    have hr : r = .notMyMeta := by
      cases r with
      | ok => exact absurd (Or.inr (Or.inl hpc)) hna
      | warn => exact absurd (Or.inr (Or.inr (Or.inl hpc))) hna
      | oldEpoch => exact absurd (Or.inr (Or.inr (Or.inr hpc))) hna
      | notMyMeta => rfl
      | parseErr => exact absurd hpc h3
    subst hr
    refine ⟨rfl, ?_⟩
    intro st
    rw [handle_some]
    simp [h2 hpc]
  · intro hfree
    obtain ⟨hst, hcm⟩ := inv.free hfree
    refine ⟨hst, ?_⟩
    intro k t hk
    obtain ⟨c, r, h1, h2, h3⟩ := hcm k t hk
    refine ⟨c, r, h1, h2, h3, ?_⟩
    -- position k of the sequential run, by `C05_cluster`
    have hklt : k < log.length := by
      obtain ⟨h, _⟩ := List.getElem?_eq_some_iff.mp hk; exact h
    have hsplit : log = log.take k ++ t :: log.drop (k + 1) := by
      obtain ⟨_, hget⟩ := List.getElem?_eq_some_iff.mp hk
      rw [← hget]
      simp
    have hc := C05_cluster announce (⟨e0, c0⟩ : State C) (SetMetaConc.cmds (log.take k))
      (SetMetaConc.cmds (log.drop (k + 1))) t.2.1 t.2.2
    simp only at hc
    obtain ⟨hidx, hiff, _⟩ := hc
    have hcmds : SetMetaConc.cmds log =
        SetMetaConc.cmds (log.take k) ++ some (t.2.1, t.2.2) :: SetMetaConc.cmds (log.drop (k + 1)) := by
      conv => lhs; rw [hsplit]
      simp [SetMetaConc.cmds]
    have hlen : (SetMetaConc.cmds (log.take k)).length = k := by
      simp [SetMetaConc.cmds]; omega
    rw [← hcmds, hlen] at hidx
    have h3' : (run announce ⟨e0, c0⟩ (SetMetaConc.cmds log)).2[k]? = some r := h3
    rw [hidx] at h3'
    cases h3'
    exact hiff
  · intro hnf
    have hlognf : ∀ p ∈ SetMetaConc.cmds log, ∀ m b, p = some (m, b) → m.force = false := by
      intro p hp m b hpm
      obtain ⟨t, ht, htp⟩ := List.mem_map.mp hp
      obtain ⟨c, hc, hm, _⟩ := inv.entries t ht
      rw [hpm] at htp
      cases htp
      rw [← hm]
      exact hnf c (List.mem_of_getElem? hc)
    cases ho : s.owner with
    | none =>
      obtain ⟨hst, _⟩ := inv.free ho
      have := run_epoch_mono announce (⟨e0, c0⟩ : State C) (SetMetaConc.cmds log) hlognf
      have he : s.epoch = (run announce ⟨e0, c0⟩ (SetMetaConc.cmds log)).1.epoch := by
        show (⟨s.epoch, s.snap⟩ : State C).epoch = _
        rw [hst]; rfl
      simp only at this
      omega
    | some i =>
      obtain ⟨pre, c, hlog, hc, hin, _, h1, h2, h3, h4⟩ := inv.held i ho
      have hpre : ∀ p ∈ SetMetaConc.cmds pre, ∀ m b, p = some (m, b) → m.force = false := by
        intro p hp m b hpm
        apply hlognf p _ m b hpm
        rw [hlog]
        simp only [SetMetaConc.cmds, List.map_append, List.mem_append]
        exact Or.inl hp
      have hS := run_epoch_mono announce (⟨e0, c0⟩ : State C) (SetMetaConc.cmds pre) hpre
      simp only at hS
      have hcf : c.msg.force = false := hnf c (List.mem_of_getElem? hc)
      rcases hin with hp | hp | hp | hp
      · have := h1 (Or.inl hp)
        have he : s.epoch = (SetMetaConc.seqRun announce ⟨e0, c0⟩ pre).1.epoch := by
          show (⟨s.epoch, s.snap⟩ : State C).epoch = _
          rw [this]
        unfold SetMetaConc.seqRun at he
        omega
      · have := h1 (Or.inr hp)
        have he : s.epoch = (SetMetaConc.seqRun announce ⟨e0, c0⟩ pre).1.epoch := by
          show (⟨s.epoch, s.snap⟩ : State C).epoch = _
          rw [this]
        unfold SetMetaConc.seqRun at he
        omega
      · have he := (h2 hp).1
        unfold SetMetaConc.seqRun at he
        omega
      · have hst := h3 hp
        have hacc := h4 (by rw [hp]; intro h; cases h)
        have he : s.epoch = c.msg.epoch := by
          show (⟨s.epoch, s.snap⟩ : State C).epoch = _
          rw [hst]; rfl
        rcases hacc.2 with h | h
        · rw [hcf] at h; cases h
        · unfold SetMetaConc.seqRun at h
          omega

example : (SetMetaConc.replay (C := Nat) [49] (SetMetaConc.Sys.init 0 0)
    [.spawn ⟨1, false, [], 7⟩ true, .spawn ⟨2, false, [], 8⟩ true, .run 0, .run 1, .run 1, .run 1, .run 1, .run 1,
     .run 1, .run 0, .run 0]).map (fun s => (s.epoch, s.snap, s.callers.map (·.pc))) =
    some (2, 8, [.done .oldEpoch, .done .ok]) := by decide

/-- **the installed epoch never decreases without force, step by step** — in any state reachable by
any interleaving, a step that lowers the epoch is the epoch store of a forced caller. -/
theorem C05_cluster_concurrent_step {C : Type} (announce : Bytes) (e0 : Nat) (c0 : C)
    (ls : List (SetMetaConc.Label C)) (s s' : SetMetaConc.Sys C) (l : SetMetaConc.Label C)
    (hrun : SetMetaConc.replay announce (SetMetaConc.Sys.init e0 c0) ls = some s)
    (hstep : SetMetaConc.step? announce s l = some s') (hlt : s'.epoch < s.epoch) :
    ∃ (i : Nat) (c : SetMetaConc.Caller C), l = .run i ∧ s.callers[i]? = some c ∧ c.pc = .epochStore ∧
      c.msg.force = true := by
  obtain ⟨log, hg⟩ := SetMetaConc.replayG_of_replay (announce := announce) [] hrun
  have inv := SetMetaConc.linv_replayG (SetMetaConc.linv_init announce e0 c0) hg
  rcases SetMetaConc.step_pool hstep with ⟨m, b, _, he, _⟩ |
    ⟨i, c, c', e', sn', o', hl, hci, he, hsn, ho, ha, _, hp⟩
  · omega
  · cases ha with
    | epochStore hpc =>
      refine ⟨i, c, hl, hci, hpc, ?_⟩
      have hown := SetMetaConc.owner_of_inside inv hci (Or.inr (Or.inr (Or.inl hpc)))
      obtain ⟨pre, co, _, hc, _, _, _, h2, _, h4⟩ := inv.held i hown
      rw [hci] at hc; cases hc
      have hacc := h4 (by rw [hpc]; intro h; cases h)
      have hep := (h2 hpc).1
      rcases hacc.2 with h | h
      · exact h
      · omega
    | _ => omega

/-! ## SETREPL -/

/-- **C05 (replication metadata), every atomic step of every caller in every state, whatever the
flags.**  (1) The installed epoch decreases only by a forced caller.  (2) A caller returns `OK`
exactly at an install, and at that moment `force ∨ its epoch > the installed epoch`; the step writes
its epoch together with the map built from its own message.  (3) No other step touches the
installed pair. -/
theorem C05_repl_step (announce : Bytes) (s s' : Sys) (i : Nat) (h : Step announce s (.run i) s') :
    ∃ c c' : Caller, s.callers[i]? = some c ∧ s'.callers[i]? = some c' ∧ c'.msg = c.msg ∧
      (s'.instEpoch < s.instEpoch → c.msg.force = true) ∧
      (c'.pc = .done .ok →
        (c.msg.force = true ∨ s.instEpoch < c.msg.epoch) ∧
        s'.instEpoch = c.msg.epoch ∧ s'.instMap = buildMap c.reused c.msg) ∧
      (c'.pc ≠ .done .ok → s'.instEpoch = s.instEpoch ∧ s'.instMap = s.instMap) := by
  rcases step_pool h with ⟨m, hl, _⟩ | ⟨i', c, c', u', ie', im', hl, hci, hu', hie', him', ha, _, hp⟩
  · cases hl
  · cases hl
    refine ⟨c, c', hci, by rw [hp i]; simp, ha.msg_eq, ?_, ?_, ?_⟩
    · intro hlt
      rcases act_inst ha with ⟨h1, _⟩ | ⟨_, _, h1, _, h2⟩
      · omega
      · rcases h2 with h2 | h2
        · exact h2
        · omega
    · intro hpc
      rcases act_inst ha with ⟨h1, _⟩ | ⟨_, _, h1, h2, h3⟩
      · cases ha <;> simp_all
      · exact ⟨h3, by omega, by rw [him']; exact h2⟩
    · intro hpc
      rcases act_inst ha with ⟨h1, h2⟩ | ⟨_, h1, _⟩
      · exact ⟨by omega, by rw [him']; exact h2⟩
      · exact absurd h1 hpc

/-- **C05 (replication metadata), all interleavings of any number of callers, whatever their flags.**
Start in any healthy state `s0` (all earlier callers returned, `updating_epoch ≤ installed`), let any
number of callers enter at any time and interleave their atomic steps arbitrarily (`Run`).  Then:

1. for every caller of the execution, `NOT_MY_META` ⇔ foreign host;
2. `updating_epoch` is always ≤ the installed epoch or ≤ the epoch of a caller past its store step;
   whenever a further step answers `OLD_EPOCH`, that caller is non-forced and its epoch is, in the
   state it is answered in, ≤ the installed epoch or ≤ the epoch of a caller past its store step;
3. at quiescence the state is healthy again — so by `C05_repl_seq` a message delivered next is applied
   iff hosts match ∧ (forced ∨ epoch > installed);
4. if no caller of the execution is forced: the installed epoch has not decreased; `OK` ⇒
   `epoch ≤ installed`; `OLD_EPOCH` ⇒ the epoch stays covered; and at quiescence every caller that
   passed the host check — accepted or refused — has `epoch ≤ installed`, and the installed epoch is the
   old one or the epoch of a caller that answered `OK`.
(Per-step clauses for all flags — the installed epoch decreases only by a forced caller, `OK` ⇔
install with `force ∨ epoch > installed` — are `C05_repl_step`.) -/
theorem C05_repl (announce : Bytes) (s0 s : Sys) (ls : List Label) (h0 : Healthy s0)
    (hrun : Run announce s0 ls s) :
    (∀ (j : Nat) (c : Caller), s.callers[j]? = some c → s0.callers.length ≤ j →
      (c.pc = .done .notMyMeta ↔ hostsOk announce c.msg = false)) ∧
    Covered s s.updating ∧
    (∀ (i : Nat) (s' : Sys) (c c' : Caller), Step announce s (.run i) s' → s.callers[i]? = some c →
      s'.callers[i]? = some c' → c'.pc = .done .oldEpoch →
      c.msg.force = false ∧ Covered s c.msg.epoch) ∧
    (Quiescent s → Healthy s) ∧
    (NF s0.callers.length s →
      s0.instEpoch ≤ s.instEpoch ∧
      (∀ (j : Nat) (c : Caller), s.callers[j]? = some c → s0.callers.length ≤ j →
        (c.pc = .done .ok → c.msg.epoch ≤ s.instEpoch) ∧
        (c.pc = .done .oldEpoch → Covered s c.msg.epoch)) ∧
      (Quiescent s →
        (∀ (j : Nat) (c : Caller), s.callers[j]? = some c → s0.callers.length ≤ j →
          hostsOk announce c.msg = true → c.msg.epoch ≤ s.instEpoch) ∧
        (s.instEpoch = s0.instEpoch ∨
          ∃ (j : Nat) (c : Caller), s.callers[j]? = some c ∧ s0.callers.length ≤ j ∧ c.pc = .done .ok ∧
            c.msg.epoch = s.instEpoch))) := by
  have all := allInv_run h0.1 h0.2 hrun
  refine ⟨all.nmm, all.upd, ?_, ?_, ?_⟩
  · intro i s' c c' hstep hc hc' hpc
    rcases step_pool hstep with ⟨m, hl, _⟩ | ⟨i', ci, ci', u', ie', im', hl, hci, hu', hie', him', ha, _, hp⟩
    · cases hl
    · cases hl
      rw [hci] at hc; cases hc
      have : s'.callers[i]? = some ci' := by rw [hp i]; simp
      rw [this] at hc'; cases hc'
      cases ha with
      | loadRej hpc' hf hle => exact ⟨hf, covered_le all.upd hle⟩
      | loadPass hpc' hle => simp at hpc
      | store hpc' => simp at hpc
      | read hpc' => simp at hpc
      | lockRej hpc' hf hle => exact ⟨hf, Or.inl hle⟩
      | install hpc' hle => simp at hpc
  · intro hq
    exact ⟨hq, covered_quiescent hq all.upd⟩
  · intro hnf
    have inv := epInv_run h0.1 h0.2 hrun hnf
    refine ⟨inv.ge, ?_, ?_⟩
    · intro j c hj hge
      exact ⟨inv.okLe j c hj hge, inv.oldCov j c hj hge⟩
    · intro hq
      refine ⟨?_, inv.src⟩
      intro j c hj hge hh
      obtain ⟨r, hr⟩ := hq j c hj
      cases r with
      | ok => exact inv.okLe j c hj hge hr
      | oldEpoch => exact covered_quiescent hq (inv.oldCov j c hj hge hr)
      | notMyMeta =>
        have := (inv.nmm j c hj hge).mp hr
        rw [hh] at this; cases this

/-- **final installed = max accepted = max delivered**: at quiescence of a non-forced episode the
installed epoch is the maximum of the previously installed epoch and the epochs of *all* callers of
the episode whose hosts matched. -/
theorem C05_repl_max (announce : Bytes) (s0 s : Sys) (ls : List Label) (h0 : Healthy s0)
    (hrun : Run announce s0 ls s) (hnf : NF s0.callers.length s) (hq : Quiescent s) :
    s.instEpoch =
      (((s.callers.drop s0.callers.length).filter (fun c => hostsOk announce c.msg)).map (·.msg.epoch)).foldl
        max s0.instEpoch := by
  obtain ⟨hnmm, _, _, _, hnoforce⟩ := C05_repl announce s0 s ls h0 hrun
  obtain ⟨hge, _, hfin⟩ := hnoforce hnf
  obtain ⟨hle, hsrc⟩ := hfin hq
  apply Nat.le_antisymm
  · rcases hsrc with h | ⟨j, c, hj, hjge, hpc, he⟩
    · rw [h]; exact foldl_max_ge_init _ _
    · rw [← he]
      apply foldl_max_ge_mem
      simp only [List.mem_map, List.mem_filter]
      refine ⟨c, ⟨?_, ?_⟩, rfl⟩
      · rw [List.mem_iff_getElem?]
        refine ⟨j - s0.callers.length, ?_⟩
        rw [List.getElem?_drop]
        have : s0.callers.length + (j - s0.callers.length) = j := by omega
        rw [this]; exact hj
      · cases hh : hostsOk announce c.msg
        · have := (hnmm j c hj hjge).mpr hh
          rw [hpc] at this; cases this
        · rfl
  · apply foldl_max_le _ _ _ hge
    intro a ha
    simp only [List.mem_map, List.mem_filter] at ha
    obtain ⟨c, ⟨hc, hh⟩, rfl⟩ := ha
    rw [List.mem_iff_getElem?] at hc
    obtain ⟨k, hk⟩ := hc
    rw [List.getElem?_drop] at hk
    exact hle _ c hk (by omega) hh

/-- **sequential delivery is exact, whatever the flags.**  From a healthy state (in particular the
initial one, or the end of any stream of sequential calls, or the quiescent end of a non-forced
concurrent episode) a message delivered while nothing else is in flight is answered
`NOT_MY_META` ⇔ foreign host, `OK` ⇔ hosts match ∧ (forced ∨ epoch > installed), `OLD_EPOCH`
otherwise; `OK` installs `(epoch, map of this message)`, the others change nothing; and the state
stays healthy. -/
theorem C05_repl_seq (announce : Bytes) (s0 : Sys) (h0 : Healthy s0) (pre : List RMsg) (m : RMsg) :
    let sk := callAll announce s0 pre
    let s' := call announce sk m
    Healthy sk ∧ Healthy s' ∧
    replyOf s' sk.callers.length = some (seqReply announce sk.instEpoch m) ∧
    (seqReply announce sk.instEpoch m = .ok →
      s'.instEpoch = m.epoch ∧
      s'.instMap = buildMap (reuseOf (keySet m.masters) (keySet m.replicas) sk.instMap) m) ∧
    (seqReply announce sk.instEpoch m ≠ .ok → s'.instEpoch = sk.instEpoch ∧ s'.instMap = sk.instMap) ∧
    callAll announce s0 (pre ++ [m]) = s' := by
  intro sk s'
  have hk : Healthy sk := callAll_healthy announce s0 h0 pre
  obtain ⟨c', hc, hmsg, hpc, hu, hok, hno⟩ := call_spec announce sk hk.2 m
  refine ⟨hk, call_healthy announce sk hk m, ?_, hok, hno, ?_⟩
  · unfold replyOf
    show (match (call announce sk m).callers[sk.callers.length]? with
      | some ⟨_, .done r, _⟩ => some r
      | _ => none) = _
    rw [hc, List.getElem?_concat_length]
    obtain ⟨cm, cpc, cr⟩ := c'
    simp only at hpc
    subst hpc
    rfl
  · rw [callAll_append]; rfl

example : seqReply [49] 5 ⟨6, false, [⟨[99], [49, 58, 49], []⟩], []⟩ = .ok := by decide
example : seqReply [49] 5 ⟨5, false, [⟨[99], [49, 58, 49], []⟩], []⟩ = .oldEpoch := by decide
example : seqReply [49] 5 ⟨2, true, [], [⟨[99], [49, 58, 49], []⟩]⟩ = .ok := by decide
example : seqReply [49] 5 ⟨9, true, [], [⟨[99], [50, 58, 49], []⟩]⟩ = .notMyMeta := by decide

/-- **the installed epoch and the installed roles come from one caller** — in every state reachable
from a state without accepted callers (e.g. `Sys.init`), whatever the flags and the schedule: the
installed pair is the initial one, or there is a caller that answered `OK` whose epoch is the
installed epoch and whose message built the installed map; and if that message lists no node both
as master and as replica, the installed roles are `canonGet` of that message, whatever (possibly
stale) snapshot its reuse set was computed from. -/
theorem C05_repl_pair (announce : Bytes) (s0 s : Sys) (ls : List Label)
    (h0 : ∀ (j : Nat) (c : Caller), s0.callers[j]? = some c → ∃ r, c.pc = .done r ∧ r ≠ .ok)
    (hrun : Run announce s0 ls s) :
    (s.instEpoch = s0.instEpoch ∧ s.instMap = s0.instMap) ∨
    ∃ (j : Nat) (c : Caller), s.callers[j]? = some c ∧ c.pc = .done .ok ∧ s.instEpoch = c.msg.epoch ∧
      s.instMap = buildMap c.reused c.msg ∧
      (KeysDisjoint c.msg → ∀ k, amGet? s.instMap k = canonGet c.msg k) := by
  have inv := pairInv_run h0 hrun
  rcases inv.pair with h | ⟨j, c, hj, hpc, h1, h2⟩
  · exact Or.inl h
  · right
    refine ⟨j, c, hj, hpc, h1, h2, ?_⟩
    intro hd k
    rw [h2]
    exact buildMap_canon c.msg c.reused (inv.sound j c hj (Or.inr hpc)) hd k

/-! ### regression: the schedule of finding F05a (fixed in be85753) -/

/-- announce host `1`, node address `1:1` -/
def wHost : Bytes := [49]
def wEntry (tag : UInt8) : Entry := ⟨[99], [49, 58, 49], [⟨[tag], [tag]⟩]⟩
/-- forced, epoch 3 -/
def wB : RMsg := ⟨3, true, [wEntry 66], []⟩
/-- non-forced, epoch 5 -/
def wC : RMsg := ⟨5, false, [wEntry 67], []⟩
/-- non-forced, epoch 4, delivered afterwards with nothing else in flight -/
def wD : RMsg := ⟨4, false, [wEntry 68], []⟩
/-- B enters, loads, stores 3; C enters, loads (3 < 5), stores 5, reads, installs 5; B reads and
installs 3 (forced).  Before the fix `updating_epoch` stayed at 5 above the installed epoch 3 and the
next message with epoch 4 was refused; now the forced install also stores 3 into `updating_epoch`. -/
def wSchedule : List Label :=
  [.spawn wB, .run 0, .run 0, .spawn wC, .run 1, .run 1, .run 1, .run 1, .run 0, .run 0]

/-- **the F05a schedule ends healthy**: both callers were answered `OK`, epoch 3 is installed with
`updating_epoch = 3`, and the non-forced message with epoch 4 > 3 delivered next is applied. -/
theorem C05_repl_f05a_regression :
    ∃ s : Sys, Run wHost Sys.init wSchedule s ∧ Healthy s ∧ s.instEpoch = 3 ∧ s.updating = 3 ∧
      replyOf (call wHost s wD) s.callers.length = some .ok ∧ (call wHost s wD).instEpoch = 4 := by
  have hrep : ∃ s, replay wHost Sys.init wSchedule = some s ∧ s.updating = 3 ∧ s.instEpoch = 3 ∧
      (∀ c ∈ s.callers, c.pc = .done .ok) ∧
      replyOf (call wHost s wD) s.callers.length = some .ok ∧ (call wHost s wD).instEpoch = 4 := by
    refine ⟨_, rfl, ?_⟩
    decide
  obtain ⟨s, hs, hu, hie, hdone, hreply, hinst⟩ := hrep
  refine ⟨s, replay_run hs, ⟨?_, by omega⟩, hie, hu, hreply, hinst⟩
  intro j c hj
  exact ⟨_, hdone c (List.mem_of_getElem? hj)⟩

end Um.C05
