import UmProofs.RouteE2EReach
import UmProofs.RouteE2EHistory
/-!
# C02 — Synced proxies route every key to the broker-designated master

Model: `UmModel/RouteE2E.lean` on top of `BrokerView` (what `get_proxy_by_address` serves), `Proto`
(the SETCLUSTER argument vector, C17) and `Route` (slot maps, C09).

Pipeline and where each link is proved:
`proxyOfView a v` (C01: projection of a `PartitionView`) ─`encodeFor`→ `EMeta`
(`C02_encode_local/peer`) ─`deliverPlain | deliverCompressed`→ parsed meta (`C02_wire_plain`,
`C02_wire_compressed`, from C17's round trips) ─`setMeta`→ proxy state (`C02_install`)
─`routeWithMigration`, `follow`→ client outcome (`C02_stable`, `C02_migrating`, `C02_no_third_node`).

Hypotheses, all explicit: `ViewOk v` (C01 `PartitionView` + non-empty cluster name + distinct node
addresses per proxy + one peer entry per proxy + compacted pending ranges — the lead discharges
them from `BrokerInv` of reachable broker states), `Synced` (every proxy serves its own current
view), active redirection off (hop bounds are MOVED replies *seen by the client*), and, for a slot
under migration, source proxy ≠ destination proxy and a phase triple produced by the handshake
without timeouts (`Consistent`, justified by `C02_phase_pairs`).
-/
namespace Um.C02
open Um Um.Broker Um.Route Um.Slots Um.E2E
open Um.Proto (WfMeta OrderOk Codec ReprData)

/-! ## coordinator encoding -/

/-- **local map sent to proxy `a`**: exactly the slot ranges — tags included, importing ranges
too — of the *master* nodes the view places on `a`, keyed by node address; replicas never appear. -/
theorem C02_encode_local (c : Bool) (v : VCluster) (a : String) (h : AddrOk v) (x : String) (sr : SlotRange) :
    HasRange (encodeFor c (proxyOfView a v)).loc x sr ↔
      ∃ n ∈ v.nodes, n.proxy = a ∧ n.replica = false ∧ n.address = x ∧ sr ∈ n.slots :=
  hasRange_encodeFor_loc c v a h x sr

/-- **peer map sent to proxy `a`**: exactly the slot ranges of the masters on other proxies, keyed
by proxy address -/
theorem C02_encode_peer (c : Bool) (v : VCluster) (a : String) (h : AddrOk v) (b : String) (sr : SlotRange) :
    HasRange (encodeFor c (proxyOfView a v)).peer b sr ↔
      b ≠ a ∧ ∃ n ∈ v.nodes, n.proxy = b ∧ n.replica = false ∧ sr ∈ n.slots :=
  hasRange_encodeFor_peer c v a h b sr

/-- **slot-less masters are invisible in the plain encoding**: `to_args` emits the same argument
vector with and without them, and what is parsed has no entry without slot ranges -/
theorem C02_slotless_dropped (order : List Proto.CfgField) (m : EMeta) :
    (toProto (dropEmpty m)).toArgs order = (toProto m).toArgs order ∧
      (∀ e ∈ (dropEmpty m).loc, e.2 ≠ []) ∧ ∀ e ∈ (dropEmpty m).peer, e.2 ≠ [] := by
  refine ⟨toArgs_dropEmpty order m, ?_, ?_⟩ <;>
  · intro e he
    have := (List.mem_filter.mp he).2
    intro h0; rw [h0] at this; cases this

/-! ## the wire (C17) -/

/-- plain encoding: the proxy parses exactly the generated meta minus slot-less entries -/
theorem C02_wire_plain (order : List Proto.CfgField) (m : EMeta)
    (h : WfMeta (toProto (dropEmpty m))) (ho : OrderOk order) :
    deliverPlain order m = .ok (dropEmpty m, true) ∧ WireFaithful m (dropEmpty m) :=
  ⟨deliverPlain_ok order m h ho, WireFaithful.of_dropEmpty m⟩

/-- compressed encoding, any lossless blob codec: the same groups in some order.  The proxy compacts
the range lists of the decoded blob (/repo 23e5d8f); `hcmp` says they already are in `compact`
normal form, which is what the broker serves (`SlotInv`) -/
theorem C02_wire_compressed (c : Codec) (m : EMeta) (hc : m.compress = true)
    (he : m.epoch ≤ u64Max) (hr : ReprData (toProto m).data) (hcmp : (toProto m).compacted = toProto m) :
    ∃ m', deliverCompressed c.enc c.dec m = .ok (m', true) ∧ WireFaithful m m' :=
  deliverCompressed_faithful c m hc he hr hcmp

/-! ## installation -/

/-- an accepted SETCLUSTER carrying what the wire delivered of proxy `a`'s view makes `a` a synced
proxy, whatever it served before (old tasks with an unchanged key keep their state) -/
theorem C02_install (p0 : ProxyState) (v : VCluster) (a : String) (c : Bool) (m' : EMeta) (p : ProxyState)
    (hw : WireFaithful (encodeFor c (proxyOfView a v)) m') (hset : setMeta p0 m' = (p, .ok)) :
    SyncedProxy p0.cfg v a p :=
  ⟨⟨c, m', hw, setMeta_installed p0 m' p hset⟩⟩

/-- the epoch test of `set_meta`: an epoch not above the installed one is refused unless forced,
and the state is untouched -/
theorem C02_install_old_epoch (p0 : ProxyState) (m : EMeta) (hh : checkHosts p0.announceHost m.loc = true)
    (he : m.epoch ≤ p0.epoch) (hf : m.force = false) : setMeta p0 m = (p0, .oldEpoch) := by
  unfold setMeta
  simp [hh, he, hf]

/-! ## routing -/

/-- **C02, stable slot.** Every proxy synced, slot not under migration: there is exactly one
master range covering the slot (the designated owner `n₀`), and from every start proxy the client
is served by `n₀`'s node at `n₀`'s proxy after at most one MOVED (`held` = queued in that node's
blocking queue while a migration of *another* range of the node switches). -/
theorem C02_stable (cfg : RouteCfg) (v : VCluster) (net : Addr → Option ProxyState)
    (hv : ViewOk v) (har : cfg.activeRedirection = false) (hsync : Synced cfg v net)
    (s : Nat) (hs : s < SLOT_NUM) (hp : ¬ PendingAt v s) :
    ∃ n₀ sr₀, Cov v s n₀ sr₀ ∧ sr₀.tag = Tag.none ∧ (∀ n sr, Cov v s n sr → n = n₀ ∧ sr = sr₀) ∧
      ∀ start, IsProxy v start →
        ∃ k, k ≤ 1 ∧ EndsAt (follow net s FOLLOW_FUEL start) k n₀.proxy n₀.address := by
  obtain ⟨n₀, sr₀, hc₀, htag, honly⟩ := stable_cov hv.part hs hp
  refine ⟨n₀, sr₀, hc₀, htag, honly, ?_⟩
  intro start hstart
  obtain ⟨p0, hn0, ⟨c0, m0, hw0, hi0⟩⟩ := hsync n₀.proxy ⟨n₀, hc₀.node, rfl⟩
  have hown : ∀ fuel, EndsAt (follow net s fuel n₀.proxy) 0 n₀.proxy n₀.address := fun fuel =>
    follow_local hn0 (route_stable_owner hv.part hv.addr hv.name har hw0 hi0 hs hp hc₀ honly rfl) fuel
  by_cases he : n₀.proxy = start
  · subst he
    exact ⟨0, by omega, hown _⟩
  · obtain ⟨p, hn, ⟨c, m', hw, hi⟩⟩ := hsync start hstart
    have hr := route_stable_other hv.part hv.addr hv.name har hw hi hs hp hc₀ honly he
    exact ⟨1, by omega, EndsAt.step hn hr (hown 7)⟩

/-- the same for keys: `slotOf key` is always below `SLOT_NUM` (C09) -/
theorem C02_stable_key (cfg : RouteCfg) (v : VCluster) (net : Addr → Option ProxyState)
    (hv : ViewOk v) (har : cfg.activeRedirection = false) (hsync : Synced cfg v net)
    (key : Bytes) (hp : ¬ PendingAt v (Um.Crc16.slotOf key)) :
    ∃ n₀ sr₀, Cov v (Um.Crc16.slotOf key) n₀ sr₀ ∧
      ∀ start, IsProxy v start →
        ∃ k, k ≤ 1 ∧ EndsAt (follow net (Um.Crc16.slotOf key) FOLLOW_FUEL start) k n₀.proxy n₀.address := by
  obtain ⟨n₀, sr₀, h1, _, _, h4⟩ := C02_stable cfg v net hv har hsync _ (Um.Crc16.slotOf_lt key) hp
  exact ⟨n₀, sr₀, h1, h4⟩

/-- **C02, slot under migration.** Every proxy synced, a pending range covers the slot: exactly two
master ranges cover it — the migrating-out range `srM` on the source master and its importing twin
`srI` on the destination master, carrying the same migration meta `info`.  If source and
destination proxy differ, both proxies hold a task for it (states `stS`, `stD`), and for every
phase triple the handshake produces (`Consistent`), from every start proxy — source, destination
or bystander — the client is done after at most two MOVED replies:
before the destination has switched (`stD = PreCheck`) at the source node (executed, or queued
behind the source's blocking); afterwards executed at the destination node, or — only in the
switching window `stS = PreSwitch` — still queued at the source node.  -/
theorem C02_migrating (cfg : RouteCfg) (v : VCluster) (net : Addr → Option ProxyState)
    (hv : ViewOk v) (har : cfg.activeRedirection = false) (hsync : Synced cfg v net)
    (s : Nat) (hs : s < SLOT_NUM) (hp : PendingAt v s) :
    ∃ nS srM info nD srI, MigCov v s nS srM info nD srI ∧
      (info.srcProxy ≠ info.dstProxy →
        ∃ pS pD stS stD, net info.srcProxy = some pS ∧ net info.dstProxy = some pD ∧
          stateOf pS ⟨v.name, srM⟩ = some stS ∧ stateOf pD ⟨v.name, srI⟩ = some stD ∧
          (Consistent stS (pS.blocking.contains info.srcNode) stD = true →
            ∀ start, IsProxy v start →
              ∃ k, k ≤ 2 ∧
                if stD = .preCheck then
                  EndsAt (follow net s FOLLOW_FUEL start) k info.srcProxy info.srcNode
                else
                  (follow net s FOLLOW_FUEL start = (k, .exec info.dstProxy info.dstNode) ∨
                    (stS = .preSwitch ∧
                      follow net s FOLLOW_FUEL start = (k, .held info.srcProxy info.srcNode))))) := by
  obtain ⟨nS, srM, info, nD, srI, hm⟩ := migrating_cov hv.part hs hp
  refine ⟨nS, srM, info, nD, srI, hm, ?_⟩
  intro hd
  obtain ⟨pS, hnS, ⟨cS, mS, hwS, hiS⟩⟩ := hsync info.srcProxy ⟨nS, hm.src.node, hm.srcProxy.symm⟩
  obtain ⟨pD, hnD, ⟨cD, mD, hwD, hiD⟩⟩ := hsync info.dstProxy ⟨nD, hm.dst.node, hm.dstProxy⟩
  obtain ⟨stS, hstS, hrS⟩ := route_src hv.addr hv.normal hv.name har hwS hiS hs hm hd rfl
  obtain ⟨stD, hstD, hrD⟩ := route_dst hv.addr hv.normal hv.name har hwD hiD hs hm hd rfl
  refine ⟨pS, pD, stS, stD, hnS, hnD, hstS, hstD, ?_⟩
  intro hcons start hstart
  obtain ⟨pT, hnT, ⟨cT, mT, hwT, hiT⟩⟩ := hsync start hstart
  have hcase : start = info.srcProxy ∨ start = info.dstProxy ∨
      routeWithMigration pT none (some s) = .moved s info.srcProxy ∨
      routeWithMigration pT none (some s) = .moved s info.dstProxy := by
    by_cases h1 : start = info.srcProxy
    · exact Or.inl h1
    · by_cases h2 : start = info.dstProxy
      · exact Or.inr (Or.inl h2)
      · exact Or.inr (Or.inr (route_bystander hv.addr hv.name har hwT hiT hs hm h1 h2))
  by_cases hpc : stD = .preCheck
  · -- before the switch
    have rD : routeWithMigration pD none (some s) = .moved s info.srcProxy := by
      rw [hrD, if_pos hpc]
    have rS : routeWithMigration pS none (some s) = Outcome.ofRoute pS.blocking (.exec info.srcNode) := by
      rw [hrS]
      rw [hpc] at hcons
      rcases consistent_before hcons with h | h | h <;> rw [h]
    obtain ⟨k, hk, hr⟩ := shape_before hnS hnD rS rD start pT hnT hcase
    refine ⟨k, hk, ?_⟩
    rw [if_pos hpc]; exact hr
  · have rD : routeWithMigration pD none (some s) = .exec info.dstNode := by
      rw [hrD, if_neg hpc]
    rcases consistent_after hcons hpc with ⟨h, hb⟩ | h
    · -- the switching window
      have rS : routeWithMigration pS none (some s) = .held info.srcNode := by
        rw [hrS, h]
        simp only [Outcome.ofRoute, hb, if_true]
      obtain ⟨k, hk, hr⟩ := shape_switching hnS hnD rS rD start pT hnT hcase
      refine ⟨k, hk, ?_⟩
      rw [if_neg hpc]
      rcases hr with hr | hr
      · exact Or.inl hr
      · exact Or.inr ⟨h, hr⟩
    · have rS : routeWithMigration pS none (some s) = .moved s info.dstProxy := by
        rw [hrS]
        rcases h with h | h | h <;> rw [h]
      obtain ⟨k, hk, hr⟩ := shape_after hnS hnD rS rD start pT hnT hcase
      refine ⟨k, hk, ?_⟩
      rw [if_neg hpc]
      exact Or.inl hr

/-- **C02, safety, whatever the phases.** A synced proxy hands a data command to (or queues it for)
a node only if that node is a master placed on this very proxy that shows a slot range covering
the key's slot: the designated owner, or the source / destination node of the slot's migration.
No consistency of phases is assumed. -/
theorem C02_no_third_node (cfg : RouteCfg) (v : VCluster) (net : Addr → Option ProxyState)
    (hv : ViewOk v) (har : cfg.activeRedirection = false) (hsync : Synced cfg v net)
    (s : Nat) (hs : s < SLOT_NUM)
    (hdist : ∀ n sr i, Cov v s n sr → sr.tag = Tag.migrating i → i.srcProxy ≠ i.dstProxy)
    (a : Addr) (ha : IsProxy v a) (p : ProxyState) (hn : net a = some p) (x : Addr)
    (hx : routeWithMigration p none (some s) = .exec x ∨ routeWithMigration p none (some s) = .held x) :
    ∃ n sr, Cov v s n sr ∧ n.proxy = a ∧ n.address = x := by
  obtain ⟨p', hn', ⟨c, m', hw, hi⟩⟩ := hsync a ha
  rw [hn] at hn'; cases hn'
  have key : ∀ b : List Addr, ∀ y : Addr, (Outcome.ofRoute b (.exec y) = .exec x ∨ Outcome.ofRoute b (.exec y) = .held x) → y = x := by
    intro b y h
    rcases ofRoute_exec b y with e | e <;> rw [e] at h <;> rcases h with h | h <;> cases h <;> rfl
  by_cases hp : PendingAt v s
  · obtain ⟨nS, srM, info, nD, srI, hm⟩ := migrating_cov hv.part hs hp
    have hd := hdist nS srM info hm.src hm.srcTag
    by_cases h1 : a = info.srcProxy
    · obtain ⟨st, _, hr⟩ := route_src hv.addr hv.normal hv.name har hw hi hs hm hd h1
      rw [hr] at hx
      refine ⟨nS, srM, hm.src, by rw [h1, hm.srcProxy], ?_⟩
      rw [← hm.srcNode]
      cases st <;> first | exact key _ _ hx | (rcases hx with h | h <;> cases h)
    · by_cases h2 : a = info.dstProxy
      · obtain ⟨st, _, hr⟩ := route_dst hv.addr hv.normal hv.name har hw hi hs hm hd h2
        rw [hr] at hx
        refine ⟨nD, srI, hm.dst, by rw [h2, hm.dstProxy], ?_⟩
        rw [hm.dstNode]
        by_cases hst : st = .preCheck
        · rw [if_pos hst] at hx; rcases hx with h | h <;> cases h
        · rw [if_neg hst] at hx
          rcases hx with h | h
          · injection h
          · cases h
      · rcases route_bystander hv.addr hv.name har hw hi hs hm h1 h2 with hr | hr <;>
          (rw [hr] at hx; rcases hx with h | h <;> cases h)
  · obtain ⟨n₀, sr₀, hc₀, _, honly⟩ := stable_cov hv.part hs hp
    by_cases he : n₀.proxy = a
    · have hr := route_stable_owner hv.part hv.addr hv.name har hw hi hs hp hc₀ honly he
      rw [hr] at hx
      exact ⟨n₀, sr₀, hc₀, he, key _ _ hx⟩
    · have hr := route_stable_other hv.part hv.addr hv.name har hw hi hs hp hc₀ honly he
      rw [hr] at hx
      rcases hx with h | h <;> cases h




/-! ## long-lived proxies: only the last accepted metadata matters -/

/-- **the installed state is a function of the last accepted metadata.**  Whatever a proxy served
before (`p0`: any state reached through any sequence of SETCLUSTERs, handshake steps, phases), after
an accepted `set_meta m` its cluster map, migration-map cluster name and `empty` flag are what a
fresh process builds from `m` alone (`installFresh`), its task keys are the fresh ones up to the
visiting order, and every task is either an old task with an unchanged key (phase carried over) or
in `PreCheck` with a key no old task had.  (In the code: `update_from_old_task_map`; an `empty` flag
computed from the newly created tasks only violates the `migEmpty` clause exactly when a SETCLUSTER
is re-applied during a migration, all tasks being reused.) -/
theorem C02_install_last_only (p0 : ProxyState) (m : EMeta) (p : ProxyState) (h : setMeta p0 m = (p, .ok)) :
    p.cfg = p0.cfg ∧ p.epoch = m.epoch ∧ p.cm = (installFresh p0.cfg m).cm ∧
    p.migCluster = (installFresh p0.cfg m).migCluster ∧ p.migEmpty = (installFresh p0.cfg m).migEmpty ∧
    (p.tasks.map (·.key)).Perm ((installFresh p0.cfg m).tasks.map (·.key)) ∧
    ∀ t ∈ p.tasks, t ∈ p0.tasks ∨ (t.state = .preCheck ∧ ∀ o ∈ p0.tasks, o.key ≠ t.key) :=
  setMeta_last_only p0 m p h

/-- … through any sequence of installs (accepted or refused) before the last accepted one -/
theorem C02_install_seq_last_only (p0 : ProxyState) (ms : List EMeta) (m : EMeta) (p : ProxyState)
    (h : setMeta (ms.foldl (fun q x => (setMeta q x).1) p0) m = (p, .ok)) :
    p.cm = (installFresh p0.cfg m).cm ∧ p.migCluster = m.cluster ∧
    p.migEmpty = (installFresh p0.cfg m).migEmpty ∧
    (p.tasks.map (·.key)).Perm ((installFresh p0.cfg m).tasks.map (·.key)) :=
  setMeta_seq_last_only p0 ms m p h

/-- **routing after an install sequence = routing after installing the last accepted metadata on a
fresh proxy, given the tasks' phases** (`installWith`), for every slot at most one task contains -/
theorem C02_route_last_only (p0 : ProxyState) (m : EMeta) (p : ProxyState) (h : setMeta p0 m = (p, .ok)) (s : Nat)
    (huniq : ∀ t ∈ p.tasks, ∀ t' ∈ p.tasks, t.containsSlot s = true → t'.containsSlot s = true → t = t') :
    routeWithMigration p none (some s) =
      routeWithMigration (installWith p0.cfg m (fun k => (stateOf p k).getD .preCheck) p.blocking) none (some s) :=
  route_last_only p0 m p h s huniq

/-! ## over every bounded run of the broker -/

/-- **C02, stable slot, every reachable broker state.**  For every operation list whose prefixes
satisfy C01's size bound, every cluster of the resulting store, every migration limit: if every
proxy of the cluster is reachable and has installed — through `encodeFor`, a faithful wire
(`C02_wire_plain/compressed`) and an accepted `set_meta` (`C02_install`) — the view
`get_proxy_by_address` serves for it (`SyncedWith`), then for the view `v` that
`get_cluster_by_name` serves, every slot no pending range covers has exactly one covering master
range, and from every proxy of the cluster the client is served by that master's node at that
master's proxy after at most one MOVED.
The one hypothesis that is not a broker invariant, kept explicit: the cluster name is not empty
(`ClusterName::try_from("")` succeeds; `validName` only ties `v` to the query).  That the two nodes
of every proxy have different addresses is discharged: since /repo bf43b2d (fix of F02a) `add_proxy`
refuses equal node addresses, `nodesDistinct_of_run`. -/
theorem C02_stable_reachable (ops : List Op) (hb : ∀ k, Plan.PlanBound (run (ops.take k)))
    (name : String) (limit : Nat) (cl : Cluster) (hc : (run ops).findCluster name = some cl)
    (hvalid : validName name = true) (hname : name ≠ "")
    (cfg : RouteCfg) (har : cfg.activeRedirection = false) (net : Addr → Option ProxyState)
    (hsync : SyncedWith cfg (run ops) cl limit net) :
    ∃ v, clusterView (run ops) name limit = .ok (some v) ∧ PartitionView v ∧
      ∀ s, s < SLOT_NUM → ¬ PendingAt v s →
        ∃ n₀ sr₀, Cov v s n₀ sr₀ ∧ sr₀.tag = Tag.none ∧ (∀ n sr, Cov v s n sr → n = n₀ ∧ sr = sr₀) ∧
          ∀ start ∈ cl.proxyAddrs,
            ∃ k, k ≤ 1 ∧ EndsAt (follow net s FOLLOW_FUEL start) k n₀.proxy n₀.address := by
  obtain ⟨v, hs⟩ := served_of_run ops hb name limit cl hc hvalid hname
  refine ⟨v, hs.cluster, hs.ok.part, ?_⟩
  intro s hlt hp
  obtain ⟨n₀, sr₀, h1, h2, h3, h4⟩ := C02_stable cfg v net hs.ok har (synced_of_syncedWith hs hsync) s hlt hp
  exact ⟨n₀, sr₀, h1, h2, h3, fun start hst => h4 start ((hs.proxies start).mpr hst)⟩

/-- **C02, slot under migration, every reachable broker state.**  Same setting; additionally
source and destination proxy of the slot's migration differ (not a broker invariant either: a
migration between the two halves of one chunk whose masters sit on one proxy is not excluded by
the store invariants).  Conclusions as in `C02_migrating`, for every start proxy of the cluster. -/
theorem C02_migrating_reachable (ops : List Op) (hb : ∀ k, Plan.PlanBound (run (ops.take k)))
    (name : String) (limit : Nat) (cl : Cluster) (hc : (run ops).findCluster name = some cl)
    (hvalid : validName name = true) (hname : name ≠ "")
    (cfg : RouteCfg) (har : cfg.activeRedirection = false) (net : Addr → Option ProxyState)
    (hsync : SyncedWith cfg (run ops) cl limit net) :
    ∃ v, clusterView (run ops) name limit = .ok (some v) ∧ PartitionView v ∧ v.name = name ∧
      ∀ s, s < SLOT_NUM → PendingAt v s →
        ∃ nS srM info nD srI, MigCov v s nS srM info nD srI ∧
          (info.srcProxy ≠ info.dstProxy →
            ∃ pS pD stS stD, net info.srcProxy = some pS ∧ net info.dstProxy = some pD ∧
              stateOf pS ⟨v.name, srM⟩ = some stS ∧ stateOf pD ⟨v.name, srI⟩ = some stD ∧
              (Consistent stS (pS.blocking.contains info.srcNode) stD = true →
                ∀ start ∈ cl.proxyAddrs,
                  ∃ k, k ≤ 2 ∧
                    if stD = .preCheck then
                      EndsAt (follow net s FOLLOW_FUEL start) k info.srcProxy info.srcNode
                    else
                      (follow net s FOLLOW_FUEL start = (k, .exec info.dstProxy info.dstNode) ∨
                        (stS = .preSwitch ∧
                          follow net s FOLLOW_FUEL start = (k, .held info.srcProxy info.srcNode))))) := by
  obtain ⟨v, hs⟩ := served_of_run ops hb name limit cl hc hvalid hname
  refine ⟨v, hs.cluster, hs.ok.part, hs.vname, ?_⟩
  intro s hlt hp
  obtain ⟨nS, srM, info, nD, srI, hm, hrest⟩ :=
    C02_migrating cfg v net hs.ok har (synced_of_syncedWith hs hsync) s hlt hp
  refine ⟨nS, srM, info, nD, srI, hm, ?_⟩
  intro hd
  obtain ⟨pS, pD, stS, stD, a1, a2, a3, a4, a5⟩ := hrest hd
  exact ⟨pS, pD, stS, stD, a1, a2, a3, a4, fun hcons start hst => a5 hcons start ((hs.proxies start).mpr hst)⟩

/-- **C02, safety, every reachable broker state**: whatever the migration phases, a synced proxy of
the cluster executes or queues a command only on a master the served view places on that proxy and
that shows a range covering the slot -/
theorem C02_no_third_node_reachable (ops : List Op) (hb : ∀ k, Plan.PlanBound (run (ops.take k)))
    (name : String) (limit : Nat) (cl : Cluster) (hc : (run ops).findCluster name = some cl)
    (hvalid : validName name = true) (hname : name ≠ "")
    (cfg : RouteCfg) (har : cfg.activeRedirection = false) (net : Addr → Option ProxyState)
    (hsync : SyncedWith cfg (run ops) cl limit net) :
    ∃ v, clusterView (run ops) name limit = .ok (some v) ∧
      ∀ s, s < SLOT_NUM →
        (∀ n sr i, Cov v s n sr → sr.tag = Tag.migrating i → i.srcProxy ≠ i.dstProxy) →
        ∀ a ∈ cl.proxyAddrs, ∀ p, net a = some p → ∀ x,
          (routeWithMigration p none (some s) = .exec x ∨ routeWithMigration p none (some s) = .held x) →
          ∃ n sr, Cov v s n sr ∧ n.proxy = a ∧ n.address = x := by
  obtain ⟨v, hs⟩ := served_of_run ops hb name limit cl hc hvalid hname
  refine ⟨v, hs.cluster, ?_⟩
  intro s hlt hdist a ha p hn x hx
  exact C02_no_third_node cfg v net hs.ok har (synced_of_syncedWith hs hsync) s hlt hdist a
    ((hs.proxies a).mpr ha) p hn x hx


/-- non-vacuity of the reachable forms: a concrete bounded run (two proxies, `add_cluster c 4`) with
every proxy synced from scratch satisfies every hypothesis -/
example : ∃ v, clusterView (run runOps) "c" 0 = .ok (some v) ∧ PartitionView v := by
  obtain ⟨v, hs⟩ := served_of_run runOps runOps_bound "c" 0 runCluster runCluster_found (by decide) (by decide)
  obtain ⟨v', h1, h2, _⟩ := C02_stable_reachable runOps runOps_bound "c" 0 runCluster runCluster_found (by decide)
    (by decide) {} rfl (freshNet (run runOps) 0) (syncedWith_fresh hs)
  exact ⟨v', h1, h2⟩

example : ∃ v, clusterView (run runOps) "c" 0 = .ok (some v) ∧ v.name = "c" := by
  obtain ⟨v, hs⟩ := served_of_run runOps runOps_bound "c" 0 runCluster runCluster_found (by decide) (by decide)
  obtain ⟨v', h1, _, h3, _⟩ := C02_migrating_reachable runOps runOps_bound "c" 0 runCluster runCluster_found (by decide)
    (by decide) {} rfl (freshNet (run runOps) 0) (syncedWith_fresh hs)
  exact ⟨v', h1, h3⟩


/-- non-vacuity of the history theorems: any state accepts metadata for its own host under a higher
epoch (`setMeta_accepts`), in particular twice in a row — the second time every task is reused -/
example (p0 : ProxyState) (m : EMeta) (hh : checkHosts p0.announceHost m.loc = true) (he : p0.epoch < m.epoch) :
    ∃ p1 p2, setMeta p0 m = (p1, .ok) ∧ setMeta p1 { m with epoch := m.epoch + 1 } = (p2, .ok) := by
  obtain ⟨p1, h1⟩ := setMeta_accepts p0 m hh (Or.inl he)
  have hp : p1.announceHost = p0.announceHost ∧ p1.epoch = m.epoch := by
    obtain ⟨_, a2, _⟩ := C02_install_last_only p0 m p1 h1
    refine ⟨?_, a2⟩
    unfold setMeta at h1
    split at h1
    · cases h1
    · split at h1
      · cases h1
      · simp only [Prod.mk.injEq, and_true] at h1
        rw [← h1]
  obtain ⟨p2, h2⟩ := setMeta_accepts p1 { m with epoch := m.epoch + 1 } (by rw [hp.1]; exact hh)
    (Or.inl (by rw [hp.2]; exact Nat.lt_succ_self _))
  exact ⟨p1, p2, h1, h2⟩

example : checkHosts "h1" [] = true := rfl

/-! ## why `add_proxy` must refuse equal node addresses (finding F02a, fixed in /repo bf43b2d) -/

/-- `C02_stable` without the address hygiene hypothesis `AddrOk` (all other hypotheses kept) -/
def StableWithoutAddrOk : Prop :=
  ∀ (cfg : RouteCfg) (v : VCluster) (net : Addr → Option ProxyState),
    PartitionView v → v.name ≠ "" → PendingNormal v → cfg.activeRedirection = false → Synced cfg v net →
    ∀ s, s < SLOT_NUM → ¬ PendingAt v s →
      ∃ n₀ sr₀, Cov v s n₀ sr₀ ∧
        ∀ start, IsProxy v start → ∃ k, k ≤ 1 ∧ EndsAt (follow net s FOLLOW_FUEL start) k n₀.proxy n₀.address

/-- **why the registration must be refused.**  `dupView` is the view of a hand-built store in which
proxy `p1:1` carries the same address `n:1` for both of its nodes and hosts both masters of its
chunk — the state the broker reached before the fix (`add_proxy p1:1 n:1 n:1`, `add_cluster`, failover
of the partner); it is a `PartitionView` (C01 holds).  `generate_proxy_meta_cmd_args` inserts both
masters under one `HashMap` key, the ranges of the first are overwritten, and the fully synced proxy
answers `slot not covered` for slot 0, which the view designates to its own node: without distinct
node addresses per proxy the routing statement is false.  Since /repo bf43b2d such a store is
unreachable (`nodesDistinct_of_run`); the theorem documents what the check in `add_proxy` protects. -/
theorem C02_why_add_proxy_refuses_equal_nodes : ¬ StableWithoutAddrOk := by
  intro h
  obtain ⟨n₀, sr₀, _, hall⟩ := h {} dupView dupNet dupView_partition (by decide) (pendingNormal_of_B _ (by decide)) rfl
    dupSynced 0 (by decide) (by rw [pendingAt_iff_B]; decide)
  have hp : IsProxy dupView "p1:1" :=
    ⟨{ address := "n:1", proxy := "p1:1", replica := false, peers := [("p2:12", "p2:1")], slots := [⟨[(0, 8191)], .none⟩] },
      by simp [dupView], rfl⟩
  obtain ⟨k, _, he⟩ := hall "p1:1" hp
  rw [dup_follow] at he
  rcases he with he | he <;> cases he

/-- … and the refusal makes the hypothesis true of every run: every chunk of every stored cluster
has two different node addresses per proxy -/
theorem C02_nodes_distinct_reachable (ops : List Op) (cl : Cluster) (h : cl ∈ (run ops).clusters) :
    NodesDistinct cl := nodesDistinct_of_run ops cl h

/-! ## the phase pairs -/

/-- **the enumeration is exact**: the triples `Consistent` accepts (8 state pairs; blocking on or
off where the code allows both) are precisely those reachable in the handshake's transition
system `Reach` from `(PreCheck, not blocking, PreCheck)` -/
theorem C02_phase_pairs (stS : MigState) (b : Bool) (stD : MigState) :
    Reach stS b stD ↔ Consistent stS b stD = true :=
  ⟨reach_consistent, consistent_reach⟩

/-- **why consistency is needed** (the `max_blocking_time` "force to go ahead" path can produce
it): source past the switch while the destination is still in `PreCheck` — the two proxies
redirect to each other until the hop budget is spent -/
theorem C02_inconsistent_pingpong (net : Addr → Option ProxyState) (s : Nat) (aS aD : Addr) (pS pD : ProxyState)
    (hS : net aS = some pS) (hD : net aD = some pD)
    (rS : routeWithMigration pS none (some s) = .moved s aD)
    (rD : routeWithMigration pD none (some s) = .moved s aS) (fuel : Nat) :
    (∃ x, follow net s fuel aS = (fuel, .hopLimit x)) ∧ ∃ x, follow net s fuel aD = (fuel, .hopLimit x) := by
  induction fuel with
  | zero => exact ⟨⟨aS, follow_moved_zero hS rS⟩, ⟨aD, follow_moved_zero hD rD⟩⟩
  | succ f ih =>
    obtain ⟨⟨x, hx⟩, ⟨y, hy⟩⟩ := ih
    exact ⟨⟨y, by rw [follow_moved hS rS, hy]⟩, ⟨x, by rw [follow_moved hD rD, hx]⟩⟩

/-! ## non-vacuity: the worked example of C01 (two chunks, two migrations in flight) -/

/-- slot 0 of the example: hypotheses of `C02_stable` hold, from all four proxies -/
example : ∃ n₀ sr₀, Cov exView 0 n₀ sr₀ ∧ sr₀.tag = Tag.none ∧ (∀ n sr, Cov exView 0 n sr → n = n₀ ∧ sr = sr₀) ∧
    ∀ start, IsProxy exView start →
      ∃ k, k ≤ 1 ∧ EndsAt (follow exNet 0 FOLLOW_FUEL start) k n₀.proxy n₀.address :=
  C02_stable {} exView exNet exViewOk rfl exSynced 0 (by decide) ex_stable_0

example : IsProxy exView "h3:1" :=
  ⟨{ address := "h3:12", proxy := "h3:1", replica := true, peers := [("h4:11", "h4:1")], slots := [] },
    by simp [exView], rfl⟩

/-- slot 5000 of the example (migrating h1:1 → h3:1): hypotheses of `C02_migrating` hold -/
example : ∃ nS srM info nD srI, MigCov exView 5000 nS srM info nD srI := by
  obtain ⟨nS, srM, info, nD, srI, h, _⟩ :=
    C02_migrating {} exView exNet exViewOk rfl exSynced 5000 (by decide) ex_pending_5000
  exact ⟨nS, srM, info, nD, srI, h⟩

example : ∃ n sr, Cov exView 0 n sr ∧ sr.isOwned = true := owner_exists exView_partition (by decide)

/-- every handshake triple is reachable, e.g. the switching window and the final one -/
example : Reach .preSwitch true .preSwitch := (C02_phase_pairs _ _ _).mpr rfl
example : Reach .switchCommitted false .switchCommitted := (C02_phase_pairs _ _ _).mpr rfl
/-- … and the timeout pair is not -/
example : ¬ Reach .finalSwitch false .preCheck := fun h => by
  have := (C02_phase_pairs _ _ _).mp h
  simp [Consistent] at this

/-- the wire hypotheses are satisfiable: the meta generated for proxy `h1:1` of the example is
well-formed in C17's sense after dropping slot-less entries -/
example : WfMeta (toProto (dropEmpty (encodeFor false (proxyOfView "h1:1" exView)))) := by decide
/-- … and its range lists are fixed points of the compaction the compressed path applies -/
example : (toProto (encodeFor true (proxyOfView "h1:1" exView))).compacted = toProto (encodeFor true (proxyOfView "h1:1" exView)) := by
  decide


end Um.C02
