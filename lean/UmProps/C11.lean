import UmModel.Barrier
import UmProofs.BarrierWin
import UmProofs.BarrierMap
/-!
# C11 — The pre-switch barrier stops source-side execution and loses nothing

Model: `UmModel/Barrier.lean` (one step = one SeqCst operation of `src/proxy/blocking.rs` /
`src/common/biatomic.rs`, at the `verif_hook::point`s of the source).  All theorems quantify over
* every pool of sender threads `ss : List (Hint × Bool)` (any number, any `BlockingHint`, inner
  sender accepting or answering `Retry`),
* every pool of controller threads `ps : List (List Cmd)` (arbitrary programs of
  `start_blocking` / `blocking_done` / drop handle / `stop_blocking`; fewer than 2^32 threads so
  that the `u32` blocker count cannot wrap),
* every interleaving (`Exec (init ss ps) tr st` = any schedule, `tr` = what each step showed).
-/
namespace Um.Barrier.C11
open Um.Barrier Um.Barrier.Lists

/-- nobody will look at the queue again and no handle is alive.  Weaker than "all threads have
finished": senders may still wait for their reply, controllers may be in the middle of their
programs. -/
def Quiescent (st : State) : Prop :=
  (∀ s ∈ st.senders, armedS s.pc = false) ∧
  (∀ c ∈ st.ctrls, armedC c.pc = false ∧ c.held = false)

/-- all senders have returned (maybe waiting for the reply) and all controllers have finished
their programs without leaking a handle -/
def AllDone (st : State) : Prop :=
  (∀ s ∈ st.senders, s.pc = .reply ∨ ∃ r, s.pc = .fin r) ∧
  (∀ c ∈ st.ctrls, c.pc = .fin ∧ c.held = false)

theorem allDone_quiescent (st : State) (h : AllDone st) : Quiescent st := by
  refine ⟨fun s hs => ?_, fun c hc => ?_⟩
  · rcases h.1 s hs with h1 | ⟨r, h1⟩ <;> simp [h1, armedS]
  · have := h.2 c hc; simp [this.1, this.2, armedC]

/-! ## the two counters mean what the comments in `blocking.rs` say -/

/-- `running_cmd` is exactly the number of senders between `RefAutoCounter::new` and its drop
plus the number of live `CounterTask`s (weights in `hold`). -/
theorem C11_running_exact {ss ps tr st} (h : Exec (init ss ps) tr st) :
    st.sh.running = runningSum st :=
  inv_running h (init_running ss ps)

/-- the blocker count is exactly the number of live `BlockingHandle`s. -/
theorem C11_count_exact {ss ps tr st} (hk : ps.length < U32) (h : Exec (init ss ps) tr st) :
    st.sh.count = heldCount st :=
  inv_count h (by rw [init_ctrls_len]; exact hk) (init_count ss ps)

/-! ## barrier -/

/-- **C11 barrier, full strength.**  From any reachable state in which `running_cmd = 0` while
the blocker count is positive, no step hands a task to the inner (backend) sender for as long as
the count stays positive — including the step that brings the count back to 0.  Holds for every
hint (the hint is consulted only when the sender read `count = 0`), every number of senders and
controllers, overlapping blocking periods included. -/
theorem C11_barrier {ss ps tr0 s tr1 s'} (h0 : Exec (init ss ps) tr0 s)
    (hrun : s.sh.running = 0) (hcnt : s.sh.count > 0)
    (h1 : ExecWhile (fun x => x.sh.count > 0) s tr1 s') :
    ∀ e ∈ tr1, e.2.isHanded = false :=
  (closed_execWhile h1 (closed_of_running_zero (C11_running_exact h0) hrun hcnt)).1

/-- **C11 barrier as the migration task uses it** (`pre_block`): controller `j` holds a handle
(its `start_blocking` has returned, it has not dropped it) and its `blocking_done()` returns
`true`.  From then on, until the blocker count returns to 0, nothing is handed to the backend. -/
theorem C11_barrier_ctrl {ss ps tr0 s j c s1 tr1 s'} (hk : ps.length < U32)
    (h0 : Exec (init ss ps) tr0 s) (hj : s.ctrls[j]? = some c) (hheld : c.held = true)
    (hpoll : step? s (.c j) = some (s1, .polled true))
    (h1 : ExecWhile (fun x => x.sh.count > 0) s1 tr1 s') :
    ∀ e ∈ tr1, e.2.isHanded = false := by
  have hreach1 : Exec (init ss ps) (tr0 ++ [(.c j, .polled true)]) s1 := Exec.snoc h0 hpoll
  rcases step?_cases hpoll with ⟨i, _, _, _, hbad, _⟩ | ⟨j', c', sh', c'', hjj, hj', hst, rfl⟩
  · cases hbad
  · cases hjj
    rw [hj] at hj'; cases hj'
    have hp := stepC_polled hst rfl
    have hcount := C11_count_exact hk h0
    have hpos := (heldCount_bounds s j c hj).1 hheld
    refine C11_barrier hreach1 ?_ ?_ h1
    · simp only [hp.1]; exact hp.2.1 rfl
    · simp only [hp.1]; omega

/-- hints are honoured: a task whose hint is `Blocking` is never handed to the backend, in any
execution. -/
theorem C11_hint_blocking_never_handed {ss ps tr st} (h : Exec (init ss ps) tr st) (i : Nat)
    (ok : Bool) (hi : ss[i]? = some (.blocking, ok)) : nHanded tr i = 0 := by
  have ht := inv_trace h (init_trace ss ps) i
  have hh := inv_hint h (init_hint ss ps)
  have ha := inv_attr h
  split at ht
  · rename_i s hs
    obtain ⟨s₀, h1, h2, _⟩ := ha i s hs
    have h3 : s₀.hint = .blocking := by
      simp only [init, List.getElem?_map, hi, Option.map_some] at h1
      cases h1; rfl
    rw [ht.1]
    cases hz : handedOf s.pc with
    | zero => rfl
    | succ n =>
      exfalso
      exact hh i s hs (handedOf_le_passed s.pc (by omega)) (by rw [h2, h3])
  · exact ht.1

/-- a sender takes the not-blocking branch only if it read `count = 0` and its hint agrees with
the term it read (`NotBlockingInMigration(t)` only while `term ≤ t`). -/
theorem C11_pass_requires_open {st i st' o s s'} (hs : step? st (.s i) = some (st', o))
    (h1 : st.senders[i]? = some s) (h2 : st'.senders[i]? = some s')
    (hp : passed s.pc = false) (hp' : passed s'.pc = true) :
    st.sh.count = 0 ∧ hintBlocks s.hint st.sh.term = false := by
  rcases step?_cases hs with ⟨i', s2, sh', s3, hii, hi, hst, rfl⟩ | ⟨j, _, _, _, hbad, _⟩
  · cases hii
    rw [h1] at hi; cases hi
    simp only [getElem?_set_self_of_some h1] at h2; cases h2
    rcases stepS_passed hst hp' with h | h
    · rw [hp] at h; cases h
    · exact h
  · cases hbad

/-! ## no loss, exactly once -/

/-- task accounting in **every** reachable state: each enqueue of `u` is matched by exactly one
of "still in the queue", "popped, re-dispatch pending in some thread", "re-dispatched";
a task is enqueued at most once and handed at most once, never both. -/
theorem C11_accounting {ss ps tr st} (h : Exec (init ss ps) tr st) (u : Nat) :
    st.sh.queue.count u + holders st u + nRedisp tr u = nEnq tr u ∧
    nEnq tr u ≤ 1 ∧ nHanded tr u ≤ 1 ∧ (nHanded tr u = 0 ∨ nEnq tr u = 0) := by
  refine ⟨inv_queue h u (init_queue ss ps u), ?_⟩
  have ht := inv_trace h (init_trace ss ps) u
  split at ht
  · rename_i s _
    rw [ht.1, ht.2.2.1]
    cases s.pc <;> simp [handedOf, enqOf] <;> rename_i r <;> cases r <;> simp
  · rw [ht.1, ht.2.2.1]; simp

/-- **C11 no loss.**  In every execution that reaches a quiescent state (nobody inside
`release_all` or about to re-check, no handle alive): the queue is empty; every task that was
enqueued has been re-dispatched exactly once and nothing else was re-dispatched; and each
sender's result is matched by exactly the right events:
`Ok` after handing (`okHanded`) — handed once and accepted, never queued;
inner `Retry` (`errInner`) — one refused hand attempt, task back with the caller;
`Err(Retry)` by the hint (`retry`) — no event at all, task back with the caller;
`Ok` after queueing (`okQueued`) — never handed, enqueued once, re-dispatched exactly once. -/
theorem C11_no_loss {ss ps tr st} (hk : ps.length < U32) (h : Exec (init ss ps) tr st)
    (hq : Quiescent st) :
    st.sh.queue = [] ∧
    (∀ u, nRedisp tr u = nEnq tr u) ∧
    (∀ i, nRet tr i .okHanded = 1 → nHanded tr i = 1 ∧ nHandedOk tr i = 1 ∧ nRedisp tr i = 0) ∧
    (∀ i, nRet tr i .errInner = 1 → nHanded tr i = 1 ∧ nHandedOk tr i = 0 ∧ nRedisp tr i = 0) ∧
    (∀ i, nRet tr i .retry = 1 → nHanded tr i = 0 ∧ nRedisp tr i = 0) ∧
    (∀ i, nRet tr i .okQueued = 1 → nHanded tr i = 0 ∧ nRedisp tr i = 1) := by
  have hcnt := C11_count_exact hk h
  have hheld : heldCount st = 0 := by
    unfold heldCount; rw [List.countP_eq_zero]
    intro c hc; simp [(hq.2 c hc).2]
  have harm : armedCount st = 0 := by
    unfold armedCount
    have h1 : st.senders.countP (fun s => armedS s.pc) = 0 := by
      rw [List.countP_eq_zero]; intro s hs; simp [hq.1 s hs]
    have h2 : st.ctrls.countP (fun c => armedC c.pc) = 0 := by
      rw [List.countP_eq_zero]; intro c hc; simp [(hq.2 c hc).1]
    omega
  have hA := inv_armed h (by rw [init_ctrls_len]; exact hk) (init_count ss ps) (init_armed ss ps)
  have hqe : st.sh.queue = [] := by
    rcases hA with hA | hA | hA
    · exact hA
    · omega
    · omega
  have hhold : ∀ u, holders st u = 0 := by
    intro u
    unfold holders
    have h1 : st.senders.countP (fun s => holdsS u s.pc) = 0 := by
      rw [List.countP_eq_zero]; intro s hs
      have := hq.1 s hs
      cases hp : s.pc <;> simp_all [armedS, holdsS]
    have h2 : st.ctrls.countP (fun c => holdsC u c.pc) = 0 := by
      rw [List.countP_eq_zero]; intro c hc
      have := (hq.2 c hc).1
      cases hp : c.pc <;> simp_all [armedC, holdsC]
    omega
  have hred : ∀ u, nRedisp tr u = nEnq tr u := by
    intro u
    have := (C11_accounting h u).1
    rw [hqe, hhold u] at this
    simpa using this
  have hrow : ∀ i r, nRet tr i r = 1 →
      ∃ p : SPc, retOf r p = 1 ∧ nHanded tr i = handedOf p ∧ nHandedOk tr i = handedOkOf p ∧
        nEnq tr i = enqOf p := by
    intro i r hr
    have ht := inv_trace h (init_trace ss ps) i
    split at ht
    · rename_i s _
      exact ⟨s.pc, by rw [← ht.2.2.2 r]; exact hr, ht.1, ht.2.1, ht.2.2.1⟩
    · rw [ht.2.2.2 r] at hr; cases hr
  refine ⟨hqe, hred, ?_, ?_, ?_, ?_⟩ <;> intro i hr <;>
    obtain ⟨p, h1, h2, h3, h4⟩ := hrow i _ hr <;> rw [hred i, h2, h4] <;>
    (try rw [h3]) <;> revert h1 <;> cases p <;> simp [retOf, handedOf, handedOkOf, enqOf, b2n] <;>
    rename_i r <;> cases r <;> simp

/-- each sender returns at most once, with one outcome (so exactly one line of `C11_no_loss`
applies to a sender that has returned). -/
theorem C11_returns_once {ss ps tr st} (h : Exec (init ss ps) tr st) (i : Nat) :
    nRet tr i .okHanded + nRet tr i .errInner + nRet tr i .retry + nRet tr i .okQueued ≤ 1 := by
  have ht := inv_trace h (init_trace ss ps) i
  split at ht
  · rename_i s _
    simp only [ht.2.2.2]
    cases s.pc <;> simp [retOf, b2n] <;> rename_i r <;> cases r <;> simp
  · simp only [ht.2.2.2]; simp

/-- no thread ever blocks: every thread that has not finished can take a step (so a quiescent
state is reached as soon as the scheduler is fair; the only loop is the lock-free CAS retry). -/
theorem C11_no_deadlock (st : State) :
    (∀ i s, st.senders[i]? = some s → (∀ r, s.pc ≠ .fin r) → (step? st (.s i)).isSome = true) ∧
    (∀ j c, st.ctrls[j]? = some c → c.pc ≠ .fin → (step? st (.c j)).isSome = true) := by
  constructor
  · intro i s hi hp
    have := stepS_isSome st.sh i s hp
    simp only [step?, hi]
    split
    · rename_i h; rw [h] at this; cases this
    · rfl
  · intro j c hj hp
    have := stepC_isSome st.sh c hp
    simp only [step?, hj]
    split
    · rename_i h; rw [h] at this; cases this
    · rfl

/-! ## "re-dispatched *after* blocking stops" -/

/-- **Partial.**  If, at some reachable state with `count > 0`, no thread is inside
`release_all` and no controller still has a `stop_blocking()` to execute, then nothing is
re-dispatched for as long as the count stays positive.
Gap to the property text (which has no such hypothesis): a `release_all` that is still draining
when the *next* blocking period starts keeps popping, and re-dispatches tasks that were queued
in the new period while that period is still blocking — see
`C11_redisp_timing_full_false` (finding F11a). -/
theorem C11_redisp_timing_partial {ss ps tr0 s tr1 s'} (hk : ps.length < U32)
    (h0 : Exec (init ss ps) tr0 s) (hq : QuietW s)
    (h1 : ExecWhile (fun x => x.sh.count > 0) s tr1 s') :
    ∀ e ∈ tr1, e.2.isAnyRedisp = false := by
  have hkl : (init ss ps).ctrls.length < U32 := by rw [init_ctrls_len]; exact hk
  suffices hgoal : (∀ e ∈ tr1, e.2.isAnyRedisp = false) ∧ (s'.sh.count > 0 → QuietW s') ∧
      Exec (init ss ps) (tr0 ++ tr1) s' from hgoal.1
  induction h1 with
  | nil => exact ⟨by simp, fun _ => hq, by simpa using h0⟩
  | snoc _ hp hs ih =>
    obtain ⟨ih1, ih2, ih3⟩ := ih
    have hb := count_lt ih3 hkl (init_count ss ps)
    have hstep := quiet_step (ih2 hp) hb hs
    refine ⟨?_, hstep.2, ?_⟩
    · intro e he
      rcases List.mem_append.1 he with he | he
      · exact ih1 e he
      · simp at he; subst he; exact hstep.1
    · rw [← List.append_assoc]; exact Exec.snoc ih3 hs

/-- **Negation of the unconditioned timing clause**: it is *not* true that a task enqueued
inside a window in which `count > 0` throughout is never re-dispatched inside that window. -/
theorem C11_redisp_timing_full_false :
    ¬ (∀ (ss : List (Hint × Bool)) (ps : List (List Cmd)) (tr0 : Trace) (s : State)
        (tr1 : Trace) (s' : State) (u : Nat), ps.length < U32 →
        Exec (init ss ps) tr0 s → ExecWhile (fun x => x.sh.count > 0) s tr1 s' →
        nEnq tr1 u = 1 → nRedisp tr1 u = 0) := by
  intro hall
  obtain ⟨s, tr0, s', tr1, hpre, hwin, he, hr⟩ := f11a_witness
  have h0 := runSched_exec _ _ _ _ hpre
  have h1 := (runSchedWhile_exec _ _ _ _ _ hwin).mono (Q := fun x => x.sh.count > 0)
    (fun x hx => by simpa using hx)
  have := hall _ _ tr0 s tr1 s' 0 (by decide) h0 h1 he
  omega

/-! ## non-vacuity -/

/-- barrier: 2 senders (one slips in before the blocker, one comes after), 1 controller
`start; poll; poll; drop`; the first poll sees `running = 1`, the second `running = 0`. -/
def exBarrier : List Tid :=
  [.s 0, .s 0,            -- ref_inc, load (count = 0: not blocking)
   .c 0, .c 0,            -- start_blocking
   .c 0,                  -- poll: false (sender 0 inside)
   .s 0, .s 0, .s 0, .s 0, -- counter_inc, hand, ref_dec, reply
   .c 0,                  -- poll: true
   .s 1, .s 1, .s 1, .s 1, .s 1, -- sender 1: queued
   .c 0, .c 0, .c 0, .c 0, .c 0]  -- drop, release_all re-dispatches task 1

example : (runSched (init [(.notBlocking, true), (.notBlockingInMigration 0, true)]
    [[.start, .poll, .poll, .drop]]) exBarrier).map (fun p => p.2.map (·.2)) =
  some [.tau, .tau, .tau, .tau, .polled false, .tau, .handed 0 true, .ret .okHanded, .tau,
        .polled true, .tau, .tau, .tau, .enq 1, .ret .okQueued, .tau, .tau, .tau, .redisp 1, .tau] := by
  decide

/-- the final state of that run is `AllDone` hence `Quiescent` (hypothesis of `C11_no_loss`) and
the state after the second poll has `running = 0 ∧ count > 0` (hypothesis of `C11_barrier`). -/
example : ((runSched (init [(.notBlocking, true), (.notBlockingInMigration 0, true)]
    [[.start, .poll, .poll, .drop]]) exBarrier).map (fun p =>
      (p.1.sh.queue, p.1.senders.map (·.pc), p.1.ctrls.map (fun c => (c.pc, c.held))))) =
  some ([], [.fin .okHanded, .fin .okQueued], [(.fin, false)]) := by decide

example : ((runSched (init [(.notBlocking, true), (.notBlockingInMigration 0, true)]
    [[.start, .poll, .poll, .drop]]) (exBarrier.take 10)).map (fun p =>
      (p.1.sh.running, p.1.sh.count))) = some (0, 1) := by decide

/-- `QuietW` (hypothesis of `C11_redisp_timing_partial`) holds right after a `start_blocking`
when nobody is releasing -/
example : ((runSched (init [(.blocking, true)] [[.start, .drop]]) [.c 0, .c 0]).map (fun p =>
    (decide (p.1.sh.count > 0), p.1.senders.countP (fun s => relS s.pc),
      p.1.ctrls.countP (fun c => !quietC c)))) = some (true, 0, 0) := by decide

/-- hint `Blocking` with `count = 0`: `Err(Retry)`, no event (hypothesis of the `retry` row) -/
example : (runSched (init [(.blocking, true)] []) [.s 0, .s 0, .s 0]).map (fun p => p.2.map (·.2)) =
  some [.tau, .tau, .ret .retry] := by decide

/-- inner sender answers `Retry` (the `errInner` row) -/
example : (runSched (init [(.notBlocking, false)] []) [.s 0, .s 0, .s 0, .s 0, .s 0, .s 0]).map
    (fun p => (p.1.sh.running, p.2.map (·.2))) =
  some (0, [.tau, .tau, .tau, .handed 0 false, .tau, .ret .errInner]) := by decide

/-! ## the caller's protocol (`RedisScanMigratingTask::pre_block`)

`pre_block` is the controller program `start; await` (`start_blocking()` **then**
`while !blocking_done() { sleep }`), after which the task proceeds (state `PreSwitch`, PRESWITCH to
the peer) and finally drops the handle: program `B = [start, await, drop]`.  The barrier theorems
are about `blocking_done() = true` read **while the handle is held** (`C11_barrier_ctrl`); the wait
loop of `await` is left in exactly that situation: -/

/-- a controller inside the wait loop of `pre_block`, holding its handle: a step either stays in
the loop (`blocking_done()` was false) or reads `true`, leaves the loop, and from then on nothing
is handed to the backend until the blocker count returns to 0. -/
theorem C11_pre_block_protocol {ss ps tr0 s j c s1 o} (hk : ps.length < U32)
    (h0 : Exec (init ss ps) tr0 s) (hj : s.ctrls[j]? = some c) (hpc : c.pc = .doneLoadW)
    (hheld : c.held = true) (hstep : step? s (.c j) = some (s1, o)) :
    o = .polled false ∨
    (o = .polled true ∧ ∀ tr1 s', ExecWhile (fun x => x.sh.count > 0) s1 tr1 s' →
      ∀ e ∈ tr1, e.2.isHanded = false) := by
  rcases step?_cases hstep with ⟨_, _, _, _, hbad, _⟩ | ⟨j', c', sh', c'', hjj, hj', hst, hs1⟩
  · cases hbad
  · cases hjj
    rw [hj] at hj'; cases hj'
    have ho : o = .polled false ∨ o = .polled true := by
      unfold stepC at hst; rw [hpc] at hst
      simp only at hst
      split at hst <;> simp at hst <;> simp [hst.2.2.symm]
    rcases ho with ho | ho
    · exact Or.inl ho
    · refine Or.inr ⟨ho, fun tr1 s' h1 => ?_⟩
      subst ho
      exact C11_barrier_ctrl hk h0 hj hheld hstep h1

/-- the protocol program on the critical interleaving: the sender slipped in before
`start_blocking`, the wait loop sees it (`polled false`) and only proceeds after the reply. -/
example : (runSched (init [(.notBlocking, true)] [[.start, .await, .drop]])
    [.s 0, .s 0, .c 0, .c 0, .c 0, .s 0, .s 0, .s 0, .c 0, .s 0, .c 0]).map
      (fun p => p.2.map (·.2)) =
  some [.tau, .tau, .tau, .tau, .polled false, .tau, .handed 0 true, .ret .okHanded,
        .polled false, .tau, .polled true] := by decide

/-- **the "idle fast path" is not the protocol**: sampling `blocking_done()` *before*
`start_blocking()` and proceeding on that answer is the program `poll; start`.  In the model it
breaks the barrier: the controller has read `true`, holds its handle and has proceeded (program
finished, count = 1), and task 0 is handed to the backend afterwards.  (No contradiction with
`C11_barrier_ctrl`: the poll was not made while the handle was held.) -/
example : (runSched (init [(.notBlocking, true)] [[.poll, .start]])
    [.c 0, .s 0, .s 0, .c 0, .c 0, .s 0, .s 0]).map
      (fun p => (p.2.map (·.2), p.1.sh.count, p.1.ctrls.map (fun c => (c.pc, c.held)))) =
  some ([.polled true, .tau, .tau, .tau, .tau, .tau, .handed 0 true], 1, [(.fin, true)]) := by
  decide

/-! ## which queue: `BlockingMap` hands every user of an address the same queue

The theorems above are about *one* `TaskBlockingQueue`.  The proxy reaches that queue from two
sides through `BlockingMap::get_or_create` (client path: `TaskBlockingQueueSenderFactory::create`;
migration path: `TaskBlockingControllerFactory::create(src_node_address)`), and the map only
keeps `Weak`s.  Model: `UmModel/BarrierMap.lean`; any history of acquire / drop / drop-all. -/

/-- **Same address ⇔ same queue** for live holders, after any history (including "all holders of
an address dropped, address used again"): the sender the clients use and the controller the
migration blocks are the same queue, so `C11_barrier` / `C11_no_loss` apply to that pair; and
different backends never share a queue. -/
theorem C11_map_shared_queue (ops : List Map.Op) :
    ∀ h1 ∈ (Map.run Map.init ops).holders, ∀ h2 ∈ (Map.run Map.init ops).holders,
      h1.live = true → h2.live = true → (h1.addr = h2.addr ↔ h1.qid = h2.qid) := by
  have hi := Map.inv_run ops Map.init Map.inv_init
  intro h1 hm1 h2 hm2 hl1 hl2
  have e1 := hi.reg h1 hm1 hl1
  have e2 := hi.reg h2 hm2 hl2
  constructor
  · intro ha
    rw [ha, e2] at e1
    exact (Option.some.inj e1).symm
  · intro hq
    rw [hq] at e1
    exact hi.inj _ _ _ e1 e2

/-- a new queue is created only when nobody holds a queue of that address any more -/
theorem C11_map_create_only_when_dead (ops : List Map.Op) (a : Nat)
    (hc : (Map.getOrCreate (Map.run Map.init ops) a).2.2 = true) :
    ∀ h ∈ (Map.run Map.init ops).holders, h.live = true → h.addr ≠ a := by
  have hi := Map.inv_run ops Map.init Map.inv_init
  intro h hm hl ha
  have e := hi.reg h hm hl
  rw [ha] at e
  simp only [Map.getOrCreate, e] at hc
  split at hc
  · cases hc
  · rename_i hal
    have hal' : Map.alive (Map.run Map.init ops) h.qid = false := by simpa using hal
    exact Map.not_alive_spec hal' h hm hl rfl

/-- the behavioural form checked on the implementation: when a live controller of the address
starts blocking, a command sent through *any* live sender of that address meets a blocked queue. -/
theorem C11_map_probe_all_queued (ops : List Map.Op) (a ci : Nat) (l : List (Nat × Bool))
    (hp : Map.probe (Map.run Map.init ops) a = some (ci, l)) : ∀ p ∈ l, p.2 = true := by
  have hs := C11_map_shared_queue ops
  simp only [Map.probe] at hp
  split at hp
  · cases hp
  · rename_i c ci' hf
    simp only [Option.some.injEq, Prod.mk.injEq] at hp
    obtain ⟨_, rfl⟩ := hp
    have hc := List.find?_some hf
    have hcm := List.mem_of_find?_eq_some hf
    simp only [Bool.and_eq_true, beq_iff_eq] at hc
    intro p hpm
    simp only [List.mem_map, List.mem_filter, Bool.and_eq_true, beq_iff_eq] at hpm
    obtain ⟨x, ⟨hxm, ⟨⟨hxl, hxa⟩, _⟩⟩, rfl⟩ := hpm
    have m1 : x.1 ∈ (Map.run Map.init ops).holders :=
      List.mem_of_getElem? (i := x.2) (List.mem_zipIdx_iff_getElem?.1 hxm)
    have m2 : c ∈ (Map.run Map.init ops).holders :=
      List.mem_of_getElem? (i := ci') (List.mem_zipIdx_iff_getElem?.1 hcm)
    have := (hs x.1 m1 c m2 hxl hc.1.1).1 (by rw [hxa, hc.1.2])
    simp [this]

/-- non-vacuity: use, release everything, use again — the re-created pair shares queue 1 -/
example : ((Map.run Map.init [.acquire .sender 0, .acquire .ctrl 0, .dropAll 0,
    .acquire .sender 0, .acquire .ctrl 0, .acquire .sender 1]).holders.map
      (fun h => (h.addr, h.qid, h.live))) =
  [(0, 0, false), (0, 0, false), (0, 1, true), (0, 1, true), (1, 2, true)] := by decide

example : Map.probe (Map.run Map.init [.acquire .sender 0, .acquire .ctrl 0, .dropAll 0,
    .acquire .sender 0, .acquire .ctrl 0]) 0 = some (3, [(2, true)]) := by decide

end Um.Barrier.C11
