import UmProofs.BrokerEpochStep
/-!
# C04 — Metadata epochs version every change and never regress

`s` ranges over every state of the broker model reachable by any sequence of `Op`s (all
`MetaStore` mutators, including `force_bump_all_epoch` and `recover_epoch`; any allocation
choice, any clock), `a` over all addresses, `limit` over all `migration_limit` values.
`proxyView s a limit` is `get_proxy_by_address` (what `GET /api/v3/proxies/meta/<a>` serves).

* the global epoch never decreases (`C04_global_mono`, unconditional);
* `EpochInv`: cluster epochs `≤` global epoch, migration epochs `≤` their cluster's epoch;
  cluster names are unique;
* every operation leaves the cluster found under a name unchanged, or removes it while bumping
  the global epoch, or writes a cluster whose epoch lies in `(old global, new global]`
  (`C04_cluster_frame`; the upper end is not always attained — `C04_cluster_frame_not_exact`);
* the epoch of the view served to an address never decreases, and if the view differs in
  anything but the epoch the epoch strictly increases — for one step (`C04_view_epoch`) and for any
  two points of a history, also across unregister/register (`C04_view_history`);
* a re-registered address is served an epoch above everything served for it before
  (`C04_register_fresh`, `C04_reregister`);
* a receiver that installs only strictly newer epochs holds the current view after being offered
  it (`C04_catch_up`).

`restore` (PUT /metadata) is not an `Op`; it is treated in C13.

Both modes: `Reachable` contains the histories of a broker started with `enable_ordered_proxy = true`
(those starting with `Op.setOrdered`, `runOrdered`); every theorem below holds for them as stated.
In that mode a failover bumps the global epoch twice and the cluster epoch once (`demoOrdered`).
-/
namespace Um.Broker.C04
open Um Um.Slots Um.Broker Um.Broker.Epoch

/-- everything of a served view but its epoch -/
def content (v : VProxy) : VProxy := { v with epoch := 0 }

/-- the global epoch never decreases — for every store and every operation, reachable or not -/
theorem C04_global_mono : ∀ (s : Store) (op : Op), s.globalEpoch ≤ (step s op).globalEpoch :=
  fun s op => (step_ok s op).mono

/-- `EpochInv` holds in every reachable state -/
theorem C04_epochInv : ∀ s, Reachable s → EpochInv s := epochInv_reachable

/-- cluster names are pairwise distinct in every reachable state -/
theorem C04_names_unique : ∀ s, Reachable s → (s.clusters.map (·.name)).Nodup := nameInv_reachable

/-- frame: what one operation can do to the cluster registered under a name -/
theorem C04_cluster_frame (s : Store) (hs : Reachable s) (op : Op) (n : String) :
    (step s op).findCluster n = s.findCluster n ∨
    ((step s op).findCluster n = none ∧ s.globalEpoch < (step s op).globalEpoch) ∨
    ∃ c', (step s op).findCluster n = some c' ∧ s.globalEpoch < c'.epoch ∧
      c'.epoch ≤ (step s op).globalEpoch := by
  have hf := (step_ok s op).frame (epochInv_reachable s hs)
  rcases hf.cf n with h | h | ⟨c', h, hlt⟩
  · exact Or.inl h
  · exact Or.inr (Or.inl h)
  · refine Or.inr (Or.inr ⟨c', h, hlt, ?_⟩)
    exact (epochInv_reachable _ (Reachable.step op hs) c' (findC_some h).1).1

/-- frame for proxy records: an operation removes a record, or keeps it up to its `cluster` tag;
a tag is rewritten only while the global epoch grows and only to `none` or to a name whose
cluster carries an epoch above the old global epoch; a new record is free and the global epoch grew -/
theorem C04_proxy_frame (s : Store) (hs : Reachable s) (op : Op) (a : String) :
    (∀ p, s.findProxy a = some p → (step s op).findProxy a = none ∨
      ∃ v, (step s op).findProxy a = some { p with cluster := v } ∧
        (v = p.cluster ∨ (s.globalEpoch < (step s op).globalEpoch ∧
          ∀ n, v = some n → ∀ c', (step s op).findCluster n = some c' → s.globalEpoch < c'.epoch))) ∧
    (s.findProxy a = none → ∀ p', (step s op).findProxy a = some p' →
      p'.cluster = none ∧ s.globalEpoch < (step s op).globalEpoch) := by
  have hf := (step_ok s op).frame (epochInv_reachable s hs)
  exact ⟨fun p hp => hf.pf a p hp, hf.fresh a⟩

/-- every served epoch is bounded by the global epoch at the time -/
theorem C04_served_le_global (s : Store) (hs : Reachable s) (a : String) (limit : Nat) (v : VProxy)
    (hv : proxyView s a limit = .ok (some v)) : v.epoch ≤ s.globalEpoch := by
  obtain ⟨p, _, e⟩ := proxyView_epoch hv
  rw [e]; exact servedEpoch_le (epochInv_reachable s hs) p

/-- one operation: the epoch served to `a` does not decrease, and it strictly increases whenever
anything else in the view differs -/
theorem C04_view_epoch (s : Store) (hs : Reachable s) (op : Op) (a : String) (limit : Nat)
    (v v' : VProxy) (hv : proxyView s a limit = .ok (some v))
    (hv' : proxyView (step s op) a limit = .ok (some v')) :
    v.epoch ≤ v'.epoch ∧ (content v ≠ content v' → v.epoch < v'.epoch) := by
  obtain ⟨h1, h2⟩ := view_steps hs (Steps.snoc op Steps.refl) hv hv'
  refine ⟨h1, fun hne => ?_⟩
  rcases Nat.lt_or_ge v.epoch v'.epoch with h | h
  · exact h
  · exact absurd (by rw [h2 (Nat.le_antisymm h1 h)]) hne

/-- any two points of one history (`s` is reached from `t` by `ops`; `a` may be unregistered and
registered again in between) -/
theorem C04_view_history (t : Store) (ht : Reachable t) (ops : List Op) (a : String) (limit : Nat)
    (v v' : VProxy) (hv : proxyView t a limit = .ok (some v))
    (hv' : proxyView (ops.foldl step t) a limit = .ok (some v')) :
    v.epoch ≤ v'.epoch ∧ (content v ≠ content v' → v.epoch < v'.epoch) ∧ (v.epoch = v'.epoch → v' = v) := by
  obtain ⟨h1, h2⟩ := view_steps ht (steps_foldl t ops) hv hv'
  refine ⟨h1, fun hne => ?_, h2⟩
  rcases Nat.lt_or_ge v.epoch v'.epoch with h | h
  · exact h
  · exact absurd (by rw [h2 (Nat.le_antisymm h1 h)]) hne

/-- an address that an operation registers is served that operation's (bumped) global epoch,
which exceeds every epoch served — for any address — at any earlier point `t` of the history -/
theorem C04_register_fresh (t : Store) (ht : Reachable t) (ops : List Op) (op : Op) (a : String)
    (hnone : (ops.foldl step t).findProxy a = none) (limit : Nat) (v' : VProxy)
    (hv' : proxyView (step (ops.foldl step t) op) a limit = .ok (some v')) :
    v'.epoch = (step (ops.foldl step t) op).globalEpoch ∧
    (ops.foldl step t).globalEpoch < v'.epoch ∧
    ∀ b l v, proxyView t b l = .ok (some v) → v.epoch < v'.epoch := by
  have hs : Reachable (ops.foldl step t) := reachable_foldl t ht ops
  have hf := (step_ok (ops.foldl step t) op).frame (epochInv_reachable _ hs)
  obtain ⟨p', hp', e'⟩ := proxyView_epoch hv'
  obtain ⟨hfree, hlt⟩ := hf.fresh a hnone p' hp'
  have e : servedEpoch (step (ops.foldl step t) op) p' = (step (ops.foldl step t) op).globalEpoch := by
    simp [servedEpoch, ec, hfree]
  rw [e] at e'
  refine ⟨e', by omega, fun b l v hv => ?_⟩
  have h1 := C04_served_le_global t ht b l v hv
  have h2 := (steps_foldl t ops).mono
  omega

/-- an accepted `remove_proxy a` unregisters `a` and bumps the global epoch -/
theorem C04_remove_unregisters (s : Store) (a : String) (hok : (removeProxy s a).2 = .ok ()) :
    (step s (.removeProxy a)).findProxy a = none ∧
      s.globalEpoch < (step s (.removeProxy a)).globalEpoch := by
  have hstep : step s (.removeProxy a) = (removeProxy s a).1 := by
    simp only [step, stepFull, hok, Outcome.ofR]
  rw [hstep]
  unfold removeProxy at hok ⊢
  split at hok
  · cases hok
  · split at hok
    · cases hok
    · rename_i h
      simp only [h]
      refine ⟨?_, Nat.lt_succ_self _⟩
      show findP (s.proxies.filter (·.addr != a)) a = none
      rw [findP_filter_ne]; simp

/-- re-registration: `remove_proxy a`, any operations that leave `a` unregistered, `add_proxy a …`:
the epoch then served for `a` exceeds every epoch served for it (at any `migration_limit`)
at any point `t` before the removal -/
theorem C04_reregister (t : Store) (ht : Reachable t) (ops0 ops1 : List Op) (a n0 n1 : String)
    (host : Option String) (index : Option Nat) (limit limit' : Nat) (v v3 : VProxy) :
    let s := ops0.foldl step t
    let s1 := step s (.removeProxy a)
    let s2 := ops1.foldl step s1
    let s3 := step s2 (.addProxy a n0 n1 host index)
    s2.findProxy a = none →
    proxyView t a limit = .ok (some v) → proxyView s3 a limit' = .ok (some v3) →
    v.epoch < v3.epoch ∧ v3.epoch = s3.globalEpoch := by
  intro s s1 s2 s3 hnone hv hv3
  have e : s2 = (ops0 ++ [Op.removeProxy a] ++ ops1).foldl step t := by
    simp [s2, s1, s, List.foldl_append]
  have h := C04_register_fresh t ht (ops0 ++ [Op.removeProxy a] ++ ops1) (.addProxy a n0 n1 host index) a
    (e ▸ hnone) limit' v3 (e ▸ hv3)
  exact ⟨h.2.2 a limit v hv, by rw [h.1, ← e]⟩

/-- a receiver that installs an offered view iff its epoch is strictly newer (C05's rule) -/
def accept (held offer : VProxy) : VProxy := if held.epoch < offer.epoch then offer else held

/-- catch-up: a receiver holding any view served earlier in the history and offered the current
one holds exactly the current view afterwards -/
theorem C04_catch_up (t : Store) (ht : Reachable t) (ops : List Op) (a : String) (limit : Nat)
    (held cur : VProxy) (hheld : proxyView t a limit = .ok (some held))
    (hcur : proxyView (ops.foldl step t) a limit = .ok (some cur)) : accept held cur = cur := by
  obtain ⟨h1, h2⟩ := view_steps ht (steps_foldl t ops) hheld hcur
  unfold accept
  split
  · rfl
  · rename_i h
    exact (h2 (by omega)).symm

/-! ## non-vacuity and the witness for the inexact upper end of the frame -/

/-- two hosts with two proxies each, one 4-node cluster, one added (slot-less) chunk -/
def demo : List Op := [
  .addProxy "h1:1" "n1" "n2" none none, .addProxy "h1:2" "n3" "n4" none none,
  .addProxy "h2:1" "n5" "n6" none none, .addProxy "h2:2" "n7" "n8" none none,
  .addCluster "c" 4 [("h1:1", "h2:1")],
  .addNodes "c" 4 [("h1:2", "h2:2")]]

/-- the written cluster's epoch need not equal the new global epoch: `auto_change_node_number c 2`
first frees the slot-less chunk (cluster epoch 7, global 7), then `migrate_slots_to_scale_down`
bumps the global epoch to 8 and fails with INVALID_NODE_NUMBER. The real code does the same
(replay in notes/C04.md). -/
theorem C04_cluster_frame_not_exact :
    ¬ ∀ s, Reachable s → ∀ op n c', (step s op).findCluster n = some c' →
        (step s op).findCluster n ≠ s.findCluster n → c'.epoch = (step s op).globalEpoch := by
  intro h
  have hne : (step (run demo) (.changeNum "c" 2 [])).findCluster "c" ≠ (run demo).findCluster "c" := by
    intro heq
    have : ((step (run demo) (.changeNum "c" 2 [])).findCluster "c").map (·.epoch)
        = ((run demo).findCluster "c").map (·.epoch) := by rw [heq]
    revert this; decide
  cases hc : (step (run demo) (.changeNum "c" 2 [])).findCluster "c" with
  | none => revert hc; decide
  | some c' =>
    have h1 := h (run demo) (reachable_run demo) (.changeNum "c" 2 []) "c" c' hc hne
    have h2 : ((step (run demo) (.changeNum "c" 2 [])).findCluster "c").map (·.epoch) = some 7 := by decide
    have h3 : (step (run demo) (.changeNum "c" 2 [])).globalEpoch = 8 := by decide
    rw [hc] at h2
    simp only [Option.map_some, Option.some.injEq] at h2
    omega

example : (run demo).globalEpoch ≤ (step (run demo) (.balance "c")).globalEpoch :=
  C04_global_mono _ _
example : (step (run demo) (.balance "c")).globalEpoch = 7 := by decide
example : EpochInv (run demo) := C04_epochInv _ (reachable_run demo)
example : ((run demo).clusters.map (·.name)) = ["c"] := by decide
-- the frame's third alternative is taken by `balance`, the first by an operation on another name
example : ((step (run demo) (.balance "c")).findCluster "c").map (·.epoch) = some 7 ∧
    ((run demo).findCluster "c").map (·.epoch) = some 6 := by decide
-- a proxy of the cluster is served the cluster epoch 6; after `balance` it is served 7
example : ∃ v v', proxyView (run demo) "h1:1" 1 = .ok (some v) ∧
    proxyView (step (run demo) (.balance "c")) "h1:1" 1 = .ok (some v') ∧ v.epoch = 6 ∧ v'.epoch = 7 :=
  ⟨_, _, rfl, rfl, rfl, rfl⟩
-- re-registration: `h3:1` is added (epoch 7), removed (8), added again: served 9
example : ∃ v v3, proxyView (step (run demo) (.addProxy "h3:1" "x" "y" none none)) "h3:1" 0 = .ok (some v) ∧
    proxyView (step (step (step (run demo) (.addProxy "h3:1" "x" "y" none none)) (.removeProxy "h3:1"))
      (.addProxy "h3:1" "x2" "y2" none none)) "h3:1" 0 = .ok (some v3) ∧ v.epoch = 7 ∧ v3.epoch = 9 :=
  ⟨_, _, rfl, rfl, rfl, rfl⟩
example : (removeProxy (step (run demo) (.addProxy "h3:1" "x" "y" none none)) "h3:1").2 = .ok () := rfl
example (v : VProxy) (h : v.epoch = 6) (w : VProxy) (hw : w.epoch = 7) : accept v w = w := by
  simp [accept, h, hw]

/-- ordered-proxy mode: two proxies with indices 0, 1 on one host, one cluster -/
def demoOrdered : List Op := [
  .setOrdered,
  .addProxy "h1:1" "n1" "n2" none (some 0), .addProxy "h1:2" "n3" "n4" none (some 1),
  .addCluster "c" 4 [("h1:1", "h1:2")]]

example : (run demoOrdered).ordered = true ∧ (run demoOrdered).globalEpoch = 3 := by decide
example : EpochInv (run demoOrdered) := C04_epochInv _ (reachable_run demoOrdered)
-- an ordered failover (takeover + second bump, no replacement): global epoch +2, cluster epoch = global - 1
example : (step (run demoOrdered) (.failover "h1:1" "-")).globalEpoch = 5 ∧
    ((step (run demoOrdered) (.failover "h1:1" "-")).findCluster "c").map (·.epoch) = some 4 := by decide
example : ∃ v v', proxyView (run demoOrdered) "h1:2" 0 = .ok (some v) ∧
    proxyView (step (run demoOrdered) (.failover "h1:1" "-")) "h1:2" 0 = .ok (some v') ∧
    v.epoch = 3 ∧ v'.epoch = 4 := ⟨_, _, rfl, rfl, rfl, rfl⟩
example (v v' : VProxy) (hv : proxyView (run demoOrdered) "h1:2" 0 = .ok (some v))
    (hv' : proxyView (step (run demoOrdered) (.failover "h1:1" "-")) "h1:2" 0 = .ok (some v')) :
    v.epoch ≤ v'.epoch ∧ (content v ≠ content v' → v.epoch < v'.epoch) :=
  C04_view_epoch _ (reachable_run demoOrdered) _ _ _ v v' hv hv'

end Um.Broker.C04
