import UmProofs.CoordOrder
import UmProofs.CoordMig
import UmProofs.CoordCoherent
import UmProofs.BrokerViewPartF
import UmProofs.CoordDischarge
import UmProofs.CoordStale
import UmProps.C13
import UmProps.C05
/-!
# C07 — the control plane converges despite message faults and coordinator crashes

Model: `UmModel/Coordinator.lean` (broker `Store` + one `PState` per proxy process + bag of delayed
calls; the four coordinator rounds issue their calls in the order of `src/coordinator/*.rs`; `call`
applies the fault plan: dropped request / dropped reply / duplicate / delay / crash before the
call; rounds of other coordinators nest at call boundaries).

* `C07_safety` — along every execution (any rounds, any fault plans, any nested rounds, flushes of
  delayed calls, any broker operations in between) no process replaces its cluster map or its
  replication map by one with a smaller **or equal** epoch, and no call makes it report a migration
  task as finished that it did not report before.  (Coordinator calls are never forced;
  `UMCTL SETCLUSTER … FORCE` and process restarts are the two exceptions, see the `example`s.)
* `C07_commit_once` — a task is committed at most once: the second commit of the same
  `(cluster, ranges, epoch)` is `MIGRATION_TASK_NOT_FOUND` (which the coordinator's HTTP client maps
  to success) and leaves the store as it is.
* `C07_commit_stale`, `C07_stale_commit_delivery` — a commit whose `(ranges, epoch)` is not pending (old epoch of
  the same ranges, any other mismatch) is refused with a 404 code and changes nothing — store and whole system —
  whenever it is delivered (duplicate, delayed, re-delivered after later rounds).
* `C07_dst_before_src` — inside one `sync_migration_state`, whatever the faults: commit, then only
  calls about the destination, then only calls about the source, and the source is contacted only
  after the destination's `set_cluster_meta` returned `Ok`.
* `C07_coherent` — with C04's `EpochVersioning` as hypothesis: nothing a process holds and nothing a
  round ever sends is ahead of what the broker serves (older epoch, or same epoch and same content).
* `C07_invariants_reachable`, `C07_epochVersioning`, `C07_commit_once_reachable`,
  `C07_convergence_reachable`, `C07_reconverge_after_recovery` — the same with the broker-side hypotheses
  discharged by C01 (store invariants, views never panic), C04 (`view_steps`), C10 (`commitInv_of_invs`) and C13
  (recovered epochs exceed every proxy epoch); what remains is about the environment: the broker history stays
  within `PlanBound`, every served address has a running, well-hosted process (`EnvOk`), `targets` is the
  permutation the retriever produced.
* `C07_convergence` — **K = 2** fault-free rounds (migration sync, then proxy sync) from any coherent
  state: every target process holds exactly `proxyView broker a limit` (same epoch, cluster map,
  replication map) and no polled running process reports a finished task that is still pending.
-/
namespace Um.Coord.C07
open Um Um.Broker Um.Broker.Scale Um.Coord Um.Slots

/-- the environment between two coordinator calls / rounds that the safety statement ranges over -/
inductive Ev where
  | round (r : Round)
  | flush (choices : List String)
  | admin (op : Op)

def applyEv (s : Sys) : Ev → Sys
  | .round r => (runRound s r).1
  | .flush cs => (s.flush cs).1
  | .admin op => { s with broker := Broker.step s.broker op }

def applyEvs (s : Sys) (evs : List Ev) : Sys := evs.foldl applyEv s

/-- **no process ever replaces its metadata by an older or equally old version** -/
theorem C07_safety (s : Sys) (evs : List Ev) :
    ∀ a p, s.findP a = some p → ∃ p', (applyEvs s evs).findP a = some p' ∧
      p.epoch ≤ p'.epoch ∧ (p'.epoch = p.epoch → p'.cmeta = p.cmeta) ∧
      p.replEpoch ≤ p'.replEpoch ∧ (p'.replEpoch = p.replEpoch → p'.repl = p.repl) ∧
      (∀ t ∈ p'.finished, t ∈ p.finished) := by
  have key : ∀ evs s, Sys.le s (applyEvs s evs) := by
    intro evs
    induction evs with
    | nil => intro s; exact Sys.le_refl s
    | cons ev rest ih =>
      intro s
      have h1 : Sys.le s (applyEv s ev) := by
        cases ev with
        | round r => exact reach_le (runRound_reach s r)
        | flush cs => exact reach_le (flush_reach s cs)
        | admin op => exact Sys.le_of_proxies_eq rfl
      exact Sys.le_trans h1 (ih (applyEv s ev))
  intro a p hp
  obtain ⟨p', hp', hle⟩ := (key evs s).1 a p hp
  exact ⟨p', hp', hle.epoch, hle.same, hle.repl, hle.replSame, hle.fin⟩

/-- **a migration task is committed at most once** (under C10's commit invariant for its cluster) -/
theorem C07_commit_once {s s1 : Store} {name : String} {c : Cluster} (hf : s.findCluster name = some c)
    (hinv : CommitInv c) {ranges : RangeList} {epoch : Nat}
    (h : commitMigrationCore s name ranges epoch false = (s1, R.ok ())) :
    commitMigrationCore s1 name ranges epoch false = (s1, R.err Err.migrationTaskNotFound) ∧
    ¬ PendingIn s1 name ranges epoch ∧
    statusOf Err.migrationTaskNotFound.code = Um.Gen.Coord.COMMIT_OK_STATUS :=
  ⟨(commitCore_twice hf hinv h).1, (commitCore_twice hf hinv h).2, status_taskNotFound⟩

/-- **a commit request that names no running migration changes nothing.** `commit_migration` matches by
`(ranges, epoch)`: a descriptor with another epoch than the pending entry of these ranges (a delayed duplicate of an
earlier migration's commit while a later migration of the same ranges is running), other ranges, or an unknown
cluster is answered `MIGRATION_TASK_NOT_FOUND` / `CLUSTER_NOT_FOUND` and the store is returned as it was; both
codes map to the status the coordinator counts as success. No invariant needed; any store. -/
theorem C07_commit_stale (s : Store) (name : String) (ranges : RangeList) (epoch : Nat)
    (h : ∀ c, s.findCluster name = some c → ∀ m ∈ c.migs, m.isMigrating = true → m.ranges = ranges → m.mm.epoch ≠ epoch) :
    (commitMigrationCore s name ranges epoch false = (s, R.err Err.clusterNotFound) ∨
     commitMigrationCore s name ranges epoch false = (s, R.err Err.migrationTaskNotFound)) ∧
    statusOf Err.clusterNotFound.code = Um.Gen.Coord.COMMIT_OK_STATUS ∧
    statusOf Err.migrationTaskNotFound.code = Um.Gen.Coord.COMMIT_OK_STATUS :=
  ⟨commitCore_stale (not_pending_of_epoch_ne h), status_clusterNotFound, status_taskNotFound⟩

/-- the same for the delivered call — first delivery, duplicate, delayed delivery in a later round, or a
re-delivery at any later time (`Sys.redeliver`): the whole system state (broker, proxies, bag) is unchanged -/
theorem C07_stale_commit_delivery (s : Sys) (t : Task) {mi : MigInfo} (ht : tagInfo t.sr.tag = some mi)
    (h : ¬ PendingIn s.broker t.cluster t.sr.ranges (taskEpoch t)) (ch : String) :
    (exec s (.commit t) ch).1 = s ∧ (s.redeliver (.commit t)).1 = s ∧
    ((exec s (.commit t) ch).2 = .unit Err.clusterNotFound.code ∨
     (exec s (.commit t) ch).2 = .unit Err.migrationTaskNotFound.code) :=
  ⟨(exec_commit_stale s ht h ch).1, redeliver_commit_stale s ht h, (exec_commit_stale s ht h ch).2⟩

/-- **the destination is served before the source** -/
theorem C07_dst_before_src (hk : Hook) (st : RS) (t : Task) {mi : MigInfo} (ht : tagInfo t.sr.tag = some mi) :
    ∃ Lc Ld Ls, (syncMigrationState hk st t).1.issued = st.issued ++ Lc ++ Ld ++ Ls ∧
      (∀ c ∈ Lc, c = Call.commit t) ∧
      (∀ c ∈ Ld, callAddr c = some mi.dstProxy) ∧
      (∀ c ∈ Ls, callAddr c = some mi.srcProxy) ∧
      (Ls ≠ [] → (retrieveAndSend hk (st.call hk (.commit t)).1 mi.dstProxy).2 = true) :=
  syncMigrationState_order hk st t ht

/-- **what processes hold and what rounds send is never ahead of the broker** (hypothesis: C04) -/
theorem C07_coherent (s : Sys) (r : Round) (hev : EpochVersioning s.limit s.compress)
    (hbag : BagProv s) (h : Coherent s) :
    Coherent (runRound s r).1 ∧ BagProv (runRound s r).1 := by
  have g := runRound_goodP s r hbag
  exact ⟨reachP_coherent g.reach hev h, g.bag⟩

/-- a fault-free round of one coordinator -/
def ffRound (kind : Kind) (targets : List String) : Round0 :=
  { kind := kind, reporter := "c", faults := [], targets := targets, choices := [] }

theorem start_ff {s : Sys} (hb : s.bag = []) (r : Round0) (hr : r.faults = []) : FF (RS.start s r) :=
  ⟨rfl, hr, hb⟩

/-- **K = 2: one fault-free migration round, then one fault-free sync round.**
`polled` are the addresses the migration round polls (registered, not marked failed), `targets` the
order the ordered retriever yields in the sync round (validated by the model). -/
theorem C07_convergence (s : Sys) (hbag : s.bag = []) (hcoh : Coherent s)
    (hev : EpochVersioning s.limit s.compress) (hinv : CInv s.broker) (hok : AllOk s) (htag : WellTagged s)
    (targets : List String)
    (hvalid : isPermStr targets
      (retrieveOrdered noHook (RS.start (runRound0 s (ffRound .mig [])).1 (ffRound .sync targets))).2 = true) :
    let s1 := (runRound0 s (ffRound .mig [])).1
    let s2 := (runRound0 s1 (ffRound .sync targets)).1
    (∀ a ∈ targets, ∀ v, proxyView s2.broker a s2.limit = R.ok (some v) →
        ∃ p, s2.findP a = some p ∧ p.epoch = v.epoch ∧ p.cmeta = mkCMeta s2.compress v ∧
          p.replEpoch = v.epoch ∧ p.repl = mkRMeta v) ∧
    (∀ a ∈ (retrieveProxies noHook (RS.start s (ffRound .mig []))).2, ∀ p, s2.findP a = some p → p.up = true →
        ∀ t ∈ p.finished, ¬ PendingIn s2.broker t.cluster t.sr.ranges (taskEpoch t)) := by
  intro s1 s2
  have hvalid' : isPermStr targets (retrieveOrdered noHook (RS.start s1 (ffRound .sync targets))).2 = true := hvalid
  -- the migration round
  have ff0 := start_ff hbag (ffRound .mig []) rfl
  obtain ⟨m1, c1⟩ := migBody_commits (st := RS.start s (ffRound .mig [])) ff0 hinv hok htag
  have hs1 : s1 = (migBody noHook (RS.start s (ffRound .mig []))).sys := rfl
  have hbag1 : s1.bag = [] := by rw [hs1]; exact m1.ff.bag
  have g1 := runRound0_goodP s (ffRound .mig []) (by intro e he; rw [hbag] at he; cases he)
  have hcoh1 : Coherent s1 := reachP_coherent g1.reach hev hcoh
  have hok1 : AllOk s1 := by rw [hs1]; exact hok.mono m1
  have hl1 : s1.limit = s.limit := by rw [hs1]; exact m1.limit
  have hc1 : s1.compress = s.compress := by rw [hs1]; exact m1.compress
  -- the sync round
  have ff1 := start_ff hbag1 (ffRound .sync targets) rfl
  have hs2 : s2 = (syncBody noHook (RS.start s1 (ffRound .sync targets)) targets).sys := rfl
  have hle12 : Sys.le s1 s2 := reach_le (runRound0_reach s1 (ffRound .sync targets))
  have hb2 : ∀ a ∈ targets, ∀ v, proxyView s1.broker a s1.limit = R.ok (some v) →
      s2.broker = s1.broker ∧ ∃ p, s2.findP a = some p ∧ PSynced s1.compress v p := by
    intro a ha v hv
    rcases hok1 s1.broker CommitReach.refl a with hnone | ⟨v', p, hv', hp, hup, hh, hr⟩
    · rw [hnone] at hv; cases hv
    · rw [hv] at hv'
      have : v = v' := by injection hv' with h1; injection h1
      subst this
      have hg := hcoh1.good hv hp hup hh hr
      exact syncBody_converges (st := RS.start s1 (ffRound .sync targets)) ff1 targets hvalid ha hv hp hg
  have hbroker : s2.broker = s1.broker := by
    rw [hs2]
    unfold syncBody
    dsimp only
    obtain ⟨f0, e0⟩ := retrieveOrdered_ro ff1
    have hnc : (retrieveOrdered noHook (RS.start s1 (ffRound .sync targets))).1.crashed = false := f0.crashed
    simp only [hnc, hvalid', Bool.not_false, Bool.not_true, Bool.and_false, Bool.false_eq_true, if_false]
    have key : ∀ (l : List String) (st : RS), FF st →
        (l.foldl (fun st a => (retrieveAndSend noHook st a).1) st).sys.broker = st.sys.broker := by
      intro l
      induction l with
      | nil => intro st _; rfl
      | cons a as ih =>
        intro st hst
        obtain ⟨f, fr⟩ := retrieveAndSend_frame hst a
        simp only [List.foldl_cons]
        rw [ih _ f, fr.broker]
    rw [key _ _ f0, e0]
    rfl
  have hst2 := reach_static (runRound0_reach s1 (ffRound .sync targets))
  refine ⟨?_, ?_⟩
  · intro a ha v hv
    have hv1 : proxyView s1.broker a s1.limit = R.ok (some v) := by
      rw [← hbroker, ← hst2.1]; exact hv
    obtain ⟨_, p, hp, hs⟩ := hb2 a ha v hv1
    have hc2 : s2.compress = s1.compress := hst2.2.1
    exact ⟨p, hp, hs.epoch, by rw [hc2]; exact hs.cmeta, hs.replEpoch, hs.repl⟩
  · have c2 : Committed (retrieveProxies noHook (RS.start s (ffRound .mig []))).2 s2 :=
      Committed.mono (s := s1) c1 (by rw [hs1]; exact m1.cinv) (by rw [hbroker]; exact CommitReach.refl) hle12
    exact c2

/-! ## the broker-side hypotheses discharged -/

/-- C04 ⇒ the hypothesis of `C07_coherent` / `C07_convergence` -/
theorem C07_epochVersioning (limit : Nat) (compress : Bool) : EpochVersioning limit compress :=
  epochVersioning_holds limit compress

/-- every state of every execution (`SysReach`: rounds under any fault plan, flushes, bounded broker operations,
spawn / kill / restart, migrations finishing) is coherent, only has served payloads in flight, and only reports
tagged tasks -/
theorem C07_invariants_reachable (s : Sys) (hs : SysReach s) : Coherent s ∧ BagProv s ∧ WellTagged s :=
  ⟨(sysReach_inv hs).coh, (sysReach_inv hs).bag, (sysReach_inv hs).tag⟩

/-- `C07_commit_once` on every boundedly reachable broker state -/
theorem C07_commit_once_reachable {b s1 : Store} (hb : Um.Broker.Plan.ReachableB b) {name : String} {c : Cluster}
    (hf : b.findCluster name = some c) {ranges : RangeList} {epoch : Nat}
    (h : commitMigrationCore b name ranges epoch false = (s1, R.ok ())) :
    commitMigrationCore s1 name ranges epoch false = (s1, R.err Err.migrationTaskNotFound) ∧
    ¬ PendingIn s1 name ranges epoch ∧
    statusOf Err.migrationTaskNotFound.code = Um.Gen.Coord.COMMIT_OK_STATUS :=
  C07_commit_once hf (cinv_of_goodB (goodB_of_reachableB hb) name c hf) h

/-- `C07_convergence` from any state of any execution in which nothing is in flight any more -/
theorem C07_convergence_reachable (s : Sys) (hs : SysReach s) (hbag : s.bag = []) (henv : EnvOk s)
    (targets : List String)
    (hvalid : isPermStr targets
      (retrieveOrdered noHook (RS.start (runRound0 s (ffRound .mig [])).1 (ffRound .sync targets))).2 = true) :
    let s1 := (runRound0 s (ffRound .mig [])).1
    let s2 := (runRound0 s1 (ffRound .sync targets)).1
    (∀ a ∈ targets, ∀ v, proxyView s2.broker a s2.limit = R.ok (some v) →
        ∃ p, s2.findP a = some p ∧ p.epoch = v.epoch ∧ p.cmeta = mkCMeta s2.compress v ∧
          p.replEpoch = v.epoch ∧ p.repl = mkRMeta v) ∧
    (∀ a ∈ (retrieveProxies noHook (RS.start s (ffRound .mig []))).2, ∀ p, s2.findP a = some p → p.up = true →
        ∀ t ∈ p.finished, ¬ PendingIn s2.broker t.cluster t.sr.ranges (taskEpoch t)) := by
  have inv := sysReach_inv hs
  exact C07_convergence s hbag inv.coh (epochVersioning_holds _ _) (cinv_of_goodB inv.coh.reachable)
    (allOk_of_env inv.coh.reachable henv) inv.tag targets hvalid

/-- **C13 re-convergence.** The system was running (`s0`); the broker lost its state, came back from any
boundedly reachable snapshot `snap` (however stale) and ran `recover_epoch` with `E` at least every epoch a proxy
holds. Then every view it serves is newer than `E`, and K = 2 fault-free rounds make every target proxy hold
exactly the recovered view. -/
theorem C07_reconverge_after_recovery (s0 : Sys) (hs0 : SysReach s0) (snap : Store)
    (hsnap : Um.Broker.Plan.ReachableB snap) (E : Nat)
    (hE : ∀ a p, s0.findP a = some p → p.epoch ≤ E ∧ p.replEpoch ≤ E)
    (henv : EnvOk { s0 with broker := Um.Broker.Epoch.serviceRecoverEpoch snap E, bag := [], served := [] })
    (targets : List String)
    (hvalid : isPermStr targets (retrieveOrdered noHook (RS.start
      (runRound0 { s0 with broker := Um.Broker.Epoch.serviceRecoverEpoch snap E, bag := [], served := [] }
        (ffRound .mig [])).1 (ffRound .sync targets))).2 = true) :
    let s : Sys := { s0 with broker := Um.Broker.Epoch.serviceRecoverEpoch snap E, bag := [], served := [] }
    let s1 := (runRound0 s (ffRound .mig [])).1
    let s2 := (runRound0 s1 (ffRound .sync targets)).1
    (∀ a v, proxyView s.broker a s.limit = R.ok (some v) → E < v.epoch) ∧
    (∀ a ∈ targets, ∀ v, proxyView s2.broker a s2.limit = R.ok (some v) →
        ∃ p, s2.findP a = some p ∧ p.epoch = v.epoch ∧ p.cmeta = mkCMeta s2.compress v ∧
          p.replEpoch = v.epoch ∧ p.repl = mkRMeta v) := by
  intro s s1 s2
  have inv0 := sysReach_inv hs0
  have hreach : Reachable (Um.Broker.Epoch.serviceRecoverEpoch snap E) :=
    Um.Broker.C13.C13_recovered_reachable snap hsnap.reachable E
  have hall : Um.Broker.Plan.AllCInv (Um.Broker.Epoch.serviceRecoverEpoch snap E) :=
    storeInv_recoverEpoch snap _ (Um.Broker.Plan.cinv_reachableB snap hsnap)
  have hgood : GoodB s.broker := ⟨hreach, hall⟩
  have hviews := (Um.Broker.C13.C13_views_after_recovery snap hsnap.reachable E []).1
  have hG := (Um.Broker.C13.C13_recover snap E).1
  have hfind : ∀ a, s.findP a = s0.findP a := fun _ => rfl
  have hcoh : Coherent s := by
    refine ⟨hgood, (fun x hx => nomatch hx), ?_⟩
    intro a p hp
    have hp0 : s0.findP a = some p := hp
    obtain ⟨h1, h2⟩ := hE a p hp0
    refine ⟨⟨Nat.le_of_lt (Nat.lt_of_le_of_lt h1 hG), fun v hv => Or.inl ?_⟩,
      ⟨Nat.le_of_lt (Nat.lt_of_le_of_lt h2 hG), fun v hv => Or.inl ?_⟩⟩
    · exact Nat.lt_of_le_of_lt h1 (hviews a s.limit v hv)
    · exact Nat.lt_of_le_of_lt h2 (hviews a s.limit v hv)
  have htag : WellTagged s := fun x p hp t ht => inv0.tag x p hp t ht
  have hconv := C07_convergence s rfl hcoh (epochVersioning_holds _ _) (cinv_of_goodB hgood)
    (allOk_of_env hgood henv) htag targets hvalid
  exact ⟨fun a v hv => hviews a s.limit v hv, hconv.1⟩

/-! ## non-vacuity -/

/-- the install rule accepts a newer view … -/
example : ((PState.fresh "h:1" "h").setCluster 5 false CMeta.empty).1.epoch = 5 := by decide
/-- … refuses an equally old one (`OLD_EPOCH`, which `send_meta` counts as success) … -/
example : (((PState.fresh "h:1" "h").setCluster 5 false CMeta.empty).1.setCluster 5 false
    { CMeta.empty with cluster := "x" }).2 = MetaReply.oldEpoch := by decide
/-- … and the two exceptions of `C07_safety` are real: a forced `SETCLUSTER` and a restart do go back -/
example : (((PState.fresh "h:1" "h").setCluster 5 false CMeta.empty).1.setCluster 3 true CMeta.empty).1.epoch = 3 := by
  decide
example : (PState.fresh "h:1" "h").epoch = 0 := rfl

/-- `SysReach` is inhabited by the empty system and closed under every event, so the `_reachable` theorems apply
to every execution -/
example : ∃ s, SysReach s ∧ s.bag = [] ∧ SysReach (s.spawn "h:1" "h") := ⟨_, SysReach.init 1 1 false, rfl, SysReach.spawn _ _ (SysReach.init 1 1 false)⟩

/-- the worked example of C01 (two chunks, two migrations in flight) as a store -/
def exStore : Store := { Store.init with globalEpoch := 7, clusters := [exCluster] }

theorem exCluster_commitInv : CommitInv exCluster := by
  refine ⟨exCluster_posInv, exCluster_twinInv, ?_⟩
  intro m hm
  simp only [Cluster.migs, exCluster, Chunk.migs, exChunk0, exChunk1, List.flatMap_cons, List.flatMap_nil,
    List.append_nil, List.cons_append, List.nil_append, List.mem_cons, List.not_mem_nil, or_false] at hm
  rcases hm with rfl | rfl | rfl | rfl <;> exact Um.Broker.compact_of_normal (l := [_]) (by show _ ≤ _; decide)

/-- `C07_commit_once` applies to it: the first commit succeeds, so the second one is refused -/
example : ∃ s1, commitMigrationCore exStore "c" [(4096, 8191)] 7 false = (s1, R.ok ()) ∧
    commitMigrationCore s1 "c" [(4096, 8191)] 7 false = (s1, R.err Err.migrationTaskNotFound) := by
  have hf : exStore.findCluster "c" = some exCluster := by
    simp [exStore, Store.findCluster, exCluster]
  have hm : ({ ranges := [(4096, 8191)], isMigrating := true, mm := exMeta0 } : MigStore) ∈ exCluster.migs := by
    simp [Cluster.migs, exCluster, Chunk.migs, exChunk0]
  obtain ⟨_, _, _, _, _, _, _, _, _, _, hcore⟩ := commitCore_pending (s := exStore) hf exCluster_commitInv hm rfl
  exact ⟨_, hcore, (C07_commit_once hf exCluster_commitInv hcore).1⟩

/-- `C07_commit_stale` on the worked example: epoch 6 is not the epoch (7) of the pending migration of these ranges -/
example : commitMigrationCore exStore "c" [(4096, 8191)] 6 false = (exStore, R.err Err.migrationTaskNotFound) := by
  have hf : exStore.findCluster "c" = some exCluster := by simp [exStore, Store.findCluster, exCluster]
  apply commitCore_unknown (s := exStore) hf
  intro m hm _ hre
  simp only [Cluster.migs, exCluster, Chunk.migs, exChunk0, exChunk1, List.flatMap_cons, List.flatMap_nil,
    List.append_nil, List.cons_append, List.nil_append, List.mem_cons, List.not_mem_nil, or_false] at hm
  rcases hm with rfl | rfl | rfl | rfl <;> simp [exMeta0, exMeta1] at hre

/-! ## overlapping pushes to one proxy

"No proxy ever replaces its metadata by an older version" also has to hold when two pushes to the
same proxy overlap (two coordinators, a delayed push overtaken by the next epoch, the proxy-sync
and the migration-sync loop of one coordinator). The coordinator never sets `FORCE`; for unforced
callers the interleaving model of `MetaManager::set_meta` (`UmModel/SetMetaConc.lean`, tied to the
code by the `setmeta_conc` stream that this check runs too) gives, for every interleaving of any
number of callers at the granularity of the shared-memory accesses: no step lowers the installed
epoch. (`C05_cluster_concurrent` is the full linearizability statement.) -/

theorem C07_overlapping_pushes {C : Type} (announce : Bytes) (e0 : Nat) (c0 : C)
    (ls : List (SetMetaConc.Label C)) (s s' : SetMetaConc.Sys C) (l : SetMetaConc.Label C)
    (hrun : SetMetaConc.replay announce (SetMetaConc.Sys.init e0 c0) ls = some s)
    (hstep : SetMetaConc.step? announce s l = some s')
    (hnf : ∀ c ∈ s.callers, c.msg.force = false) : s.epoch ≤ s'.epoch := by
  by_cases h : s'.epoch < s.epoch
  · obtain ⟨i, c, _, hci, _, hf⟩ := Um.C05.C05_cluster_concurrent_step announce e0 c0 ls s s' l hrun hstep h
    have hm : c ∈ s.callers := List.mem_of_getElem? hci
    rw [hnf c hm] at hf
    cases hf
  · omega

end Um.Coord.C07
