/-!
# C11 — the pre-switch barrier (`src/proxy/blocking.rs`, `src/common/biatomic.rs`)

Interleaving small-step semantics at the granularity of the individual SeqCst operations.
One model step = one thread leaves the scheduling point (`verif_hook::point`) it is parked at,
performs the atomic operation that follows the point and runs (thread-local code only) to its
next scheduling point.  Points (all of them, in source order):

* `blocking.ref_inc`      `RefAutoCounter::new`      `running.fetch_add(1)`
* `biatomic.load`         `BiAtomicU32::load`        read `(count, term)`
* `blocking.counter_inc`  `AutoCounter::new`         `running.fetch_add(1)`
* `blocking.hand`         `inner_sender.send(counter_task)`
* `blocking.counter_dec`  `AutoCounter::drop`        `running.fetch_sub(1)`
* `blocking.ref_dec`      `RefAutoCounter::drop`     `running.fetch_sub(1)`
* `blocking.queue_push`   `queue_sender.send(task)`
* `blocking.queue_pop`    `queue_receiver.try_recv()` (one iteration of `release_all`)
* `blocking.redispatch`   `blocking_task_sender.send(task)`
* `blocking.done_load`    `running.load() == 0`      (`blocking_done`)
* `biatomic.cas_load` / `biatomic.cas_xchg`          the two halves of `compare_and_apply`

Shared state: `running : Int` (`AtomicI64`, wrap-around at 2^63 not modelled), the CAS word
`(count, term)` (two `u32`, arithmetic wraps modulo 2^32 as in a release build) and the
crossbeam FIFO `queue`.  Tasks are identified by the index of the sender thread that sends them.
-/
namespace Um.Barrier

/-- `BlockingHint` -/
inductive Hint where
  | notBlocking
  | notBlockingInMigration (cmdTerm : Nat)
  | blocking
  deriving DecidableEq, Repr

/-- how `TaskBlockingQueue::send` ended (the caller only sees `Ok(())` for `okHanded`/`okQueued`
and `Err(Retry(task))` for `errInner`/`retry`) -/
inductive Ret where
  | okHanded   -- handed to the inner (backend) sender, which accepted it
  | errInner   -- the inner sender answered `Retry(task)`: the task goes back to the caller
  | retry      -- the hint says "blocking" although the state does not: `Err(Retry(task))`
  | okQueued   -- parked in the blocking queue
  deriving DecidableEq, Repr

/-- program counter of a sender thread = the scheduling point it is parked at -/
inductive SPc where
  | refInc              -- `blocking.ref_inc`
  | load1               -- `biatomic.load` (first `get_blocking_state`)
  | ctrInc              -- `blocking.counter_inc` (`CounterTask::new`)
  | hand                -- `blocking.hand`
  | ctrDecErr           -- `blocking.counter_dec`: `map_task(|t| t.into_inner())` after inner `Retry`
  | refDecOk            -- `blocking.ref_dec` at `return` after the inner sender accepted
  | refDecErr           -- `blocking.ref_dec` at `return` after the inner sender refused
  | refDecRetry         -- `blocking.ref_dec` at `return Err(Retry)` (hint verdict)
  | refDecQ             -- `blocking.ref_dec` at `drop(counter)` before enqueueing
  | push                -- `blocking.queue_push`
  | load2               -- `biatomic.load` (re-check after the enqueue)
  | pop                 -- `blocking.queue_pop` (inside `release_all`)
  | redisp (u : Nat)    -- `blocking.redispatch` holding task `u`
  | reply               -- `send` returned `Ok`; the backend still holds the `CounterTask`;
                        --   parked at `blocking.counter_dec` of the reply/drop
  | fin (r : Ret)
  deriving DecidableEq, Repr

structure Sender where
  hint : Hint
  /-- does the inner sender accept the task (`Ok`) or give it back (`Err(Retry(task))`) -/
  innerOk : Bool
  pc : SPc
  deriving DecidableEq, Repr

/-- commands of a controller thread -/
inductive Cmd where
  | start   -- `start_blocking()` (keeps the handle)
  | poll    -- one `blocking_done()`
  | await   -- `while !blocking_done() { sleep }` : poll until the answer is `true` (`pre_block`)
  | drop    -- drop the `BlockingHandle`
  | stop    -- `stop_blocking()` (= `release_all`, no state change)
  deriving DecidableEq, Repr

/-- program counter of a controller thread.  `casLoad`/`casXchg` belong to
`BlockingHandle::new` when the thread holds no handle and to `BlockingHandle::drop` when it
holds one (a thread holds at most one handle; two handles = two threads). -/
inductive CPc where
  | casLoad                   -- `biatomic.cas_load`
  | casXchg (c t : Nat)       -- `biatomic.cas_xchg` with the word read at `cas_load`
  | doneLoad                  -- `blocking.done_load`
  | doneLoadW                 -- `blocking.done_load` inside the wait loop of `await`
  | pop                       -- `blocking.queue_pop`
  | redisp (u : Nat)          -- `blocking.redispatch`
  | fin
  deriving DecidableEq, Repr

structure Ctrl where
  prog : List Cmd
  held : Bool
  pc : CPc
  deriving DecidableEq, Repr

structure Shared where
  running : Int
  count : Nat
  term : Nat
  queue : List Nat
  deriving DecidableEq, Repr

structure State where
  sh : Shared
  senders : List Sender
  ctrls : List Ctrl
  deriving DecidableEq, Repr

/-- thread identifiers = scheduling choices -/
inductive Tid where
  | s (i : Nat)
  | c (j : Nat)
  deriving DecidableEq, Repr

/-- what a step shows to the outside -/
inductive Obs where
  | tau
  | handed (i : Nat) (ok : Bool)   -- `inner_sender.send` called with task `i`
  | enq (i : Nat)                  -- task `i` pushed on the blocking queue
  | redisp (u : Nat)               -- `blocking_task_sender.send(u)`
  | ret (r : Ret)                  -- `send` returned
  | polled (b : Bool)              -- `blocking_done()` returned `b`
  deriving DecidableEq, Repr

def U32 : Nat := 4294967296

/-- the `match cmd_blocking_hint` inside `if !blocking` : `true` = treat as blocking (retry) -/
def hintBlocks (h : Hint) (term : Nat) : Bool :=
  match h with
  | .notBlocking => false
  | .notBlockingInMigration cmdTerm => if term ≤ cmdTerm then false else true
  | .blocking => true

/-- one step of sender thread `i` (its task is `i`) -/
def stepS (sh : Shared) (i : Nat) (s : Sender) : Option (Shared × Sender × Obs) :=
  match s.pc with
  | .refInc => some ({ sh with running := sh.running + 1 }, { s with pc := .load1 }, .tau)
  | .load1 =>
    if sh.count > 0 then some (sh, { s with pc := .refDecQ }, .tau)
    else if hintBlocks s.hint sh.term then some (sh, { s with pc := .refDecRetry }, .tau)
    else some (sh, { s with pc := .ctrInc }, .tau)
  | .ctrInc => some ({ sh with running := sh.running + 1 }, { s with pc := .hand }, .tau)
  | .hand =>
    if s.innerOk then some (sh, { s with pc := .refDecOk }, .handed i true)
    else some (sh, { s with pc := .ctrDecErr }, .handed i false)
  | .ctrDecErr => some ({ sh with running := sh.running - 1 }, { s with pc := .refDecErr }, .tau)
  | .refDecOk => some ({ sh with running := sh.running - 1 }, { s with pc := .reply }, .ret .okHanded)
  | .refDecErr =>
    some ({ sh with running := sh.running - 1 }, { s with pc := .fin .errInner }, .ret .errInner)
  | .refDecRetry =>
    some ({ sh with running := sh.running - 1 }, { s with pc := .fin .retry }, .ret .retry)
  | .refDecQ => some ({ sh with running := sh.running - 1 }, { s with pc := .push }, .tau)
  | .push => some ({ sh with queue := sh.queue ++ [i] }, { s with pc := .load2 }, .enq i)
  | .load2 =>
    if sh.count > 0 then some (sh, { s with pc := .fin .okQueued }, .ret .okQueued)
    else some (sh, { s with pc := .pop }, .tau)
  | .pop =>
    match sh.queue with
    | [] => some (sh, { s with pc := .fin .okQueued }, .ret .okQueued)
    | u :: q => some ({ sh with queue := q }, { s with pc := .redisp u }, .tau)
  | .redisp u => some (sh, { s with pc := .pop }, .redisp u)
  | .reply => some ({ sh with running := sh.running - 1 }, { s with pc := .fin .okHanded }, .tau)
  | .fin _ => none

/-- first scheduling point of the rest of a controller program; `start` while holding a handle
and `drop` while holding none are skipped -/
def next (held : Bool) : List Cmd → CPc × List Cmd
  | [] => (.fin, [])
  | .start :: p => if held then next held p else (.casLoad, p)
  | .drop :: p => if held then (.casLoad, p) else next held p
  | .poll :: p => (.doneLoad, p)
  | .await :: p => (.doneLoadW, p)
  | .stop :: p => (.pop, p)

def advance (c : Ctrl) (held : Bool) : Ctrl :=
  { prog := (next held c.prog).2, held := held, pc := (next held c.prog).1 }

/-- one step of a controller thread -/
def stepC (sh : Shared) (c : Ctrl) : Option (Shared × Ctrl × Obs) :=
  match c.pc with
  | .casLoad => some (sh, { c with pc := .casXchg sh.count sh.term }, .tau)
  | .casXchg oc ot =>
    if sh.count = oc ∧ sh.term = ot then
      if c.held then
        -- `BlockingHandle::drop`: (count - 1, term + 1); `release_all` iff the old count was 1
        let sh' := { sh with count := (oc + (U32 - 1)) % U32, term := (ot + 1) % U32 }
        if oc = 1 then some (sh', { c with held := false, pc := .pop }, .tau)
        else some (sh', advance c false, .tau)
      else
        -- `BlockingHandle::new`: (count + 1, term + 1)
        some ({ sh with count := (oc + 1) % U32, term := (ot + 1) % U32 }, advance c true, .tau)
    else some (sh, { c with pc := .casLoad }, .tau)
  | .doneLoad => some (sh, advance c c.held, .polled (sh.running == 0))
  | .doneLoadW =>
    -- the loop is left only with the answer `true`
    if sh.running == 0 then some (sh, advance c c.held, .polled true)
    else some (sh, c, .polled false)
  | .pop =>
    match sh.queue with
    | [] => some (sh, advance c c.held, .tau)
    | u :: q => some ({ sh with queue := q }, { c with pc := .redisp u }, .tau)
  | .redisp u => some (sh, { c with pc := .pop }, .redisp u)
  | .fin => none

/-- the executable global step: thread `t` performs its next atomic operation -/
def step? (st : State) : Tid → Option (State × Obs)
  | .s i =>
    match st.senders[i]? with
    | none => none
    | some s =>
      match stepS st.sh i s with
      | none => none
      | some (sh', s', o) => some ({ sh := sh', senders := st.senders.set i s', ctrls := st.ctrls }, o)
  | .c j =>
    match st.ctrls[j]? with
    | none => none
    | some c =>
      match stepC st.sh c with
      | none => none
      | some (sh', c', o) => some ({ sh := sh', senders := st.senders, ctrls := st.ctrls.set j c' }, o)

def mkSender (p : Hint × Bool) : Sender := { hint := p.1, innerOk := p.2, pc := .refInc }

def mkCtrl (prog : List Cmd) : Ctrl := advance { prog := prog, held := false, pc := .fin } false

/-- `TaskBlockingQueue::new` + the thread pools at their first scheduling points -/
def init (ss : List (Hint × Bool)) (ps : List (List Cmd)) : State :=
  { sh := { running := 0, count := 0, term := 0, queue := [] },
    senders := ss.map mkSender, ctrls := ps.map mkCtrl }

/-- run a schedule; `none` if a scheduled thread cannot step -/
def runSched (st : State) : List Tid → Option (State × List (Tid × Obs))
  | [] => some (st, [])
  | t :: ts =>
    match step? st t with
    | none => none
    | some (st', o) =>
      match runSched st' ts with
      | none => none
      | some (st'', tr) => some (st'', (t, o) :: tr)

/-! ### printing (used by the driver) -/

def SPc.point : SPc → String
  | .refInc => "blocking.ref_inc"
  | .load1 => "biatomic.load"
  | .ctrInc => "blocking.counter_inc"
  | .hand => "blocking.hand"
  | .ctrDecErr => "blocking.counter_dec"
  | .refDecOk => "blocking.ref_dec"
  | .refDecErr => "blocking.ref_dec"
  | .refDecRetry => "blocking.ref_dec"
  | .refDecQ => "blocking.ref_dec"
  | .push => "blocking.queue_push"
  | .load2 => "biatomic.load"
  | .pop => "blocking.queue_pop"
  | .redisp _ => "blocking.redispatch"
  | .reply => "blocking.counter_dec"
  | .fin _ => "end"

def CPc.point : CPc → String
  | .casLoad => "biatomic.cas_load"
  | .casXchg _ _ => "biatomic.cas_xchg"
  | .doneLoad => "blocking.done_load"
  | .doneLoadW => "blocking.done_load"
  | .pop => "blocking.queue_pop"
  | .redisp _ => "blocking.redispatch"
  | .fin => "end"

def Obs.render : Obs → String
  | .tau => "tau"
  | .handed i ok => s!"handed:{i}:{if ok then "ok" else "err"}"
  | .enq i => s!"enq:{i}"
  | .redisp u => s!"redisp:{u}"
  | .ret .okHanded => "ret:ok"
  | .ret .okQueued => "ret:ok"
  | .ret .errInner => "ret:retry"
  | .ret .retry => "ret:retry"
  | .polled b => s!"polled:{if b then 1 else 0}"

end Um.Barrier
