import UmModel.BrokerOps
import UmGen.CoordTables
/-!
# C07 — the control plane: coordinator rounds over broker + proxies + a faulty network

Sources: `src/coordinator/{core,sync,migration,detector,recover,service,http_meta_broker,
http_mani_broker}.rs`, `src/proxy/manager.rs` (`set_meta`), `src/replication/manager.rs`
(`update_replicators`), `src/migration/manager.rs` (`update_from_old_task_map`,
`get_finished_tasks`), `src/proxy/executor.rs` (`UMCTL SETCLUSTER|SETREPL|INFOMGR`).

* `Sys` = the broker `Store` + one `PState` per proxy process + the bag of delayed calls.
* `Call` = one message the coordinator sends (to the broker API or to a proxy); `exec` = its
  effect when it is delivered.  Every state change of a round goes through `exec`.
* A round (`syncRound`, `migRound`, `detectRound`, `failoverRound`) issues its calls in the order
  the code does.  `call` applies the fault plan to the `k`-th call of the round: delivered,
  request dropped, reply dropped, duplicated, delayed by `d` later calls, or the round cut
  (coordinator crash) just before it; a *nested* round of another coordinator may run between
  two calls.
* HashMap-order dependent data: listings are compared as sorted lists (the in-process broker
  adapter of the harness sorts them); the order in which `BrokerOrderedProxiesRetriever`
  yields the addresses (it depends on `sort_unstable_by` with a non-total comparator, DESIGN §7
  F6) and the replacement proxy chosen by `replace_proxy` are *inputs* (`targets`, `choices`)
  that the model validates.
* `served` is a ghost log of every view a `get_proxy` call returned; it is never rendered.
-/
namespace Um.Coord
open Um Um.Broker Um.Slots

/-! ## payloads -/

/-- association list standing for a `HashMap<String, _>`: `insert` = replace or append -/
def amapInsert {β : Type} (l : List (String × β)) (k : String) (v : β) : List (String × β) :=
  if l.any (·.1 == k) then l.map fun e => if e.1 == k then (k, v) else e else l ++ [(k, v)]

def sortByKey {β : Type} (l : List (String × β)) : List (String × β) :=
  l.mergeSort fun a b => decide (a.1 ≤ b.1)

/-- what `NodeMap::to_args` + `NodeMap::parse` leave of a `HashMap<String, Vec<SlotRange>>`:
entries with an empty list vanish — unless the map travels compressed (`to_compressed_args`
serialises the whole map, empty lists included); canonical order = by key -/
def normMap (compress : Bool) (l : List (String × List SlotRange)) : List (String × List SlotRange) :=
  sortByKey (if compress then l else l.filter fun e => !e.2.isEmpty)

/-- content of `UMCTL SETCLUSTER` besides epoch and flags (`ProxyClusterMeta`) -/
structure CMeta where
  cluster : String
  locals : List (String × List SlotRange)
  peers : List (String × List SlotRange)
  config : Config
  deriving DecidableEq, Repr

structure RMaster where
  cluster : String
  node : String
  replicas : List (String × String)
  deriving DecidableEq, Repr

structure RReplica where
  cluster : String
  node : String
  masters : List (String × String)
  deriving DecidableEq, Repr

/-- content of `UMCTL SETREPL` besides epoch and flags (`ReplicatorMeta`) -/
structure RMeta where
  masters : List RMaster
  replicas : List RReplica
  deriving DecidableEq, Repr

def CMeta.empty : CMeta := { cluster := "", locals := [], peers := [], config := defaultConfig }
def RMeta.empty : RMeta := { masters := [], replicas := [] }

/-- `Proxy::into_nodes` / `get_nodes`: empty for a free proxy -/
def clusterNodes (v : VProxy) : List VNode := if v.cluster.isNone then [] else v.nodes

/-- `generate_proxy_meta_cmd_args ∘ filter_proxy_masters` (`src/coordinator/sync.rs`) -/
def mkCMeta (compress : Bool) (v : VProxy) : CMeta :=
  let masters := (clusterNodes v).filter fun n => !n.replica
  let nodeMap := masters.foldl (fun m n => amapInsert m n.address n.slots) []
  let peerMap := v.peers.foldl (fun m p => amapInsert m p.proxy p.slots) []
  { cluster := v.cluster.getD "", locals := normMap compress nodeMap, peers := normMap compress peerMap,
    config := v.config.getD defaultConfig }

/-- `generate_repl_meta_cmd_args` -/
def mkRMeta (v : VProxy) : RMeta :=
  match v.cluster with
  | none => { masters := v.nodes.map fun n => { cluster := "", node := n.address, replicas := [] },
              replicas := [] }
  | some c =>
    { masters := (v.nodes.filter fun n => !n.replica).map fun n =>
        { cluster := c, node := n.address, replicas := n.peers },
      replicas := (v.nodes.filter fun n => n.replica).map fun n =>
        { cluster := c, node := n.address, masters := n.peers } }

/-- `MigrationTaskMeta` -/
structure Task where
  cluster : String
  sr : SlotRange
  deriving DecidableEq, Repr

def tagInfo : Tag → Option MigInfo
  | .none => none
  | .migrating m => some m
  | .importing m => some m

/-! ## one proxy process -/

structure PState where
  addr : String
  host : String            -- `announce_host`
  up : Bool
  epoch : Nat              -- `MetaManager::epoch`
  cmeta : CMeta            -- installed cluster map
  tasks : List (Task × Bool)   -- migration tasks of the installed map, `true` = SwitchCommitted
  replEpoch : Nat          -- `ReplicatorManager::replicators.0`
  repl : RMeta
  deriving Repr

def PState.fresh (addr host : String) : PState :=
  { addr := addr, host := host, up := true, epoch := 0, cmeta := CMeta.empty, tasks := [],
    replEpoch := 0, repl := RMeta.empty }

/-- `extract_host_from_address(a) == Some(host)` -/
def hostIs (a host : String) : Bool := a.toList.contains ':' && hostOfAddr a == host

/-- `NodeMap::check_hosts` on the local map -/
def hostsOk (host : String) (m : CMeta) : Bool := m.locals.all fun e => hostIs e.1 host

/-- the validation loop of `update_replicators` -/
def replHostsOk (host : String) (r : RMeta) : Bool :=
  (r.masters.all fun x => hostIs x.node host) && (r.replicas.all fun x => hostIs x.node host)

/-- keys of the new `MigrationMap`: every tagged local range -/
def tasksOf (m : CMeta) : List Task :=
  (m.locals.flatMap fun e => e.2.filterMap fun sr =>
    match sr.tag with
    | .none => none
    | _ => some { cluster := m.cluster, sr := sr }).eraseDups

/-- `update_from_old_task_map`: a task whose key is unchanged is kept with its state -/
def carryTasks (old : List (Task × Bool)) (m : CMeta) : List (Task × Bool) :=
  (tasksOf m).map fun t => (t, ((old.find? (·.1 == t)).map (·.2)).getD false)

inductive MetaReply where
  | ok | oldEpoch | notMyMeta
  deriving DecidableEq, Repr

/-- `MetaManager::set_meta` -/
def PState.setCluster (p : PState) (epoch : Nat) (force : Bool) (m : CMeta) : PState × MetaReply :=
  if !hostsOk p.host m then (p, .notMyMeta)
  else if decide (epoch ≤ p.epoch) && !force then (p, .oldEpoch)
  else ({ p with epoch := epoch, cmeta := m, tasks := carryTasks p.tasks m }, .ok)

/-- `ReplicatorManager::update_replicators` (sequential: `updating_epoch = replicators.0`) -/
def PState.setRepl (p : PState) (epoch : Nat) (force : Bool) (r : RMeta) : PState × MetaReply :=
  if !replHostsOk p.host r then (p, .notMyMeta)
  else if !force && decide (p.replEpoch ≥ epoch) then (p, .oldEpoch)
  else ({ p with replEpoch := epoch, repl := r }, .ok)

/-- `get_finished_tasks` -/
def PState.finished (p : PState) : List Task := (p.tasks.filter (·.2)).map (·.1)

/-! ## the system -/

/-- ghost record of one served view -/
structure Served where
  addr : String
  epoch : Nat
  cm : CMeta
  rm : RMeta
  deriving Repr

inductive Call where
  | clusterNames (offset : Nat)
  | cluster (name : String)
  | proxyAddrs (offset : Nat)
  | failedProxies
  | getProxy (a : String)
  | addFailure (a reporter : String)
  | getFailures
  | replaceProxy (a : String)
  | commit (t : Task)
  | connect (a : String)
  | setRepl (a : String) (epoch : Nat) (r : RMeta)
  | setCluster (a : String) (epoch : Nat) (m : CMeta)
  | infoMgr (a : String)
  | ping (a : String)
  deriving Repr

inductive CallReply where
  | names (l : List String)
  | cluster (c : Option VCluster)
  | proxy (p : Option VProxy)
  | unit (code : String)           -- success; `code` = broker error code mapped to success, or ""
  | replaced (o : Option String)
  | fail (code : String)           -- the caller sees an error
  | mrep (r : MetaReply)
  | tasks (l : List Task)
  | pong
  | connected
  | refused
  deriving Repr

structure Sys where
  broker : Store
  limit : Nat              -- `migration_limit`
  compress : Bool          -- `enable_compression` of the coordinators
  quorum : Nat             -- `failure_quorum`
  proxies : List PState
  bag : List (Nat × Call)  -- delayed calls: delivered after that many further calls
  served : List Served     -- ghost
  deriving Repr

def Sys.init (limit quorum : Nat) (compress : Bool) : Sys :=
  { broker := Store.init, limit := limit, compress := compress, quorum := quorum, proxies := [], bag := [], served := [] }

def Sys.findP (s : Sys) (a : String) : Option PState := s.proxies.find? (·.addr == a)

def Sys.setP (s : Sys) (p : PState) : Sys :=
  { s with proxies := s.proxies.map fun q => if q.addr == p.addr then p else q }

def statusOf (code : String) : Nat := ((Um.Gen.Coord.statusTable.find? (·.1 == code)).map (·.2)).getD 500

def page (l : List String) (offset : Nat) : List String := (l.drop offset).take Um.Gen.Coord.PAGE_SIZE

/-- `get_failures` without expiry (all reports are younger than `failure_ttl`; DESIGN §6 C18 has
the clock): addresses with at least `quorum` reporters that are still registered -/
def getFailures (b : Store) (quorum : Nat) : List String :=
  sortStr ((b.failures.filter fun e => decide (e.2.length ≥ quorum) && (b.findProxy e.1).isSome).map (·.1))

def taskEpoch (t : Task) : Nat := ((tagInfo t.sr.tag).map (·.epoch)).getD 0

/-- the new broker state of an API call: a refused call keeps what the mutator left behind, a
panicking one (the real service holds a lock guard while unwinding; the adapter reports an error)
leaves the state as it was -/
def keepOnPanic {α : Type} (old : Store) (p : Store × R α) : Store :=
  match p.2 with
  | .ok _ => p.1
  | .err _ => p.1
  | .panic _ => old
  | .badChoice _ => old

/-- effect and reply of one delivered call; `choice` = the replacement the implementation chose
(only read by `replaceProxy`) -/
def exec (s : Sys) (c : Call) (choice : String) : Sys × CallReply :=
  match c with
  | .clusterNames off => (s, .names (page (sortStr (s.broker.clusters.map (·.name))) off))
  | .cluster name =>
    match clusterView s.broker name s.limit with
    | .ok o => (s, .cluster o)
    | _ => (s, .fail "PANIC")
  | .proxyAddrs off => (s, .names (page (sortStr (s.broker.proxies.map (·.addr))) off))
  | .failedProxies => (s, .names (sortStr s.broker.failed))
  | .getProxy a =>
    match proxyView s.broker a s.limit with
    | .ok (some v) =>
      ({ s with served := s.served ++ [{ addr := a, epoch := v.epoch, cm := mkCMeta s.compress v, rm := mkRMeta v }] },
       .proxy (some v))
    | .ok none => (s, .proxy none)
    | _ => (s, .fail "PANIC")
  | .addFailure a r => ({ s with broker := (addFailure s.broker a r 0).1 }, .unit "")
  | .getFailures => (s, .names (getFailures s.broker s.quorum))
  | .replaceProxy a =>
    let p := replaceFailedProxy s.broker a choice
    let s' := { s with broker := keepOnPanic s.broker p }
    match p.2 with
    | .ok o => (s', .replaced o)
    | .err e => (s', .fail (if statusOf e.code == Um.Gen.Coord.REPLACE_RETRY_STATUS then "Retry:" ++ e.code else "InvalidReply:" ++ e.code))
    | .panic _ => (s', .fail "PANIC")
    | .badChoice w => (s', .fail ("BAD-CHOICE " ++ w))
  | .commit t =>
    let tagNone := match t.sr.tag with | .none => true | _ => false
    let p := commitMigration s.broker t.cluster t.sr.ranges (taskEpoch t) tagNone false
    let s' := { s with broker := keepOnPanic s.broker p }
    match p.2 with
    | .ok _ => (s', .unit "")
    | .err e =>
      if statusOf e.code == Um.Gen.Coord.COMMIT_OK_STATUS then (s', .unit e.code)
      else if statusOf e.code == Um.Gen.Coord.COMMIT_RETRY_STATUS then (s', .fail ("Retry:" ++ e.code))
      else (s', .fail ("InvalidReply:" ++ e.code))
    | _ => (s', .fail "PANIC")
  | .connect a =>
    match s.findP a with
    | some p => if p.up then (s, .connected) else (s, .refused)
    | none => (s, .refused)
  | .setRepl a e r =>
    match s.findP a with
    | some p =>
      if p.up then let q := p.setRepl e Um.Gen.Coord.COORDINATOR_FORCE r; (s.setP q.1, .mrep q.2) else (s, .refused)
    | none => (s, .refused)
  | .setCluster a e m =>
    match s.findP a with
    | some p =>
      if p.up then let q := p.setCluster e Um.Gen.Coord.COORDINATOR_FORCE m; (s.setP q.1, .mrep q.2) else (s, .refused)
    | none => (s, .refused)
  | .infoMgr a =>
    match s.findP a with
    | some p => if p.up then (s, .tasks p.finished) else (s, .refused)
    | none => (s, .refused)
  | .ping a =>
    match s.findP a with
    | some p => if p.up then (s, .pong) else (s, .refused)
    | none => (s, .refused)

/-! ## environment events (between rounds) -/

/-- a proxy process is started (or restarted with empty state) -/
def Sys.spawn (s : Sys) (addr host : String) : Sys :=
  if (s.findP addr).isSome then s.setP (PState.fresh addr host)
  else { s with proxies := s.proxies ++ [PState.fresh addr host] }

def Sys.kill (s : Sys) (addr : String) : Sys :=
  match s.findP addr with
  | some p => s.setP { p with up := false }
  | none => s

/-- restart = the process comes back with the initial state (epoch 0, empty maps) -/
def Sys.restart (s : Sys) (addr : String) : Sys :=
  match s.findP addr with
  | some p => s.setP (PState.fresh p.addr p.host)
  | none => s

/-- `UMCTL SETCLUSTER … FORCE` sent by an operator -/
def Sys.force (s : Sys) (addr : String) (epoch : Nat) (m : CMeta) : Sys :=
  match s.findP addr with
  | some p => if p.up then s.setP (p.setCluster epoch true m).1 else s
  | none => s

def isMigratingTask (t : Task) : Bool := match t.sr.tag with | .migrating _ => true | _ => false

/-- the importing twin of a migrating task: same cluster, ranges and meta -/
def twinOf (t : Task) : Task :=
  match t.sr.tag with
  | .migrating m => { t with sr := { t.sr with tag := .importing m } }
  | _ => t

def markFinished (p : PState) (t : Task) : PState :=
  { p with tasks := p.tasks.map fun e => if e.1 == t then (e.1, true) else e }

/-- the data migration of the source proxy's task `t` runs to `SwitchCommitted` on both sides.
Enabled iff both processes are up, the destination holds the twin task and has an epoch at
least the task's (`handle_switch`).  `none` = not enabled. -/
def Sys.finish (s : Sys) (src : String) (t : Task) : Option Sys :=
  match s.findP src, (tagInfo t.sr.tag) with
  | some ps, some mi =>
    match s.findP mi.dstProxy with
    | some pd =>
      if ps.up && pd.up && isMigratingTask t && ps.tasks.any (·.1 == t) && pd.tasks.any (·.1 == twinOf t)
          && decide (mi.epoch ≤ pd.epoch) then
        if src == mi.dstProxy then
          some (s.setP (markFinished (markFinished ps t) (twinOf t)))
        else some ((s.setP (markFinished ps t)).setP (markFinished pd (twinOf t)))
      else none
    | none => none
  | _, _ => none

/-! ## canonical text (must match `harness/src/bin/umh_coordinator.rs`) -/

def renderMap (l : List (String × List SlotRange)) : String :=
  String.intercalate ";" (l.map fun e => s!"{e.1}\{{String.intercalate "," (e.2.map renderSlotRange)}}")

def renderCMeta (m : CMeta) : String :=
  s!"c={m.cluster}|L={renderMap m.locals}|P={renderMap m.peers}|cfg={renderCfg m.config}"

def renderPeers (l : List (String × String)) : String := String.intercalate "," (l.map fun p => s!"{p.1}@{p.2}")

def renderRMeta (r : RMeta) : String :=
  let ms := sortStr (r.masters.map fun x => s!"M:{x.cluster}/{x.node}[{renderPeers x.replicas}]")
  let rs := sortStr (r.replicas.map fun x => s!"R:{x.cluster}/{x.node}[{renderPeers x.masters}]")
  String.intercalate ";" (ms ++ rs)

/-- `MigrationTaskMeta::into_strings().join(" ")` with the range list in `render` form -/
def renderTask (t : Task) : String := s!"{t.cluster}:{renderSlotRange t.sr}"

/-- what the harness can see of a slot range through `UMCTL INFO` (the tag constructor is not
printed there): ranges + meta, direction re-derived from the holder -/
def renderSeenRange (holderIsNode : Bool) (holder : String) (sr : SlotRange) : String :=
  match tagInfo sr.tag with
  | none => render sr.ranges
  | some m =>
    let isSrc := if holderIsNode then holder == m.srcNode else holder == m.srcProxy
    let isDst := if holderIsNode then holder == m.dstNode else holder == m.dstProxy
    let k := if isSrc && !isDst then "M" else if isDst && !isSrc then "I" else "X"
    s!"{render sr.ranges}!{k}({m.epoch},{m.srcProxy},{m.srcNode},{m.dstProxy},{m.dstNode})"

def renderSeenMap (isNode : Bool) (l : List (String × List SlotRange)) : String :=
  String.intercalate ";" (l.map fun e =>
    s!"{e.1}\{{String.intercalate "," (e.2.map (renderSeenRange isNode e.1))}}")

def renderPState (p : PState) : String :=
  if !p.up then s!"{p.addr}|down" else
  let fin := String.intercalate ";" (sortStr (p.finished.map renderTask))
  s!"{p.addr}|e={p.epoch}|c={p.cmeta.cluster}|L={renderSeenMap true p.cmeta.locals}|P={renderSeenMap false p.cmeta.peers}|cfg={renderCfg p.cmeta.config}|R={renderRMeta p.repl}|T={p.tasks.length}|F={fin}"

def hex16 (n : UInt64) : String :=
  let s := (Nat.toDigits 16 n.toNat)
  String.ofList (List.replicate (16 - s.length) '0' ++ s)

/-- pending `(cluster, ranges, epoch)` of the broker, sorted -/
def renderPending (b : Store) : String :=
  String.intercalate "," (sortStr (b.clusters.flatMap fun c =>
    (c.chunks.flatMap fun ch => (ch.mig0 ++ ch.mig1).filter (·.isMigrating)).map fun m =>
      s!"{c.name}:{render m.ranges}@{m.mm.epoch}"))

def renderBrokerDigest (b : Store) : String :=
  s!"g={b.globalEpoch} pend={renderPending b} store={hex16 (fnv64 (renderStore b))}"

/-- the per-call observation: per proxy `(epoch, digest)`, then the broker -/
def renderDigest (s : Sys) : String :=
  let ps := (s.proxies.mergeSort fun a b => decide (a.addr ≤ b.addr)).map fun p =>
    if p.up then s!"{p.addr}:{p.epoch}:{hex16 (fnv64 (renderPState p))}" else s!"{p.addr}:down"
  s!"{String.intercalate "," ps} | {renderBrokerDigest s.broker}"

def renderMetaReply : MetaReply → String
  | .ok => "OK"
  | .oldEpoch => Um.Gen.Coord.OLD_EPOCH_REPLY
  | .notMyMeta => Um.Gen.Coord.ERR_NOT_MY_META

def renderCall : Call → String
  | .clusterNames off => s!"cluster_names {off}"
  | .cluster n => s!"get_cluster {n}"
  | .proxyAddrs off => s!"proxy_addresses {off}"
  | .failedProxies => "failed_proxies"
  | .getProxy a => s!"get_proxy {a}"
  | .addFailure a r => s!"add_failure {a} {r}"
  | .getFailures => "get_failures"
  | .replaceProxy a => s!"replace_proxy {a}"
  | .commit t => s!"commit {renderTask t}"
  | .connect a => s!"connect {a}"
  | .setRepl a e r => s!"SETREPL {a} {e} {hex16 (fnv64 (renderRMeta r))}"
  | .setCluster a e m => s!"SETCLUSTER {a} {e} {hex16 (fnv64 (renderCMeta m))}"
  | .infoMgr a => s!"INFOMGR {a}"
  | .ping a => s!"PING {a}"

def renderReply : CallReply → String
  | .names l => s!"[{String.intercalate "," l}]"
  | .cluster none => "none"
  | .cluster (some v) => s!"cluster:{v.epoch}:{hex16 (fnv64 (renderVCluster v))}"
  | .proxy none => "none"
  | .proxy (some v) => s!"proxy:{v.epoch}:{hex16 (fnv64 (renderVProxy v))}"
  | .unit code => if code == "" then "ok" else s!"ok({code})"
  | .replaced o => s!"replaced:{o.getD "none"}"
  | .fail code => s!"fail:{code}"
  | .mrep r => renderMetaReply r
  | .tasks l => s!"[{String.intercalate ";" (sortStr (l.map renderTask))}]"
  | .pong => "PONG"
  | .connected => "connected"
  | .refused => "refused"

/-! ## the fault layer -/

inductive Fault where
  | none | dropReq | dropRep | dup | delay (d : Nat) | crash
  deriving DecidableEq, Repr

/-- state of a running round -/
structure RS where
  sys : Sys
  n : Nat                        -- calls issued so far
  faults : List (Nat × Fault)
  choices : List String
  crashed : Bool
  trace : List String            -- newest first
  issued : List Call             -- ghost: the calls the coordinator attempted, oldest first

def lookupFault (fs : List (Nat × Fault)) (k : Nat) : Fault := ((fs.find? (·.1 == k)).map (·.2)).getD .none

def RS.log (st : RS) (line : String) : RS :=
  { st with trace := s!"{line} || {renderDigest st.sys}" :: st.trace }

/-- deliver `c` now; `tag` labels the trace record -/
def RS.deliver (st : RS) (tag : String) (c : Call) : RS × CallReply :=
  let needsChoice := match c with | .replaceProxy _ => true | _ => false
  let choice := if needsChoice then st.choices.headD "-" else "-"
  let choices := if needsChoice then st.choices.tail else st.choices
  let r := exec st.sys c choice
  (({ st with sys := r.1, choices := choices }).log s!"{tag} {renderCall c} -> {renderReply r.2}", r.2)

/-- one more call goes by: delayed calls whose count-down is over are delivered (oldest first) -/
def RS.tick (st : RS) : RS :=
  let due := (st.sys.bag.filter (·.1 == 0)).map (·.2)
  let rest := (st.sys.bag.filter (·.1 != 0)).map fun e => (e.1 - 1, e.2)
  let st := { st with sys := { st.sys with bag := rest } }
  due.foldl (fun st c => (st.deliver "late" c).1) st

/-- `hook k sys` = what happens (rounds of other coordinators) just before call `k` -/
abbrev Hook := Nat → Sys → Sys × List String

def noHook : Hook := fun _ s => (s, [])

/-- the coordinator issues call `c`; `none` = it sees an error -/
def RS.call (hk : Hook) (st : RS) (c : Call) : RS × Option CallReply :=
  if st.crashed then (st, none) else
  let h := hk st.n st.sys
  let st := { st with sys := h.1, trace := h.2.reverse ++ st.trace, issued := st.issued ++ [c] }
  match lookupFault st.faults st.n with
  | .crash => (({ st with crashed := true }).log s!"{st.n} crash", none)
  | f =>
    let k := st.n
    let st := { st.tick with n := st.n + 1 }
    match f with
    | .none => let r := st.deliver s!"{k}" c; (r.1, some r.2)
    | .dropReq => (st.log s!"{k} {renderCall c} -> dropped", none)
    | .dropRep => ((st.deliver s!"{k} reply-dropped" c).1, none)
    | .dup => let r := st.deliver s!"{k}" c; ((r.1.deliver s!"{k} dup" c).1, some r.2)
    | .delay d =>
      (({ st with sys := { st.sys with bag := st.sys.bag ++ [(d, c)] } }).log s!"{k} {renderCall c} -> delayed {d}", none)
    | .crash => (st, none)

/-! ## `ProxyMetaRespSender::send_meta_impl`, `BrokerMetaRetriever` -/

def metaOk : Option CallReply → Bool
  | some (.mrep .ok) => true
  | some (.mrep .oldEpoch) => Um.Gen.Coord.OLD_EPOCH_IS_SUCCESS
  | _ => false

/-- `send_meta_impl`: connect, SETREPL, SETCLUSTER; `true` = `Ok(())` -/
def sendMeta (hk : Hook) (st : RS) (v : VProxy) : RS × Bool :=
  let r0 := st.call hk (.connect v.address)
  match r0.2 with
  | some .connected =>
    let r1 := r0.1.call hk (.setRepl v.address v.epoch (mkRMeta v))
    if metaOk r1.2 then
      let r2 := r1.1.call hk (.setCluster v.address v.epoch (mkCMeta st.sys.compress v))
      (r2.1, metaOk r2.2)
    else (r1.1, false)
  | _ => (r0.1, false)

/-- `get_proxy_meta` then `send_meta`; a missing proxy is `Ok(())` (both
`retrieve_and_send_meta` and `set_cluster_meta`) -/
def retrieveAndSend (hk : Hook) (st : RS) (a : String) : RS × Bool :=
  let r := st.call hk (.getProxy a)
  match r.2 with
  | some (.proxy (some v)) => sendMeta hk r.1 v
  | some (.proxy none) => (r.1, true)
  | _ => (r.1, false)

/-! ## listings (`HttpMetaBroker`: pages of `PAGE_SIZE`, a failed page silently ends the stream) -/

def pagedLoop (hk : Hook) (mk : Nat → Call) : Nat → RS → Nat → List String → RS × List String
  | 0, st, _, acc => (st, acc)
  | fuel + 1, st, off, acc =>
    let r := st.call hk (mk off)
    match r.2 with
    | some (.names l) => if l.isEmpty then (r.1, acc) else pagedLoop hk mk fuel r.1 (off + Um.Gen.Coord.PAGE_SIZE) (acc ++ l)
    | _ => (r.1, acc)

def listClusterNames (hk : Hook) (st : RS) : RS × List String := pagedLoop hk .clusterNames 64 st 0 []
def listProxyAddrs (hk : Hook) (st : RS) : RS × List String := pagedLoop hk .proxyAddrs 64 st 0 []

/-- `get_failed_proxies().filter_map(res.ok())`: an error is an empty set -/
def listFailed (hk : Hook) (st : RS) : RS × List String :=
  let r := st.call hk .failedProxies
  match r.2 with
  | some (.names l) => (r.1, l)
  | _ => (r.1, [])

/-- `BrokerProxiesRetriever`: registered proxies that are not marked failed -/
def retrieveProxies (hk : Hook) (st : RS) : RS × List String :=
  let f := listFailed hk st
  let a := listProxyAddrs hk f.1
  (a.1, a.2.filter fun x => !f.2.contains x)

/-- the proxies of one served cluster, first occurrence only, in node order -/
def clusterProxyAddrs (v : VCluster) : List String := (v.nodes.map (·.proxy)).eraseDups

/-- `BrokerOrderedProxiesRetriever`: the calls it makes and the *set* it yields (cluster members,
failed or not, then the other registered proxies that are not failed) -/
def retrieveOrdered (hk : Hook) (st : RS) : RS × List String :=
  let ns := listClusterNames hk st
  let cl := ns.2.foldl (fun (acc : RS × List String) name =>
    let r := acc.1.call hk (.cluster name)
    match r.2 with
    | some (.cluster (some v)) => (r.1, acc.2 ++ (clusterProxyAddrs v).filter fun a => !acc.2.contains a)
    | _ => (r.1, acc.2)) (ns.1, [])
  let f := listFailed hk cl.1
  let a := listProxyAddrs hk f.1
  (a.1, cl.2 ++ a.2.filter fun x => !cl.2.contains x && !f.2.contains x)

def isPermStr (a b : List String) : Bool := sortStr a == sortStr b

/-! ## rounds -/

/-- `ProxyMetaRespSynchronizer::run_impl`; `targets` = the order the retriever produced -/
def syncBody (hk : Hook) (st : RS) (targets : List String) : RS :=
  let r := retrieveOrdered hk st
  let st := r.1
  if !st.crashed && !isPermStr targets r.2 then st.log s!"BAD-TARGETS expected {String.intercalate "," r.2}"
  else targets.foldl (fun st a => (retrieveAndSend hk st a).1) st

/-- `sync_migration_state`: commit, then the destination, then the source -/
def syncMigrationState (hk : Hook) (st : RS) (t : Task) : RS × Bool :=
  match tagInfo t.sr.tag with
  | none => (st, true)
  | some mi =>
    let r := st.call hk (.commit t)
    match r.2 with
    | some (.unit _) =>
      let d := retrieveAndSend hk r.1 mi.dstProxy
      if d.2 then retrieveAndSend hk d.1 mi.srcProxy else (d.1, false)
    | _ => (r.1, false)

def syncTasks (hk : Hook) : RS → List Task → RS × Bool
  | st, [] => (st, true)
  | st, t :: rest =>
    let r := syncMigrationState hk st t
    if r.2 then syncTasks hk r.1 rest else (r.1, false)

/-- the listing the coordinator sees is sorted by the harness' network adapter -/
def sortTasks (l : List Task) : List Task := l.mergeSort fun a b => decide (renderTask a ≤ renderTask b)

/-- `check_and_sync` -/
def checkAndSync (hk : Hook) (st : RS) (a : String) : RS :=
  let r0 := st.call hk (.connect a)
  match r0.2 with
  | some .connected =>
    let r1 := r0.1.call hk (.infoMgr a)
    match r1.2 with
    | some (.tasks l) => (syncTasks hk r1.1 (sortTasks l)).1
    | _ => r1.1
  | _ => r0.1

/-- `ParMigrationStateSynchronizer::run_impl` -/
def migBody (hk : Hook) (st : RS) : RS :=
  let r := retrieveProxies hk st
  r.2.foldl (checkAndSync hk) r.1

/-- `PingFailureDetector::check_impl`: `true` = the proxy is reported -/
def pingCheck (hk : Hook) : Nat → RS → String → RS × Bool
  | 0, st, _ => (st, true)
  | i + 1, st, a =>
    let r0 := st.call hk (.connect a)
    match r0.2 with
    | some .connected =>
      let r1 := r0.1.call hk (.ping a)
      match r1.2 with
      | some .pong => (r1.1, false)
      | _ => pingCheck hk i r1.1 a
    | _ => pingCheck hk i r0.1 a

/-- `ParFailureDetector::run_impl` -/
def detectBody (hk : Hook) (reporter : String) (st : RS) : RS :=
  let r := retrieveProxies hk st
  r.2.foldl (fun st a =>
    let c := pingCheck hk Um.Gen.Coord.PING_RETRY st a
    if c.2 then (c.1.call hk (.addFailure a reporter)).1 else c.1) r.1

/-- `ParFailureHandler::run_impl` -/
def failoverBody (hk : Hook) (st : RS) : RS :=
  let r := st.call hk .getFailures
  match r.2 with
  | some (.names l) => l.foldl (fun st a => (st.call hk (.replaceProxy a)).1) r.1
  | _ => r.1

inductive Kind where
  | sync | mig | detect | failover
  deriving DecidableEq, Repr

/-- a round without nested rounds -/
structure Round0 where
  kind : Kind
  reporter : String
  faults : List (Nat × Fault)
  targets : List String
  choices : List String
  deriving Repr

structure Round where
  base : Round0
  nested : List (Nat × Round0)
  deriving Repr

def RS.start (s : Sys) (r : Round0) : RS :=
  { sys := s, n := 0, faults := r.faults, choices := r.choices, crashed := false, trace := [], issued := [] }

def runBody (hk : Hook) (r : Round0) (st : RS) : RS :=
  match r.kind with
  | .sync => syncBody hk st r.targets
  | .mig => migBody hk st
  | .detect => detectBody hk r.reporter st
  | .failover => failoverBody hk st

/-- one round of a coordinator that nobody interleaves with -/
def runRound0 (s : Sys) (r : Round0) : Sys × List String :=
  let st := runBody noHook r (RS.start s r)
  (st.sys, st.trace.reverse)

def nestHook (nested : List (Nat × Round0)) : Hook := fun k s =>
  match nested.find? (·.1 == k) with
  | some (_, r) =>
    let x := runRound0 s r
    (x.1, [s!"nested-begin {k}"] ++ x.2.map (fun l => "  " ++ l) ++ ["nested-end"])
  | none => (s, [])

/-- one round, possibly with rounds of other coordinators nested at call boundaries -/
def runRound (s : Sys) (r : Round) : Sys × List String :=
  let st := runBody (nestHook r.nested) r.base (RS.start s r.base)
  (st.sys, st.trace.reverse)

/-- deliver everything that is still delayed -/
def Sys.flush (s : Sys) (choices : List String) : Sys × List String :=
  let st : RS := { sys := { s with bag := s.bag.map fun e => (0, e.2) }, n := 0, faults := [], choices := choices,
                   crashed := false, trace := [], issued := [] }
  let st := st.tick
  (st.sys, st.trace.reverse)

/-- an earlier request of a coordinator reaches its target (again) now: an HTTP retry, or a coordinator
that was stalled between reading and sending -/
def Sys.redeliver (s : Sys) (c : Call) : Sys × List String :=
  let st : RS := { sys := s, n := 0, faults := [], choices := [], crashed := false, trace := [], issued := [] }
  let r := st.deliver "late" c
  (r.1.sys, r.1.trace.reverse)

end Um.Coord
