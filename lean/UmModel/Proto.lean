import UmModel.Bytes
import UmGen.ProtoConsts
/-!
# Control-plane wire encodings (C17): `common/cluster.rs`, `common/proto.rs`, `common/config.rs`,
`migration/task.rs` (`SwitchArg`), the INFOMGR `join " "` / `split ' '` journey.

A Rust `String` is modelled as its UTF-8 bytes (`Str = List UInt8`); every operation the code
performs on these strings is byte-compatible (`split(' ')`, `split('-')`, `split(',')`,
`parse::<u64>`, ASCII comparisons), except `to_uppercase`/`to_lowercase`, which are modelled
by `upperA`/`lowerA` below.  `HashMap<String, Vec<SlotRange>>` is an association list in
insertion order (DESIGN §2.3: equality is stated up to the order of groups).
Iterators are token lists; every parser returns the unconsumed rest.
`usize` is 64 bit.  Import-free apart from `UmModel.Bytes` and the generated constants.
-/
namespace Um.Proto
open Um Um.Gen.Proto

abbrev Str := Bytes

/-! ## numbers -/

/-- `u64::to_string` / `usize::to_string` -/
def decimal (n : Nat) : Str :=
  if h : n < 10 then [UInt8.ofNat (48 + n)]
  else decimal (n / 10) ++ [UInt8.ofNat (48 + n % 10)]
decreasing_by omega

/-- `str::parse::<u64>()` = `parse::<usize>()` (core `from_str_radix`, unsigned): empty, `+`
and `-` alone are errors, one leading `+` is skipped, `-` is not a digit for unsigned types,
every remaining byte must be an ASCII digit, the value must fit 64 bits. -/
def parseUnsigned (b : Str) : Option Nat :=
  match b with
  | [] => none
  | [43] => none
  | 43 :: rest => btouAux u64Max rest 0
  | _ => btouAux u64Max b 0

/-- `usize` addition as compiled without overflow checks (release profile): wraps. -/
def wrapSucc (n : Nat) : Nat := (n + 1) % (u64Max + 1)

/-! ## case mapping

`str::to_uppercase` / `to_lowercase` are Unicode aware.  The code only ever compares their
result with ASCII constants (or tests an ASCII prefix / splits at `_`), so what matters is every
character whose image contains an ASCII character.  Besides `a–z` / `A–Z` these are exactly the
entries of the two tables (checked against Rust's tables over all of Unicode by the harness on
every run).  `upperA`/`lowerA` are exact on those characters and the identity on all others
(whose images consist of non-ASCII characters only). -/

def upperTable : List (Str × Str) :=
  [ ([0xC3, 0x9F], [83, 83]),               -- ß → SS
    ([0xC4, 0xB1], [73]),                   -- ı → I
    ([0xC5, 0x89], [0xCA, 0xBC, 78]),       -- ŉ → ʼN
    ([0xC5, 0xBF], [83]),                   -- ſ → S
    ([0xC7, 0xB0], [74, 0xCC, 0x8C]),       -- ǰ → J̌
    ([0xE1, 0xBA, 0x96], [72, 0xCC, 0xB1]), -- ẖ
    ([0xE1, 0xBA, 0x97], [84, 0xCC, 0x88]), -- ẗ
    ([0xE1, 0xBA, 0x98], [87, 0xCC, 0x8A]), -- ẘ
    ([0xE1, 0xBA, 0x99], [89, 0xCC, 0x8A]), -- ẙ
    ([0xE1, 0xBA, 0x9A], [65, 0xCA, 0xBE]), -- ẚ
    ([0xEF, 0xAC, 0x80], [70, 70]),         -- ﬀ
    ([0xEF, 0xAC, 0x81], [70, 73]),         -- ﬁ
    ([0xEF, 0xAC, 0x82], [70, 76]),         -- ﬂ
    ([0xEF, 0xAC, 0x83], [70, 70, 73]),     -- ﬃ
    ([0xEF, 0xAC, 0x84], [70, 70, 76]),     -- ﬄ
    ([0xEF, 0xAC, 0x85], [83, 84]),         -- ﬅ
    ([0xEF, 0xAC, 0x86], [83, 84]) ]        -- ﬆ

def lowerTable : List (Str × Str) :=
  [ ([0xC4, 0xB0], [105, 0xCC, 0x87]),      -- İ → i̇
    ([0xE2, 0x84, 0xAA], [107]) ]           -- K (Kelvin sign) → k

def isPrefix : Str → Str → Bool
  | [], _ => true
  | _ :: _, [] => false
  | a :: as, b :: bs => a == b && isPrefix as bs

def lookupPrefix : List (Str × Str) → Str → Option (Str × Str)
  | [], _ => none
  | (k, v) :: rest, s => if isPrefix k s then some (k, v) else lookupPrefix rest s

def upByte (b : UInt8) : UInt8 := if 97 ≤ b ∧ b ≤ 122 then b - 32 else b
def lowByte (b : UInt8) : UInt8 := if 65 ≤ b ∧ b ≤ 90 then b + 32 else b

/-- `skip` = bytes of an already translated multi-byte character still to be dropped -/
def caseMapAux (table : List (Str × Str)) (f : UInt8 → UInt8) : Nat → Str → Str
  | _, [] => []
  | skip + 1, _ :: r => caseMapAux table f skip r
  | 0, b :: r =>
    match lookupPrefix table (b :: r) with
    | some (k, img) => img ++ caseMapAux table f (k.length - 1) r
    | none => f b :: caseMapAux table f 0 r

def upperA (s : Str) : Str := caseMapAux upperTable upByte 0 s
def lowerA (s : Str) : Str := caseMapAux lowerTable lowByte 0 s

/-- `utils::bytes_ascii_case_insensitive_eq` (`u8` additions wrap in release builds) -/
def asciiCaseEqAux : Str → Str → Bool
  | [], [] => true
  | a :: as, b :: bs =>
    (a == b
      || ((97 ≤ a ∧ a ≤ 122) && a == b + 32)
      || ((65 ≤ a ∧ a ≤ 90) && a + 32 == b)) && asciiCaseEqAux as bs
  | _, _ => false

def asciiCaseEq (l r : Str) : Bool :=
  if l.length != r.length then false else asciiCaseEqAux l r

/-! ## splitting and joining -/

/-- `str::split(c)` for an ASCII `c`: always at least one piece -/
def splitOn (c : UInt8) : Str → List Str
  | [] => [[]]
  | b :: r =>
    if b == c then [] :: splitOn c r
    else match splitOn c r with
      | [] => [[b]]        -- unreachable: `splitOn` never returns `[]`
      | p :: ps => (b :: p) :: ps

/-- `[String]::join(" ")` -/
def joinWith (c : UInt8) : List Str → Str
  | [] => []
  | [t] => t
  | t :: ts => t ++ c :: joinWith c ts

/-- `str::split_once(c)` -/
def splitOnce (c : UInt8) : Str → Option (Str × Str)
  | [] => none
  | b :: r =>
    if b == c then some ([], r)
    else match splitOnce c r with
      | none => none
      | some (p, q) => some (b :: p, q)

/-- `utils::has_flags(s, ',', flag)` -/
def hasFlag (s flag : Str) : Bool := (splitOn 44 s).any fun p => asciiCaseEq p flag

/-! ## `str::from_utf8` (well-formed UTF-8, Unicode table 3-7) -/

def isCont (b : UInt8) : Bool := 0x80 ≤ b && b ≤ 0xBF

def validUtf8 : Str → Bool
  | [] => true
  | b0 :: r =>
    if b0 ≤ 0x7F then validUtf8 r
    else if 0xC2 ≤ b0 ∧ b0 ≤ 0xDF then
      match r with
      | b1 :: r1 => isCont b1 && validUtf8 r1
      | _ => false
    else if 0xE0 ≤ b0 ∧ b0 ≤ 0xEF then
      match r with
      | b1 :: b2 :: r2 =>
        (if b0 == 0xE0 then 0xA0 ≤ b1 && b1 ≤ 0xBF
         else if b0 == 0xED then 0x80 ≤ b1 && b1 ≤ 0x9F
         else isCont b1) && isCont b2 && validUtf8 r2
      | _ => false
    else if 0xF0 ≤ b0 ∧ b0 ≤ 0xF4 then
      match r with
      | b1 :: b2 :: b3 :: r3 =>
        (if b0 == 0xF0 then 0x90 ≤ b1 && b1 ≤ 0xBF
         else if b0 == 0xF4 then 0x80 ≤ b1 && b1 ≤ 0x8F
         else isCont b1) && isCont b2 && isCont b3 && validUtf8 r3
      | _ => false
    else false

/-! ## `common/cluster.rs` -/

structure MigrationMeta where
  epoch : Nat
  srcProxy : Str
  srcNode : Str
  dstProxy : Str
  dstNode : Str
  deriving DecidableEq, Repr, Inhabited

def MigrationMeta.intoStrings (m : MigrationMeta) : List Str :=
  [decimal m.epoch, m.srcProxy, m.srcNode, m.dstProxy, m.dstNode]

def MigrationMeta.fromStrings : List Str → Option (MigrationMeta × List Str)
  | e :: a :: b :: c :: d :: rest =>
    match parseUnsigned e with
    | some ep => some (⟨ep, a, b, c, d⟩, rest)
    | none => none
  | _ => none

inductive Tag where
  | migrating (m : MigrationMeta)
  | importing (m : MigrationMeta)
  | none
  deriving DecidableEq, Repr, Inhabited

structure Range where
  s : Nat
  e : Nat
  deriving DecidableEq, Repr, Inhabited

abbrev RangeList := List Range

def Range.swapped (r : Range) : Range := if r.s > r.e then ⟨r.e, r.s⟩ else r

/-- insertion into a list sorted by start, *after* nothing with an equal key that came earlier:
the unique stable sort (`sort_by_key` is stable) -/
def insertByStart (x : Range) : List Range → List Range
  | [] => [x]
  | y :: ys => if x.s ≤ y.s then x :: y :: ys else y :: insertByStart x ys

def sortByStart : List Range → List Range
  | [] => []
  | x :: xs => insertByStart x (sortByStart xs)

/-- the `while let Some(e) = self.0.get(b)` loop of `RangeList::compact`: `cur` is the element
at index `a`, the argument list is what is left from index `b` -/
def mergeLoop (cur : Range) : List Range → List Range
  | [] => [cur]
  | e :: rest =>
    if wrapSucc cur.e ≥ e.s then mergeLoop ⟨cur.s, max cur.e e.e⟩ rest
    else cur :: mergeLoop e rest

/-- `RangeList::compact`: swap reversed, stable sort by start, merge overlapping or adjacent.
(The two `expect`s cannot fire: `a < b ≤ len` throughout; see `compactIdx` below and
`compactIdx_eq`.) -/
def compact (l : List Range) : List Range :=
  match sortByStart (l.map Range.swapped) with
  | [] => []
  | x :: xs => mergeLoop x xs

/-! The same loop at index level, `expect` failures explicit (proved equal to `compact`, hence
panic-free, in `UmProofs/ProtoCompactIdx.lean`). -/

/-- `none` = an `expect("RangeList::compact")` fired (or the budget ran out) -/
def compactLoop : Nat → List Range → Nat → Nat → Option (List Range)
  | 0, _, _, _ => none
  | fuel + 1, v, a, b =>
    match v[b]? with
    | none => some (v.take (a + 1))                                  -- `truncate(a + 1)`
    | some e =>
      match v[a]? with
      | none => none                                                  -- `get_mut(a).expect(..)`
      | some s =>
        if wrapSucc s.e ≥ e.s then compactLoop fuel (v.set a ⟨s.s, max s.e e.e⟩) a (b + 1)
        else if a + 1 < v.length then compactLoop fuel (v.set (a + 1) e) (a + 1) (b + 1)
        else none                                                     -- `get_mut(a + 1).expect(..)`

def compactIdx (l : List Range) : Option (List Range) :=
  let v := sortByStart (l.map Range.swapped)
  compactLoop (v.length + 1) v 0 1

/-- `RangeList::parse_slot_range`: `split('-')`, two pieces needed, further pieces ignored -/
def parseSlotRange (t : Str) : Option Range :=
  match splitOn 45 t with
  | a :: b :: _ =>
    match parseUnsigned a, parseUnsigned b with
    | some s, some e => some ⟨s, e⟩
    | _, _ => none
  | _ => none

def parseRanges : Nat → List Str → Option (List Range × List Str)
  | 0, ts => some ([], ts)
  | _ + 1, [] => none
  | n + 1, t :: ts =>
    match parseSlotRange t with
    | none => none
    | some r =>
      match parseRanges n ts with
      | none => none
      | some (rs, rest) => some (r :: rs, rest)

/-- `RangeList::parse` -/
def RangeList.parse : List Str → Option (RangeList × List Str)
  | [] => none
  | c :: ts =>
    match parseUnsigned c with
    | none => none
    | some n =>
      match parseRanges n ts with
      | none => none
      | some (rs, rest) => some (compact rs, rest)

def Range.toStr (r : Range) : Str := decimal r.s ++ 45 :: decimal r.e

/-- `RangeList::to_strings` -/
def RangeList.toStrings (l : RangeList) : List Str := decimal l.length :: l.map Range.toStr

/-- `impl TryFrom<&str> for RangeList` -/
def RangeList.tryFromStr (s : Str) : Option RangeList :=
  (RangeList.parse (splitOn 32 s)).map Prod.fst

structure SlotRange where
  ranges : RangeList
  tag : Tag
  deriving DecidableEq, Repr, Inhabited

def SlotRange.intoStrings (sr : SlotRange) : List Str :=
  match sr.tag with
  | .migrating m => MIGRATING_TAG :: (RangeList.toStrings sr.ranges ++ m.intoStrings)
  | .importing m => IMPORTING_TAG :: (RangeList.toStrings sr.ranges ++ m.intoStrings)
  | .none => RangeList.toStrings sr.ranges

def taggedRest (mk : MigrationMeta → Tag) (ts : List Str) : Option (SlotRange × List Str) :=
  match RangeList.parse ts with
  | none => none
  | some (rl, r1) =>
    match MigrationMeta.fromStrings r1 with
    | none => none
    | some (m, r2) => some (⟨rl, mk m⟩, r2)

/-- `SlotRange::from_strings` (peek, compare the upper-cased token with the two tag words) -/
def SlotRange.fromStrings : List Str → Option (SlotRange × List Str)
  | [] => none
  | t :: ts =>
    if upperA t == MIGRATING_TAG then taggedRest .migrating ts
    else if upperA t == IMPORTING_TAG then taggedRest .importing ts
    else match RangeList.parse (t :: ts) with
      | none => none
      | some (rl, r1) => some (⟨rl, .none⟩, r1)

/-- `ClusterName::try_from`: ASCII alphanumerics and `@ - _`, at most 31 bytes, may be empty -/
def nameByteOk (b : UInt8) : Bool :=
  (48 ≤ b && b ≤ 57) || (65 ≤ b && b ≤ 90) || (97 ≤ b && b ≤ 122) || CLUSTER_NAME_EXTRA.contains b

def validClusterName (s : Str) : Bool := s.all nameByteOk && s.length ≤ CLUSTER_NAME_MAX_LENGTH

structure TaskMeta where
  cluster : Str
  slotRange : SlotRange
  deriving DecidableEq, Repr, Inhabited

def TaskMeta.intoStrings (t : TaskMeta) : List Str := t.cluster :: t.slotRange.intoStrings

/-- `MigrationTaskMeta::from_strings`; trailing tokens are left unread -/
def TaskMeta.fromStrings : List Str → Option (TaskMeta × List Str)
  | [] => none
  | c :: ts =>
    if validClusterName c then
      match SlotRange.fromStrings ts with
      | none => none
      | some (sr, rest) => some (⟨c, sr⟩, rest)
    else none

/-! ## `migration/task.rs`: `SwitchArg` -/

structure SwitchArg where
  version : Str
  task : TaskMeta
  deriving DecidableEq, Repr, Inhabited

def SwitchArg.intoStrings (a : SwitchArg) : List Str := a.version :: a.task.intoStrings

def SwitchArg.fromStrings : List Str → Option (SwitchArg × List Str)
  | [] => none
  | v :: ts =>
    match TaskMeta.fromStrings ts with
    | none => none
    | some (t, rest) => some (⟨v, t⟩, rest)

/-! ## the INFOMGR journey: `executor.rs` joins the tokens with single spaces into one bulk
string, `coordinator/migration.rs` splits at every space and calls `from_strings` -/

def infoMgrEncode (t : TaskMeta) : Str := joinWith 32 t.intoStrings

def infoMgrDecode (s : Str) : Option TaskMeta := (TaskMeta.fromStrings (splitOn 32 s)).map Prod.fst

/-! ## `common/config.rs` -/

inductive Compression where
  | disabled | setGetOnly | allowAll
  deriving DecidableEq, Repr, Inhabited

structure Config where
  comp : Compression
  maxMigrationTime : Nat
  maxBlockingTime : Nat
  scanInterval : Nat
  scanCount : Nat
  deriving DecidableEq, Repr, Inhabited

def Config.default : Config :=
  ⟨.disabled, DEFAULT_MAX_MIGRATION_TIME, DEFAULT_MAX_BLOCKING_TIME, DEFAULT_SCAN_INTERVAL, DEFAULT_SCAN_COUNT⟩

def Compression.toStr : Compression → Str
  | .disabled => COMP_DISABLED
  | .setGetOnly => COMP_SET_GET_ONLY
  | .allowAll => COMP_ALLOW_ALL

/-- `CompressionStrategy::from_str` -/
def Compression.fromStr (s : Str) : Option Compression :=
  let l := lowerA s
  if l == COMP_DISABLED then some .disabled
  else if l == COMP_SET_GET_ONLY then some .setGetOnly
  else if l == COMP_ALLOW_ALL then some .allowAll
  else none

/-- `MigrationConfig::set_field` (`none` = any `ConfigError`) -/
def Config.setMigrationField (c : Config) (field value : Str) : Option Config :=
  let f := lowerA field
  if f == MIG_MAX_MIGRATION_TIME then (parseUnsigned value).map fun v => { c with maxMigrationTime := v }
  else if f == MIG_MAX_BLOCKING_TIME then (parseUnsigned value).map fun v => { c with maxBlockingTime := v }
  else if f == MIG_SCAN_INTERVAL then (parseUnsigned value).map fun v => { c with scanInterval := v }
  else if f == MIG_SCAN_COUNT then
    match parseUnsigned value with
    | none => none
    | some v => if v == 0 then none else some { c with scanCount := v }
  else none

/-- `ClusterConfig::set_field` -/
def Config.setField (c : Config) (field value : Str) : Option Config :=
  let f := lowerA field
  if f == CFG_COMPRESSION then (Compression.fromStr value).map fun s => { c with comp := s }
  else if isPrefix CFG_MIGRATION_PREFIX f then
    match splitOnce 95 f with
    | none => none
    | some (_, g) => c.setMigrationField g value
  else none

inductive CfgField where
  | comp | maxMigrationTime | maxBlockingTime | scanInterval | scanCount
  deriving DecidableEq, Repr, Inhabited

def CfgField.all : List CfgField := [.comp, .maxMigrationTime, .maxBlockingTime, .scanInterval, .scanCount]

def Config.fieldArgs (c : Config) : CfgField → List Str
  | .comp => [CFG_COMPRESSION, c.comp.toStr]
  | .maxMigrationTime => [CFG_MAX_MIGRATION_TIME, decimal c.maxMigrationTime]
  | .maxBlockingTime => [CFG_MAX_BLOCKING_TIME, decimal c.maxBlockingTime]
  | .scanInterval => [CFG_SCAN_INTERVAL, decimal c.scanInterval]
  | .scanCount => [CFG_SCAN_COUNT, decimal c.scanCount]

/-- `ClusterConfigData::to_args`: the five `to_str_map` entries in the iteration order of a
freshly built `HashMap` — any order; `order` is that order (§2.3) -/
def Config.toArgs (order : List CfgField) (c : Config) : List Str := order.flatMap c.fieldArgs

/-! ## `common/proto.rs` -/

structure Flags where
  force : Bool
  compress : Bool
  deriving DecidableEq, Repr, Inhabited

def Flags.toArg (f : Flags) : Str :=
  match f.force, f.compress with
  | true, true => FLAG_FORCE ++ 44 :: FLAG_COMPRESS
  | true, false => FLAG_FORCE
  | false, true => FLAG_COMPRESS
  | false, false => FLAG_NONE

def Flags.fromArg (s : Str) : Flags := ⟨hasFlag s FLAG_FORCE, hasFlag s FLAG_COMPRESS⟩

/-- `HashMap<String, Vec<SlotRange>>` in insertion order -/
abbrev NodeMap := List (Str × List SlotRange)

/-- `NodeMap::to_args`: one group `address slot-range…` per slot range; an address with an empty
list emits nothing -/
def NodeMap.toArgs (m : NodeMap) : List Str :=
  m.flatMap fun (addr, srs) => srs.flatMap fun sr => addr :: sr.intoStrings

/-- `node_map.entry(address).or_insert_with(Vec::new).push(slot_range)` -/
def NodeMap.push (addr : Str) (sr : SlotRange) : NodeMap → NodeMap
  | [] => [(addr, [sr])]
  | (a, srs) :: rest => if a == addr then (a, srs ++ [sr]) :: rest else (a, srs) :: NodeMap.push addr sr rest

def isSectionWord (t : Str) : Bool :=
  let u := upperA t
  u == PEER_PREFIX || u == CONFIG_PREFIX

inductive PErr where
  | invalidVersion | invalidEpoch | invalidClusterName | invalidSlots | invalidConfig
  | invalidRole | invalidArgs
  /-- the model's recursion budget ran out (excluded by `parse_ne_fuel`) -/
  | fuel
  deriving DecidableEq, Repr, Inhabited

/-- `NodeMap::parse`: groups until the input ends or a section word is *peeked*; every failure
inside a group is `InvalidArgs` (`try_parse!`).  `fuel` bounds the number of groups. -/
def NodeMap.parseAux : Nat → NodeMap → List Str → Except PErr (NodeMap × List Str)
  | 0, _, _ => .error .fuel
  | _ + 1, acc, [] => .ok (acc, [])
  | fuel + 1, acc, t :: ts =>
    if isSectionWord t then .ok (acc, t :: ts)
    else
      match SlotRange.fromStrings ts with
      | none => .error .invalidArgs
      | some (sr, rest) => NodeMap.parseAux fuel (NodeMap.push t sr acc) rest

def NodeMap.parse (ts : List Str) : Except PErr (NodeMap × List Str) :=
  NodeMap.parseAux (ts.length + 1) [] ts

/-- `ClusterConfigData::parse`: pairs until the input ends or a section word is peeked.  On
failure the iterator stays where the failure happened; the caller may go on reading from there,
so the rest is returned in both cases (`none` = `Err`). -/
def Config.parseAux (c : Config) : List Str → Option Config × List Str
  | [] => (some c, [])
  | [f] => if isSectionWord f then (some c, [f]) else (none, [])
  | f :: v :: rest =>
    if isSectionWord f then (some c, f :: v :: rest)
    else match c.setField f v with
      | none => (none, rest)
      | some c' => Config.parseAux c' rest

def Config.parse (ts : List Str) : Option Config × List Str := Config.parseAux Config.default ts

/-- `ProxyClusterMetaData` (what travels inside the compressed blob) -/
structure MetaData where
  cluster : Str
  «local» : NodeMap
  peer : NodeMap
  config : Config
  deriving DecidableEq, Repr, Inhabited

structure Meta where
  version : Str
  epoch : Nat
  flags : Flags
  cluster : Str
  «local» : NodeMap
  peer : NodeMap
  config : Config
  deriving DecidableEq, Repr, Inhabited

def Meta.data (m : Meta) : MetaData := ⟨m.cluster, m.local, m.peer, m.config⟩

/-- `slot_range.get_mut_range_list().compact()` -/
def SlotRange.compacted (sr : SlotRange) : SlotRange := { sr with ranges := compact sr.ranges }

/-- the normalisation loop over `node_map.values_mut()` in the compressed branch of
`ProxyClusterMeta::parse` (fix 23e5d8f): every slot range's list is compacted, as the textual
form's `RangeList::parse` does -/
def NodeMap.compacted (nm : NodeMap) : NodeMap := nm.map fun p => (p.1, p.2.map SlotRange.compacted)

/-- `extended_meta_result`: `false` = `Err(ParseExtendedMetaError)` (reply `WARNING: ignored
invalid config`) -/
abbrev ParseOk := Meta × Bool

/-- the `while let Some(token) = it.next()` loop of `ProxyClusterMeta::parse` -/
def parseSections : Nat → NodeMap → NodeMap → Config → Bool → List Str →
    Except PErr (NodeMap × Config × Bool)
  | 0, _, _, _, _, _ => .error .fuel
  | _ + 1, _, peer, cfg, ext, [] => .ok (peer, cfg, ext)
  | fuel + 1, loc, peer, cfg, ext, t :: ts =>
    let u := upperA t
    if u == PEER_PREFIX then
      match NodeMap.parse ts with
      | .error e => .error e
      | .ok (p, rest) => parseSections fuel loc p cfg ext rest
    else if u == CONFIG_PREFIX then
      match Config.parse ts with
      | (some c, rest) => parseSections fuel loc peer c ext rest
      | (none, rest) =>
        if loc.isEmpty || peer.isEmpty then .error .invalidArgs
        else parseSections fuel loc peer cfg false rest
    else .error .invalidArgs

/-- `ProxyClusterMeta::parse`, parametrised by the decoder of the compressed blob
(`ProxyClusterMetaData::from_compressed_data`: base64 ∘ gunzip ∘ JSON; `none` = any error); the
decoded node maps are then normalised (`NodeMap.compacted`). -/
def parseWith (dec : Str → Option MetaData) (ts : List Str) : Except PErr ParseOk :=
  match ts with
  | [] => .error .invalidArgs
  | version :: ts1 =>
    if version != SET_CLUSTER_API_VERSION then .error .invalidVersion
    else match ts1 with
    | [] => .error .invalidArgs
    | e :: ts2 =>
      match parseUnsigned e with
      | none => .error .invalidArgs
      | some epoch =>
        match ts2 with
        | [] => .error .invalidArgs
        | fl :: ts3 =>
          let flags := Flags.fromArg fl
          if flags.compress then
            match ts3 with
            | [] => .error .invalidArgs
            | blob :: _ =>
              match dec blob with
              | none => .error .invalidArgs
              | some d =>
                .ok (⟨version, epoch, flags, d.cluster, NodeMap.compacted d.local, NodeMap.compacted d.peer, d.config⟩, true)
          else match ts3 with
          | [] => .error .invalidArgs
          | name :: ts4 =>
            if !validClusterName name then .error .invalidClusterName
            else match NodeMap.parse ts4 with
            | .error er => .error er
            | .ok (loc, ts5) =>
              match parseSections (ts5.length + 1) loc [] Config.default true ts5 with
              | .error er => .error er
              | .ok (peer, cfg, ext) => .ok (⟨version, epoch, flags, name, loc, peer, cfg⟩, ext)

/-- the plain path never consults the decoder unless the flag word says COMPRESS -/
def parse (ts : List Str) : Except PErr ParseOk := parseWith (fun _ => none) ts

/-- `ProxyClusterMeta::to_args` -/
def Meta.toArgs (order : List CfgField) (m : Meta) : List Str :=
  let peer := NodeMap.toArgs m.peer
  let cfg := m.config.toArgs order
  [m.version, decimal m.epoch, m.flags.toArg, m.cluster] ++ NodeMap.toArgs m.local
    ++ (if peer.isEmpty then [] else PEER_PREFIX :: peer)
    ++ (if cfg.isEmpty then [] else CONFIG_PREFIX :: cfg)

/-- `ProxyClusterMeta::to_compressed_args`, parametrised by the encoder of the blob -/
def Meta.toCompressedArgs (enc : MetaData → Str) (m : Meta) : List Str :=
  [m.version, decimal m.epoch, m.flags.toArg, enc m.data]

/-! ## RESP argument vectors (`from_resp`, `parse_repl_meta`, `parse_switch_command`) -/

/-- one element of the command array: a bulk string, a simple string, or anything else
(integer, error, nil bulk, nested array) -/
inductive Elem where
  | bulk (b : Bytes)
  | simple (b : Bytes)
  | other
  deriving DecidableEq, Repr, Inhabited

/-- the `flat_map` filter at the head of `ProxyClusterMeta::from_resp` / `parse_repl_meta` as the
code has it (`strict = false`): elements that are not UTF-8 bulk strings are *dropped*; with the
proposed repair (`strict = true`) any such element rejects the command (`none`). -/
def filterElems (strict : Bool) : List Elem → Option (List Str)
  | [] => some []
  | .bulk b :: r =>
    if validUtf8 b then (filterElems strict r).map (b :: ·)
    else if strict then none else filterElems strict r
  | _ :: r => if strict then none else filterElems strict r

/-- `ProxyClusterMeta::from_resp`; `none` as input = the command is not a RESP array -/
def fromRespWith (dec : Str → Option MetaData) (cmd : Option (List Elem)) : Except PErr ParseOk :=
  match cmd with
  | none => .error .invalidArgs
  | some arr =>
    match filterElems fromRespStrict (arr.drop 2) with
    | none => .error .invalidArgs
    | some ts => parseWith dec ts

/-- `utils::get_resp_strings` (used by `parse_switch_command`): bulk and simple strings are
taken, and this one *does* reject the whole command on anything else or on invalid UTF-8 -/
def strictStrings : List Elem → Option (List Str)
  | [] => some []
  | .bulk b :: r => if validUtf8 b then (strictStrings r).map (b :: ·) else none
  | .simple b :: r => if validUtf8 b then (strictStrings r).map (b :: ·) else none
  | .other :: _ => none

/-- `MigrationStateRespChecker::parse_migration_task_meta` on one element of the INFOMGR reply:
only a UTF-8 bulk string is looked at -/
def infoMgrElem : Elem → Option TaskMeta
  | .bulk s => if validUtf8 s then infoMgrDecode s else none
  | _ => none

/-- `migration::task::parse_switch_command`: skip `UMCTL TMPSWITCH`, then `SwitchArg::from_strings` -/
def parseSwitchCommand (cmd : Option (List Elem)) : Option SwitchArg :=
  match cmd with
  | none => none
  | some arr =>
    match strictStrings arr with
    | some (_ :: _ :: ts) => (SwitchArg.fromStrings ts).map Prod.fst
    | _ => none

end Um.Proto
