import UmGen.BackendConsts
/-!
# C08 — the backend queue machine (`src/proxy/backend.rs`)

Transliteration of `handle_backend` / `handle_conn` / `handle_conn_err`, of `ReqTask::set_result`
(fan-out of a `Multi` reply) and of the refusal path of `BackendNode::send` +
`RecoverableBackendNode::send` (`src/proxy/sender.rs`).  Import-free apart from the generated
constant `MAX_BACKEND_RETRY`.

## What is a state
| field            | code                                                                              |
|------------------|-----------------------------------------------------------------------------------|
| `phase`          | where `handle_backend` is suspended: in `create_conn(..).await` (`connecting`), in `handle_conn(..).await` (`up`), in the one-second `select!` loop after a failed connect (`waiting`), returned (`exited`) |
| `chan`           | the `mpsc::unbounded` channel of `BackendNode` (sent, not yet received)             |
| `closed`         | every `BackendNode` sender has been dropped                                         |
| `connFailed`     | `conn_failed : AtomicBool`                                                          |
| `retry`          | `retry_state : Option<RetryState>` of `handle_backend` between two connections      |
| `tasks`,`packets`| the two `VecDeque`s of `handle_conn` (a packet is identified with its task)         |
| `retryTimes`     | `retry_times_opt`: set from the inherited `RetryState`, kept for the life of the connection, cleared when a reply leaves `tasks` empty (F08b fix, commit 0e64416) |
| `taskEmpty`, `responseReceived` | the two flags of the timeout check                                   |
| `connId`, `written`, `nread` | ghost: number of connections so far, requests `start_send`-ed and items read on the current connection |

## What is an event
One event = one observable step of the code at its boundary (channel, `ConnFactory`, `Sink`,
`Stream`, `Interval`).  Batching (`BatchState`), `poll_flush`, write/read fragmentation and wake-ups
only decide *when* `write` / `item` events happen, so they do not appear.  A poll of
`handle_conn`'s `poll_fn` is `poll` (receiver drained), then `write`s, then `item`s, then
`pollEnd tick`; `connOk` is immediately followed by the first `poll` (same poll of the future).
Events that cannot occur in the current phase leave the state unchanged.

## Quirks kept
* `retry_times_opt` belongs to the connection, not to a task: tasks that arrive on a connection
  opened for a retry inherit its count.  A connection error with an empty queue yields no retry
  state at all (commit 24d4705), so idle disconnects do not consume the budget.
* a reply with no task waiting, or a packet written when `tasks` is shorter than `packets`
  (possible after an unsolicited reply), is `BackendError::InvalidState` = connection error.
* a `Some(Err(e))` stream item (decode error) is *handed to the front task* through the handler
  and reading goes on; only `None` (peer closed) is a connection error.
* a failed connect answers the retried tasks with `Err(Canceled)` and the queued ones with the
  error *reply* `failed to connect to ..`; while `conn_failed` is set `BackendNode::send` refuses
  and `RecoverableBackendNode::send` answers `ERR_BACKEND_CONNECTION` itself.
* closing the channel makes `handle_conn` return at once: every task still held is dropped,
  `CmdReplySender::drop` then sends `CommandError::Dropped` (see `UmModel/Session.lean`).
-/
namespace Um.BackendConn

abbrev Id := Nat

/-- `ReqTask<T>`; a plain `CmdCtx` task is `simple`. -/
inductive Task where
  | simple (id : Id)
  | multi (ids : List Id)
deriving DecidableEq, Repr

def Task.ids : Task → List Id
  | .simple id => [id]
  | .multi ids => ids

/-- `CommandError` values this machine produces -/
inductive CmdErr where
  | io | backend | canceled | inner | dropped
deriving DecidableEq, Repr

/-- error *replies* (`Ok(Resp::Error(..))`) made by the proxy itself -/
inductive LocalErr where
  | handler   -- "backend failed to handle task: .." (ReplyCommitHandler on a decode-error item)
  | connect   -- "failed to connect to .."           (handle_backend after a failed connect)
  | send      -- "ERR_BACKEND_CONNECTION: .."        (RecoverableBackendNode::send, send refused)
deriving DecidableEq, Repr

/-- what one elementary task (`CmdCtx`) receives through its `CmdReplySender` -/
inductive Res where
  | reply (tag : Id)      -- `Ok(packet)`, a packet read from the backend connection
  | lerr (k : LocalErr)
  | err (e : CmdErr)
deriving DecidableEq, Repr

def Res.isError : Res → Bool
  | .reply _ => false
  | _ => true

/-- an item yielded by the connection's `Stream` -/
inductive Item where
  | single (tag : Id)         -- `Ok(OptionalMulti::Single(r))`, `r` tagged `tag`
  | multi (tags : List Id)    -- `Ok(OptionalMulti::Multi(rs))`
  | derr                      -- `Err(e)`: decode error item
deriving DecidableEq, Repr

/-- `BackendError::Io(_)` or any other `BackendError` -/
inductive WErr where
  | io | other
deriving DecidableEq, Repr

inductive Phase where
  | connecting | up | waiting | exited
deriving DecidableEq, Repr

inductive Ev where
  | enqueue (t : Task)     -- RecoverableBackendNode::send
  | close                  -- last sender dropped
  | connOk | connFail      -- create_conn resolved
  | waitDone               -- the one-second sleep after a failed connect elapsed
  | poll                   -- start of a poll: the receiver is drained
  | write                  -- `start_send` of the front packet
  | writeErr (k : WErr)    -- poll_ready / start_send / poll_flush returned Err
  | item (it : Item)       -- reader yielded `Some(..)`
  | peerClosed             -- reader yielded `None`
  | pollEnd (tick : Bool)  -- the timeout check at the end of a poll; `tick` = `poll_tick` was ready
deriving DecidableEq, Repr

structure St where
  phase : Phase := .connecting
  chan : List Task := []
  closed : Bool := false
  connFailed : Bool := false
  retry : Option (Nat × List Task) := none
  tasks : List Task := []
  packets : List Task := []
  retryTimes : Option Nat := none
  taskEmpty : Bool := true
  responseReceived : Bool := false
  connId : Nat := 0
  written : List Task := []
  nread : Nat := 0
deriving Repr

def init : St := {}

abbrev Out := List (Id × Res)

def MAX_BACKEND_RETRY : Nat := Um.Gen.Backend.MAX_BACKEND_RETRY

def answerAll (ts : List Task) (r : Res) : Out :=
  (ts.flatMap Task.ids).map fun id => (id, r)

/-- `handler.handle_task(task, item)` with the `ReplyCommitHandler` behaviour, followed by
`ReqTask::set_result` / `set_resp_result`. -/
def deliver : Task → Item → Out
  | t, .derr => t.ids.map fun id => (id, .lerr .handler)
  | .simple id, .single tag => [(id, .reply tag)]
  | .simple id, .multi _ => [(id, .err .inner)]
  | .multi ids, .single _ => ids.map fun id => (id, .err .inner)
  | .multi ids, .multi tags =>
    if ids.length ≠ tags.length then ids.map fun id => (id, .err .inner)
    else (ids.zip tags).map fun p => (p.1, .reply p.2)

/-- `handle_conn_err` followed by `handle_backend` looping back to `create_conn`. -/
def connErr (s : St) (timesOpt : Option Nat) (k : WErr) : St × Out :=
  let times := timesOpt.getD 0
  let s' := { s with phase := .connecting, tasks := [], packets := [], retryTimes := none }
  -- `if tasks.is_empty() { return None; }` (commit 24d4705): nothing to retry, no count carried over
  if s.tasks.isEmpty then ({ s' with retry := none }, [])
  else if times ≥ MAX_BACKEND_RETRY then
    ({ s' with retry := none },
     answerAll s.tasks (.err (match k with | .io => .io | .other => .backend)))
  else
    ({ s' with retry := some (times + 1, s.tasks) }, [])

/-- the receiver loop `while let Ready(t) = task_receiver.poll_next()` of `handle_conn` -/
def drainUp (s : St) : St × Out :=
  let s' := { s with tasks := s.tasks ++ s.chan, packets := s.packets ++ s.chan, chan := [] }
  if s.closed then
    -- `Ready(None)`: return Ok(()); the VecDeques are dropped with everything in them
    ({ s' with phase := .exited, tasks := [], packets := [], retryTimes := none },
     answerAll s'.tasks (.err .dropped))
  else (s', [])

/-- the `select!` loop after a failed connect: every received task gets the error reply -/
def drainWaiting (s : St) : St × Out :=
  let out := answerAll s.chan (.lerr .connect)
  let s' := { s with chan := [] }
  if s.closed then ({ s' with phase := .exited }, out) else (s', out)

def step (s : St) : Ev → St × Out
  | .enqueue t =>
    -- BackendNode::send: refused while conn_failed is set or when the receiver is gone
    if s.connFailed || s.phase == .exited || s.closed then (s, answerAll [t] (.lerr .send))
    else ({ s with chan := s.chan ++ [t] }, [])
  | .close => ({ s with closed := true }, [])
  | .connOk =>
    match s.phase with
    | .connecting =>
      let (times, rts) := match s.retry with
        | some (n, ts) => (some n, ts)
        | none => (none, [])
      ({ s with phase := .up, connFailed := false, retry := none, tasks := rts, packets := rts,
                retryTimes := times, taskEmpty := true, responseReceived := false,
                connId := s.connId + 1, written := [], nread := 0 }, [])
    | _ => (s, [])
  | .connFail =>
    match s.phase with
    | .connecting =>
      let rts := match s.retry with
        | some (_, ts) => ts
        | none => []
      let (s', out) := drainWaiting { s with phase := .waiting, connFailed := true, retry := none }
      (s', answerAll rts (.err .canceled) ++ out)
    | _ => (s, [])
  | .waitDone =>
    match s.phase with
    | .waiting => ({ s with phase := .connecting }, [])
    | _ => (s, [])
  | .poll =>
    match s.phase with
    | .up => drainUp s
    | .waiting => drainWaiting s
    | _ => (s, [])
  | .write =>
    match s.phase, s.packets with
    | .up, p :: ps =>
      let s' := { s with packets := ps, written := s.written ++ [p] }
      -- `tasks.len().checked_sub(packets.len() + 1)` and `tasks.get_mut(index)`
      if s.tasks.length < ps.length + 1 then connErr s' s.retryTimes .other else (s', [])
    | _, _ => (s, [])
  | .writeErr k =>
    match s.phase with
    | .up => connErr s s.retryTimes k
    | _ => (s, [])
  | .item it =>
    match s.phase with
    | .up =>
      let s1 := { s with responseReceived := true, nread := s.nread + 1 }
      match s.tasks with
      | [] => connErr s1 s.retryTimes .other
      | t :: rest =>
        -- `if tasks.is_empty() { retry_times_opt = None }` after `handle_task`
        ({ s1 with tasks := rest, retryTimes := if rest.isEmpty then none else s.retryTimes },
         deliver t it)
    | _ => (s, [])
  | .peerClosed =>
    match s.phase with
    | .up => connErr s s.retryTimes .other
    | _ => (s, [])
  | .pollEnd tick =>
    match s.phase with
    | .up =>
      if tick then
        if !s.taskEmpty && !s.responseReceived then
          connErr s (some MAX_BACKEND_RETRY) .other
        else ({ s with taskEmpty := s.tasks.isEmpty, responseReceived := false }, [])
      else (s, [])
    | _ => (s, [])

/-- run a list of events, collecting every result in order -/
def run : St → List Ev → St × Out
  | s, [] => (s, [])
  | s, e :: es =>
    let (s1, o1) := step s e
    let (s2, o2) := run s1 es
    (s2, o1 ++ o2)

/-- ids of the elementary tasks the machine still owes a result -/
def pendingIds (s : St) : List Id :=
  ((match s.retry with | some (_, ts) => ts | none => []) ++ s.tasks ++ s.chan).flatMap Task.ids

/-- ids enqueued by an event list -/
def enqIds : List Ev → List Id
  | [] => []
  | .enqueue t :: es => t.ids ++ enqIds es
  | _ :: es => enqIds es

end Um.BackendConn
