import UmModel.ClusterNodes
import UmModel.RouteE2E
/-!
# CLUSTER NODES / CLUSTER SLOTS of a long-lived proxy (install histories)

`MetaManager::gen_cluster_nodes / gen_cluster_slots` read two things of the current `MetaMap`: the
`ClusterBackendMap` built by the **last accepted** `set_meta`, and the phase map of the migration tasks
(`MigrationMap::get_states`). The task map is not rebuilt from scratch by `set_meta`:
`MigrationMap::update_from_old_task_map` keeps the task (and its phase) of every tagged local range whose
`MigrationTaskMeta` is unchanged and creates a task in `PreCheck` for **every** other tagged local range.
That function, `set_meta` and `handle_switch` are modelled by C02 (`UmModel/RouteE2E.lean`: `updateTasks`,
`setMeta`, `handleSwitch`); this file only connects that proxy state to the NODES / SLOTS model:

* `viewOf me m` — the `View` of an installed `EMeta` (tags reduced to their kind),
* `statesOf p` — `get_states` of the task map of `p` (`insert(range_list, state)` per task, in the visiting
  order of the task map),
* `Hist` — the pair the two commands read, advanced by `Hist.setMeta`.
-/
namespace Um.Nodes
open Um Um.Route

def kindOf : Um.Broker.Tag → TagKind
  | .none => .none
  | .migrating _ => .migrating
  | .importing _ => .importing

def srOf (s : Um.Broker.SlotRange) : SlotRange := { ranges := s.ranges, tag := kindOf s.tag }

def slotsOf (m : Um.E2E.SNodeMap) : NodeSlots := m.map fun e => (e.1, e.2.map srOf)

/-- what `ClusterBackendMap::from_cluster_map` keeps of `m` for the two commands, on the proxy announcing `me` -/
def viewOf (me : Addr) (m : Um.E2E.EMeta) : View :=
  { name := m.cluster, epoch := m.epoch, me := me, loc := slotsOf m.loc, peer := slotsOf m.peer }

def stateOf : Um.E2E.MigState → MigState
  | .preCheck => .preCheck
  | .preBlocking => .preBlocking
  | .preSwitch => .preSwitch
  | .scanning => .scanning
  | .finalSwitch => .finalSwitch
  | .switchCommitted => .switchCommitted

def stateTo : MigState → Um.E2E.MigState
  | .preCheck => .preCheck
  | .preBlocking => .preBlocking
  | .preSwitch => .preSwitch
  | .scanning => .scanning
  | .finalSwitch => .finalSwitch
  | .switchCommitted => .switchCommitted

/-- the `(range list, state)` pairs `get_states` inserts, in the visiting order of the task map -/
def taskStates (ts : List Um.E2E.Task) : List (RangeL × MigState) :=
  ts.map fun t => (t.key.range.ranges, stateOf t.state)

/-- `MigrationMap::get_states` of the proxy -/
def statesOf (p : Um.E2E.ProxyState) : States := getStates (taskStates p.tasks)

/-- what `CLUSTER NODES` / `CLUSTER SLOTS` read: the proxy state (task map, epoch, …) and the view of the
last accepted metadata -/
structure Hist where
  p : Um.E2E.ProxyState
  vw : View

/-- a fresh process announcing `me` -/
def Hist.init (cfg : RouteCfg) (me : Addr) (announceHost : String) : Hist :=
  { p := { cfg := cfg, announceHost := announceHost }, vw := View.empty me }

/-- `MetaManager::set_meta`: a refused metadata changes nothing -/
def Hist.setMeta (h : Hist) (m : Um.E2E.EMeta) : Hist × Um.E2E.SetMetaReply :=
  match Um.E2E.setMeta h.p m with
  | (p', .ok) => ({ p := p', vw := viewOf h.vw.me m }, .ok)
  | (_, r) => (h, r)

/-- `MetaManager::handle_switch` (`UMCTL PRECHECK | PRESWITCH | FINALSWITCH` from a source proxy): C02's
`handleSwitch`, which looks the task up under the **whole** `MigrationTaskMeta` -/
def Hist.switch (h : Hist) (key : Um.E2E.TaskKey) (sub : Um.E2E.MgrSub) : Hist × Um.E2E.SwitchReply :=
  let r := Um.E2E.handleSwitch h.p key sub
  ({ h with p := r.1 }, r.2)

/-- timers of a migrating task that fire without any reply from the destination
(`RedisScanMigratingTask::run`: `tokio::time::timeout(max_migration_time, run_migration())` only logs "force to
commit migration" and goes on *sending* FINALSWITCH — `SwitchCommitted` is stored by `finalAcked`;
`run_migration`: the `max_blocking_time` branch only logs "Force to go ahead" and drops the blocking future) -/
inductive SrcTimer where
  | migrationTimeout | blockingTimeout
  deriving DecidableEq, Repr

/-- a timer alone stores no state: phases advance only on an acknowledged step (`srcStep`, `handleSwitch`) -/
def Hist.timer (h : Hist) (_key : Um.E2E.TaskKey) (_t : SrcTimer) : Hist := h

/-- `MetaManager::gen_cluster_nodes` -/
def Hist.nodes (h : Hist) (v : Version) : Bytes := genClusterNodes h.vw (statesOf h.p) v

/-- `MetaManager::gen_cluster_slots` -/
def Hist.slots (h : Hist) : Um.RouteCmd.Resp := genClusterSlots h.vw (statesOf h.p)

end Um.Nodes
