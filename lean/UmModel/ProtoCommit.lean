import UmModel.Proto
import UmModel.BrokerView
/-!
# The descriptor of a pending migration from the broker to the proxies and back (C17 ∩ C10)

broker `get_proxy_by_address` (tagged slot ranges of the proxy's nodes) → proxy INFOMGR
(`MigrationTaskMeta::into_strings().join(" ")`) → coordinator `parse_migration_task_meta`
(`split(' ')`, `from_strings`) → broker `commit_migration`, which reads the cluster name, the
range list and — from **either** tag kind — the epoch (`src/broker/migrate.rs`).
-/
namespace Um.Proto
open Um

def ofPair (r : Nat × Nat) : Range := ⟨r.1, r.2⟩
def toPair (r : Range) : Nat × Nat := (r.s, r.e)

def ofMigInfo (enc : String → Str) (i : Um.Broker.MigInfo) : MigrationMeta :=
  ⟨i.epoch, enc i.srcProxy, enc i.srcNode, enc i.dstProxy, enc i.dstNode⟩

/-- a served slot range (`common::cluster::SlotRange` as the broker builds it) in the byte-string
representation of the wire model; `enc` is the UTF-8 encoding of the address strings -/
def ofViewSlotRange (enc : String → Str) (v : Um.Broker.SlotRange) : SlotRange :=
  { ranges := v.ranges.map ofPair
    tag := match v.tag with
      | .none => .none
      | .migrating i => .migrating (ofMigInfo enc i)
      | .importing i => .importing (ofMigInfo enc i) }

/-- the `MigrationTaskMeta` a proxy reports for a slot range it was served -/
def descOf (enc : String → Str) (name : Str) (v : Um.Broker.SlotRange) : TaskMeta :=
  ⟨name, ofViewSlotRange enc v⟩

/-- what `MetaStoreMigrate::commit_migration` takes from the submitted descriptor:
`(range list, task epoch, tag is None)`.  Both `Migrating(meta)` and `Importing(meta)` yield
`meta.epoch`; only `None` is `InvalidMigrationTask`. -/
def commitArgs (t : TaskMeta) : List (Nat × Nat) × Nat × Bool :=
  match t.slotRange.tag with
  | .none => (t.slotRange.ranges.map toPair, 0, true)
  | .migrating m => (t.slotRange.ranges.map toPair, m.epoch, false)
  | .importing m => (t.slotRange.ranges.map toPair, m.epoch, false)

/-- a valid `ClusterName` is ASCII -/
def nameString (b : Str) : String := String.ofList (b.map fun x => Char.ofNat x.toNat)

/-- `MetaStore::commit_migration(task, clear_free_nodes)` on a parsed descriptor -/
def commitDescriptor (s : Um.Broker.Store) (t : TaskMeta) (clear : Bool) : Um.Broker.Store × Um.Broker.R Unit :=
  let a := commitArgs t
  Um.Broker.commitMigration s (nameString t.cluster) a.1 a.2.1 a.2.2 clear

/-- the tagged slot ranges `get_proxy_by_address` serves for the nodes of a proxy, as the
descriptors the proxy will report (INFOMGR) once the migrations have finished -/
def servedDescriptors (s : Um.Broker.Store) (addr : String) (limit : Nat) : Um.Broker.R (List TaskMeta) := do
  let v ← Um.Broker.proxyView s addr limit
  match v with
  | none => pure []
  | some p =>
    match p.cluster with
    | none => pure []
    | some name =>
      pure ((p.nodes.flatMap (·.slots)).filterMap fun sr =>
        match sr.tag with
        | .none => none
        | _ => some (descOf bytesOfString (bytesOfString name) sr))

end Um.Proto
