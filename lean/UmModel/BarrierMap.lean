/-!
# C11 — `BlockingMap` (`src/proxy/blocking.rs`): one blocking queue per backend address

`ctrl_map : DashMap<String, Weak<TaskBlockingQueue>>`.  Every user of a backend address — the
client path (`TaskBlockingQueueSenderFactory::create` → `get_blocking_queue`) and the migration
path (`TaskBlockingControllerFactory::create` → `get_or_create`) — obtains its queue through
`get_or_create`: the live queue registered for the address, or a new one which is then
registered (also over a dead `Weak`).  The map only holds `Weak`s: a queue dies when its last
holder is dropped.

Queues are identified by their creation number (the n-th call of `sender_factory.create`).
-/
namespace Um.Barrier.Map


inductive Kind where
  | sender   -- `TaskBlockingQueueSender` (holds the `Arc` privately)
  | ctrl     -- `Arc<TaskBlockingQueue>` from the controller factory / `get_blocking_queue`
  deriving DecidableEq, Repr

structure Holder where
  kind : Kind
  addr : Nat
  qid : Nat
  live : Bool
  deriving DecidableEq, Repr

structure MState where
  /-- `ctrl_map`: the queue whose `Weak` is stored under the address -/
  entry : Nat → Option Nat
  /-- every holder ever handed out, by holder id -/
  holders : List Holder
  /-- number of queues created so far -/
  nextQ : Nat

def init : MState := { entry := fun _ => none, holders := [], nextQ := 0 }

/-- `Weak::upgrade` succeeds iff somebody still holds the queue -/
def alive (st : MState) (q : Nat) : Bool := st.holders.any (fun h => h.live && h.qid == q)

/-- `BlockingMap::get_or_create`: (state, queue, was it created by this call) -/
def getOrCreate (st : MState) (a : Nat) : MState × Nat × Bool :=
  match st.entry a with
  | some q =>
    if alive st q then (st, q, false)
    else
      -- `Entry::Occupied`, dead `Weak`: create and `entry.insert(ctrl_weak)`
      ({ st with entry := fun b => if b = a then some st.nextQ else st.entry b,
                 nextQ := st.nextQ + 1 }, st.nextQ, true)
  | none =>
    -- `Entry::Vacant`
    ({ st with entry := fun b => if b = a then some st.nextQ else st.entry b,
               nextQ := st.nextQ + 1 }, st.nextQ, true)

inductive Op where
  | acquire (k : Kind) (a : Nat)   -- factory.create / controller factory / get_blocking_queue
  | drop (h : Nat)                  -- drop holder `h`
  | dropAll (a : Nat)              -- drop every holder of the address
  deriving DecidableEq, Repr

def killAt : List Holder → Nat → List Holder
  | [], _ => []
  | h :: hs, 0 => { h with live := false } :: hs
  | h :: hs, n + 1 => h :: killAt hs n

def step (st : MState) : Op → MState
  | .acquire k a =>
    let (st', q, _) := getOrCreate st a
    { st' with holders := st'.holders ++ [{ kind := k, addr := a, qid := q, live := true }] }
  | .drop h => { st with holders := killAt st.holders h }
  | .dropAll a =>
    { st with holders := st.holders.map (fun h => if h.addr = a then { h with live := false } else h) }

def run (st : MState) : List Op → MState
  | [] => st
  | o :: os => run (step st o) os

/-- the behavioural probe of the harness: the first live controller of `a` starts blocking, every
live sender of `a` sends one command; `true` = the command is queued (same queue), `false` = it is
handed to the backend (different queue, whose state nobody touched) -/
def probe (st : MState) (a : Nat) : Option (Nat × List (Nat × Bool)) :=
  let hs := st.holders.zipIdx
  match hs.find? (fun p => p.1.live && p.1.addr == a && p.1.kind == .ctrl) with
  | none => none
  | some (c, ci) =>
    some (ci, (hs.filter (fun p => p.1.live && p.1.addr == a && p.1.kind == .sender)).map
      (fun p => (p.2, p.1.qid == c.qid)))

end Um.Barrier.Map
