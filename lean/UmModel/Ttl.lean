import UmModel.Bytes
import UmGen.Consts
/-!
# C19 — PTTL reply → RESTORE ttl argument (`src/migration/scan_migration.rs`,
`src/proxy/migration_backend.rs`)
-/
namespace Um.Ttl
open Um

/-- the three constants come from the generated table (re-extracted from the source on every
run): `"-1"`, `"-2"`, `"0"` on the pinned tree -/
def PTTL_NO_EXPIRE : Bytes := Um.Gen.PTTL_NO_EXPIRE
def PTTL_KEY_NOT_FOUND : Bytes := Um.Gen.PTTL_KEY_NOT_FOUND
def RESTORE_NO_EXPIRE : Bytes := Um.Gen.RESTORE_NO_EXPIRE
def RESTORE_MIN_EXPIRE : Bytes := Um.Gen.RESTORE_MIN_EXPIRE

/-- `pttl_need_to_be_no_expire` -/
def pttlNeedNoExpire (buf : Bytes) : Bool :=
  if buf = PTTL_NO_EXPIRE then true
  else match btoiI64 buf with
    | some n => decide (n < 0)
    | none => true

/-- `pttl_is_zero` -/
def pttlIsZero (buf : Bytes) : Bool :=
  match btoiI64 buf with
  | some n => decide (n = 0)
  | none => false

/-- `pttl_to_restore_expire_time` -/
def pttlToRestore (pttl : Bytes) : Bytes :=
  if pttlNeedNoExpire pttl then RESTORE_NO_EXPIRE
  else if pttlIsZero pttl then RESTORE_MIN_EXPIRE
  else pttl

/-- Replies relevant to the transfer paths. -/
inductive Reply where
  | integer (b : Bytes)
  | bulk (b : Bytes)
  | nil
  | other
  deriving Repr, DecidableEq

inductive Transfer where
  | skip                                  -- nothing is restored
  | restore (ttl : Bytes) (data : Bytes)  -- `RESTORE key ttl data`
  | error
  deriving Repr, DecidableEq

/-- scan path and UMSYNC push path: `produce_entries` (PTTL first, then DUMP) followed by
`forward_entries` -/
def scanTransfer (pttl dump : Reply) : Transfer :=
  match pttl with
  | .integer p =>
    let pttlOpt : Option Bytes := if p = PTTL_KEY_NOT_FOUND then none else some p
    match dump, pttlOpt with
    | .bulk raw, some p => .restore (pttlToRestore p) raw
    | .nil, _ => .skip
    | _, none => .skip
    | _, _ => .error
  | _ => .error

/-- pull path: `get_data_entry` (DUMP first, then PTTL) followed by `gen_restore_resp` -/
def pullTransfer (dump pttl : Reply) : Transfer :=
  let dumpR : Except Unit (Option Bytes) :=
    match dump with
    | .bulk raw => .ok (some raw)
    | .nil => .ok none
    | _ => .error ()
  let pttlR : Except Unit (Option Bytes) :=
    match pttl with
    | .integer p => if p ≠ PTTL_KEY_NOT_FOUND then .ok (some p) else .ok none
    | _ => .error ()
  match dumpR, pttlR with
  | .ok (some raw), .ok (some p) => .restore (pttlToRestore p) raw
  | .ok none, _ => .skip
  | _, .ok none => .skip
  | .error _, _ => .error
  | _, .error _ => .error

end Um.Ttl
