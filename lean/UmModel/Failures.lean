/-!
# C18 — failure reports of the broker (`src/broker/store.rs`, `src/broker/update.rs`,
`src/broker/service.rs`)

Self-contained model of the failure-report sub-state of `MetaStore` and of every operation of
`MetaStoreUpdate` that writes it.  Import-free (core only).

## Field correspondence (for linking with `UmModel/Broker.lean`)

| here                     | `MetaStore` (src/broker/store.rs)                                        |
|--------------------------|---------------------------------------------------------------------------|
| `State.ordered`          | `enable_ordered_proxy`                                                     |
| `State.epoch`            | `global_epoch` (u64; modelled as `Nat`, wrap-around at 2^64 not modelled)  |
| `State.allProxies`       | `all_proxies : HashMap<String, ProxyResource>`, value = `cluster.is_some()` |
| `State.failedProxies`    | `failed_proxies : HashSet<String>`                                         |
| `State.failures`         | `failures : HashMap<String, HashMap<String, i64>>` address ↦ reporter ↦ unix seconds |

Hash maps are association lists with pairwise distinct keys (`WF`); iteration order is never
observable here (every output is compared as a set: the harness and the driver sort).

## Time
`now` is a parameter: nanoseconds since the unix epoch (`Utc::now()`), an `Int`.
`chrono::Duration` values (`failure_ttl`) are total nanoseconds (`Int`, may be negative:
`Duration::seconds(cfg.failure_ttl as i64)` wraps for `failure_ttl > i64::MAX`).
`DateTime::timestamp()` is the floor of seconds, `Int./` (= `ediv`, floor for a positive divisor).

## Operations (the complete list of writers of the three fields in `src/broker`)
`add_failure`, `get_failures` (mutates), `cleanup_failures`, `add_proxy`, `remove_proxy`,
`replace_failed_proxy`, `MetaStore::restore`.  `replace_failed_proxy` is concrete for a free
proxy and an abstract outcome (supplied by the caller / observed by the harness) for a proxy
that serves a cluster; `allocate`/`release` are the abstract footprint of the cluster operations
(`add_cluster`, `auto_add_nodes`, `remove_cluster`, `auto_delete_free_nodes`, …) on this
sub-state: they flip `cluster.is_some()` and bump the epoch, nothing else.
-/
namespace Um.Failures

abbrev Addr := String
abbrev Reporter := String

/-! ## association lists (HashMap with `String` keys) -/

/-- `HashMap::get` -/
def aget {β : Type} (k : String) : List (String × β) → Option β
  | [] => none
  | (k', v) :: rest => if k' = k then some v else aget k rest

/-- `HashMap::contains_key` -/
def ahas {β : Type} (k : String) (l : List (String × β)) : Bool := (aget k l).isSome

/-- `HashMap::remove` (all entries with that key; there is at most one under `WF`) -/
def adel {β : Type} (k : String) (l : List (String × β)) : List (String × β) :=
  l.filter fun p => decide (p.1 ≠ k)

/-- replace the value stored under an existing key -/
def aset {β : Type} (k : String) (v : β) (l : List (String × β)) : List (String × β) :=
  l.map fun p => if p.1 = k then (p.1, v) else p

/-! ## state -/

structure State where
  ordered : Bool
  epoch : Nat
  allProxies : List (Addr × Bool)
  failedProxies : List Addr
  failures : List (Addr × List (Reporter × Int))
  deriving Repr, DecidableEq

/-- `MetaStore::new(enable_ordered_proxy)` -/
def init (ordered : Bool) : State :=
  { ordered := ordered, epoch := 0, allProxies := [], failedProxies := [], failures := [] }

/-- `all_proxies.contains_key(a)` -/
def registered (s : State) (a : Addr) : Bool := ahas a s.allProxies

/-- the stored report time of reporter `r` about address `a` (unix seconds) -/
def stored (s : State) (a : Addr) (r : Reporter) : Option Int :=
  match aget a s.failures with
  | some m => aget r m
  | none => none

/-- `get_failed_proxies` (order = hash order in the code; compared as a set) -/
def getFailedProxies (s : State) : List Addr := s.failedProxies

/-! ## time -/

/-- nanoseconds per second -/
def NS : Int := 1000000000

/-- `NaiveDateTime::from_timestamp(t, 0)` (chrono 0.4.20) panics outside
`-262144-01-01T00:00:00 ..= +262143-12-31T23:59:59`. -/
def tsMin : Int := -8334632851200
def tsMax : Int := 8210298412799
def tsInRange (t : Int) : Bool := decide (tsMin ≤ t) && decide (t ≤ tsMax)

/-- the retain predicate of `get_failures`: `now - report_datetime < failure_ttl` with
`report_datetime` = `t` whole seconds, everything in nanoseconds -/
def fresh (now ttl : Int) (t : Int) : Bool := decide (now - t * NS < ttl)

/-! ## `add_failure` -/

/-- returns the new state and the `bool` result ("store has changed") -/
def addFailure (s : State) (now : Int) (a : Addr) (r : Reporter) : State × Bool :=
  match aget a s.failures with
  | some m =>
    if ahas r m then (s, false)
    else ({ s with epoch := s.epoch + 1,
                   failures := aset a (m ++ [(r, now / NS)]) s.failures }, true)
  | none =>
    ({ s with epoch := s.epoch + 1, failures := s.failures ++ [(a, [(r, now / NS)])] }, true)

/-! ## `get_failures` / `cleanup_failures` -/

inductive GetResult where
  /-- new state and the returned addresses -/
  | ok (s : State) (listed : List Addr)
  /-- `NaiveDateTime::from_timestamp` panicked on a stored time (only reachable through
  `restore`); the store is left partially purged in hash order, which is not modelled -/
  | panic
  deriving Repr, DecidableEq

def allTimesInRange (f : List (Addr × List (Reporter × Int))) : Bool :=
  f.all fun p => p.2.all fun q => tsInRange q.2

/-- step 1+2 of `get_failures`: per-address `retain` of fresh reports, then drop empty maps -/
def purge (now ttl : Int) (f : List (Addr × List (Reporter × Int))) :
    List (Addr × List (Reporter × Int)) :=
  (f.map fun p => (p.1, p.2.filter fun q => fresh now ttl q.2)).filter fun p => !p.2.isEmpty

def getFailures (s : State) (now ttl : Int) (quorum : Nat) : GetResult :=
  if !allTimesInRange s.failures then .panic
  else
    let f := purge now ttl s.failures
    let listed := (f.filter fun p => decide (p.2.length ≥ quorum)).filterMap fun p =>
      if registered s p.1 then some p.1 else none
    .ok { s with failures := f } listed

/-- `cleanup_failures`: whether the number of addresses with reports changed -/
def cleanupFailures (s : State) (now ttl : Int) (quorum : Nat) : Option (State × Bool) :=
  match getFailures s now ttl quorum with
  | .ok s' _ => some (s', decide (s.failures.length ≠ s'.failures.length))
  | .panic => none

/-! ## `add_proxy` / `remove_proxy` -/

inductive Err where
  | invalidProxyAddress | missingIndex | alreadyExisted | proxyNotFound | inUse | smallEpoch
  /-- an error of the un-modelled in-cluster part of `replace_failed_proxy`; the code string is
  supplied with the abstract outcome -/
  | other (code : String)
  deriving Repr, DecidableEq

/-- `MetaStoreError::to_code` -/
def Err.code : Err → String
  | .invalidProxyAddress => "INVALID_PROXY_ADDRESS"
  | .missingIndex => "MISSING_SERVER_PROXY_INDEX"
  | .alreadyExisted => "ALREADY_EXISTED"
  | .proxyNotFound => "PROXY_NOT_FOUND"
  | .inUse => "IN_USE"
  | .smallEpoch => "EPOCH_SMALLER_THAN_CURRENT"
  | .other c => c

/-- `proxy_address.split(':').count() == 2` -/
def validAddr (a : Addr) : Bool := (a.toList.filter fun c => c = ':').length = 1

/-- the argument check of `add_proxy`: it acts iff this holds (`index` = `proxy_index.is_some()`) -/
def addProxyAccepted (ordered : Bool) (a : Addr) (index : Bool) : Bool :=
  validAddr a && (!ordered || index)

def addProxy (s : State) (a : Addr) (index : Bool) : State × Option Err :=
  if !validAddr a then (s, some .invalidProxyAddress)
  else if s.ordered && !index then (s, some .missingIndex)
  else
    let ex := registered s a
    let allP := if ex then s.allProxies else s.allProxies ++ [(a, false)]
    let cleared := s.failedProxies.contains a
    let cleared := ahas a s.failures || cleared
    let s' : State :=
      { s with allProxies := allP,
               failedProxies := s.failedProxies.filter (fun x => decide (x ≠ a)),
               failures := adel a s.failures,
               epoch := if !ex || cleared then s.epoch + 1 else s.epoch }
    (s', if !ex then none else some .alreadyExisted)

def removeProxy (s : State) (a : Addr) : State × Option Err :=
  match aget a s.allProxies with
  | none => (s, some .proxyNotFound)
  | some true => (s, some .inUse)
  | some false =>
    ({ s with allProxies := adel a s.allProxies,
              failedProxies := s.failedProxies.filter (fun x => decide (x ≠ a)),
              failures := adel a s.failures,
              epoch := s.epoch + 1 }, none)

/-! ## `replace_failed_proxy` -/

/-- what the un-modelled in-cluster part of `replace_failed_proxy` did (observed, not computed) -/
inductive InCluster where
  /-- `takeover_master` returned an error (after `bumps` epoch bumps); nothing else happened -/
  | takeoverErr (code : String) (bumps : Nat)
  /-- ordered mode: takeover, one more bump, `Ok(None)`, *not* marked failed -/
  | orderedNoReplace (bumps : Nat)
  /-- marked failed, then `generate_new_free_proxy` failed: still serving the cluster -/
  | noResource (code : String) (bumps : Nat)
  /-- marked failed, freed, `b` now serves the cluster in its place -/
  | replaced (b : Addr) (bumps : Nat)
  deriving Repr, DecidableEq

inductive ReplaceResult where
  | err (e : Err)
  /-- `Ok(None)` -/
  | none
  /-- `Ok(Some(proxy))` with the address of the replacement -/
  | some (b : Addr)
  deriving Repr, DecidableEq

def setCluster (a : Addr) (flag : Bool) (l : List (Addr × Bool)) : List (Addr × Bool) :=
  l.map fun p => if p.1 = a then (p.1, flag) else p

/-- `HashSet::insert` -/
def sinsert (a : Addr) (l : List Addr) : List Addr := if l.contains a then l else l ++ [a]

def replaceFailedProxy (s : State) (a : Addr) (o : InCluster) : State × ReplaceResult :=
  match aget a s.allProxies with
  | none => (s, .err .proxyNotFound)
  | some false =>
    -- free proxy: forget the reports, mark failed, no epoch bump
    ({ s with failures := adel a s.failures, failedProxies := sinsert a s.failedProxies }, .none)
  | some true =>
    match o with
    | .takeoverErr code bumps => ({ s with epoch := s.epoch + bumps }, .err (.other code))
    | .orderedNoReplace bumps => ({ s with epoch := s.epoch + bumps }, .none)
    | .noResource code bumps =>
      ({ s with epoch := s.epoch + bumps, failedProxies := sinsert a s.failedProxies },
       .err (.other code))
    | .replaced b bumps =>
      ({ s with epoch := s.epoch + bumps, failedProxies := sinsert a s.failedProxies,
                allProxies := setCluster b true (setCluster a false s.allProxies) }, .some b)

/-! ## abstract footprint of the cluster operations, and `restore` -/

def markAll (as : List Addr) (flag : Bool) (l : List (Addr × Bool)) : List (Addr × Bool) :=
  l.map fun p => if as.contains p.1 then (p.1, flag) else p

/-- proxies `as` start serving a cluster (`proxy.cluster = Some(..)`), epoch bumped `bumps` times -/
def allocate (s : State) (as : List Addr) (bumps : Nat) : State :=
  { s with allProxies := markAll as true s.allProxies, epoch := s.epoch + bumps }

/-- proxies `as` are set free (`proxy.cluster = None`) -/
def release (s : State) (as : List Addr) (bumps : Nat) : State :=
  { s with allProxies := markAll as false s.allProxies, epoch := s.epoch + bumps }

/-- `MetaStore::restore` (the version strings are equal: there is one version) -/
def restore (s : State) (other : State) : State × Option Err :=
  if s.epoch > other.epoch then (s, some .smallEpoch) else (other, none)

/-! ## operation sequences -/

inductive Op where
  | report (now : Int) (a : Addr) (r : Reporter)
  | query (now ttl : Int) (quorum : Nat)
  | cleanup (now ttl : Int) (quorum : Nat)
  | addProxy (a : Addr) (index : Bool)
  | removeProxy (a : Addr)
  | replaceFailed (a : Addr) (o : InCluster)
  | allocate (as : List Addr) (bumps : Nat)
  | release (as : List Addr) (bumps : Nat)
  | restore (other : State)
  deriving Repr

def step (s : State) : Op → State
  | .report now a r => (addFailure s now a r).1
  | .query now ttl q =>
    match getFailures s now ttl q with
    | .ok s' _ => s'
    | .panic => s
  | .cleanup now ttl q =>
    match getFailures s now ttl q with
    | .ok s' _ => s'
    | .panic => s
  | .addProxy a i => (addProxy s a i).1
  | .removeProxy a => (removeProxy s a).1
  | .replaceFailed a o => (replaceFailedProxy s a o).1
  | .allocate as b => allocate s as b
  | .release as b => release s as b
  | .restore o => (restore s o).1

def run (s : State) (ops : List Op) : State := ops.foldl step s

/-- pairwise distinct keys everywhere (what a `HashMap`/`HashSet` guarantees) -/
def WF (s : State) : Prop :=
  (s.allProxies.map (·.1)).Nodup ∧ s.failedProxies.Nodup ∧
  (s.failures.map (·.1)).Nodup ∧ ∀ p ∈ s.failures, (p.2.map (·.1)).Nodup

end Um.Failures
