/-!
# C08 — the client session (`src/proxy/session.rs`) and `CmdReplySender` (`src/proxy/command.rs`)

`handle_session` keeps two FIFOs: `reply_receiver_list` (one reply future per request, in the
order in which the requests were decoded) and `replies` (packets ready to be written).  Every poll
(1) decodes requests and pushes their futures, (2) pops futures *from the front only* while the
front one is ready, converting `Ok(reply)` to the backend packet and `Err(e)` to the error packet
`Err cmd error {e:?}`, (3) feeds `replies` to the socket writer in order.

`new_command_pair` is a oneshot: `CmdReplySender::send` takes the inner sender (`Option::take`), so
a second `send` finds `None` (`unexpected send again`, `Err(InnerError)`) and changes nothing;
`Drop` calls the same `try_send(Err(CommandError::Dropped))`, so a sender dropped without a send
makes the receiver resolve to `Dropped`.

## The socket writer
`writer` is the `SplitSink` half of a `Framed`: `start_send` only appends the encoded packet to the
write buffer; bytes reach the socket in `poll_flush`, which returns `Pending` (and registers the
session's waker for socket writability) when the socket takes only part of the buffer.
`Framed::poll_ready` itself flushes — and must finish — once the buffer has reached its
backpressure boundary.  The write stage of every poll is: `poll_ready`, then `start_send` of the
front of `replies`, repeated; when `replies` is empty it *always* ends with `poll_flush`
("the former execution of this polling function may have a Pending result for poll_flush").
`written` are the packets appended to the buffer, `flushed` how many of them are on the socket,
`armed` whether a flush returned `Pending` in the latest poll (waker registered).  `pollStep` is one
whole poll (`nreq` requests decoded, the pop loop, the write stage while the socket accepts `cap`
more packets); granularity is packets, not bytes, and the one-item slot of `SplitSink` is merged
into the buffer.

Import-free.  Events are the observable steps at the boundary (request decoded, a holder of the
sender sends / drops it, the front-pop loop, one `start_send` to the client socket, the session
ending for any reason: peer closed, decode error, write error, idle timeout).
-/
namespace Um.Session

abbrev ReqId := Nat

/-- `CommandError` -/
inductive CmdErr where
  | io | unexpectedResponse | dropped | canceled | backend | inner
deriving DecidableEq, Repr

/-- `TaskResult`: `Ok(reply)` carrying the reply's payload tag, or `Err(e)` -/
inductive TaskRes where
  | ok (tag : Nat)
  | err (e : CmdErr)
deriving DecidableEq, Repr

/-- the oneshot made by `new_command_pair` -/
structure Pair where
  /-- `reply_sender.is_some()` -/
  armed : Bool := true
  /-- what the `CmdReplyReceiver` resolves to, once set -/
  value : Option TaskRes := none
deriving DecidableEq, Repr

/-- `CmdReplySender::send` (`try_send`): the Bool is `false` for "unexpected send again". -/
def Pair.send (p : Pair) (r : TaskRes) : Pair × Bool :=
  if p.armed then ({ armed := false, value := some r }, true) else (p, false)

/-- `impl Drop for CmdReplySender` -/
def Pair.drop (p : Pair) : Pair := (p.send (.err .dropped)).1

/-- a packet written to the client: the backend's packet or `Err cmd error {e:?}` -/
inductive Reply where
  | data (tag : Nat)
  | cmdErr (e : CmdErr)
deriving DecidableEq, Repr

def replyOf : TaskRes → Reply
  | .ok t => .data t
  | .err e => .cmdErr e

structure St where
  /-- requests decoded so far; the next one gets this id -/
  nextReq : Nat := 0
  /-- `reply_receiver_list` -/
  waiting : List ReqId := []
  /-- `replies` -/
  replies : List Reply := []
  /-- packets handed to the socket writer (`start_send`), in order -/
  written : List Reply := []
  /-- the oneshot of each request -/
  pairs : ReqId → Pair := fun _ => {}
  /-- `handle_session` has returned (connection closed) -/
  ended : Bool := false
  /-- how many packets of `written` have left the write buffer for the socket -/
  flushed : Nat := 0
  /-- a `poll_flush` returned `Pending` in the latest poll: the waker waits for socket writability -/
  armed : Bool := false
  /-- `BACKPRESSURE_BOUNDARY` of the `Framed` write buffer, in packets -/
  hwm : Nat := 1

def init : St := {}

inductive Ev where
  | request                          -- reader yielded a complete request
  | send (id : ReqId) (r : TaskRes)  -- some holder calls `CmdReplySender::send`
  | dropSender (id : ReqId)          -- the `CmdReplySender` (or the `CmdCtx` owning it) is dropped
  | pump                             -- the `while let Some(front)` loop
  | writeOne                         -- one `start_send` of the front of `replies`
  | stop                             -- peer closed / reader error / write error / timeout
deriving Repr

/-- the front-pop loop over `reply_receiver_list` -/
def pumpList (pairs : ReqId → Pair) : List ReqId → List Reply → List ReqId × List Reply
  | [], acc => ([], acc)
  | id :: rest, acc =>
    match (pairs id).value with
    | some v => pumpList pairs rest (acc ++ [replyOf v])
    | none => (id :: rest, acc)

def setPair (f : ReqId → Pair) (id : ReqId) (p : Pair) : ReqId → Pair :=
  fun j => if j = id then p else f j

def step (s : St) : Ev → St
  | .request =>
    if s.ended then s
    else { s with nextReq := s.nextReq + 1, waiting := s.waiting ++ [s.nextReq] }
  | .send id r => { s with pairs := setPair s.pairs id ((s.pairs id).send r).1 }
  | .dropSender id => { s with pairs := setPair s.pairs id (s.pairs id).drop }
  | .pump =>
    if s.ended then s
    else
      let (w, r) := pumpList s.pairs s.waiting s.replies
      { s with waiting := w, replies := r }
  | .writeOne =>
    if s.ended then s
    else match s.replies with
      | [] => s
      | r :: rest => { s with replies := rest, written := s.written ++ [r] }
  | .stop => { s with ended := true }

def run : St → List Ev → St
  | s, [] => s
  | s, e :: es => run (step s e) es

/-! ## one whole poll of `handle_session` (write stage with the socket) -/

/-- `Framed::poll_flush` while the socket accepts `cap` more packets: returns the state and the
capacity left; `armed` is set when it returns `Pending` (something stays in the buffer) -/
def flushWith (s : St) (cap : Nat) : St × Nat :=
  let un := s.written.length - s.flushed
  let k := min un cap
  ({ s with flushed := s.flushed + k, armed := s.armed || decide (k < un) }, cap - k)

/-- the write loop: `poll_ready` (flushes first when the buffer is at the boundary; `Pending` ends
the poll), `start_send` of the front of `replies`; with `replies` empty the final `poll_flush` -/
def writeLoop : Nat → St → Nat → St × Nat
  | 0, s, cap => (s, cap)
  | n + 1, s, cap =>
    let (s1, cap1) := if s.written.length - s.flushed ≥ s.hwm then flushWith s cap else (s, cap)
    if s.written.length - s.flushed ≥ s.hwm ∧ s1.flushed < s1.written.length then (s1, cap1)
    else match s1.replies with
      | [] => flushWith s1 cap1
      | r :: rest => writeLoop n { s1 with replies := rest, written := s1.written ++ [r] } cap1

/-- `n` requests decoded by the read loop -/
def requests : Nat → St → St
  | 0, s => s
  | n + 1, s => requests n (step s .request)

/-- one poll: read loop, pop loop, write stage -/
def pollStep (s : St) (nreq cap : Nat) : St :=
  if s.ended then s
  else
    let s2 := step (requests nreq { s with armed := false }) .pump
    (writeLoop (s2.replies.length + 1) s2 cap).1

/-- poll-structured events: what happens between two polls, and a poll -/
inductive PEv where
  | send (id : ReqId) (r : TaskRes)
  | dropSender (id : ReqId)
  | poll (nreq cap : Nat)
  | stop
deriving Repr

def pstep (s : St) : PEv → St
  | .send id r => step s (.send id r)
  | .dropSender id => step s (.dropSender id)
  | .poll nreq cap => pollStep s nreq cap
  | .stop => step s .stop

def prun : St → List PEv → St
  | s, [] => s
  | s, e :: es => prun (pstep s e) es

/-- what request `i` is owed according to its oneshot (`none` while nobody has sent) -/
def owedReply (s : St) (i : ReqId) : Option Reply := ((s.pairs i).value).map replyOf

end Um.Session
