/-!
# Slot ranges (`src/common/cluster.rs`: `Range`, `RangeList`)

`Range(start, end)` is a pair; `RangeList` a list of ranges. `compact` is the code's
normalisation: swap reversed ranges, *stable* sort by start, then one left-to-right pass that
merges a range into its predecessor when `pred.end + 1 ≥ range.start`.
-/
namespace Um

abbrev Range := Nat × Nat
abbrev RangeList := List Range

namespace Slots

/-- `range.end() - range.start() + 1` (usize arithmetic; on well-formed ranges no underflow) -/
def rangeNum (r : Range) : Nat := r.2 - r.1 + 1

/-- `RangeList::get_slots_num` -/
def slotsNum (l : RangeList) : Nat := (l.map rangeNum).sum

/-- the slots a range covers, ascending -/
def rangeSlots (r : Range) : List Nat := List.range' r.1 (r.2 + 1 - r.1)

/-- all slots of a range list, in list order -/
def slotsOf (l : RangeList) : List Nat := l.flatMap rangeSlots

/-- swap a reversed range -/
def normRange (r : Range) : Range := if r.1 > r.2 then (r.2, r.1) else r

/-- the merge pass of `compact` with `cur = self.0[a]` -/
def mergeGo (cur : Range) : List Range → List Range
  | [] => [cur]
  | e :: es =>
    if cur.2 + 1 ≥ e.1 then mergeGo (cur.1, max cur.2 e.2) es
    else cur :: mergeGo e es

def mergeSorted : List Range → List Range
  | [] => []
  | r :: rs => mergeGo r rs

def startLe (a b : Range) : Bool := decide (a.1 ≤ b.1)

/-- `RangeList::compact` (`sort_by_key` is a stable sort, as is `List.mergeSort`) -/
def compact (l : RangeList) : RangeList :=
  mergeSorted ((l.map normRange).mergeSort startLe)

/-- `RangeList::new` -/
def rlNew (l : List Range) : RangeList := compact l

/-- `RangeList::from_single_range` -/
def fromSingle (r : Range) : RangeList := [normRange r]

/-- `RangeList::merge_another` -/
def mergeAnother (a b : RangeList) : RangeList := compact (a ++ b)

/-- `RangeList::to_strings` without the count, rendered `s-e` joined by `+` (`e` for empty) -/
def render (l : RangeList) : String :=
  match l with
  | [] => "e"
  | _ => String.intercalate "+" (l.map fun r => s!"{r.1}-{r.2}")

end Slots
end Um
