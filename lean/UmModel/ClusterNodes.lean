import UmModel.Bytes
import UmModel.Route
import UmModel.RouteCmd
import UmGen.NodesTable
/-!
# CLUSTER NODES / CLUSTER SLOTS of one proxy
(`src/proxy/cluster.rs`: `should_ignore_slots`, `gen_cluster_nodes_helper`, `gen_cluster_slots_helper`,
`gen_node_id`, `LocalCluster::gen_local_cluster_{nodes,slots}`, `RemoteCluster::gen_remote_cluster_{nodes,slots}`,
`ClusterBackendMap::gen_cluster_{nodes,slots}`; `src/migration/manager.rs`: `MigrationMap::get_states`;
`src/proxy/manager.rs`: `MetaManager::gen_cluster_{nodes,slots}`)

## Conventions
* Texts are `Bytes` (the UTF-8 bytes of the Rust `String`s). `str::split(':')` is modelled as a split at
  byte 58 — the same pieces for every valid UTF-8 string.
* Node maps (`HashMap<String, Vec<SlotRange>>`) are lists **in visiting order** (DESIGN §2.3), as in
  `UmModel/Route.lean`; theorems quantify over every list. The same `HashMap` instance is iterated by NODES
  and by SLOTS, but the order is irrelevant to every statement proved about them.
* `format!("{:_<24}", name)` pads by `char`s and `truncate(24)` cuts bytes: they agree because a
  `ClusterName` is ASCII (`ClusterName::try_from` accepts only `[A-Za-z0-9@_-]`). The model pads bytes.
* A `SlotRange` is its range list as installed (`RangeList::get_ranges()`: compacted when it came through
  the textual `SETCLUSTER` parser, verbatim when it came through the compressed/serde form) and the *kind*
  of its tag; the `MigrationMeta` inside the tag does not influence either command.
* The phase map of `get_states` is keyed by the **range list only** (not by tag or cluster).
-/
namespace Um.Nodes
open Um Um.Route Um.RouteCmd

/-! ## migration states and `should_ignore_slots` -/

/-- `enum MigrationState` (`src/migration/task.rs`) -/
inductive MigState where
  | preCheck | preBlocking | preSwitch | scanning | finalSwitch | switchCommitted
  deriving DecidableEq, Repr

/-- variant name as in the Rust source (key into the generated tables) -/
def MigState.name : MigState → String
  | .preCheck => "PreCheck"
  | .preBlocking => "PreBlocking"
  | .preSwitch => "PreSwitch"
  | .scanning => "Scanning"
  | .finalSwitch => "FinalSwitch"
  | .switchCommitted => "SwitchCommitted"

def MigState.all : List MigState :=
  [.preCheck, .preBlocking, .preSwitch, .scanning, .finalSwitch, .switchCommitted]

def MigState.ofName (s : String) : Option MigState := MigState.all.find? fun st => st.name == s

/-- the kind of a `SlotRangeTag` -/
inductive TagKind where
  | none | migrating | importing
  deriving DecidableEq, Repr

def TagKind.name : TagKind → String
  | .none => "None"
  | .migrating => "Migrating"
  | .importing => "Importing"

/-- `SlotRange` as far as NODES / SLOTS / routing look at it -/
structure SlotRange where
  /-- `range_list.get_ranges()` -/
  ranges : RangeL
  tag : TagKind
  deriving DecidableEq, Repr

/-- node address → its `SlotRange`s, in visiting order -/
abbrev NodeSlots := List (Addr × List SlotRange)

/-- `HashMap<RangeList, MigrationState>` -/
abbrev States := RangeL → Option MigState

/-- `MigrationMap::get_states`: one `insert(range_list, state)` per task in the visiting order of the
task map (a later insert under an equal range list overwrites) -/
def getStates (tasks : List (RangeL × MigState)) : States :=
  fun rl => (tasks.reverse.find? fun t => t.1 == rl).map (·.2)

/-- `should_ignore_slots`, read off the generated truth table -/
def shouldIgnore (tag : TagKind) (st : Option MigState) : Bool :=
  ((Um.Gen.Nodes.shouldIgnoreTable.find? fun row =>
      row.1 == tag.name && row.2.1 == st.map MigState.name).map (·.2.2)).getD false

/-! ## `gen_node_id` -/

def crc64PolyRev : UInt64 := 0x95AC9329AC4BC9B5

def crc64Bit (c : UInt64) : UInt64 :=
  if c &&& 1 == 1 then (c >>> 1) ^^^ crc64PolyRev else c >>> 1

/-- one byte of the reflected CRC-64/Jones (what the table lookups of the `crc64` crate compute) -/
def crc64Byte (c : UInt64) (b : UInt8) : UInt64 :=
  let c := c ^^^ b.toUInt64
  crc64Bit (crc64Bit (crc64Bit (crc64Bit (crc64Bit (crc64Bit (crc64Bit (crc64Bit c)))))))

/-- `crc64::crc64(0, data)` -/
def crc64 (data : Bytes) : UInt64 := data.foldl crc64Byte 0

/-- `{:x}` of a `u64`: lower-case hex, no leading zeros; 16 digits of fuel -/
def hexLowerAux : Nat → Nat → Bytes → Bytes
  | 0, _, acc => acc
  | f + 1, n, acc =>
    let d := n % 16
    let c : UInt8 := if d < 10 then UInt8.ofNat (48 + d) else UInt8.ofNat (87 + d)
    if n < 16 then c :: acc else hexLowerAux f (n / 16) (c :: acc)

def hexLower (n : Nat) : Bytes := hexLowerAux 16 n []

/-- `format!("{:_<w}", s)` followed by `truncate(w)` -/
def padTrunc (w : Nat) (pad : UInt8) (s : Bytes) : Bytes :=
  (s ++ List.replicate (w - s.length) pad).take w

/-- `gen_node_id` -/
def genNodeId (name : String) (addr : Addr) : Bytes :=
  padTrunc Um.Gen.Nodes.nodeIdNameWidth Um.Gen.Nodes.nodeIdPad (bs name) ++
  padTrunc Um.Gen.Nodes.nodeIdHashWidth Um.Gen.Nodes.nodeIdPad (hexLower (crc64 (bs addr)).toNat)

/-! ## CLUSTER NODES -/

inductive Version where
  | v1 | v2
  deriving DecidableEq, Repr

/-- `Vec<String>::join(sep)` -/
def joinWith (sep : Bytes) : List Bytes → Bytes
  | [] => []
  | [x] => x
  | x :: y :: rest => x ++ sep ++ joinWith sep (y :: rest)

/-- one `Range` of a NODES line: `start` when `start == end`, else `start-end` -/
def rangeToken (r : Nat × Nat) : Bytes :=
  if r.1 == r.2 then decimal r.1 else decimal r.1 ++ [45] ++ decimal r.2

/-- the `flat_map` over the `SlotRange`s of one node -/
def nodeTokens (states : States) (srs : List SlotRange) : List Bytes :=
  srs.flatMap fun sr => if shouldIgnore sr.tag (states sr.ranges) then [] else sr.ranges.map rangeToken

/-- the V1 / V2 address field -/
def addressField (v : Version) (addr : Addr) : Bytes :=
  match v with
  | .v1 => bs addr
  | .v2 => bs addr ++ [64] ++ decimal Um.Gen.Nodes.CLUSTER_NODES_CPORT

/-- one iteration of the `for (addr, ranges)` loop of `gen_cluster_nodes_helper` -/
def nodeLine (name : String) (epoch : Nat) (states : States) (loc : Bool) (v : Version)
    (n : Addr × List SlotRange) : Bytes :=
  let id := genNodeId name n.1
  let address := addressField v n.1
  let slotRange := joinWith [32] (nodeTokens states n.2)
  let slotRangeStr := if !slotRange.isEmpty then [32] ++ slotRange else []
  let flags := if loc then Um.Gen.Nodes.flagsLocal else Um.Gen.Nodes.flagsPeer
  id ++ [32] ++ address ++ [32] ++ flags ++ [32] ++ Um.Gen.Nodes.fieldMaster ++ [32] ++
    Um.Gen.Nodes.fieldPingSent ++ [32] ++ Um.Gen.Nodes.fieldPongRecv ++ [32] ++ decimal epoch ++ [32] ++
    Um.Gen.Nodes.fieldLinkState ++ slotRangeStr ++ [10]

/-- `gen_cluster_nodes_helper` -/
def genClusterNodesHelper (name : String) (epoch : Nat) (slotRanges : NodeSlots) (states : States)
    (loc : Bool) (v : Version) : Bytes :=
  slotRanges.flatMap (nodeLine name epoch states loc v)

/-- what `ClusterBackendMap::from_cluster_map` keeps for the two commands, plus the proxy's
`announce_address` and `command_cluster_nodes_version` -/
structure View where
  name : String
  epoch : Nat
  /-- `ServerProxyConfig.announce_address` -/
  me : Addr
  loc : NodeSlots
  peer : NodeSlots
  deriving Repr

/-- `MetaMap::empty()`: `ClusterBackendMap::default()` -/
def View.empty (me : Addr) : View := { name := "", epoch := 0, me := me, loc := [], peer := [] }

/-- `self.slot_ranges.values().flatten().cloned().collect()` of the two `gen_local_*` -/
def localSlots (vw : View) : List SlotRange := vw.loc.flatMap (·.2)

/-- `ClusterBackendMap::gen_cluster_nodes` (= `MetaManager::gen_cluster_nodes` with the states of the
migration map) -/
def genClusterNodes (vw : View) (states : States) (v : Version) : Bytes :=
  genClusterNodesHelper vw.name vw.epoch [(vw.me, localSlots vw)] states true v ++
  genClusterNodesHelper vw.name vw.epoch vw.peer states false v

/-! ## CLUSTER SLOTS -/

/-- `split(sep)` of a byte string: always at least one piece -/
def splitOn (sep : UInt8) : Bytes → List Bytes
  | [] => [[]]
  | b :: rest =>
    if b == sep then [] :: splitOn sep rest
    else
      match splitOn sep rest with
      | [] => [[b]]   -- unreachable
      | p :: ps => (b :: p) :: ps

/-- the entries of one `SlotRange` of node `(host, port, id)` -/
def slotsOfRange (ipPort : Resp) (sr : SlotRange) : List Resp :=
  sr.ranges.map fun r => .arr [.integer (decimal r.1), .integer (decimal r.2), ipPort]

/-- `addr.split(':')`: the first two pieces (`None`: there is no `:`) -/
def hostPort (a : Addr) : Option (Bytes × Bytes) :=
  match splitOn 58 (bs a) with
  | host :: port :: _ => some (host, port)
  | _ => none

/-- one iteration of the `for (addr, ranges)` loop of `gen_cluster_slots_helper` -/
def slotsOfNode (name : String) (states : States) (n : Addr × List SlotRange) : Except Bytes (List Resp) :=
  match hostPort n.1 with
  | some (host, port) =>
    let ipPort : Resp := .arr [.bulk host, .integer port, .bulk (genNodeId name n.1)]
    .ok ((n.2.filter fun sr => !shouldIgnore sr.tag (states sr.ranges)).flatMap (slotsOfRange ipPort))
  | none => .error (Um.Gen.Nodes.slotsInvalidAddressPrefix ++ bs n.1)

/-- `gen_cluster_slots_helper`: the first address without a `:` aborts the whole reply -/
def genClusterSlotsHelper (name : String) (states : States) : NodeSlots → Except Bytes (List Resp)
  | [] => .ok []
  | n :: rest =>
    match slotsOfNode name states n with
    | .error e => .error e
    | .ok xs =>
      match genClusterSlotsHelper name states rest with
      | .error e => .error e
      | .ok ys => .ok (xs ++ ys)

/-- `ClusterBackendMap::gen_cluster_slots` followed by the reply construction of `handle_cluster` -/
def genClusterSlots (vw : View) (states : States) : Resp :=
  match genClusterSlotsHelper vw.name states [(vw.me, localSlots vw)] with
  | .error e => .error e
  | .ok l =>
    match genClusterSlotsHelper vw.name states vw.peer with
    | .error e => .error e
    | .ok r => .arr (l ++ r)

/-! ## parsing the two replies back (what a cluster client does with them) -/

def parseDecAux : Bytes → Nat → Option Nat
  | [], acc => some acc
  | d :: ds, acc =>
    match digitVal d with
    | none => none
    | some x => parseDecAux ds (acc * 10 + x)

/-- a non-empty string of ASCII digits -/
def parseDec (b : Bytes) : Option Nat :=
  match b with
  | [] => none
  | _ => parseDecAux b 0

/-- `a` or `a-b` -/
def parseRangeToken (t : Bytes) : Option (Nat × Nat) :=
  match splitOn 45 t with
  | [a] => (parseDec a).map fun x => (x, x)
  | [a, b] =>
    match parseDec a, parseDec b with
    | some x, some y => some (x, y)
    | _, _ => none
  | _ => none

def mapOpt {α β : Type} (f : α → Option β) : List α → Option (List β)
  | [] => some []
  | x :: xs =>
    match f x, mapOpt f xs with
    | some y, some ys => some (y :: ys)
    | _, _ => none

/-- one parsed line of `CLUSTER NODES` -/
structure NodeEntry where
  id : Bytes
  /-- `ip:port` (the `@cport` suffix of format V2 removed) -/
  addr : Bytes
  flags : Bytes
  epoch : Nat
  ranges : RangeL
  deriving DecidableEq, Repr

/-- `ip:port` of an address field `ip:port` (format V1) or `ip:port@cport` (format V2) -/
def stripCport (address : Bytes) : Option Bytes :=
  match splitOn 64 address with
  | [a] => some a
  | [a, _cport] => some a
  | _ => none

/-- `<id> <ip:port[@cport]> <flags> <master> <ping-sent> <pong-recv> <config-epoch> <link-state> <slot>…` -/
def parseNodeLine (l : Bytes) : Option NodeEntry :=
  match splitOn 32 l with
  | id :: address :: flags :: _master :: _ping :: _pong :: epoch :: _link :: toks =>
    match stripCport address, parseDec epoch, mapOpt parseRangeToken toks with
    | some a, some e, some rs => some { id := id, addr := a, flags := flags, epoch := e, ranges := rs }
    | _, _, _ => none
  | _ => none

/-- every line is terminated by `\n` -/
def parseNodes (text : Bytes) : Option (List NodeEntry) :=
  match (splitOn 10 text).reverse with
  | [] :: revLines => mapOpt parseNodeLine revLines.reverse
  | _ => none

def inRange (r : Nat × Nat) (slot : Nat) : Bool := r.1 ≤ slot && slot ≤ r.2

/-- the addresses under which `slot` is listed in a parsed NODES reply, one per listing token -/
def nodesOwners (ns : List NodeEntry) (slot : Nat) : List Bytes :=
  ns.flatMap fun n => (n.ranges.filter fun r => inRange r slot).map fun _ => n.addr

/-- one parsed entry of `CLUSTER SLOTS` -/
structure SlotsEntry where
  start : Nat
  fin : Nat
  host : Bytes
  port : Bytes
  id : Bytes
  deriving DecidableEq, Repr

def parseSlotsEntry : Resp → Option SlotsEntry
  | .arr [.integer s, .integer e, .arr [.bulk host, .integer port, .bulk id]] =>
    match parseDec s, parseDec e with
    | some x, some y => some { start := x, fin := y, host := host, port := port, id := id }
    | _, _ => none
  | _ => none

def parseSlots : Resp → Option (List SlotsEntry)
  | .arr xs => mapOpt parseSlotsEntry xs
  | _ => none

/-- the `host:port` addresses under which `slot` is listed in a parsed SLOTS reply -/
def slotsOwners (es : List SlotsEntry) (slot : Nat) : List Bytes :=
  (es.filter fun e => inRange (e.start, e.fin) slot).map fun e => e.host ++ [58] ++ e.port

/-! ## the routing view of the same installed meta -/

/-- `SlotMap::from_ranges`: every `SlotRange` of a node flattened, tags ignored -/
def flatRanges (m : NodeSlots) : NodeRanges := m.map fun n => (n.1, n.2.flatMap (·.ranges))

/-- `ClusterBackendMap::from_cluster_map` as seen by `routeSlot` -/
def View.clusterMap (cfg : RouteCfg) (vw : View) : ClusterMap :=
  ClusterMap.install cfg vw.name (flatRanges vw.loc) (flatRanges vw.peer)

end Um.Nodes
