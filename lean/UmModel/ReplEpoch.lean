import UmModel.Bytes
import UmModel.ProxyMeta
import UmGen.MetaConsts
/-!
# C05 — `ReplicatorManager::update_replicators` (`src/replication/manager.rs`) as an
interleaving semantics

Shared variables: `updating_epoch` (atomic), `replicators` (`RwLock<(u64, ReplicatorMap)>`).
Any number of callers (worker threads handling `UMCTL SETREPL`) run the function concurrently.
A caller validates the hosts of its own message first (no shared access), then performs exactly four
shared accesses, each preceded in the source by a scheduling point (`verif_hook::point`):

| pc          | point                  | atomic action                                                         |
|-------------|------------------------|-----------------------------------------------------------------------|
| `load`      | `repl.updating_load`   | `if !force && updating_epoch.load() >= epoch { return OldEpoch }`      |
| `store`     | `repl.updating_store`  | `updating_epoch.store(epoch)`                                         |
| `readLock`  | `repl.read_lock`       | under the read lock: collect the reusable replicators of the current map |
| `writeLock` | `repl.write_lock`      | under the write lock: `if !force && epoch <= replicators.0 { updating_epoch.store(replicators.0); return OldEpoch }` else `*replicators = (epoch, new_replicators); updating_epoch.store(epoch)` |

The write-locked section is one atomic step: `replicators` cannot change while the lock is held
and the section performs exactly one access to `updating_epoch` (a store, in either branch), so the
section is equivalent to executing all of it at that store.  In particular the store that follows
the install (fix be85753 of finding F05a; `Um.Gen.Meta.replInstallStoresUpdating`) has no scheduling
point of its own: it is part of the `repl.write_lock` step.  Everything between the
points is thread-local.  That these are the real atomic steps is checked schedule-for-schedule by
the `umh_setrepl` harness (OS threads parked at the four points).

`HashMap`s are association lists with unique keys (`amInsert` replaces in place); observables are
compared as sorted sets, theorems talk about `amGet?` only.  Replicator tasks spawned after the
install (their Redis traffic) are outside the model; a record is its metadata.
-/
namespace Um.ReplEpoch
open Um Um.ProxyMeta

/-! ## association lists -/

def amInsert {κ α : Type} [DecidableEq κ] : List (κ × α) → κ → α → List (κ × α)
  | [], k, v => [(k, v)]
  | (k', v') :: r, k, v => if k' = k then (k, v) :: r else (k', v') :: amInsert r k v

def amGet? {κ α : Type} [DecidableEq κ] : List (κ × α) → κ → Option α
  | [], _ => none
  | (k', v') :: r, k => if k' = k then some v' else amGet? r k

/-! ## messages -/

/-- `ReplPeer` -/
structure Peer where
  node : Bytes
  proxy : Bytes
  deriving DecidableEq, Repr

/-- `MasterMeta` / `ReplicaMeta` (same shape) -/
structure Entry where
  cluster : Bytes
  node : Bytes
  peers : List Peer
  deriving DecidableEq, Repr

/-- `(ClusterName, String)` -/
abbrev Key := Bytes × Bytes

def Entry.key (e : Entry) : Key := (e.cluster, e.node)

/-- `ReplicatorMeta` -/
structure RMsg where
  epoch : Nat
  force : Bool
  masters : List Entry
  replicas : List Entry
  deriving DecidableEq, Repr

/-- the two validation loops at the head of `update_replicators` -/
def hostsOk (announce : Bytes) (m : RMsg) : Bool :=
  m.masters.all (fun e => hostOk announce e.node) && m.replicas.all (fun e => hostOk announce e.node)

/-- `ReplicatorRecord` reduced to its metadata: `Either::Left` = master -/
structure Rec where
  master : Bool
  entry : Entry
  deriving DecidableEq, Repr

/-- `ReplicatorMap` -/
abbrev RMap := List (Key × Rec)

/-- `master_key_set` / `replica_key_set`: later entries with the same key overwrite earlier ones -/
def keySet (es : List Entry) : List (Key × Entry) := es.foldl (fun m e => amInsert m e.key e) []

/-- the loop under the read lock: keep a record iff the message lists the same key with the same
role and equal metadata -/
def reuseOf (mks rks : List (Key × Entry)) (inst : RMap) : RMap :=
  inst.foldl (fun acc kr =>
    let acc1 := if kr.2.master && amGet? mks kr.1 == some kr.2.entry then amInsert acc kr.1 kr.2 else acc
    if !kr.2.master && amGet? rks kr.1 == some kr.2.entry then amInsert acc1 kr.1 kr.2 else acc1) []

/-- `new_masters` / `new_replicas`: entries whose key was not reused, last one per key -/
def freshOf (es : List Entry) (reused : RMap) : List (Key × Entry) :=
  es.foldl (fun m e => if (amGet? reused e.key).isSome then m else amInsert m e.key e) []

/-- `new_replicators` as assigned under the write lock: reused records, then the new masters, then
the new replicas (a replica overwrites a new master with the same key) -/
def buildMap (reused : RMap) (m : RMsg) : RMap :=
  let a := (freshOf m.masters reused).foldl (fun acc ke => amInsert acc ke.1 ⟨true, ke.2⟩) reused
  (freshOf m.replicas reused).foldl (fun acc ke => amInsert acc ke.1 ⟨false, ke.2⟩) a

/-! ## callers -/

inductive Reply where
  | ok
  | oldEpoch
  | notMyMeta
  deriving DecidableEq, Repr

inductive Pc where
  | load
  | store
  | readLock
  | writeLock
  | done (r : Reply)
  deriving DecidableEq, Repr

structure Caller where
  msg : RMsg
  pc : Pc
  /-- `new_replicators` after the read-locked loop (meaningful from `writeLock` on) -/
  reused : RMap
  deriving DecidableEq, Repr

structure Sys where
  /-- `updating_epoch` -/
  updating : Nat
  /-- `replicators.0` -/
  instEpoch : Nat
  /-- `replicators.1` -/
  instMap : RMap
  callers : List Caller
  deriving DecidableEq, Repr

def Sys.init : Sys := ⟨0, 0, [], []⟩

/-- entering `update_replicators`: host validation, then the caller waits at its first point -/
def spawnCaller (announce : Bytes) (m : RMsg) : Caller :=
  ⟨m, if hostsOk announce m then .load else .done .notMyMeta, []⟩

/-- `self.updating_epoch.load() >= epoch` -/
def loadRejects (updating epoch : Nat) : Bool :=
  if Um.Gen.Meta.replLoadRejectsEqual then decide (updating ≥ epoch) else decide (updating > epoch)

/-- `epoch <= replicators.0` -/
def lockRejects (epoch installed : Nat) : Bool :=
  if Um.Gen.Meta.replLockRejectsEqual then decide (epoch ≤ installed) else decide (epoch < installed)

/-- the atomic action of caller `c` on the shared variables; `none` = the caller has returned -/
def act (u ie : Nat) (im : RMap) (c : Caller) : Option (Nat × Nat × RMap × Caller) :=
  match c.pc with
  | .load =>
    if !c.msg.force && loadRejects u c.msg.epoch then some (u, ie, im, { c with pc := .done .oldEpoch })
    else some (u, ie, im, { c with pc := .store })
  | .store => some (c.msg.epoch, ie, im, { c with pc := .readLock })
  | .readLock =>
    some (u, ie, im, { c with pc := .writeLock,
                              reused := reuseOf (keySet c.msg.masters) (keySet c.msg.replicas) im })
  | .writeLock =>
    if !c.msg.force && lockRejects c.msg.epoch ie then some (ie, ie, im, { c with pc := .done .oldEpoch })
    else some (c.msg.epoch, c.msg.epoch, buildMap c.reused c.msg, { c with pc := .done .ok })
  | .done _ => none

inductive Label where
  /-- a worker thread enters `update_replicators` with this message -/
  | spawn (m : RMsg)
  /-- the scheduler lets caller `i` (spawn order) perform its next atomic action -/
  | run (i : Nat)
  deriving DecidableEq, Repr

/-- executable step function (the driver replays schedules with it) -/
def step? (announce : Bytes) (s : Sys) : Label → Option Sys
  | .spawn m => some { s with callers := s.callers ++ [spawnCaller announce m] }
  | .run i =>
    match s.callers[i]? with
    | none => none
    | some c =>
      match act s.updating s.instEpoch s.instMap c with
      | none => none
      | some (u, ie, im, c') => some ⟨u, ie, im, s.callers.set i c'⟩

/-- run caller `i` until it returns (at most four actions) -/
def runToEnd (announce : Bytes) : Nat → Sys → Nat → Sys
  | 0, s, _ => s
  | fuel + 1, s, i =>
    match step? announce s (.run i) with
    | none => s
    | some s' => runToEnd announce fuel s' i

/-- a sequential call: no other caller moves between entry and return -/
def call (announce : Bytes) (s : Sys) (m : RMsg) : Sys :=
  match step? announce s (.spawn m) with
  | none => s
  | some s1 => runToEnd announce 4 s1 s.callers.length

/-- the reply of caller `i`, once it has returned -/
def replyOf (s : Sys) (i : Nat) : Option Reply :=
  match s.callers[i]? with
  | some ⟨_, .done r, _⟩ => some r
  | _ => none

def Pc.render : Pc → String
  | .load => "at " ++ Um.Gen.Meta.replPoints.getD 0 "?"
  | .store => "at " ++ Um.Gen.Meta.replPoints.getD 1 "?"
  | .readLock => "at " ++ Um.Gen.Meta.replPoints.getD 2 "?"
  | .writeLock => "at " ++ Um.Gen.Meta.replPoints.getD 3 "?"
  | .done .ok => "done " ++ Um.Gen.Meta.SET_REPL_OK
  | .done .oldEpoch => "done " ++ Um.Gen.Meta.OLD_EPOCH_REPLY
  | .done .notMyMeta => "done " ++ Um.Gen.Meta.ERR_NOT_MY_META

end Um.ReplEpoch
