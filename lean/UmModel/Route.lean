import UmModel.Bytes
import UmModel.Crc16
import UmGen.CmdTables
/-!
# Slot map and cluster routing of one proxy
(`src/proxy/slot.rs`, `src/proxy/cluster.rs`: `LocalCluster::send`, `RemoteCluster::send_remote`,
`send_remote_directly`; `src/proxy/manager.rs`: `send_cmd_ctx`, `send_cmd_ctx_to_remote_directly`;
`src/common/utils.rs`: `gen_moved`)

Scope: the routing decision for a command whose slot is known, on a proxy **without migration
tasks** (`MigrationMap::send` answers `SlotNotFound` when the task map is empty — the C02 model
layers migration on top of `routeSlot`).

## HashMap order (DESIGN §2.3)
`SlotMap::from_ranges` receives a `HashMap<String, Vec<SlotRange>>`, copies it into another `HashMap`
and `SlotMapData::new` iterates *that* map: when several nodes list the same slot the node visited
last wins, and the visiting order is not observable. The model takes the node map as a **list in
visiting order** (`NodeRanges`); "all allowed outcomes" = all permutations of that list. Theorems
quantify over every list, hence over every order.

API for other models: `NodeRanges`, `SlotMapData.new/get`, `lookup` (declarative characterisation,
`UmProofs/Route.lean: get_new_eq_lookup`), `ClusterMap`, `ClusterMap.install`, `RouteCfg`,
`Outcome`, `routeSlot`.
-/
namespace Um.Route
open Um Um.Crc16

abbrev Addr := String
/-- `(start, end)` pairs as pushed by `SlotMap::from_ranges` (all `SlotRange`s of the node flattened,
tags ignored) -/
abbrev RangeL := List (Nat × Nat)
/-- node address → ranges, **in the visiting order** of `SlotMapData::new` -/
abbrev NodeRanges := List (Addr × RangeL)

/-! ## `SlotMapData` -/

structure SlotMapData where
  slotArr : Array (Option Nat)
  addrs : Array Addr
  deriving Repr

/-- `for s in start..=end { if s >= SLOT_NUM { break }; slot_arr[s] = Some(idx) }` with `fuel` = number
of iterations left (`end + 1 - start`) -/
def fillFrom (idx : Nat) : Nat → Nat → Array (Option Nat) → Array (Option Nat)
  | _, 0, arr => arr
  | s, fuel + 1, arr =>
    if s ≥ SLOT_NUM then arr
    else fillFrom idx (s + 1) fuel (arr.setIfInBounds s (some idx))

/-- one `(start, end)` of a node: skipped when `start > end` -/
def fillRange (idx : Nat) (arr : Array (Option Nat)) (r : Nat × Nat) : Array (Option Nat) :=
  if r.1 > r.2 then arr else fillFrom idx r.1 (r.2 + 1 - r.1) arr

/-- one `(addr, slots)` entry: `addrs.push(addr)`, then every range with `addrs.len() - 1` -/
def addNode (d : SlotMapData) (n : Addr × RangeL) : SlotMapData :=
  let addrs := d.addrs.push n.1
  { slotArr := n.2.foldl (fillRange (addrs.size - 1)) d.slotArr, addrs := addrs }

/-- `SlotMapData::new` -/
def SlotMapData.new (m : NodeRanges) : SlotMapData :=
  m.foldl addNode { slotArr := Array.replicate SLOT_NUM none, addrs := #[] }

/-- `SlotMapData::get` / `SlotMap::get` -/
def SlotMapData.get (d : SlotMapData) (slot : Nat) : Option Addr :=
  match d.slotArr[slot]? with
  | some (some i) => d.addrs[i]?
  | _ => none

/-! ## declarative characterisation (proved equal to `get ∘ new`) -/

def covers (rs : RangeL) (slot : Nat) : Bool := rs.any fun r => r.1 ≤ slot && slot ≤ r.2

/-- the last node in visiting order that lists `slot` (and `slot < SLOT_NUM`) -/
def lookup (m : NodeRanges) (slot : Nat) : Option Addr :=
  if slot < SLOT_NUM then (m.reverse.find? fun n => covers n.2 slot).map (·.1) else none

/-! ## `ClusterBackendMap` (no migration) -/

/-- what `ClusterBackendMap::from_cluster_map` builds from a `ProxyClusterMeta` -/
structure ClusterMap where
  /-- empty = the proxy is in no cluster (initial state, or SETCLUSTER with an empty name) -/
  clusterName : String
  /-- `LocalCluster.local_backend.nodes` (one backend sender per listed local node) -/
  localNodes : List Addr
  localMap : SlotMapData
  peerMap : SlotMapData
  /-- `RemoteCluster.remote_backend` is `Some` iff the proxy runs with `active_redirection`; its
  node set -/
  remoteBackend : Option (List Addr)
  deriving Repr

/-- `MetaMap::empty()` -/
def ClusterMap.empty : ClusterMap :=
  { clusterName := "", localNodes := [], localMap := SlotMapData.new [], peerMap := SlotMapData.new [],
    remoteBackend := none }

/-- proxy configuration fields that influence routing (`ServerProxyConfig`) -/
structure RouteCfg where
  activeRedirection : Bool := false
  /-- `max_redirections: Option<NonZeroUsize>` -/
  maxRedirections : Option Nat := none
  defaultRedirectionAddress : Option Addr := none
  deriving Repr

/-- `ClusterBackendMap::from_cluster_map` for local/peer maps given in visiting order -/
def ClusterMap.install (cfg : RouteCfg) (name : String) (loc peer : NodeRanges) : ClusterMap :=
  { clusterName := name
    localNodes := loc.map (·.1)
    localMap := SlotMapData.new loc
    peerMap := SlotMapData.new peer
    remoteBackend := if cfg.activeRedirection then some (peer.map (·.1)) else none }

/-- where a command ends up -/
inductive Outcome where
  /-- handed to the backend sender of local node `node` (it will be executed there) -/
  | exec (node : Addr)
  /-- replied `MOVED <slot> <addr>` -/
  | moved (slot : Nat) (addr : Addr)
  /-- active redirection: handed to the sender of peer proxy `addr`; `times = some t` means it was
  first wrapped as `UMFORWARD t <cmd>` (always the case since /repo 04a2318; the `none` form is kept so
  that the constructor's signature stays stable for C02/C14) -/
  | forward (slot : Nat) (addr : Addr) (times : Option Nat)
  | errClusterNotFound
  | errMissingKey
  | errSlotNotCovered (slot : Nat)
  | errTooManyRedirections
  /-- `warn!("failed to get node")` branches: the slot map names an address that has no sender.
  Unreachable for maps built by `install` (proved); kept because the code has the branch. -/
  | errNodeNotFound
  deriving Repr, DecidableEq

def USIZE_MAX : Nat := 18446744073709551615

/-- `cmd_ctx.get_redirection_times().or_else(|| max_redirections.map(|n| n.get() - 1)).or(Some(usize::MAX))`
(/repo 04a2318: a forwarded command is **always** wrapped, so the value is always `some`;
`redirBudget_isSome` in `UmProofs/Route.lean`) -/
def redirBudget (cfg : RouteCfg) (redirTimes : Option Nat) : Option Nat :=
  match redirTimes with
  | some t => some t
  | none => some ((cfg.maxRedirections.map (· - 1)).getD USIZE_MAX)

/-- `send_cmd_ctx_to_remote_directly` + `RemoteCluster::send_remote_directly`: the redirection
budget is the command's own (`UMFORWARD t`), else `max_redirections - 1`, else `usize::MAX`;
`checked_sub(1)` failing means `ERR_TOO_MANY_REDIRECTIONS`, otherwise the command is wrapped as
`UMFORWARD (budget - 1) <cmd>` and handed to the peer's sender -/
def sendRemoteDirectly (cfg : RouteCfg) (cm : ClusterMap) (redirTimes : Option Nat) (slot : Nat)
    (addr : Addr) : Outcome :=
  if redirBudget cfg redirTimes = some 0 then .errTooManyRedirections
  else
    match cm.remoteBackend with
    | some nodes =>
      if nodes.contains addr then .forward slot addr ((redirBudget cfg redirTimes).map (· - 1)) else .errNodeNotFound
    | none => .moved slot addr

/-- `ClusterBackendMap::send` (= `LocalCluster::send`, then `RemoteCluster::send_remote` on
`SlotNotFound`) followed by the error handling of `send_cmd_ctx`. `slot = none` means the command
has no key argument; `redirTimes` is `CmdCtx::get_redirection_times()` (set only by UMFORWARD). -/
def routeSlot (cfg : RouteCfg) (cm : ClusterMap) (redirTimes : Option Nat) (slot : Option Nat) : Outcome :=
  if cm.clusterName.isEmpty then
    -- ClusterSendError::ClusterNotFound
    match cfg.defaultRedirectionAddress with
    | some a =>
      match slot with
      | none => .errMissingKey
      | some s => .moved s a
    | none => .errClusterNotFound
  else
    match slot with
    | none => .errMissingKey
    | some s =>
      let remote : Outcome :=
        match cm.peerMap.get s with
        | some addr =>
          if cm.remoteBackend.isSome then sendRemoteDirectly cfg cm redirTimes s addr
          else .moved s addr
        | none => .errSlotNotCovered s
      match cm.localMap.get s with
      | some addr => if cm.localNodes.contains addr then .exec addr else remote
      | none => remote

/-- route a key: `CommandInfo::new` computes `slot = get_key(..).map(generate_slot)` -/
def routeKey (cfg : RouteCfg) (cm : ClusterMap) (key : Bytes) : Outcome :=
  routeSlot cfg cm none (some (slotOf key))

end Um.Route
