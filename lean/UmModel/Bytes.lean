/-!
# Bytes, hex line protocol, and the `btoi` crate's integer grammar

Import-free (core only) so the driver links as a `lean_exe`.
-/
namespace Um

abbrev Bytes := List UInt8

/-! ## hex (the wire representation between the Rust harness and the driver; `-` = empty) -/

def hexDigit (n : Nat) : Char :=
  if n < 10 then Char.ofNat (48 + n) else Char.ofNat (87 + n)

def hexOfBytes (b : Bytes) : String :=
  if b.isEmpty then "-" else
  String.ofList (b.flatMap fun x => [hexDigit (x.toNat / 16), hexDigit (x.toNat % 16)])

def hexVal (c : Char) : Option Nat :=
  if '0' ≤ c ∧ c ≤ '9' then some (c.toNat - 48)
  else if 'a' ≤ c ∧ c ≤ 'f' then some (c.toNat - 87)
  else if 'A' ≤ c ∧ c ≤ 'F' then some (c.toNat - 55)
  else none

def bytesOfHexAux : List Char → Option Bytes
  | [] => some []
  | [_] => none
  | h :: l :: rest =>
    match hexVal h, hexVal l, bytesOfHexAux rest with
    | some a, some b, some r => some (UInt8.ofNat (a * 16 + b) :: r)
    | _, _, _ => none

def bytesOfHex (s : String) : Option Bytes :=
  if s == "-" then some [] else bytesOfHexAux s.toList

def bytesOfString (s : String) : Bytes := s.toUTF8.toList

/-! ## `btoi` 0.4.2: `btou`/`btoi` with checked arithmetic

`to_digit(10)`: ASCII `0`–`9` only. `btou`: empty ⇒ error; every byte a digit; `checked_mul` by
10 then `checked_add` must stay `≤ max`. `btoi`: a leading `+` switches to `btou` of the rest, a
leading `-` accumulates downwards with `checked_sub` (so the magnitude may reach `negMax`), no
sign ⇒ `btou`. -/

def digitVal (b : UInt8) : Option Nat :=
  if 48 ≤ b.toNat ∧ b.toNat ≤ 57 then some (b.toNat - 48) else none

/-- accumulate decimal digits with the two overflow checks of the crate -/
def btouAux (max : Nat) : Bytes → Nat → Option Nat
  | [], acc => some acc
  | d :: ds, acc =>
    match digitVal d with
    | none => none
    | some x =>
      if acc * 10 > max then none
      else if acc * 10 + x > max then none
      else btouAux max ds (acc * 10 + x)

def btou (max : Nat) (b : Bytes) : Option Nat :=
  match b with
  | [] => none
  | _ => btouAux max b 0

/-- `btoi::<I>` for a signed `I` with range `[-negMax, posMax]` -/
def btoiS (posMax negMax : Nat) (b : Bytes) : Option Int :=
  match b with
  | [] => none
  | 43 :: rest => (btou posMax rest).map Int.ofNat
  | 45 :: rest =>
    match rest with
    | [] => none
    | _ => (btouAux negMax rest 0).map fun n => - (Int.ofNat n)
  | _ => (btou posMax b).map Int.ofNat

def i64Max : Nat := 9223372036854775807
def i64NegMax : Nat := 9223372036854775808
def u64Max : Nat := 18446744073709551615

def btoiI64 (b : Bytes) : Option Int := btoiS i64Max i64NegMax b

/-- `btoi::<usize>` / `btoi::<u64>`: for unsigned `I`, `checked_sub` from zero fails for any
non-zero digit, so `-0`, `-00` … parse as 0 and everything else with `-` fails. -/
def btoiU (max : Nat) (b : Bytes) : Option Nat :=
  match b with
  | [] => none
  | 43 :: rest => btou max rest
  | 45 :: rest =>
    match rest with
    | [] => none
    | _ => btouAux 0 rest 0
  | _ => btou max b

end Um
