import UmModel.Bytes
import UmGen.MetaConsts
/-!
# C05 — `MetaManager::set_meta` (`src/proxy/manager.rs`) and the reply mapping of
`handle_umctl_set_cluster` (`src/proxy/executor.rs`)

`set_meta` as a sequential machine.  Exact because everything after the host check runs under
`self.lock` (one `parking_lot::Mutex`): two calls never overlap between the epoch test and the
second store.  Program order of the code:

1. `NodeMap::new(local).check_hosts(announce_host)` — *before* the lock, over the keys of the local
   node map only (peers are never checked) ⇒ `NotMyMeta`;
2. lock; `epoch <= self.epoch && !force` ⇒ `OldEpoch`;
3. build the new `MetaMap`, `self.meta_map.store(..)`;
4. `self.epoch.store(epoch)`; unlock.

The routing-relevant content of a message (cluster name, local/peer slot maps, config — what
`ClusterBackendMap::from_cluster_map` is built from) is an opaque value `C`: this model is about
*which* message's content is installed, the routing function of a content is C02/C09's.  (Migration
tasks, the only part of the installed snapshot that also depends on the previous snapshot, are
outside this model.)

The comparison operator and the order of the two stores are taken from the generated table
(`UmGen/MetaConsts.lean`), so a changed source changes the model — and breaks the theorems.
-/
namespace Um.ProxyMeta
open Um

abbrev Addr := Bytes

/-- `utils::extract_host_from_address`: `address.splitn(2, ':')`, both pieces must exist; the host
is everything before the first `:` (possibly empty) -/
def extractHost : Addr → Option Bytes
  | [] => none
  | b :: r => if b == 58 then some [] else (extractHost r).map (b :: ·)

/-- one key of `NodeMap::check_hosts` / one address of the SETREPL validation loops -/
def hostOk (announce : Bytes) (a : Addr) : Bool :=
  match extractHost a with
  | some h => h == announce
  | none => false

/-- `NodeMap::check_hosts`: every key must pass (the `HashMap` order is irrelevant for a conjunction) -/
def checkHosts (announce : Bytes) (locals : List Addr) : Bool := locals.all (hostOk announce)

/-- a parsed `ProxyClusterMeta` as far as `set_meta` looks at it -/
structure Meta (C : Type) where
  epoch : Nat
  force : Bool
  /-- the keys of `cluster_meta.get_local()` -/
  locals : List Addr
  /-- cluster name, local map, peer map, config: what the installed snapshot is built from -/
  content : C
  deriving Repr, DecidableEq

/-- `MetaManager.epoch` and `MetaManager.meta_map` -/
structure State (C : Type) where
  epoch : Nat
  snap : C
  deriving Repr, DecidableEq

/-- `ClusterMetaError` as produced by `set_meta` (`TryAgain` is never constructed there) -/
inductive SetErr where
  | oldEpoch
  | notMyMeta
  deriving Repr, DecidableEq

/-- the two stores of the critical section -/
inductive Store (C : Type) where
  | map (c : C)
  | epoch (e : Nat)
  deriving Repr

def State.apply {C : Type} (s : State C) : Store C → State C
  | .map c => { s with snap := c }
  | .epoch e => { s with epoch := e }

/-- the stores of an accepted message, in program order -/
def stores {C : Type} (m : Meta C) : List (Store C) :=
  if Um.Gen.Meta.setMetaMapFirst then [.map m.content, .epoch m.epoch] else [.epoch m.epoch, .map m.content]

/-- `cluster_meta.get_epoch() <= self.epoch.load()` (operator from the source) -/
def notNewer (epoch installed : Nat) : Bool :=
  if Um.Gen.Meta.setMetaRejectsEqual then decide (epoch ≤ installed) else decide (epoch < installed)

/-- `MetaManager::set_meta` -/
def setMeta {C : Type} (announce : Bytes) (s : State C) (m : Meta C) : State C × Except SetErr Unit :=
  if !checkHosts announce m.locals then (s, .error .notMyMeta)
  else if notNewer m.epoch s.epoch && !m.force then (s, .error .oldEpoch)
  else ((stores m).foldl State.apply s, .ok ())

/-- replies of `UMCTL SETCLUSTER` -/
inductive Reply where
  | ok
  | warn
  | oldEpoch
  | notMyMeta
  | parseErr
  deriving Repr, DecidableEq

/-- RESP kind (`S` simple string, `E` error) and text -/
def Reply.render : Reply → String
  | .ok => "S:" ++ Um.Gen.Meta.SET_CLUSTER_OK
  | .warn => "S:" ++ Um.Gen.Meta.SET_CLUSTER_WARNING
  | .oldEpoch => "E:" ++ Um.Gen.Meta.OLD_EPOCH_REPLY
  | .notMyMeta => "E:" ++ Um.Gen.Meta.ERR_NOT_MY_META
  | .parseErr => "E:" ++ Um.Gen.Meta.SET_CLUSTER_PARSE_ERR_PREFIX

/-- `handle_umctl_set_cluster`: `none` = `ProxyClusterMeta::from_resp` failed; the `Bool` is
`extended_res.is_ok()` (false = the CONFIG section was invalid but local and peer were complete) -/
def handle {C : Type} (announce : Bytes) (s : State C) (parsed : Option (Meta C × Bool)) : State C × Reply :=
  match parsed with
  | none => (s, .parseErr)
  | some (m, cfgOk) =>
    match setMeta announce s m with
    | (s', .ok ()) => (s', if cfgOk then .ok else .warn)
    | (s', .error .oldEpoch) => (s', .oldEpoch)
    | (s', .error .notMyMeta) => (s', .notMyMeta)

/-- a sequence of `UMCTL SETCLUSTER` commands (serialised by the mutex) -/
def run {C : Type} (announce : Bytes) (s : State C) : List (Option (Meta C × Bool)) → State C × List Reply
  | [] => (s, [])
  | p :: ps =>
    let (s1, r) := handle announce s p
    let (s2, rs) := run announce s1 ps
    (s2, r :: rs)

end Um.ProxyMeta
