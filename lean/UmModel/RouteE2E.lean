import UmModel.BrokerView
import UmModel.Route
import UmModel.Proto
/-!
# End-to-end routing (C02): broker view → coordinator encoding → wire → proxy maps → routing

Transliterates, on top of `UmModel/BrokerView.lean` (what `get_proxy_by_address` serves),
`UmModel/Proto.lean` (the `UMCTL SETCLUSTER` argument vector) and `UmModel/Route.lean` (slot maps,
`routeSlot`):

* `src/coordinator/sync.rs`: `filter_proxy_masters`, `generate_proxy_meta_cmd_args`
  (`filterProxyMasters`, `genProxyMeta`, `encodeFor`; the two `HashMap::insert` loops are `hmInsert`
  folds: a repeated node / peer-proxy address overwrites the earlier entry);
* the wire (`toProto`, `Meta.toArgs` / `toCompressedArgs`, `parse`, `ofProto`): `deliverPlain`,
  `deliverCompressed`.  `NodeMap::to_args` emits nothing for a master without slot ranges, so the
  plain encoding loses slot-less masters (`dropEmpty`), the compressed one keeps them;
* `src/proxy/manager.rs` `set_meta` (host check, epoch test, `ClusterBackendMap::from_cluster_map`
  over **all** local ranges whatever their tag, `create_new_migration_map`), `src/migration/manager.rs`
  `update_from_old_task_map` (`updateTasks`: tasks keyed by the full `MigrationTaskMeta`, kept with
  their state when the key is unchanged, otherwise fresh in `PreCheck`), `handle_switch`
  (`handleSwitch`), `MigrationMap::send` + `RedisScan{Migrating,Importing}Task::send` (`migSend`),
  `RangeMap::contains_slot` (`rangeMapContains`, with its first-start / last-end window),
  `send_cmd_ctx` (`routeWithMigration`: migration map → local → peers), the per-node blocking
  queue of `src/proxy/blocking.rs` (`held`), and the client loop over MOVED (`follow`).

HashMaps are association lists in visiting order (DESIGN §2.3); theorems quantify over every order.
`usize` arithmetic that cannot wrap on compacted range lists is written with truncated
subtraction (`rangeMapContains`).
-/
namespace Um.E2E
open Um Um.Broker Um.Route

/-! ## `HashMap<String, _>` built by repeated `insert` -/

/-- `HashMap::insert`: an existing key keeps its place and gets the new value -/
def hmInsert {α : Type} (k : String) (v : α) : List (String × α) → List (String × α)
  | [] => [(k, v)]
  | e :: r => if e.1 == k then (k, v) :: r else e :: hmInsert k v r

/-- node / peer-proxy address ↦ slot ranges -/
abbrev SNodeMap := List (String × List SlotRange)

/-! ## `src/coordinator/sync.rs` -/

/-- `filter_proxy_masters` -/
def filterProxyMasters (p : VProxy) : VProxy :=
  { p with nodes := p.nodes.filter fun n => !n.replica }

def compOf : Nat → Proto.Compression
  | 0 => .disabled
  | 1 => .setGetOnly
  | _ => .allowAll

/-- `Proxy::get_cluster_config_or_default` -/
def cfgOf : Option Broker.Config → Proto.Config
  | none => Proto.Config.default
  | some c => ⟨compOf c.strategy, c.maxMigrationTime, c.maxBlockingTime, c.scanInterval, c.scanCount⟩

/-- `ProxyClusterMeta` with Rust `String`s (the wire form is `toProto`) -/
structure EMeta where
  epoch : Nat
  force : Bool
  compress : Bool
  /-- `EMPTY_CLUSTER_NAME` = `""` for a proxy outside every cluster -/
  cluster : String
  loc : SNodeMap
  peer : SNodeMap
  config : Proto.Config
  deriving Repr

/-- the two insertion loops of `generate_proxy_meta_cmd_args` -/
def nodeMapOf (ns : List VNode) : SNodeMap := ns.foldl (fun m n => hmInsert n.address n.slots m) []
def peerMapOf (ps : List VPeer) : SNodeMap := ps.foldl (fun m q => hmInsert q.proxy q.slots m) []

/-- `generate_proxy_meta_cmd_args` up to `ProxyClusterMeta::new` (`flags.force` is always false in
`send_meta_impl`) -/
def genProxyMeta (compress : Bool) (p : VProxy) : EMeta :=
  { epoch := p.epoch, force := false, compress := compress
    cluster := p.cluster.getD ""
    loc := nodeMapOf p.nodes
    peer := peerMapOf p.peers
    config := cfgOf p.config }

/-- what the coordinator makes of a served proxy view: masters only, then the meta -/
def encodeFor (compress : Bool) (p : VProxy) : EMeta := genProxyMeta compress (filterProxyMasters p)

/-! ## the wire -/

def strB (s : String) : Proto.Str := s.toUTF8.data.toList
def strS (b : Proto.Str) : String := (String.fromUTF8? ⟨b.toArray⟩).getD ""

def toPInfo (m : MigInfo) : Proto.MigrationMeta :=
  ⟨m.epoch, strB m.srcProxy, strB m.srcNode, strB m.dstProxy, strB m.dstNode⟩
def ofPInfo (m : Proto.MigrationMeta) : MigInfo :=
  ⟨m.epoch, strS m.srcProxy, strS m.srcNode, strS m.dstProxy, strS m.dstNode⟩

def toPTag : Tag → Proto.Tag
  | .none => .none
  | .migrating m => .migrating (toPInfo m)
  | .importing m => .importing (toPInfo m)
def ofPTag : Proto.Tag → Tag
  | .none => .none
  | .migrating m => .migrating (ofPInfo m)
  | .importing m => .importing (ofPInfo m)

def toPSR (s : SlotRange) : Proto.SlotRange := ⟨s.ranges.map fun r => ⟨r.1, r.2⟩, toPTag s.tag⟩
def ofPSR (s : Proto.SlotRange) : SlotRange := ⟨s.ranges.map fun r => (r.s, r.e), ofPTag s.tag⟩

def toPMap (m : SNodeMap) : Proto.NodeMap := m.map fun e => (strB e.1, e.2.map toPSR)
def ofPMap (m : Proto.NodeMap) : SNodeMap := m.map fun e => (strS e.1, e.2.map ofPSR)

def toProto (m : EMeta) : Proto.Meta :=
  { version := Um.Gen.Proto.SET_CLUSTER_API_VERSION, epoch := m.epoch, flags := ⟨m.force, m.compress⟩
    cluster := strB m.cluster, «local» := toPMap m.loc, peer := toPMap m.peer, config := m.config }

def ofProto (m : Proto.Meta) : EMeta :=
  { epoch := m.epoch, force := m.flags.force, compress := m.flags.compress, cluster := strS m.cluster
    loc := ofPMap m.local, peer := ofPMap m.peer, config := m.config }

/-- entries `NodeMap::to_args` emits something for -/
def dropEmptyMap (m : SNodeMap) : SNodeMap := m.filter fun e => !e.2.isEmpty

/-- what survives the plain encoding: nodes and peers without slot ranges vanish -/
def dropEmpty (m : EMeta) : EMeta := { m with loc := dropEmptyMap m.loc, peer := dropEmptyMap m.peer }

/-- plain path: `to_args`, then `ProxyClusterMeta::from_resp` on the proxy.  The `Bool` is the
`extended_meta_result` (`false` = reply `WARNING: ignored invalid config`). -/
def deliverPlain (order : List Proto.CfgField) (m : EMeta) : Except Proto.PErr (EMeta × Bool) :=
  match Proto.parse ((toProto m).toArgs order) with
  | .ok (pm, ext) => .ok (ofProto pm, ext)
  | .error e => .error e

/-- compressed path for a blob codec `(enc, dec)` (JSON ∘ gzip ∘ base64 in the code) -/
def deliverCompressed (enc : Proto.MetaData → Proto.Str) (dec : Proto.Str → Option Proto.MetaData)
    (m : EMeta) : Except Proto.PErr (EMeta × Bool) :=
  match Proto.parseWith dec ((toProto m).toCompressedArgs enc) with
  | .ok (pm, ext) => .ok (ofProto pm, ext)
  | .error e => .error e

/-! ## migration tasks of a proxy -/

/-- `migration::task::MigrationState` -/
inductive MigState where
  | preCheck | preBlocking | preSwitch | scanning | finalSwitch | switchCommitted
  deriving DecidableEq, Repr, Inhabited

/-- `impl Display for MigrationState` -/
def MigState.name : MigState → String
  | .preCheck => "PRE_CHECK"
  | .preBlocking => "PRE_BLOCKING"
  | .preSwitch => "PRE_SWITCH"
  | .scanning => "SCANNING"
  | .finalSwitch => "FINAL_SWITCH"
  | .switchCommitted => "SWITCH_COMMITTED"

/-- `MigrationTaskMeta`: the key of `MigrationMap.task_map` -/
structure TaskKey where
  cluster : String
  range : SlotRange
  deriving DecidableEq, Repr

/-- a `RedisScanMigratingTask` (tag `migrating`) or `RedisScanImportingTask` (tag `importing`) with
its `AtomicMigrationState` -/
structure Task where
  key : TaskKey
  state : MigState
  deriving DecidableEq, Repr

def SlotRange.tagged (s : SlotRange) : Bool :=
  match s.tag with
  | .none => false
  | _ => true

def Task.isMigrating (t : Task) : Bool :=
  match t.key.range.tag with
  | .migrating _ => true
  | _ => false

/-- `RangeMap::from(&RangeList)` + `contains_slot`: the bitmap spans `first.start ..= last.end`
(empty when either is `≥ SLOT_NUM`), a slot is contained when it is inside that window and inside
some range.  `max_slot - min_slot + 1` cannot wrap on a compacted list (first start ≤ last end);
written with truncated subtraction. -/
def rangeMapContains (rl : RangeList) (s : Nat) : Bool :=
  match rl.head?, rl.getLast? with
  | some f, some l =>
    if f.1 ≥ SLOT_NUM || l.2 ≥ SLOT_NUM then false
    else decide (f.1 ≤ s) && decide (s - f.1 < l.2 + 1 - f.1) && covers rl s
  | _, _ => false

def Task.containsSlot (t : Task) (s : Nat) : Bool := rangeMapContains t.key.range.ranges s

/-! ## the proxy -/

structure ProxyState where
  cfg : RouteCfg := {}
  /-- `ServerProxyConfig.announce_host` -/
  announceHost : String := ""
  /-- `MetaManager.epoch` -/
  epoch : Nat := 0
  /-- `MetaMap.cluster_map` -/
  cm : ClusterMap := ClusterMap.empty
  /-- `MigrationMap.{empty, cluster_name, task_map}`, the task map in visiting order -/
  migEmpty : Bool := true
  migCluster : String := ""
  tasks : List Task := []
  /-- local node addresses whose `BlockingMap` controller is blocking (between `start_blocking` of a
  migrating task with that source node and the release of its `BlockingHandle`) -/
  blocking : List Addr := []
  deriving Repr

/-- `SlotMap::from_ranges`: every range of every slot range of the node, tags ignored -/
def rangesOfMap (m : SNodeMap) : NodeRanges := m.map fun e => (e.1, e.2.flatMap (·.ranges))

/-- `extract_host_from_address`: `splitn(2, ':')`, both pieces needed -/
def hostOf (addr : String) : Option String :=
  match addr.splitOn ":" with
  | h :: _ :: _ => some h
  | _ => none

/-- `NodeMap::check_hosts` -/
def checkHosts (announceHost : String) (loc : SNodeMap) : Bool :=
  loc.all fun e => hostOf e.1 == some announceHost

/-- the tagged slot ranges of the local map, in visiting order, as task keys -/
def taggedKeys (cluster : String) (loc : SNodeMap) : List TaskKey :=
  loc.flatMap fun e => (e.2.filter SlotRange.tagged).map fun sr => ⟨cluster, sr⟩

/-- `HashMap::insert` on the task map -/
def insertTask (t : Task) : List Task → List Task
  | [] => [t]
  | x :: r => if x.key == t.key then t :: r else x :: insertTask t r

/-- `MigrationMap::update_from_old_task_map`: first pass keeps the old task of every key that is
still present (same cluster, range list, tag with all four addresses and epoch), second pass
creates a fresh task in `PreCheck` for every other tagged range -/
def updateTasks (cluster : String) (old : List Task) (loc : SNodeMap) : List Task :=
  let keys := taggedKeys cluster loc
  let kept := keys.foldl (fun acc k =>
    match old.find? (fun t => t.key == k) with
    | some t => insertTask t acc
    | none => acc) []
  keys.foldl (fun acc k => if acc.any (fun t => t.key == k) then acc else insertTask ⟨k, .preCheck⟩ acc) kept

inductive SetMetaReply where
  | ok | oldEpoch | notMyMeta
  deriving DecidableEq, Repr

/-- `MetaManager::set_meta`.  Blocking controllers live in the `BlockingMap` of the manager, keyed by
node address; a migrating task holds its node's `BlockingHandle` inside its own future, so the
blocking of a dropped task ends with it and a freshly created task starts unblocked: only the
nodes of *reused* migrating tasks stay blocking. -/
def setMeta (p : ProxyState) (m : EMeta) : ProxyState × SetMetaReply :=
  if !checkHosts p.announceHost m.loc then (p, .notMyMeta)
  else if m.epoch ≤ p.epoch && !m.force then (p, .oldEpoch)
  else
    let tasks := updateTasks m.cluster p.tasks m.loc
    let keptSrcNodes := tasks.filterMap fun t =>
      match t.key.range.tag with
      | .migrating i => if p.tasks.any (fun o => o.key == t.key) then some i.srcNode else none
      | _ => none
    ({ p with
        epoch := m.epoch
        cm := ClusterMap.install p.cfg m.cluster (rangesOfMap m.loc) (rangesOfMap m.peer)
        migEmpty := tasks.isEmpty
        migCluster := m.cluster
        tasks := tasks
        blocking := p.blocking.filter fun a => keptSrcNodes.contains a }, .ok)

/-! ## the handshake (`UMCTL PRECHECK | PRESWITCH | FINALSWITCH`) -/

inductive MgrSub where
  | preCheck | preSwitch | finalSwitch
  deriving DecidableEq, Repr

inductive SwitchReply where
  | ok | invalidArg | notReady | taskNotFound | peerMigrating
  deriving DecidableEq, Repr

def setTaskState (k : TaskKey) (st : MigState) (ts : List Task) : List Task :=
  ts.map fun t => if t.key == k then { t with state := st } else t

/-- `MetaManager::handle_switch` → `MigrationMap::handle_switch` → `RedisScanImportingTask::
handle_switch` (the version check is in C17's `SwitchArg`; the version is a constant of the build) -/
def handleSwitch (p : ProxyState) (key : TaskKey) (sub : MgrSub) : ProxyState × SwitchReply :=
  let go (info : MigInfo) : ProxyState × SwitchReply :=
    let key' : TaskKey := { key with range := { key.range with tag := .importing info } }
    if p.epoch < info.epoch then (p, .notReady)
    else if p.migCluster != key.cluster then (p, .taskNotFound)
    else
      match p.tasks.find? (fun t => t.key == key') with
      | none => (p, .taskNotFound)
      | some t =>
        if t.isMigrating then (p, .peerMigrating)
        else
          let st : MigState :=
            match sub with
            | .preCheck => .preCheck
            | .preSwitch => .preSwitch
            | .finalSwitch => .switchCommitted
          ({ p with tasks := setTaskState key' st p.tasks }, .ok)
  match key.range.tag with
  | .none => (p, .invalidArg)
  | .migrating info => go info
  | .importing info => go info

/-- what happens inside the source proxy's `RedisScanMigratingTask::run_migration` -/
inductive SrcEvent where
  /-- non-error reply to PRECHECK: `PreBlocking` -/
  | precheckAcked
  /-- `ctrl.start_blocking()` -/
  | blockingStarted
  /-- `ctrl.blocking_done()`: `PreSwitch` -/
  | blockingDone
  /-- non-error reply to PRESWITCH: `Scanning` -/
  | preswitchAcked
  /-- `blocking_handle.stop()` -/
  | blockingStopped
  /-- the scan future finished: `FinalSwitch` -/
  | scanDone
  /-- non-error reply to FINALSWITCH: `SwitchCommitted` -/
  | finalAcked
  deriving DecidableEq, Repr

def srcStep (p : ProxyState) (key : TaskKey) (ev : SrcEvent) : ProxyState :=
  let node : Option Addr :=
    match key.range.tag with
    | .migrating i => some i.srcNode
    | _ => none
  match ev with
  | .precheckAcked => { p with tasks := setTaskState key .preBlocking p.tasks }
  | .blockingStarted =>
    match node with
    | some a => { p with blocking := if p.blocking.contains a then p.blocking else a :: p.blocking }
    | none => p
  | .blockingDone => { p with tasks := setTaskState key .preSwitch p.tasks }
  | .preswitchAcked => { p with tasks := setTaskState key .scanning p.tasks }
  | .blockingStopped =>
    match node with
    | some a => { p with blocking := p.blocking.filter fun b => b != a }
    | none => p
  | .scanDone => { p with tasks := setTaskState key .finalSwitch p.tasks }
  | .finalAcked => { p with tasks := setTaskState key .switchCommitted p.tasks }

/-! ## routing with migration (`send_cmd_ctx`) -/

/-- where a data command ends up at one proxy -/
inductive Outcome where
  /-- handed to the backend of Redis node `node` -/
  | exec (node : Addr)
  /-- pushed into the blocking queue of local node `node`; re-sent through `loop_send_cmd_ctx` when
  the blocking is released -/
  | held (node : Addr)
  /-- replied `MOVED <slot> <addr>` -/
  | moved (slot : Nat) (addr : Addr)
  /-- any other result of `routeSlot` / `sendRemoteDirectly` (errors, active redirection) -/
  | other (o : Route.Outcome)
  deriving Repr, DecidableEq

def Outcome.ofRoute (blocking : List Addr) : Route.Outcome → Outcome
  | .exec a => if blocking.contains a then .held a else .exec a
  | .moved s a => .moved s a
  | o => .other o

/-- `scan_task::handle_redirection` followed by the `ActiveRedirection` arm of `send_cmd_ctx` -/
def handleRedirection (p : ProxyState) (redirTimes : Option Nat) (slot : Nat) (addr : Addr) : Outcome :=
  if p.cfg.activeRedirection then Outcome.ofRoute [] (sendRemoteDirectly p.cfg p.cm redirTimes slot addr)
  else .moved slot addr

/-- `MigrationMap::send`: `none` = `SlotNotFound` (the command goes on to the cluster map).
The first task in visiting order that contains the slot decides.  Source task: `PreCheck`,
`PreBlocking`, `PreSwitch` fall through (with a blocking hint, see `routeWithMigration`), later
states redirect to the destination proxy.  Destination task: `PreCheck` redirects to the source
proxy, later states hand the command to `RestoreDataCmdTaskHandler`, whose `dst_sender` is the
backend of `dst_node_address`. -/
def migSend (p : ProxyState) (redirTimes : Option Nat) (slot : Option Nat) : Option Outcome :=
  if p.migEmpty || p.migCluster.isEmpty then none
  else
    match slot with
    | none => some (.other .errMissingKey)
    | some s =>
      match p.tasks.find? (fun t => t.containsSlot s) with
      | none => none
      | some t =>
        match t.key.range.tag with
        | .migrating info =>
          match t.state with
          | .preCheck | .preBlocking | .preSwitch => none
          | _ => some (handleRedirection p redirTimes s info.dstProxy)
        | .importing info =>
          if t.state == .preCheck then some (handleRedirection p redirTimes s info.srcProxy)
          else some (.exec info.dstNode)
        | .none => none

/-- `send_cmd_ctx`: migration map, then `ClusterBackendMap::send` (local, then peers).  A command
for a local node goes through that node's `BlockingBackendSender`: while the controller is
blocking it is queued (`held`), otherwise executed (the hint computed by the migrating task and
the controller state are read at the same instant in this atomic step). -/
def routeWithMigration (p : ProxyState) (redirTimes : Option Nat) (slot : Option Nat) : Outcome :=
  match migSend p redirTimes slot with
  | some o => o
  | none => Outcome.ofRoute p.blocking (routeSlot p.cfg p.cm redirTimes slot)

/-! ## the client following MOVED -/

/-- how a client run ends -/
inductive FollowEnd where
  /-- proxy `proxy` executed the command on node `node` -/
  | exec (proxy : Addr) (node : Addr)
  /-- proxy `proxy` queued the command for blocked node `node` -/
  | held (proxy : Addr) (node : Addr)
  /-- proxy `proxy` answered with something that is neither an execution nor MOVED -/
  | stuck (proxy : Addr) (o : Route.Outcome)
  /-- redirected to an address that is no proxy of the cluster -/
  | noProxy (addr : Addr)
  /-- still being redirected when the hop budget ran out -/
  | hopLimit (proxy : Addr)
  deriving Repr, DecidableEq

/-- start at proxy `at`, follow at most `fuel` MOVED replies; result: number of MOVED replies the
client saw, and how the run ended -/
def follow (net : Addr → Option ProxyState) (slot : Nat) : Nat → Addr → Nat × FollowEnd
  | fuel, addr =>
    match net addr with
    | none => (0, .noProxy addr)
    | some p =>
      match routeWithMigration p none (some slot) with
      | .exec n => (0, .exec addr n)
      | .held n => (0, .held addr n)
      | .other o => (0, .stuck addr o)
      | .moved _ a =>
        match fuel with
        | 0 => (0, .hopLimit addr)
        | fuel + 1 =>
          let r := follow net slot fuel a
          (r.1 + 1, r.2)

/-- the redirection budget given to `follow` in the theorems: more than any bound claimed -/
def FOLLOW_FUEL : Nat := 8

/-! ## executable forms of the view hypotheses (used by the driver and by `decide` in examples) -/

/-- some pending range of the view covers slot `s` -/
def pendingAtB (v : VCluster) (s : Nat) : Bool :=
  v.nodes.any fun n => n.slots.any fun sr => SlotRange.tagged sr && covers sr.ranges s

/-- `compact` normal form: each `start ≤ end`, ascending, consecutive ranges separated by a gap -/
def normalB : RangeList → Bool
  | [] => true
  | [r] => decide (r.1 ≤ r.2)
  | r :: r' :: rest => decide (r.1 ≤ r.2) && decide (r.2 + 1 < r'.1) && normalB (r' :: rest)

/-- every pending range of the view is compacted and below `SLOT_NUM` -/
def pendingNormalB (v : VCluster) : Bool :=
  v.nodes.all fun n => n.slots.all fun sr =>
    !SlotRange.tagged sr || (normalB sr.ranges && sr.ranges.all fun r => decide (r.2 < SLOT_NUM))

end Um.E2E
