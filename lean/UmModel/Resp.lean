import UmModel.Bytes
import UmGen.RespCfg
/-!
# C15 — RESP values, `encode_resp`, the stateless index parser and `IndexedResp::decode`

Transliteration of `src/protocol/resp.rs` (value / index trees, `advance`, `to_resp_vec`),
`src/protocol/encoder.rs` (`encode_resp`) and `src/protocol/stateless.rs`
(`parse_resp`, `parse_array`, `parse_bulk_str`, `parse_len`, `parse_line`,
`parse_indexed_resp`).  The parser returns *index ranges* into the buffer exactly as the code
does (`DataIndex(s, e)`, shifted by `advance`); values are obtained by slicing afterwards
(`to_resp_vec`, whose `expect` is an explicit `none` here).

Every parser takes the flag `strict`: `false` is the code as it is on the pinned tree (the byte
before LF is dropped unchecked, the two bytes after a bulk payload are skipped unchecked —
finding F7); `true` is the code with `/verif/.build/patches/f7.diff` applied (both are checked
and answer `InvalidProtocol`).  The flag the model runs with is `strictTerm`, which the
extractor derives from the source on every run.

Two more source-derived switches are constants of the model (theorems never unfold them, so they
hold for every setting): `maxNesting` (`some MAX_NESTING` since the F16b fix: a `*` at nesting
depth `>= MAX_NESTING` answers `InvalidProtocol` before its header is read; `none` = the unbounded
recursion of the original tree) and `capRemaining` (since the F4 fix `parse_array` reserves
`min(array_size, bytes remaining)` elements instead of `array_size`).
-/
namespace Um.Resp
open Um

/-- which variant of the terminator checks the source tree has (see `tools/extract_resp.py`) -/
def strictTerm : Bool := Um.Gen.Resp.strictTerm

/-- `MAX_NESTING` (`none`: no limit in the source) -/
def maxNesting : Option Nat := Um.Gen.Resp.maxNesting
/-- `Vec::with_capacity(min(array_size, remaining))` instead of `Vec::with_capacity(array_size)` -/
def capRemaining : Bool := Um.Gen.Resp.capRemaining

def tError : UInt8 := Um.Gen.Resp.tError
def tSimple : UInt8 := Um.Gen.Resp.tSimple
def tInteger : UInt8 := Um.Gen.Resp.tInteger
def tBulk : UInt8 := Um.Gen.Resp.tBulk
def tArr : UInt8 := Um.Gen.Resp.tArr
def LF : UInt8 := Um.Gen.Resp.LF
def CR : UInt8 := 13
def crlf : Bytes := Um.Gen.Resp.crlf
def nilBulkEnc : Bytes := Um.Gen.Resp.nilBulk
def nilArrEnc : Bytes := Um.Gen.Resp.nilArr

/-! ## `Resp<T>` (`src/protocol/resp.rs`) -/

/-- `Resp<T>` with `BulkStr<T>` / `Array<T>` flattened into the constructors -/
inductive RespT (α : Type) where
  | error (a : α)
  | simple (a : α)
  | bulk (a : α)
  | bulkNil
  | integer (a : α)
  | arr (l : List (RespT α))
  | arrNil

/-- `RespVec` -/
abbrev Resp := RespT Bytes
/-- `DataIndex(s, e)` -/
abbrev DataIndex := Nat × Nat
/-- `RespIndex` -/
abbrev RespIdx := RespT DataIndex

mutual
/-- `Functor::map` / `map_in_place` -/
def RespT.map {α β : Type} (f : α → β) : RespT α → RespT β
  | .error a => .error (f a)
  | .simple a => .simple (f a)
  | .bulk a => .bulk (f a)
  | .bulkNil => .bulkNil
  | .integer a => .integer (f a)
  | .arr l => .arr (RespT.mapList f l)
  | .arrNil => .arrNil
def RespT.mapList {α β : Type} (f : α → β) : List (RespT α) → List (RespT β)
  | [] => []
  | x :: xs => RespT.map f x :: RespT.mapList f xs
end

mutual
/-- `map` with a partial function: `none` as soon as one leaf fails (the `expect` of
`to_resp_vec` / `map_to_slice`) -/
def RespT.mapOpt {α β : Type} (f : α → Option β) : RespT α → Option (RespT β)
  | .error a => (f a).map .error
  | .simple a => (f a).map .simple
  | .bulk a => (f a).map .bulk
  | .bulkNil => some .bulkNil
  | .integer a => (f a).map .integer
  | .arr l => (RespT.mapOptList f l).map .arr
  | .arrNil => some .arrNil
def RespT.mapOptList {α β : Type} (f : α → Option β) : List (RespT α) → Option (List (RespT β))
  | [] => some []
  | x :: xs =>
    match RespT.mapOpt f x with
    | none => none
    | some y =>
      match RespT.mapOptList f xs with
      | none => none
      | some ys => some (y :: ys)
end

/-- `AdvanceIndex::advance` -/
def advance (count : Nat) (r : RespIdx) : RespIdx :=
  r.map fun (s, e) => (s + count, e + count)

/-- `data.get(s..e)` -/
def sliceGet (data : Bytes) (s e : Nat) : Option Bytes :=
  if s ≤ e ∧ e ≤ data.length then some ((data.drop s).take (e - s)) else none

/-- `IndexedResp::to_resp_vec` (`none` = the `expect` panics) -/
def toRespVec (data : Bytes) (r : RespIdx) : Option Resp :=
  r.mapOpt fun (s, e) => sliceGet data s e

/-! ## `encode_resp` (`src/protocol/encoder.rs`) -/

/-- `usize::to_string()` as bytes; fuel `n + 1` is never exhausted (the loop stops at `n < 10`) -/
def decAux : Nat → Nat → Bytes → Bytes
  | 0, _, acc => acc
  | f + 1, n, acc =>
    let acc' := UInt8.ofNat (48 + n % 10) :: acc
    if n < 10 then acc' else decAux f (n / 10) acc'

def usizeToString (n : Nat) : Bytes := decAux (n + 1) n []

/-- `encode_simple_element` -/
def encodeSimpleElement (pfx : UInt8) (b : Bytes) : Bytes := pfx :: (b ++ crlf)

mutual
def encode : Resp → Bytes
  | .error s => encodeSimpleElement tError s
  | .simple s => encodeSimpleElement tSimple s
  | .integer s => encodeSimpleElement tInteger s
  | .bulkNil => nilBulkEnc
  | .bulk s => encodeSimpleElement tBulk (usizeToString s.length) ++ (s ++ crlf)
  | .arrNil => nilArrEnc
  | .arr l => encodeSimpleElement tArr (usizeToString l.length) ++ encodeList l
def encodeList : List Resp → Bytes
  | [] => []
  | x :: xs => encode x ++ encodeList xs
end

/-! ## the stateless parser (`src/protocol/stateless.rs`) -/

inductive PErr where
  | invalid      -- `ParseError::InvalidProtocol`
  | notEnough    -- `ParseError::NotEnoughData`
  | unexpected   -- `ParseError::UnexpectedErr`
  | capacity     -- panic `capacity overflow` of `Vec::with_capacity(array_size)`
  | fuel         -- model artefact: never returned by `parse` (theorem `parse_ne_fuel`)
  deriving DecidableEq, Repr

abbrev PR (α : Type) := Except PErr α

/-- `memchr(c, buf)` -/
def memchr (c : UInt8) : Bytes → Option Nat
  | [] => none
  | x :: xs => if x = c then some 0 else (memchr c xs).map (· + 1)

/-- `parse_line`; the second test exists only in the patched tree (`strict`) -/
def parseLine (strict : Bool) (buf : Bytes) : PR (DataIndex × Nat) :=
  match memchr LF buf with
  | none => .error .notEnough
  | some lf =>
    if lf = 0 then .error .invalid
    else if strict && buf[lf - 1]? != some CR then .error .invalid
    else .ok ((0, lf + 1 - 2), lf + 1)

/-- `parse_len`: `btoi::<i64>` of the line -/
def parseLen (strict : Bool) (buf : Bytes) : PR (Int × Nat) :=
  match parseLine strict buf with
  | .error e => .error e
  | .ok ((s, e), consumed) =>
    match sliceGet buf s e with
    | none => .error .unexpected
    | some nextBuf =>
      match btoiI64 nextBuf with
      | none => .error .invalid
      | some len => .ok (len, consumed)

/-- `parse_bulk_str`; the terminator test exists only in the patched tree (`strict`) -/
def parseBulkStr (strict : Bool) (buf : Bytes) : PR (RespIdx × Nat) :=
  match parseLen strict buf with
  | .error e => .error e
  | .ok (len, consumed) =>
    if len < 0 then .ok (.bulkNil, consumed)
    else
      let contentSize := len.toNat
      if buf.length < consumed + contentSize + 2 then .error .notEnough
      else
        let «end» := consumed + contentSize
        if strict && sliceGet buf «end» («end» + 2) != some crlf then .error .invalid
        else .ok (.bulk (consumed, «end»), «end» + 2)

/-- `size_of::<RespIndex>()` on the 64-bit target (checked against the real type by the harness
op `sizeof`) -/
def respIndexSize : Nat := 32
def isizeMax : Nat := 9223372036854775807

/-- `Vec::<RespIndex>::with_capacity(n)` panics with `capacity overflow` iff the byte size
exceeds `isize::MAX`.  (Below that bound the allocation is attempted; its failure — an abort —
is outside this model: finding F4, property C16.) -/
def capacityOverflow (n : Nat) : Bool := n * respIndexSize > isizeMax

/-- does `parse_array` panic when it reserves room for `arraySize` elements?  With the capped
reservation (`capRemaining`) it reserves at most `buf.len() - consumed` elements, which cannot
overflow for a buffer that exists (`buf.len() * 32 <= isize::MAX`, i.e. below 2^58 bytes — an
assumption of the model, listed in props.d): no panic.  Without the cap: `capacityOverflow`. -/
def reservePanics (arraySize : Nat) : Bool := !capRemaining && capacityOverflow arraySize

/-- `depth >= MAX_NESTING` -/
def nestingExceeded (depth : Nat) : Bool :=
  match maxNesting with
  | none => false
  | some m => decide (m ≤ depth)

/-- `let (mut v, consumed) = …?; v.advance(1); Ok((…, 1 + consumed))`: what every arm of
`parse_resp` does with the result of its sub-parser -/
def shift1 (r : PR (RespIdx × Nat)) : PR (RespIdx × Nat) :=
  match r with
  | .error e => .error e
  | .ok (v, consumed) => .ok (advance 1 v, 1 + consumed)

/-- `parse_line(next_buf)` wrapped in `RespIndex::Simple` / `Integer` / `Error` -/
def parseLineAs (mk : DataIndex → RespIdx) (strict : Bool) (buf : Bytes) : PR (RespIdx × Nat) :=
  match parseLine strict buf with
  | .error e => .error e
  | .ok (v, consumed) => .ok (mk v, consumed)

/-- the four arms of `parse_resp` that do not recurse (`$`, `+`, `:`, `-`); `none` for any other
type byte -/
def parseLeaf (strict : Bool) (pfx : UInt8) (nextBuf : Bytes) : Option (PR (RespIdx × Nat)) :=
  if pfx = tBulk then some (parseBulkStr strict nextBuf)
  else if pfx = tSimple then some (parseLineAs .simple strict nextBuf)
  else if pfx = tInteger then some (parseLineAs .integer strict nextBuf)
  else if pfx = tError then some (parseLineAs .error strict nextBuf)
  else none

/-- the part of `parse_array` before its loop -/
inductive ArrHdr where
  | err (e : PErr)
  | nil (consumed : Nat)               -- `len < 0`
  | elems (arraySize consumed : Nat)   -- the loop runs `arraySize` times from `consumed`

def parseArrayHeader (strict : Bool) (buf : Bytes) : ArrHdr :=
  match parseLen strict buf with
  | .error e => .err e
  | .ok (len, consumed) =>
    if len < 0 then .nil consumed
    else if reservePanics len.toNat then .err .capacity
    else .elems len.toNat consumed

mutual
/-- `parse_resp_nested(buf, depth)` (`parse_resp` of the original tree when `maxNesting = none`);
the `*` arm is `parse_array_nested(next_buf, depth + 1)` (header, then the loop `parseElems`).
The fuel is a termination device only: `parse` supplies `buf.length + 1`, never exhausted. -/
def parseResp (strict : Bool) : Nat → Nat → Bytes → PR (RespIdx × Nat)
  | 0, _, _ => .error .fuel
  | _ + 1, _, [] => .error .notEnough
  | f + 1, depth, pfx :: nextBuf =>
    match parseLeaf strict pfx nextBuf with
    | some r => shift1 r
    | none =>
      if pfx = tArr then
        -- if depth >= MAX_NESTING { return Err(InvalidProtocol) }
        if nestingExceeded depth then .error .invalid
        else
          match parseArrayHeader strict nextBuf with
          | .err e => .error e
          | .nil consumed => shift1 (.ok (.arrNil, consumed))
          | .elems arraySize consumed =>
            match parseElems strict f (depth + 1) nextBuf.length (nextBuf.drop consumed) arraySize consumed with
            | .error e => .error e
            | .ok (array, consumed') => shift1 (.ok (.arr array, consumed'))
      else .error .invalid
/-- the `for _ in 0..array_size` loop of `parse_array_nested(buf, depth)`: `rest` is
`buf[consumed..]` (`bufLen = buf.len()`), `k` the number of elements still to read; every element
is `parse_resp_nested(next_buf, depth)` -/
def parseElems (strict : Bool) : Nat → Nat → Nat → Bytes → Nat → Nat → PR (List RespIdx × Nat)
  | _, _, _, _, 0, consumed => .ok ([], consumed)
  | 0, _, _, _, _ + 1, _ => .error .fuel
  | f + 1, depth, bufLen, rest, k + 1, consumed =>
    -- buf.get(consumed..).ok_or(InvalidProtocol)
    if consumed > bufLen then .error .invalid
    else
      match parseResp strict f depth rest with
      | .error e => .error e
      | .ok (v, elementConsumed) =>
        match parseElems strict f depth bufLen (rest.drop elementConsumed) k (consumed + elementConsumed) with
        | .error e => .error e
        | .ok (vs, total) => .ok (advance consumed v :: vs, total)
end

/-- `parse_resp(buf)` = `parse_resp_nested(buf, 0)` -/
def parse (strict : Bool) (buf : Bytes) : PR (RespIdx × Nat) := parseResp strict (buf.length + 1) 0 buf

/-! ## `IndexedResp::decode` / `RespPacket::decode` / `RespVec::decode` (`src/protocol/packet.rs`) -/

/-- `IndexedResp { resp, data }` -/
structure IndexedResp where
  resp : RespIdx
  data : Bytes

/-- result of one `DecodedPacket::decode(buf, ())` call: the item and the buffer left behind -/
inductive Dec (α : Type) where
  | item (a : α) (rest : Bytes)   -- `Ok(Some(a))`, `buf` is now `rest`
  | none                          -- `Ok(None)`, `buf` untouched
  | invalid                       -- `Err(DecodeError::InvalidProtocol)`, `buf` untouched
  | panic                         -- the call panics

/-- `parse_indexed_resp` + the error mapping of `IndexedResp::decode` -/
def decodeIndexed (strict : Bool) (buf : Bytes) : Dec IndexedResp :=
  match parse strict buf with
  | .ok (resp, consumed) =>
    -- buf.split_to(consumed) panics when consumed > len
    if consumed > buf.length then .panic
    else .item ⟨resp, buf.take consumed⟩ (buf.drop consumed)
  | .error .notEnough => .none
  | .error .invalid => .invalid
  | .error .unexpected => .invalid
  | .error .capacity => .panic
  | .error .fuel => .panic

/-- `<RespVec as DecodedPacket>::decode` -/
def decodeVec (strict : Bool) (buf : Bytes) : Dec Resp :=
  match decodeIndexed strict buf with
  | .item ir rest =>
    match toRespVec ir.data ir.resp with
    | some v => .item v rest
    | none => .panic
  | .none => .none
  | .invalid => .invalid
  | .panic => .panic

end Um.Resp
