import UmModel.Broker
import UmGen.ChunkTables
/-!
# What the broker serves (`src/broker/query.rs`, `ClusterStore::limit_migration`)

`clusterView` = `get_cluster_by_name`, `proxyView` = `get_proxy_by_address`, `clusterInfo` =
`get_cluster_info_by_name`, `checkMetadata` = `check_metadata`. The chunk index tables come
from the generated module `UmGen.ChunkTables` (re-extracted from the source on every run).
-/
namespace Um.Broker
open Um Um.Slots

def RolePos.idx : RolePos → Nat
  | .normal => 0 | .first => 1 | .second => 2

def tab2 (t : List (List Nat)) (i j : Nat) : Option Nat := (t[i]?).bind fun r => r[j]?

/-- `chunk_part_to_proxy_index` -/
def partToProxyIndex (part : Nat) (r : RolePos) : Option Nat := tab2 Um.Gen.Chunk.partToProxyIndexTab part r.idx
/-- `chunk_part_to_node_index` -/
def partToNodeIndex (part : Nat) (r : RolePos) : Option Nat := tab2 Um.Gen.Chunk.partToNodeIndexTab part r.idx

def Chunk.proxyAt (c : Chunk) : Nat → Option String
  | 0 => some c.proxy0 | 1 => some c.proxy1 | _ => none
def Chunk.nodeAt (c : Chunk) : Nat → Option String
  | 0 => some c.node0 | 1 => some c.node1 | 2 => some c.node2 | 3 => some c.node3 | _ => none

structure MigInfo where
  epoch : Nat
  srcProxy : String
  srcNode : String
  dstProxy : String
  dstNode : String
  deriving DecidableEq, Repr

inductive Tag where
  | none
  | migrating (m : MigInfo)
  | importing (m : MigInfo)
  deriving DecidableEq, Repr

structure SlotRange where
  ranges : RangeList
  tag : Tag
  deriving DecidableEq, Repr

/-- `MigrationSlotRangeStore::to_slot_range` -/
def toSlotRange (m : MigStore) (chunks : List Chunk) : R SlotRange := do
  let sc ← expectSome chunks[m.mm.srcChunk]? "get_cluster"
  let spi ← expectSome (partToProxyIndex m.mm.srcPart sc.role) "get_cluster"
  let sp ← expectSome (sc.proxyAt spi) "get_cluster"
  let sni ← expectSome (partToNodeIndex m.mm.srcPart sc.role) "get_cluster"
  let sn ← expectSome (sc.nodeAt sni) "get_cluster"
  let dc ← expectSome chunks[m.mm.dstChunk]? "get_cluster"
  let dpi ← expectSome (partToProxyIndex m.mm.dstPart dc.role) "get_cluster"
  let dp ← expectSome (dc.proxyAt dpi) "get_cluster"
  let dni ← expectSome (partToNodeIndex m.mm.dstPart dc.role) "get_cluster"
  let dn ← expectSome (dc.nodeAt dni) "get_cluster"
  let info : MigInfo := { epoch := m.mm.epoch, srcProxy := sp, srcNode := sn, dstProxy := dp, dstNode := dn }
  pure { ranges := m.ranges, tag := if m.isMigrating then .migrating info else .importing info }

/-! ## limit_migration -/

structure LimSt where
  chunks : List Chunk
  num : Nat
  out : List ((Nat × Nat) × Nat)     -- migrating_out: (src chunk, src part) ↦ count

def LimSt.outCount (s : LimSt) (k : Nat × Nat) : Nat := ((s.out.find? (·.1 == k)).map (·.2)).getD 0
def LimSt.incOut (s : LimSt) (k : Nat × Nat) : LimSt :=
  if s.out.any (·.1 == k) then { s with out := s.out.map fun e => if e.1 == k then (e.1, e.2 + 1) else e }
  else { s with out := s.out ++ [(k, 1)] }

/-- body of the innermost loop of `limit_migration` for one stored entry -/
def limitEntry (limit : Nat) (st : LimSt) (m : MigStore) : R LimSt :=
  if !m.isMigrating then pure st else
  let k := (m.mm.srcChunk, m.mm.srcPart)
  -- `.entry(k).or_insert(0)` happens before the test
  let st := if st.out.any (·.1 == k) then st else { st with out := st.out ++ [(k, 0)] }
  if st.num ≥ limit || st.outCount k ≥ Um.Gen.Chunk.MAX_MIGRATING_OUT then do
    let chunks ← updateChunk st.chunks m.mm.srcChunk (fun c =>
      (c.stable m.mm.srcPart).bind fun cur =>
        c.setStable m.mm.srcPart (some (mergeAnother (cur.getD []) m.ranges))) "limit_migration"
    pure { st with chunks := chunks }
  else do
    let chunks ← updateChunk st.chunks m.mm.srcChunk (fun c =>
      (c.mig m.mm.srcPart).bind fun l => c.setMig m.mm.srcPart (l ++ [m])) "limit_migration"
    let chunks ← updateChunk chunks m.mm.dstChunk (fun c =>
      (c.mig m.mm.dstPart).bind fun l => c.setMig m.mm.dstPart (l ++ [{ m with isMigrating := false }])) "limit_migration"
    pure ({ st with chunks := chunks, num := st.num + 1 }.incOut k)

/-- `ClusterStore::limit_migration` -/
def limitMigration (cl : Cluster) (limit : Nat) : R Cluster :=
  if limit == 0 then pure cl else do
    let blank := cl.chunks.map fun c => { c with mig0 := [], mig1 := [] }
    let entries := cl.chunks.flatMap fun c => c.mig0 ++ c.mig1
    let st ← entries.foldlM (limitEntry limit) { chunks := blank, num := 0, out := [] }
    pure { cl with chunks := st.chunks }

/-! ## cluster_store_to_cluster -/

structure VNode where
  address : String
  proxy : String
  slots : List SlotRange
  replica : Bool
  peers : List (String × String)      -- (node address, proxy address)
  deriving DecidableEq, Repr

structure VCluster where
  name : String
  epoch : Nat
  nodes : List VNode
  config : Config
  deriving Repr

def partSlots (st : Option RangeList) (migs : List MigStore) (chunks : List Chunk) : R (List SlotRange) := do
  let ms ← migs.mapM fun m => toSlotRange m chunks
  pure ((match st with | some rl => [{ ranges := rl, tag := Tag.none }] | none => []) ++ ms)

def chunkNode (c : Chunk) (chunks : List Chunk) (i : Nat) : R VNode := do
  let address ← expectSome (c.nodeAt i) "MetaStore::get_cluster_by_name: failed to get node"
  let proxy ← expectSome (c.proxyAt (i / 2)) "MetaStore::get_cluster_by_name: failed to get proxy"
  let (fi, si) ← expectSome Um.Gen.Chunk.slotIndexTab[c.role.idx]? "slot index"
  let s0 ← if i == fi then partSlots c.stable0 c.mig0 chunks else pure []
  let s1 ← if i == si then partSlots c.stable1 c.mig1 chunks else pure []
  let replica ← expectSome ((Um.Gen.Chunk.replicaTab[c.role.idx]?).bind fun r => r[i]?) "role table"
  let pi ← expectSome Um.Gen.Chunk.peerIndexTab[i]? "peer index"
  let pn ← expectSome (c.nodeAt pi) "MetaStore::get_cluster_by_name: failed to get peer node"
  let pp ← expectSome (c.proxyAt (pi / 2)) "MetaStore::get_cluster_by_name: failed to get peer proxy"
  pure { address := address, proxy := proxy, slots := s0 ++ s1, replica := replica, peers := [(pn, pp)] }

/-- `cluster_store_to_cluster` -/
def clusterStoreToCluster (cl : Cluster) : R VCluster := do
  let nodes ← cl.chunks.mapM fun c => (List.range Um.Gen.Chunk.CHUNK_NODE_NUM).mapM (chunkNode c cl.chunks)
  pure { name := cl.name, epoch := cl.epoch, nodes := nodes.flatten, config := cl.config }

/-- `get_cluster_by_name` -/
def clusterView (s : Store) (name : String) (limit : Nat) : R (Option VCluster) :=
  if !validName name then pure none else
  match s.findCluster name with
  | none => pure none
  | some cl => do
    let lc ← limitMigration cl limit
    let v ← clusterStoreToCluster lc
    pure (some v)

structure VPeer where
  proxy : String
  slots : List SlotRange
  deriving DecidableEq, Repr

structure VProxy where
  cluster : Option String
  address : String
  epoch : Nat
  nodes : List VNode
  peers : List VPeer
  config : Option Config
  deriving Repr

/-- `group_by` consecutive equal proxy address, concatenating the nodes' slots -/
def groupPeers : List VNode → List VPeer
  | [] => []
  | n :: rest =>
    match groupPeers rest with
    | p :: ps => if p.proxy == n.proxy then { p with slots := n.slots ++ p.slots } :: ps
                 else { proxy := n.proxy, slots := n.slots } :: p :: ps
    | [] => [{ proxy := n.proxy, slots := n.slots }]

/-- `get_proxy_by_address` -/
def proxyView (s : Store) (addr : String) (limit : Nat) : R (Option VProxy) :=
  match s.findProxy addr with
  | none => pure none
  | some p =>
    let free : VProxy :=
      { cluster := none, address := addr, epoch := s.globalEpoch,
        nodes := [p.node0, p.node1].map fun a => { address := a, proxy := p.addr, slots := [], replica := false, peers := [] },
        peers := [], config := none }
    match p.cluster.bind s.findCluster with
    | none => pure (some free)
    | some cl => do
      let lc ← limitMigration cl limit
      let v ← clusterStoreToCluster lc
      let nodes := v.nodes.filter (·.proxy == addr)
      let peers := groupPeers (v.nodes.filter fun n => !n.replica && n.proxy != addr)
      pure (some { cluster := some v.name, address := addr, epoch := v.epoch, nodes := nodes, peers := peers,
                   config := some v.config })

/-- `get_cluster_info_by_name`: (node_number, node_number_with_slots, is_migrating) -/
def clusterInfo (s : Store) (name : String) (limit : Nat) : R (Option (Nat × Nat × Bool)) :=
  if !validName name then pure none else
  match s.findCluster name with
  | none => pure none
  | some cl => do
    let lc ← limitMigration cl limit
    pure (some (lc.chunks.length * 4, lc.nodeNumWithSlots, lc.isMigrating))

/-- `check_metadata` -/
def checkMetadata (s : Store) : Bool :=
  let clustersOk := s.clusters.all fun cl =>
    let addrs := cl.proxyAddrs
    addrs.Nodup &&
    cl.chunks.all fun c =>
      (match s.findProxy c.proxy0 with
       | none => false
       | some p => p.cluster == some cl.name && p.host == c.host0 && p.node0 == c.node0 && p.node1 == c.node1) &&
      (match s.findProxy c.proxy1 with
       | none => false
       | some p => p.cluster == some cl.name && p.host == c.host1 && p.node0 == c.node2 && p.node1 == c.node3)
  let proxiesOk := s.proxies.all fun p =>
    match p.cluster with
    | none => true
    | some n =>
      match s.findCluster n with
      | none => false
      | some cl => cl.chunks.any fun c => c.proxy0 == p.addr || c.proxy1 == p.addr
  clustersOk && proxiesOk

/-! ## canonical text (must match `harness/src/bin/umh_broker.rs` byte for byte) -/

def renderCfg (c : Config) : String :=
  s!"{c.strategy},{c.maxMigrationTime},{c.maxBlockingTime},{c.scanInterval},{c.scanCount}"

def renderOptRanges : Option RangeList → String
  | none => "~"
  | some l => render l

def renderMig (l : List MigStore) : String :=
  match l with
  | [] => "e"
  | _ => String.intercalate "&" (l.map fun m =>
      s!"{if m.isMigrating then "M" else "I"}[{render m.ranges}]@{m.mm.epoch}({m.mm.srcChunk}.{m.mm.srcPart}>{m.mm.dstChunk}.{m.mm.dstPart})")

def RolePos.letter : RolePos → String
  | .normal => "N" | .first => "F" | .second => "S"

def renderChunk (c : Chunk) : String :=
  s!"{c.role.letter}:{renderOptRanges c.stable0}:{renderOptRanges c.stable1}:{renderMig c.mig0}:{renderMig c.mig1}:{c.proxy0},{c.proxy1}:{c.host0},{c.host1}:{c.node0},{c.node1},{c.node2},{c.node3}"

def sortStr (l : List String) : List String := l.mergeSort fun a b => decide (a ≤ b)

def renderCluster (c : Cluster) : String :=
  s!"{c.name}\{{c.epoch};{renderCfg c.config};{String.intercalate "/" (c.chunks.map renderChunk)}}"

def renderStore (s : Store) : String :=
  let ps := sortStr (s.proxies.map fun p => s!"{p.addr}|{p.node0}|{p.node1}|{p.host}|{p.index}|{p.cluster.getD "~"}")
  let fs := sortStr s.failed
  let rs := sortStr (s.failures.map fun e =>
    s!"{e.1}:{String.intercalate "/" (sortStr (e.2.map fun r => s!"{r.1}@{r.2}"))}")
  let cs := (s.clusters.mergeSort fun a b => decide (a.name ≤ b.name)).map renderCluster
  s!"G={s.globalEpoch} O={if s.ordered then 1 else 0} P={String.intercalate "," ps} F={String.intercalate "," fs} R={String.intercalate "," rs} C={String.intercalate "," cs}"

def renderTag : Tag → String
  | .none => ""
  | .migrating m => s!"!M({m.epoch},{m.srcProxy},{m.srcNode},{m.dstProxy},{m.dstNode})"
  | .importing m => s!"!I({m.epoch},{m.srcProxy},{m.srcNode},{m.dstProxy},{m.dstNode})"

def renderSlotRange (s : SlotRange) : String := render s.ranges ++ renderTag s.tag

def renderNode (n : VNode) : String :=
  let peers := String.intercalate "," (n.peers.map fun p => s!"{p.1}@{p.2}")
  s!"{n.address}@{n.proxy}[{if n.replica then "R" else "M"}]\{{String.intercalate "," (n.slots.map renderSlotRange)}}<{peers}>"

def renderVCluster (v : VCluster) : String :=
  s!"V {v.name} e={v.epoch} cfg={renderCfg v.config} nodes={String.intercalate ";" (v.nodes.map renderNode)}"

def renderVProxy (v : VProxy) : String :=
  let peers := String.intercalate "|" (v.peers.map fun p => s!"{p.proxy}\{{String.intercalate "," (p.slots.map renderSlotRange)}}")
  s!"X {v.cluster.getD "~"} {v.address} e={v.epoch} cfg={(v.config.map renderCfg).getD "~"} nodes={String.intercalate ";" (v.nodes.map renderNode)} peers={peers}"

def renderR {α} (f : α → String) : R α → String
  | .ok a => f a
  | .err e => "ERR " ++ e.code
  | .panic _ => "PANIC"
  | .badChoice w => "BAD-CHOICE " ++ w

/-- FNV-1a 64 over UTF-8 bytes -/
def fnv64 (s : String) : UInt64 :=
  s.toUTF8.foldl (fun h b => (h ^^^ b.toUInt64) * 0x100000001b3) 0xcbf29ce484222325

/-- every served view under `limit`, one per line: clusters (by name) with info, then proxies
(by address) -/
def renderAllViews (s : Store) (limit : Nat) : String :=
  let cs := (s.clusters.map (·.name)) |> sortStr
  let ps := (s.proxies.map (·.addr)) |> sortStr
  let cl := cs.map fun n =>
    renderR (fun o => match o with | some v => renderVCluster v | none => "NONE") (clusterView s n limit) ++ " " ++
    renderR (fun o => match o with | some (a, b, m) => s!"info={a},{b},{m}" | none => "NONE") (clusterInfo s n limit)
  let pl := ps.map fun a =>
    renderR (fun o => match o with | some v => renderVProxy v | none => "NONE") (proxyView s a limit)
  String.intercalate "\n" (cl ++ pl)

end Um.Broker
