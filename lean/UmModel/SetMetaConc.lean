import UmModel.Bytes
import UmModel.ProxyMeta
import UmGen.MetaConsts
/-!
# C05 — `MetaManager::set_meta` as an interleaving semantics (concurrent `UMCTL SETCLUSTER`)

`UmModel/ProxyMeta.lean` treats `set_meta` as a sequential machine because everything after the host
check runs under `MetaManager.lock`.  This model does not assume that: any number of callers (worker
threads handling SETCLUSTER) run the function concurrently and the mutex is a shared variable
(`owner`).  A caller moves from one scheduling point of the source (`verif_hook::point("setmeta.*")`,
hook H4) to the next per step:

| pc           | point                 | what happens until the next point                                         |
|--------------|-----------------------|---------------------------------------------------------------------------|
| `hosts`      | `setmeta.check_hosts` | `check_hosts` on the local node map (thread-local) ⇒ `NotMyMeta` or go on |
| `lock`       | `setmeta.lock`        | `self.lock.lock()` — enabled only while nobody owns the lock              |
| `test`       | `setmeta.epoch_test`  | `epoch <= self.epoch && !force` ⇒ `OldEpoch` (guard dropped) or build the new `MetaMap` |
| `mapStore`   | `setmeta.map_store`   | `self.meta_map.store(..)`                                                 |
| `epochStore` | `setmeta.epoch_store` | `self.epoch.store(epoch)`, `run_tasks`                                    |
| `unlock`     | `setmeta.unlock`      | the guard is dropped, `Ok(())`                                            |

A thread that is released at `setmeta.lock` while another thread owns the mutex blocks inside
`parking_lot::Mutex::lock` and reaches no further point: in the model that step does not exist
(`act` = `none`), and the harness scheduler never releases such a thread.
The comparison operator comes from the generated table; the order of the two stores is the order of
the points `setmeta.map_store`, `setmeta.epoch_store`, which the extractor pins (`setMetaPoints`).
-/
namespace Um.SetMetaConc
open Um Um.ProxyMeta

inductive Pc where
  | hosts
  | lock
  | test
  | mapStore
  | epochStore
  | unlock
  | done (r : Reply)
  deriving DecidableEq, Repr

structure Caller (C : Type) where
  msg : Meta C
  /-- `extended_res.is_ok()` of the parser (decides between `OK` and `WARNING`) -/
  cfgOk : Bool
  pc : Pc
  deriving Repr

structure Sys (C : Type) where
  /-- `MetaManager.epoch` -/
  epoch : Nat
  /-- `MetaManager.meta_map` -/
  snap : C
  /-- `MetaManager.lock`: the caller (spawn order) holding the guard -/
  owner : Option Nat
  callers : List (Caller C)
  deriving Repr

def Sys.init {C : Type} (e0 : Nat) (c0 : C) : Sys C := ⟨e0, c0, none, []⟩

inductive Label (C : Type) where
  /-- a worker thread enters `set_meta` with this parsed message -/
  | spawn (m : Meta C) (cfgOk : Bool)
  /-- the scheduler lets caller `i` run to its next scheduling point (or to its return) -/
  | run (i : Nat)
  deriving Repr

/-- what caller `i` does between its current point and the next one; `none` = it cannot move
(returned already, or it would block on the mutex) -/
def act {C : Type} (announce : Bytes) (i : Nat) (epoch : Nat) (snap : C) (owner : Option Nat) (c : Caller C) :
    Option (Nat × C × Option Nat × Caller C) :=
  match c.pc with
  | .hosts =>
    if checkHosts announce c.msg.locals then some (epoch, snap, owner, { c with pc := .lock })
    else some (epoch, snap, owner, { c with pc := .done .notMyMeta })
  | .lock =>
    match owner with
    | none => some (epoch, snap, some i, { c with pc := .test })
    | some _ => none
  | .test =>
    if notNewer c.msg.epoch epoch && !c.msg.force then some (epoch, snap, none, { c with pc := .done .oldEpoch })
    else some (epoch, snap, owner, { c with pc := .mapStore })
  | .mapStore => some (epoch, c.msg.content, owner, { c with pc := .epochStore })
  | .epochStore => some (c.msg.epoch, snap, owner, { c with pc := .unlock })
  | .unlock => some (epoch, snap, none, { c with pc := .done (if c.cfgOk then .ok else .warn) })
  | .done _ => none

/-- executable step function (the driver replays schedules with it) -/
def step? {C : Type} (announce : Bytes) (s : Sys C) : Label C → Option (Sys C)
  | .spawn m b => some { s with callers := s.callers ++ [⟨m, b, .hosts⟩] }
  | .run i =>
    match s.callers[i]? with
    | none => none
    | some c =>
      match act announce i s.epoch s.snap s.owner c with
      | none => none
      | some (e, sn, o, c') => some ⟨e, sn, o, s.callers.set i c'⟩

def replay {C : Type} (announce : Bytes) : Sys C → List (Label C) → Option (Sys C)
  | s, [] => some s
  | s, l :: ls =>
    match step? announce s l with
    | none => none
    | some s' => replay announce s' ls

def Pc.render : Pc → String
  | .hosts => "at " ++ Um.Gen.Meta.setMetaPoints.getD 0 "?"
  | .lock => "at " ++ Um.Gen.Meta.setMetaPoints.getD 1 "?"
  | .test => "at " ++ Um.Gen.Meta.setMetaPoints.getD 2 "?"
  | .mapStore => "at " ++ Um.Gen.Meta.setMetaPoints.getD 3 "?"
  | .epochStore => "at " ++ Um.Gen.Meta.setMetaPoints.getD 4 "?"
  | .unlock => "at " ++ Um.Gen.Meta.setMetaPoints.getD 5 "?"
  | .done r => "done " ++ r.render

end Um.SetMetaConc
