import UmGen.CmdTables
import UmGen.MigCmd
/-!
# C03 — live slot migration, per-key small-step model

One key of the migrating range, the two Redis nodes, the two proxies.  Sources:
`src/proxy/migration_backend.rs` (pull path `EXISTS → lock → DUMP,PTTL → RESTORE;cmd → unlock → DEL`,
push path `lock → UMSYNC → cmd → unlock`, `KeyLock`), `src/migration/scan_migration.rs`
(scan batches under `SlotMutex`, UMSYNC fast path under `SlotMutex`, slow path inside the scan
loop), `src/migration/scan_task.rs` (state machines of both sides, who executes / redirects in
which state), `src/proxy/blocking.rs` (barrier, by its C11 contract), `src/proxy/manager.rs`
(routing after the metadata commit).

Atomic steps: every backend command executed by a Redis node (`exe`), every command delivered to
a proxy (`dlv…`), client invocation / response, and the internal decisions of the proxies
(`Tau`).  In-flight commands of one `send` (a `ReqTask::Multi`) stay ordered; commands of
different sends are unordered (this covers every `backend_conn_num`).

Not modelled: key expiry, `max_blocking_time` / `max_migration_time` firing, connection errors.
-/
namespace Um.Mig

abbrev Val := Nat
abbrev OpId := Nat

/-- client commands the model knows (single key) -/
inductive Cmd where
  | get
  | set (v : Val)
  | getset (v : Val)
  | del
  | sinterstore          -- `SINTERSTORE k <missing set>`: deletes `k`, replies 0 (typed `Sinterstore` since fix ddfb301)
  deriving DecidableEq, Repr, Hashable

/-- upper-cased command name as the proxy sees it -/
def Cmd.name : Cmd → List UInt8
  | .get => [71, 69, 84]
  | .set _ => [83, 69, 84]
  | .getset _ => [71, 69, 84, 83, 69, 84]
  | .del => [68, 69, 76]
  | .sinterstore => [83, 73, 78, 84, 69, 82, 83, 84, 79, 82, 69]

/-- `DataCmdType::from_cmd_name` through the generated table -/
def dataCmdType (name : List UInt8) : String :=
  match Um.Gen.dataCmdTypeTable.find? (fun p => p.1 == name) with
  | some p => p.2
  | none => Um.Gen.dataCmdTypeDefault

/-- `requires_blocking_migration` through the generated list -/
def requiresBlocking (t : String) : Bool := Um.Gen.requiresBlockingMigration.contains t

/-- `get_non_blocking_name`: the executor rewrites BLPOP… to LPOP… before dispatch -/
def nonBlockingType (t : String) : String :=
  match Um.Gen.nonBlockingNameTable.find? (fun p => p.1 == t) with
  | some p => dataCmdType p.2
  | none => t

def Cmd.blocking (c : Cmd) : Bool := requiresBlocking (nonBlockingType (dataCmdType c.name))

/-- replies (client replies and backend replies share the type) -/
inductive Rep where
  | nil
  | val (v : Val)
  | ok
  | int (n : Int)
  | busy                 -- `-BUSYKEY`
  | moved
  | err (code : Nat)     -- 1 = MIGRATION_KEY_LOCK_TIMEOUT, 2 = failed to access source
  deriving DecidableEq, Repr, Hashable

def repOfVal : Option Val → Rep
  | none => .nil
  | some v => .val v

/-- the register semantics of a client command (what Redis does with it) -/
def Cmd.apply (c : Cmd) (s : Option Val) : Option Val × Rep :=
  match c with
  | .get => (s, repOfVal s)
  | .set v => (some v, .ok)
  | .getset v => (some v, repOfVal s)
  | .del => (none, .int (if s.isSome then 1 else 0))
  | .sinterstore => (none, .int 0)

/-- Redis side: can this command remove the key? (semantic fact about `Cmd.apply`) -/
def Cmd.deletes : Cmd → Bool
  | .del => true
  | .sinterstore => true
  | _ => false

inductive Node where
  | src | dst
  deriving DecidableEq, Repr, Hashable

inductive Proxy where
  | S | D
  deriving DecidableEq, Repr, Hashable

/-- backend commands on the key -/
inductive BCmd where
  | exists
  | dump
  | pttl
  | restore (v : Val)
  | del
  | client (c : Cmd)
  deriving DecidableEq, Repr, Hashable

inductive SrcSt where
  | preCheck | preBlocking | preSwitch | scanning | finalSwitch | switchCommitted
  deriving DecidableEq, Repr, Hashable

inductive DstSt where
  | preCheck | preSwitch | switchCommitted
  deriving DecidableEq, Repr, Hashable

/-- reply of the source proxy to UMSYNC -/
inductive SyncRep where
  | ok | finished | taskNotFound
  | err                  -- `-failed to …`: the source proxy could not serve the UMSYNC (a Redis connection of
                         -- the migrating task failed)
  deriving DecidableEq, Repr, Hashable

/-- UMSYNC fast path at the source proxy (`handle_sync_task` under the `SlotMutex`) -/
inductive FastPc where
  | pttl
  | dump (p : Bool)          -- PTTL answered (`p` = key existed), DUMP in flight
  | restore (v : Val)
  | del
  deriving DecidableEq, Repr, Hashable

/-- program counter of a client operation outside the key-lock critical section -/
inductive Pc where
  | fwd (p : Proxy)                 -- active redirection: in flight to proxy `p`
  | blocked                         -- in the barrier queue of the source proxy
  | direct (n : Node)               -- the command itself is in flight at node `n`, no migration logic
  | pExists                         -- pull: EXISTS in flight at dst
  | pExistsGot (b : Bool)           -- pull: EXISTS answered, not yet processed by `handle_exists_task`
  | pCmd                            -- cmd in flight at dst (pull after RESTORE / key existed / push after UMSYNC)
  | uPending                        -- push: waiting for the key lock (`handle_pending_umsync_task`)
  | inCrit                          -- the op holds the key lock; its control state is `Sys.crit`
  | done (r : Rep)                  -- reply produced, not yet returned to the client
  deriving DecidableEq, Repr, Hashable

/-- control state of the holder of the importing `KeyLock` entry of this key -/
inductive CritPc where
  | pDump                           -- pull: DUMP, PTTL in flight at src
  | pPttl (d : Option Val)          -- pull: DUMP answered, PTTL in flight
  | pEntryNone                      -- pull: source has no entry; reply not yet processed
  | pRestore (v : Val)              -- pull: RESTORE v ; cmd in flight at dst
  | tail                            -- pull: RESTORE executed, its reply not yet processed by
                                    -- `handle_restore` (the op itself is already in `Pc.pCmd` or later)
  | uSync                           -- push: UMSYNC in flight to the source proxy
  | uFast (f : FastPc)              -- push: source runs the fast path (slot mutex held)
  | uQueued                         -- push: queued for the scan loop (slow path)
  | uSlow                           -- push: being served by a slow-path batch
  | uSyncGot (r : SyncRep)          -- push: UMSYNC answered; not yet processed by `handle_umsync_task`
  deriving DecidableEq, Repr, Hashable

structure Op where
  id : OpId
  cmd : Cmd
  pc : Pc
  deriving DecidableEq, Repr, Hashable

structure Crit where
  id : OpId
  pc : CritPc
  deriving DecidableEq, Repr, Hashable

/-- the scan actor seen from this key; `locked = true`: a scan batch (slot mutex held),
`false`: a slow-path batch serving the queued UMSYNC of this key -/
inductive ScanPc where
  | idle
  | pttl (locked : Bool)
  | dump (locked : Bool) (p : Bool)
  | restore (locked : Bool) (v : Val)
  | del (locked : Bool)
  | fin (locked : Bool)
  deriving DecidableEq, Repr, Hashable

structure Sys where
  src : Option Val
  dst : Option Val
  srcSt : SrcSt
  dstSt : DstSt
  blocking : Bool          -- barrier active (a `BlockingHandle` is alive)
  srcTask : Bool           -- the source proxy still has the migrating task (false after its commit)
  dstTask : Bool           -- the destination proxy still has the importing task
  queueClosed : Bool       -- slow-path queue closed (scan finished)
  acked : Bool             -- the destination has answered PRECHECK
  active : Bool            -- `active_redirection`
  crit : Option Crit       -- the importing `KeyLock` entry of this key: its holder and where it is
  ops : List Op
  auxDel : Nat             -- `DEL key` of finished pulls in flight at src
  scan : ScanPc
  nextId : Nat             -- client op identifiers are issued in increasing order
  deriving DecidableEq, Repr, Hashable

def Sys.init (v0 : Option Val) (active : Bool) : Sys :=
  { src := v0, dst := none, srcSt := .preCheck, dstSt := .preCheck, blocking := false,
    srcTask := true, dstTask := true, queueClosed := false, acked := false, active := active,
    crit := none, ops := [], auxDel := 0, scan := .idle, nextId := 0 }

/-! ## helpers -/

def findOp (s : Sys) (id : OpId) : Option Op := s.ops.find? (fun o => o.id == id)

def setPc (s : Sys) (id : OpId) (pc : Pc) : Sys :=
  { s with ops := s.ops.map (fun o => if o.id == id then { o with pc := pc } else o) }

def removeOp (s : Sys) (id : OpId) : Sys :=
  { s with ops := s.ops.filter (fun o => o.id != id) }

def getNode (s : Sys) : Node → Option Val
  | .src => s.src
  | .dst => s.dst

def setNode (s : Sys) (n : Node) (v : Option Val) : Sys :=
  match n with
  | .src => { s with src := v }
  | .dst => { s with dst := v }

/-- `RESTORE key ttl payload` without REPLACE -/
def restoreAt (s : Sys) (v : Val) : Sys × Rep :=
  match s.dst with
  | some _ => (s, .busy)
  | none => ({ s with dst := some v }, .ok)

def pttlRep (x : Option Val) : Rep := if x.isSome then .int (-1) else .int (-2)
def existsRep (x : Option Val) : Rep := if x.isSome then .int 1 else .int 0
def delRep (x : Option Val) : Rep := if x.isSome then .int 1 else .int 0

/-- the source `SlotMutex` of this key's lock slot is held by the scan batch -/
def scanLocked : ScanPc → Bool
  | .idle => false
  | .pttl l => l
  | .dump l _ => l
  | .restore l _ => l
  | .del l => l
  | .fin l => l

/-- a failing source connection makes the scan loop abandon the current batch (seen from this key: whatever
this key's part of the batch has reached — another key's command of the same pipeline may be the one that
fails; a RESTORE that fails is simply re-sent, `keep_connecting_and_sending_cmd_with_cached_client`) -/
def scanAbandonable : ScanPc → Bool
  | .idle => false
  | _ => true

def CritPc.isFast : CritPc → Bool
  | .uFast _ => true
  | _ => false

/-- … or by the UMSYNC fast path -/
def critFast (c : Option Crit) : Bool :=
  match c with
  | some k => k.pc.isFast
  | none => false

def mutexHeld (s : Sys) : Bool := scanLocked s.scan || critFast s.crit

def setCrit (s : Sys) (id : OpId) (pc : CritPc) : Sys := { s with crit := some { id := id, pc := pc } }

/-- where does proxy `p` send a freshly received / re-dispatched / forwarded command?
(`MigrationMap::send`, `RedisScanMigratingTask::send`, `RedisScanImportingTask::send`,
`TaskBlockingQueue::send`, `handle_cmd_task`, `send_to_umsync`) -/
def route (s : Sys) (id : OpId) (c : Cmd) (p : Proxy) : Sys :=
  let redirect (q : Proxy) : Sys :=
    if s.active then setPc s id (.fwd q) else setPc s id (.done .moved)
  match p with
  | .S =>
    if s.srcTask && (s.srcSt == .preCheck || s.srcSt == .preBlocking || s.srcSt == .preSwitch) then
      if s.blocking then setPc s id .blocked else setPc s id (.direct .src)
    else redirect .D
  | .D =>
    if s.dstTask then
      if s.dstSt == .preCheck then redirect .S
      else if c.blocking then
        match s.crit with
        | none => setPc (setCrit s id .uSync) id .inCrit
        | some _ => setPc s id .uPending
      else setPc s id .pExists
    else setPc s id (.direct .dst)

/-! ## labels -/

/-- who executes a backend command -/
inductive Actor where
  | op (id : OpId)       -- a command of client op `id` that is not under the key lock
  | crit                 -- a command sent on behalf of the key-lock holder (pull DUMP/PTTL/RESTORE, UMSYNC fast path)
  | scan
  | aux                  -- `DEL key` at src after a finished pull
  deriving DecidableEq, Repr, Hashable

/-- internal decisions -/
inductive Tau where
  | existsKeyThere (id : OpId)     -- EXISTS = 1: forward the command
  | existsLock (id : OpId)         -- EXISTS = 0, lock acquired: DUMP, PTTL
  | existsRetry (id : OpId)        -- EXISTS = 0, lock busy: EXISTS again
  | entryNone                      -- source has no entry: unlock, forward
  | restoreDone                    -- RESTORE reply processed: unlock, DEL at src
  | pendingLock (id : OpId)        -- pending UMSYNC got the lock
  | pendingTimeout (id : OpId)     -- pending UMSYNC gave up (lock busy)
  | syncDone                       -- UMSYNC reply processed: forward cmd, unlock
  | redispatch (id : OpId)         -- released from the barrier queue
  | scanLock                       -- scan batch: slot mutex acquired for this key
  | scanSlow                       -- scan loop picks the queued UMSYNC of this key
  | scanEnd                        -- end of the batch: unlock / answer the queued UMSYNC
  | srcPreCheckOk                  -- source: PRECHECK answered → PreBlocking
  | startBlocking
  | blockingDone                   -- source: `blocking_done()` observed → PreSwitch
  | srcPreSwitchOk                 -- source: PRESWITCH answered → Scanning
  | stopBlocking
  | scanFinish                     -- source: scan finished → FinalSwitch (queue closed)
  | srcFinalSwitchOk               -- source: FINALSWITCH answered → SwitchCommitted
  deriving DecidableEq, Repr, Hashable

inductive Label where
  | inv (id : OpId) (p : Proxy) (c : Cmd)
  | ret (id : OpId) (r : Rep)
  | exe (a : Actor) (n : Node) (c : BCmd) (r : Rep)  -- the actor's next in-flight command `c` runs at node `n`, reply `r`
  | dlvFwd (id : OpId)                     -- redirected command arrives at the other proxy
  | dlvSync (contended : Bool)             -- UMSYNC arrives at the source proxy; `contended`: the slot
                                           -- mutex is held on behalf of another key of the same lock slot
  | dlvPreCheck                            -- UMCTL PRECHECK arrives at the destination proxy
  | dlvPreSwitch
  | dlvFinalSwitch
  | commit (p : Proxy)                     -- SETCLUSTER with the committed metadata
  | syncFault (delDone : Bool)             -- FAULT: a Redis connection of the UMSYNC fast path fails at its next
                                           -- command (PTTL/DUMP pipeline, or the final DEL; `delDone`: the DEL was
                                           -- executed, only its reply is lost): the source answers UMSYNC with an error
  | scanFault                              -- FAULT: the source connection of the scan loop fails at the next command of
                                           -- the current batch: the batch is abandoned (a slow-path batch answers its
                                           -- queued UMSYNC with an error), the loop reconnects
  | tau (t : Tau)
  deriving DecidableEq, Repr, Hashable

/-! ## the step function -/

def guard (b : Bool) (s : Sys) : Option Sys := if b then some s else none

/-- a backend command of a client op outside the critical section executes -/
def exeOp (s : Sys) (o : Op) (n : Node) (c : BCmd) (r : Rep) : Option Sys :=
  match o.pc, n, c with
  | .direct m, _, .client c' =>
    if m = n ∧ c' = o.cmd then
      let (v', r') := o.cmd.apply (getNode s n)
      guard (r == r') (setPc (setNode s n v') o.id (.done r))
    else none
  | .pCmd, .dst, .client c' =>
    if c' = o.cmd then
      let (v', r') := o.cmd.apply s.dst
      guard (r == r') (setPc { s with dst := v' } o.id (.done r))
    else none
  | .pExists, .dst, .exists =>
    guard (r == existsRep s.dst) (setPc s o.id (.pExistsGot s.dst.isSome))
  | _, _, _ => none

/-- a backend command of the key-lock holder executes -/
def exeCrit (s : Sys) (k : Crit) (n : Node) (c : BCmd) (r : Rep) : Option Sys :=
  match k.pc, n, c with
  | .pDump, .src, .dump =>
    guard (r == repOfVal s.src) (setCrit s k.id (.pPttl s.src))
  | .pPttl d, .src, .pttl =>
    -- `get_data_entry`: an entry only if DUMP gave data and PTTL is not -2
    let pc := match d, s.src with
      | some v, some _ => CritPc.pRestore v
      | _, _ => CritPc.pEntryNone
    guard (r == pttlRep s.src) (setCrit s k.id pc)
  | .pRestore v, .dst, .restore v' =>
    if v' = v then
      let (s', r') := restoreAt s v
      guard (r == r') (setPc (setCrit s' k.id .tail) k.id .pCmd)
    else none
  | .uFast .pttl, .src, .pttl =>
    guard (r == pttlRep s.src) (setCrit s k.id (.uFast (.dump s.src.isSome)))
  | .uFast (.dump p), .src, .dump =>
    -- `produce_entries`: an entry only if PTTL was not -2 and DUMP gave data
    let pc := match p, s.src with
      | true, some v => CritPc.uFast (.restore v)
      | _, _ => CritPc.uSyncGot .ok
    guard (r == repOfVal s.src) (setCrit s k.id pc)
  | .uFast (.restore v), .dst, .restore v' =>
    if v' = v then
      let (s', r') := restoreAt s v
      guard (r == r') (setCrit s' k.id (.uFast .del))
    else none
  | .uFast .del, .src, .del =>
    guard (r == delRep s.src) (setCrit { s with src := none } k.id (.uSyncGot .ok))
  | _, _, _ => none

def exeScan (s : Sys) (n : Node) (c : BCmd) (r : Rep) : Option Sys :=
  match s.scan, n, c with
  | .pttl l, .src, .pttl => guard (r == pttlRep s.src) { s with scan := .dump l s.src.isSome }
  | .dump l p, .src, .dump =>
    let sc := match p, s.src with
      | true, some v => ScanPc.restore l v
      | _, _ => ScanPc.fin l
    guard (r == repOfVal s.src) { s with scan := sc }
  | .restore l v, .dst, .restore v' =>
    if v' = v then
      let (s', r') := restoreAt s v
      guard (r == r') { s' with scan := .del l }
    else none
  | .del l, .src, .del => guard (r == delRep s.src) { s with src := none, scan := .fin l }
  | _, _, _ => none

def critPcIs (s : Sys) (pc : CritPc) : Bool :=
  match s.crit with
  | some k => k.pc == pc
  | none => false

def stepTau (s : Sys) : Tau → Option Sys
  | .existsKeyThere id => do
    let o ← findOp s id
    guard (o.pc == .pExistsGot true) (setPc s id .pCmd)
  | .existsLock id => do
    let o ← findOp s id
    guard (o.pc == .pExistsGot false && s.crit.isNone) (setPc (setCrit s id .pDump) id .inCrit)
  | .existsRetry id => do
    let o ← findOp s id
    guard (o.pc == .pExistsGot false && s.crit.isSome) (setPc s id .pExists)
  | .entryNone =>
    match s.crit with
    | some { id := id, pc := .pEntryNone, .. } => some (setPc { s with crit := none } id .pCmd)
    | _ => none
  | .restoreDone =>
    match s.crit with
    | some { pc := .tail, .. } => some { s with crit := none, auxDel := s.auxDel + 1 }
    | _ => none
  | .pendingLock id => do
    let o ← findOp s id
    guard (o.pc == .uPending && s.crit.isNone) (setPc (setCrit s id .uSync) id .inCrit)
  | .pendingTimeout id => do
    let o ← findOp s id
    guard (o.pc == .uPending && s.crit.isSome) (setPc s id (.done (.err 1)))
  | .syncDone =>
    match s.crit with
    -- an error reply other than MIGRATION_TASK_NOT_FOUND: the client command fails, it is NOT forwarded
    | some { id := id, pc := .uSyncGot .err, .. } => some (setPc { s with crit := none } id (.done (.err 2)))
    | some { id := id, pc := .uSyncGot _, .. } => some (setPc { s with crit := none } id .pCmd)
    | _ => none
  | .redispatch id => do
    let o ← findOp s id
    if o.pc == .blocked && !s.blocking then some (route s id o.cmd .S) else none
  | .scanLock =>
    guard (s.scan == .idle && s.srcTask && s.srcSt == .scanning && !s.blocking && !mutexHeld s)
      { s with scan := .pttl true }
  | .scanSlow =>
    match s.crit with
    | some k =>
      guard (k.pc == .uQueued && s.scan == .idle && s.srcTask && s.srcSt == .scanning && !s.blocking)
        { setCrit s k.id .uSlow with scan := .pttl false }
    | none => none
  | .scanEnd =>
    match s.scan with
    | .fin true => some { s with scan := .idle }
    | .fin false =>
      match s.crit with
      | some k => if k.pc == .uSlow then some { setCrit s k.id (.uSyncGot .ok) with scan := .idle }
                  else some { s with scan := .idle }
      | none => some { s with scan := .idle }
    | _ => none
  | .srcPreCheckOk =>
    guard (s.srcTask && s.srcSt == .preCheck && s.acked) { s with srcSt := .preBlocking }
  | .startBlocking =>
    guard (s.srcTask && s.srcSt == .preBlocking && !s.blocking) { s with blocking := true }
  | .blockingDone =>
    -- barrier contract (C11): observed only when no command of the source proxy is in flight at src
    guard (s.srcTask && s.srcSt == .preBlocking && s.blocking
           && s.ops.all (fun o => o.pc != .direct .src))
      { s with srcSt := .preSwitch }
  | .srcPreSwitchOk =>
    guard (s.srcTask && s.srcSt == .preSwitch && s.dstSt == .preSwitch) { s with srcSt := .scanning }
  | .stopBlocking =>
    guard (s.blocking && s.srcSt == .scanning) { s with blocking := false }
  | .scanFinish =>
    -- SCAN contract: the iteration ends only when no key of the range is left at the source
    guard (s.srcTask && s.srcSt == .scanning && s.scan == .idle && s.src.isNone && !s.blocking)
      (match s.crit with
       | some k =>
         if k.pc == .uQueued then
           { setCrit s k.id (.uSyncGot .finished) with srcSt := .finalSwitch, queueClosed := true }
         else { s with srcSt := .finalSwitch, queueClosed := true }
       | none => { s with srcSt := .finalSwitch, queueClosed := true })
  | .srcFinalSwitchOk =>
    guard (s.srcTask && s.srcSt == .finalSwitch && s.dstSt == .switchCommitted)
      { s with srcSt := .switchCommitted }

def step? (s : Sys) : Label → Option Sys
  | .inv id p c =>
    if id < s.nextId then none
    else some (route { s with ops := s.ops ++ [{ id := id, cmd := c, pc := .fwd p }], nextId := id + 1 } id c p)
  | .ret id r => do
    let o ← findOp s id
    guard (o.pc == .done r) (removeOp s id)
  | .exe (.op id) n c r => do
    let o ← findOp s id
    exeOp s o n c r
  | .exe .crit n c r => do
    let k ← s.crit
    exeCrit s k n c r
  | .exe .scan n c r => exeScan s n c r
  | .exe .aux n c r =>
    guard (n == .src && c == .del && s.auxDel > 0 && r == delRep s.src)
      { s with src := none, auxDel := s.auxDel - 1 }
  | .dlvFwd id => do
    let o ← findOp s id
    match o.pc with
    | .fwd p => some (route s id o.cmd p)
    | _ => none
  | .dlvSync contended => do
    let k ← s.crit
    if k.pc != .uSync then none
    else if !s.srcTask then some (setCrit s k.id (.uSyncGot .taskNotFound))
    else if !(contended || mutexHeld s) then some (setCrit s k.id (.uFast .pttl))
    else if s.queueClosed then some (setCrit s k.id (.uSyncGot .finished))
    else some (setCrit s k.id .uQueued)
  | .dlvPreCheck =>
    guard (s.dstTask && s.srcTask && s.srcSt == .preCheck && !s.acked) { s with dstSt := .preCheck, acked := true }
  | .dlvPreSwitch =>
    guard (s.dstTask && s.srcTask && s.srcSt == .preSwitch && s.dstSt == .preCheck) { s with dstSt := .preSwitch }
  | .dlvFinalSwitch =>
    guard (s.dstTask && s.srcTask && s.srcSt == .finalSwitch && s.dstSt == .preSwitch)
      { s with dstSt := .switchCommitted }
  | .commit .D =>
    guard (s.dstTask && s.dstSt == .switchCommitted && s.srcSt == .switchCommitted) { s with dstTask := false }
  | .commit .S =>
    guard (s.srcTask && s.dstSt == .switchCommitted && s.srcSt == .switchCommitted) { s with srcTask := false }
  | .syncFault delDone =>
    match s.crit with
    | some { id := id, pc := .uFast .pttl, .. } => guard (!delDone) (setCrit s id (.uSyncGot .err))
    | some { id := id, pc := .uFast (.dump _), .. } => guard (!delDone) (setCrit s id (.uSyncGot .err))
    | some { id := id, pc := .uFast .del, .. } =>
      some (setCrit (if delDone then { s with src := none } else s) id (.uSyncGot .err))
    | _ => none
  | .scanFault =>
    if !scanAbandonable s.scan then none
    else if scanLocked s.scan then some { s with scan := .idle }
    else match s.crit with
      | some k => if k.pc == .uSlow then some { setCrit s k.id (.uSyncGot .err) with scan := .idle }
                  else some { s with scan := .idle }
      | none => some { s with scan := .idle }
  | .tau t => stepTau s t

/-- all internal steps that could be enabled (the driver closes state sets under them) -/
def tauCandidates (s : Sys) : List Tau :=
  let perOp : List Tau := s.ops.foldr (fun o acc =>
    match o.pc with
    | .pExistsGot true => .existsKeyThere o.id :: acc
    | .pExistsGot false => .existsLock o.id :: .existsRetry o.id :: acc
    | .uPending => .pendingLock o.id :: .pendingTimeout o.id :: acc
    | .blocked => .redispatch o.id :: acc
    | _ => acc) []
  perOp ++
    [.entryNone, .restoreDone, .syncDone, .scanLock, .scanSlow, .scanEnd, .srcPreCheckOk, .startBlocking,
     .blockingDone, .srcPreSwitchOk, .stopBlocking, .scanFinish, .srcFinalSwitchOk]

def tauSuccs (s : Sys) : List Sys := (tauCandidates s).filterMap (fun t => step? s (.tau t))

/-- the transition relation the theorems quantify over -/
def Step (s s' : Sys) : Prop := ∃ l, step? s l = some s'

inductive Reach (s0 : Sys) : Sys → Prop where
  | refl : Reach s0 s0
  | step {s s'} : Reach s0 s → Step s s' → Reach s0 s'

end Um.Mig
