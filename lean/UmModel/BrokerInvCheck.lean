import UmModel.BrokerOps
/-!
Executable (Bool) versions of the invariant packages of `UmProofs/BrokerDefs.lean`, so that the
driver can evaluate them on every state a correspondence run visits (`inv` op). They are *not*
used by any theorem; they guard against stating an invariant that reachable states violate.
-/
namespace Um.Broker
open Um Um.Slots

def normalRangesB : RangeList → Bool
  | [] => true
  | [r] => decide (r.1 ≤ r.2)
  | r :: r' :: rest => decide (r.1 ≤ r.2) && decide (r.2 + 1 < r'.1) && normalRangesB (r' :: rest)

def Chunk.migsB (c : Chunk) : List MigStore := c.mig0 ++ c.mig1
def Cluster.migsB (c : Cluster) : List MigStore := c.chunks.flatMap Chunk.migsB

def epochInvB (s : Store) : Bool :=
  s.clusters.all fun c => decide (c.epoch ≤ s.globalEpoch) && c.migsB.all fun m => decide (m.mm.epoch ≤ c.epoch)

def resInvB (s : Store) : Bool :=
  (s.proxies.map (·.addr)).Nodup && (s.clusters.map (·.name)).Nodup &&
  (s.clusters.flatMap Cluster.proxyAddrs).Nodup && checkMetadata s

def posOf (m : MigStore) : Nat × Nat :=
  if m.isMigrating then (m.mm.srcChunk, m.mm.srcPart) else (m.mm.dstChunk, m.mm.dstPart)

def posInvB (c : Cluster) : Bool :=
  (List.range c.chunks.length).all fun i =>
    match c.chunks[i]? with
    | none => true
    | some ch =>
      ch.mig0.all (fun m => posOf m == (i, 0)) && ch.mig1.all (fun m => posOf m == (i, 1)) &&
      ch.migsB.all fun m => decide (m.mm.srcChunk < c.chunks.length) && decide (m.mm.dstChunk < c.chunks.length) &&
        decide (m.mm.srcPart < 2) && decide (m.mm.dstPart < 2)

def twinInvB (c : Cluster) : Bool :=
  let mig := (c.migsB.filter (·.isMigrating)).map fun m => (m.ranges, m.mm)
  let imp := (c.migsB.filter (fun m => !m.isMigrating)).map fun m => (m.ranges, m.mm)
  mig.isPerm imp && ((c.migsB.filter (·.isMigrating)).map fun m => (m.ranges, m.mm.epoch)).Nodup

def ownedSlotsB (c : Cluster) : List Nat :=
  c.chunks.flatMap fun ch =>
    ((ch.stable0.toList ++ ch.stable1.toList).flatMap slotsOf) ++
      ((ch.migsB.filter (·.isMigrating)).flatMap fun m => slotsOf m.ranges)

def slotInvB (c : Cluster) : Bool :=
  (c.chunks.all fun ch =>
    (ch.stable0.toList ++ ch.stable1.toList).all normalRangesB &&
    ch.migsB.all fun m => normalRangesB m.ranges && !m.ranges.isEmpty) &&
  ((ownedSlotsB c).mergeSort (fun a b => decide (a ≤ b))) == List.range SLOT_NUM

/-- one letter per violated package, or `ok` -/
def invReport (s : Store) : String :=
  let bad := (if epochInvB s then "" else "E") ++ (if resInvB s then "" else "R") ++
    (if s.clusters.all posInvB then "" else "P") ++ (if s.clusters.all twinInvB then "" else "T") ++
    (if s.clusters.all slotInvB then "" else "S")
  if bad.isEmpty then "inv:ok" else "inv:" ++ bad

end Um.Broker
