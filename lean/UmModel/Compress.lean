import UmModel.Bytes
import UmGen.CompressTable
/-!
# C20 — value compression (`src/proxy/compress.rs`, `src/proxy/reply.rs`, `src/proxy/executor.rs`,
`src/proxy/manager.rs`, `src/proxy/cluster.rs`)

Transliteration of the request/reply rewriting that the server proxy performs when the cluster's
`compression_strategy` is not `disabled`, together with the part of the executor that decides
*which* commands are rewritten (MGET/MSET/MSETNX splitting, UMFORWARD unwrap) and the routing step
that decides *where* they go (local backend, MOVED, or UMFORWARD to the peer proxy).

* requests are arrays of bulk strings (`List Bytes`); other request shapes are not modelled;
* zstd is abstracted by `Codec` (`enc` total: `zstd::encode_all` on an in-memory buffer);
* the command tables (`dataTypeOf`, `compressRule`, `decompressRule`, `dispatchRule`, constants)
  are generated from the source (`UmGen/CompressTable.lean`);
* the backend is a small string-only key-value store (`redisExec`) — test scaffolding that the
  harness implements identically in Rust (`harness/src/compress_support.rs`).
-/
namespace Um.Compress
open Um Um.Gen.Compress

/-! ## RESP values (replies) -/

inductive Resp where
  | simple (b : Bytes)
  | error (b : Bytes)
  | integer (b : Bytes)
  | bulk (b : Bytes)
  | nilBulk
  | arr (l : List Resp)
  | nilArr

/-- `CompressionStrategy` (`src/common/config.rs`) -/
inductive Strategy where
  | disabled | setGetOnly | allowAll
  deriving DecidableEq, Repr

/-- zstd, abstracted. `enc` is `zstd::encode_all(v, 1)`, `dec` is `zstd::decode_all` (`none` = the
`Err` branch). The only law assumed is the round trip. -/
structure Codec where
  enc : Bytes → Bytes
  dec : Bytes → Option Bytes
  dec_enc : ∀ v, dec (enc v) = some v

/-- `CompressionError` (`Io` only arises from `decode_all`) -/
inductive CompressionError where
  | io | invalidRequest | invalidResp | disabled | unsupportedCmdType | restrictedCmd
  deriving DecidableEq, Repr

/-! ## command classification (`CmdType::from_packet`, `DataCmdType::from_packet`) -/

/-- `byte_to_uppercase` -/
def upper (b : UInt8) : UInt8 := if 97 ≤ b.toNat ∧ b.toNat ≤ 122 then b - 32 else b

/-- `from_cmd_name`: upper-case into a buffer of `MAX_COMMAND_NAME_LENGTH` bytes (overflow ⇒ default),
then match the literal table -/
def lookupName {α : Type} (tbl : List (Bytes × α)) (dflt : α) (name : Bytes) : α :=
  if name.length > MAX_COMMAND_NAME_LENGTH then dflt
  else match tbl.lookup (name.map upper) with
    | some v => v
    | none => dflt

def cmdTypeOf (cmd : List Bytes) : CmdType :=
  match cmd with
  | [] => cmdTypeNoName
  | n :: _ => lookupName cmdTypeNames cmdTypeNamesDefault n

def dataTypeOf (cmd : List Bytes) : DataCmdType :=
  match cmd with
  | [] => dataCmdNoName
  | n :: _ => lookupName dataCmdNames dataCmdNamesDefault n

/-! ## `CmdCompressor::try_compressing_cmd_ctx` -/

/-- `compress_one_element`: element `i` must exist; it is replaced by its compressed form -/
def compressOne (c : Codec) (cmd : List Bytes) (i : Nat) : Except CompressionError (List Bytes) :=
  match cmd[i]? with
  | none => .error .invalidRequest
  | some v => .ok (cmd.set i (c.enc v))

/-- `(start..len).step_by(step)` -/
def stepIndices (start len step : Nat) : List Nat :=
  List.range' start ((len - start + step - 1) / step) step

/-- the `for index in indices { compress_one_element(..)? }` loop -/
def compressMany (c : Codec) : List Nat → List Bytes → Except CompressionError (List Bytes)
  | [], cmd => .ok cmd
  | i :: is, cmd =>
    match compressOne c cmd i with
    | .error e => .error e
    | .ok cmd' => compressMany c is cmd'

def compressCmd (c : Codec) (s : Strategy) (cmd : List Bytes) : Except CompressionError (List Bytes) :=
  if s = .disabled then .error .disabled
  else match compressRule (dataTypeOf cmd) with
    | .single i => compressOne c cmd i
    | .multi start step => compressMany c (stepIndices start cmd.length step) cmd
    | .restricted => if s = .setGetOnly then .error .restrictedCmd else .error .unsupportedCmdType
    | .pass => .ok cmd

/-! ## `CmdReplyDecompressor::decompress` and `DecompressCommitHandler::handle_task` -/

/-- array branch: every top-level bulk element is decoded (first failure aborts before anything is
changed); every other element is kept -/
def decompressElems (c : Codec) : List Resp → Option (List Resp)
  | [] => some []
  | x :: xs =>
    let x' : Option Resp :=
      match x with
      | .bulk b => (c.dec b).map Resp.bulk
      | other => some other
    match x', decompressElems c xs with
    | some y, some ys => some (y :: ys)
    | _, _ => none

def decompressReply (c : Codec) (s : Strategy) (ty : DataCmdType) (r : Resp) : Except CompressionError Resp :=
  if s = .disabled then .error .disabled
  else match decompressRule ty with
    | .bulk =>
      match r with
      | .bulk b =>
        match c.dec b with
        | some d => .ok (.bulk d)
        | none => .error .io
      | other => .ok other
    | .array =>
      match r with
      | .arr l =>
        match decompressElems c l with
        | some l' => .ok (.arr l')
        | none => .error .io
      | other => .ok other
    | .unsupported => .error .unsupportedCmdType

/-- `DecompressCommitHandler::handle_task` on a successful backend result: a failed decompression
"forces" a nil bulk string -/
def commitReply (c : Codec) (s : Strategy) (ty : DataCmdType) (r : Resp) : Resp :=
  match decompressReply c s ty r with
  | .ok r' => r'
  | .error .unsupportedCmdType => r
  | .error .disabled => r
  | .error _ => .nilBulk

/-! ## the backend stand-in: a string-only key-value store -/

abbrev Store := Bytes → Option Bytes

def Store.empty : Store := fun _ => none
def Store.put (s : Store) (k v : Bytes) : Store := fun k' => if k' = k then some v else s k'
def Store.del (s : Store) (k : Bytes) : Store := fun k' => if k' = k then none else s k'

/-- canonical decimal digits (`usize::to_string`) -/
def natDec (n : Nat) : Bytes :=
  if h : n < 10 then [UInt8.ofNat (48 + n)]
  else natDec (n / 10) ++ [UInt8.ofNat (48 + n % 10)]
decreasing_by omega

def eqIgnoreCase (a b : Bytes) : Bool := a.map upper == b.map upper

def B (s : String) : Bytes := bytesOfString s

def arityErr : Resp := .error (B "ERR wrong number of arguments")

def putPairs (s : Store) : List Bytes → Store
  | k :: v :: rest => putPairs (s.put k v) rest
  | _ => s

def anyPairKeyExists (s : Store) : List Bytes → Bool
  | k :: _ :: rest => (s k).isSome || anyPairKeyExists s rest
  | _ => false

def bulkOrNil : Option Bytes → Resp
  | some v => .bulk v
  | none => .nilBulk

/-- the test-only command `XECHO key kind payload`: a reply of the requested shape (stands for the
non-string commands whose replies must pass through untouched) -/
def xecho (kind payload : Bytes) : Resp :=
  if kind = B "int" then .integer payload
  else if kind = B "simple" then .simple payload
  else if kind = B "err" then .error payload
  else if kind = B "bulk" then .bulk payload
  else if kind = B "nil" then .nilBulk
  else if kind = B "arr" then .arr [.bulk payload, .integer payload, .nilBulk, .arr [.bulk payload]]
  else .nilArr

def OK : Resp := .simple (B "OK")
def int0 : Resp := .integer (B "0")
def int1 : Resp := .integer (B "1")
def existsReply (s : Store) (k : Bytes) : Resp := if (s k).isSome then int1 else int0

/-- `SET key value [options…]` (only NX / XX are interpreted) -/
def execSet (s : Store) : List Bytes → Store × Resp
  | k :: v :: opts =>
    let nx := opts.any (eqIgnoreCase (B "NX"))
    let xx := opts.any (eqIgnoreCase (B "XX"))
    if (nx && (s k).isSome) || (xx && (s k).isNone) then (s, .nilBulk) else (s.put k v, OK)
  | _ => (s, arityErr)

/-- `SETEX key seconds value`, `PSETEX key ms value` -/
def execSetex (s : Store) : List Bytes → Store × Resp
  | k :: _ :: v :: _ => (s.put k v, OK)
  | _ => (s, arityErr)

def execSetnx (s : Store) : List Bytes → Store × Resp
  | k :: v :: _ => if (s k).isSome then (s, int0) else (s.put k v, int1)
  | _ => (s, arityErr)

def execGetset (s : Store) : List Bytes → Store × Resp
  | k :: v :: _ => (s.put k v, bulkOrNil (s k))
  | _ => (s, arityErr)

def execGet (s : Store) : List Bytes → Store × Resp
  | k :: _ => (s, bulkOrNil (s k))
  | _ => (s, arityErr)

def execMset (s : Store) (rest : List Bytes) : Store × Resp :=
  if rest.length % 2 = 1 || rest.isEmpty then (s, arityErr) else (putPairs s rest, OK)

def execMsetnx (s : Store) (rest : List Bytes) : Store × Resp :=
  if rest.length % 2 = 1 || rest.isEmpty then (s, arityErr)
  else if anyPairKeyExists s rest then (s, int0)
  else (putPairs s rest, int1)

def execDel (s : Store) : List Bytes → Store × Resp
  | k :: _ => if (s k).isSome then (s.del k, int1) else (s, int0)
  | _ => (s, arityErr)

def execExists (s : Store) : List Bytes → Store × Resp
  | k :: _ => (s, existsReply s k)
  | _ => (s, arityErr)

/-- `APPEND key value` / `STRLEN key` stand for the string commands that look inside a value: they
only report whether the key exists (what they would compute on compressed bytes is outside the
abstraction) -/
def execAppend (s : Store) : List Bytes → Store × Resp
  | k :: _ :: _ => (s, existsReply s k)
  | _ => (s, arityErr)

def XECHO : Bytes := [88, 69, 67, 72, 79]

/-- commands the proxy does not classify: `XECHO key kind payload` or an unknown command -/
def execOther (s : Store) (n : Bytes) : List Bytes → Store × Resp
  | _ :: kind :: payload :: _ =>
    if n.map upper = XECHO then (s, xecho kind payload) else (s, .error (B "ERR unknown command"))
  | _ => (s, arityErr)

/-- one command executed by the backend stand-in -/
def redisExec (s : Store) (cmd : List Bytes) : Store × Resp :=
  match cmd with
  | [] => (s, arityErr)
  | n :: args =>
    match dataTypeOf (n :: args) with
    | .Set => execSet s args
    | .Setex => execSetex s args
    | .Psetex => execSetex s args
    | .Setnx => execSetnx s args
    | .Getset => execGetset s args
    | .Get => execGet s args
    | .Mget => (s, .arr (args.map fun k => bulkOrNil (s k)))
    | .Mset => execMset s args
    | .Msetnx => execMsetnx s args
    | .Del => execDel s args
    | .Exists => execExists s args
    | .Append => execAppend s args
    | .Strlen => execExists s args
    | .Others => execOther s n args
    | _ => (s, arityErr)

/-! ## the proxies -/

/-- what every proxy of the cluster is configured with. The slot→owner map is one function: all
proxies hold consistent metadata. -/
structure Env where
  codec : Codec
  strategy : Strategy
  activeRedirection : Bool
  /-- `Option<NonZeroUsize>` -/
  maxRedirections : Option Nat
  /-- `generate_slot` -/
  slot : Bytes → Nat
  /-- slot ↦ proxy whose local backend owns it -/
  owner : Nat → Option Nat
  /-- proxy ↦ address announced in MOVED replies -/
  addr : Nat → Bytes

/-- cluster state: the store behind every proxy and the list of commands that reached a backend -/
structure Sys where
  stores : Nat → Store
  log : List (Nat × List Bytes)

def Sys.empty : Sys := { stores := fun _ => Store.empty, log := [] }

/-- `CmdCtx`: the command and `redirection_times` (set only by `handle_umforward`) -/
structure Ctx where
  cmd : List Bytes
  redirTimes : Option Nat := none

/-- how a command is handed to the peer proxy's session (`handle` ties the knot) -/
abbrev Deliver := Sys → Nat → List Bytes → Sys × Resp

def backendCall (sys : Sys) (p : Nat) (cmd : List Bytes) : Sys × Resp :=
  let r := redisExec (sys.stores p) cmd
  ({ stores := fun q => if q = p then r.1 else sys.stores q, log := sys.log ++ [(p, cmd)] }, r.2)

def space : Bytes := [32]

def usizeMax : Nat := 18446744073709551615

/-- `MetaManager::send` without migration: local backend (reply through
`DecompressCommitHandler`), else the peer (`ActiveRedirection` ⇒ `send_cmd_ctx_to_remote_directly`:
always wrapped in `UMFORWARD <times>`, `usize::MAX` when there is no limit; reply through
`ReplyCommitHandler`), else MOVED -/
def sendCmd (e : Env) (deliver : Deliver) (sys : Sys) (p : Nat) (ctx : Ctx) : Sys × Resp :=
  let ty := dataTypeOf ctx.cmd
  match ctx.cmd[keyIndex ty]? with
  | none => (sys, .error (B "missing key"))
  | some key =>
    let slot := e.slot key
    match e.owner slot with
    | none => (sys, .error (B "slot not covered " ++ natDec slot))
    | some q =>
      if q = p then
        let r := backendCall sys p ctx.cmd
        (r.1, commitReply e.codec e.strategy ty r.2)
      else if e.activeRedirection then
        match (ctx.redirTimes.orElse (fun _ => e.maxRedirections.map (· - 1))).orElse
            (fun _ => some usizeMax) with
        | some t =>
          if t = 0 then (sys, .error ERR_TOO_MANY_REDIRECTIONS)
          else deliver sys q (UMFORWARD :: natDec (t - 1) :: ctx.cmd)
        | none => deliver sys q ctx.cmd
      else (sys, .error (ERR_MOVED ++ space ++ natDec slot ++ space ++ e.addr q))

/-- `handle_single_key_data_cmd`: a command that arrived through UMFORWARD (`redirection_times` set)
was already checked and compressed by the proxy that received it from the client -/
def handleSingle (e : Env) (deliver : Deliver) (sys : Sys) (p : Nat) (ctx : Ctx) : Sys × Resp :=
  if ctx.redirTimes.isSome then sendCmd e deliver sys p ctx
  else match compressCmd e.codec e.strategy ctx.cmd with
  | .ok cmd' => sendCmd e deliver sys p { ctx with cmd := cmd' }
  | .error .unsupportedCmdType => sendCmd e deliver sys p ctx
  | .error .disabled => sendCmd e deliver sys p ctx
  | .error .invalidRequest => (sys, .error ERR_INVALID_COMMAND)
  | .error .invalidResp => (sys, .error ERR_INVALID_COMMAND)
  | .error .restrictedCmd => (sys, .error ERR_RESTRICTED)
  | .error .io => (sys, .error (B "failed to compress data"))

/-- sub-commands created with `CmdCtxFactory::create_with_ctx` (fresh `CmdCtx`; `rt` is the
redirection mark that `handle_msetnx` copies from its parent, `none` elsewhere), issued in order -/
def runSubs (e : Env) (deliver : Deliver) (p : Nat) (rt : Option Nat) :
    Sys → List (List Bytes) → Sys × List Resp
  | sys, [] => (sys, [])
  | sys, c :: cs =>
    let r := handleSingle e deliver sys p { cmd := c, redirTimes := rt }
    let rest := runSubs e deliver p rt r.1 cs
    (rest.1, r.2 :: rest.2)

def firstError : List Resp → Option Bytes
  | [] => none
  | .error b :: _ => some b
  | _ :: rs => firstError rs

/-- `same_slot` (an empty iterator is *not* in the same slot) -/
def sameSlot (slot : Bytes → Nat) : List Bytes → Bool
  | [] => false
  | k :: ks => ks.all fun k' => slot k' = slot k

/-- sub-command names as the executor writes them: `b"GET"`, `b"SET"`, `b"MSETNX"` -/
def GET : Bytes := [71, 69, 84]
def SET : Bytes := [83, 69, 84]
def MSETNX : Bytes := [77, 83, 69, 84, 78, 88]

/-- the reply assembled by `handle_mget` from the sub-replies -/
def mgetReply (rs : List Resp) : Resp :=
  if rs.isEmpty then .error ERR_MGET_ARGS
  else match firstError rs with
    | some err => .error err
    | none => .arr rs

/-- `handle_mget` -/
def handleMget (e : Env) (deliver : Deliver) (sys : Sys) (p : Nat) (ctx : Ctx) : Sys × Resp :=
  let keys := ctx.cmd.drop 1
  if !e.activeRedirection && !sameSlot e.slot keys then (sys, .error ERR_NOT_THE_SAME_SLOT)
  else
    let r := runSubs e deliver p none sys (keys.map fun k => [GET, k])
    (r.1, mgetReply r.2)

/-- keys inspected by the slot check of `handle_mset`/`handle_msetnx`:
`(0..arg_len/2).filter_map(|i| element(2*i+1))` -/
def pairKeysForSlotCheck (cmd : List Bytes) : List Bytes :=
  (List.range (cmd.length / 2)).filterMap fun i => cmd[2 * i + 1]?

/-- the loop of `handle_mset`: SET sub-commands are sent one by one; a key without a value stops
the loop with the arity error *after* the earlier pairs were sent -/
def msetLoop (e : Env) (deliver : Deliver) (p : Nat) : Sys → List Bytes → Sys × List Resp × Bool
  | sys, [] => (sys, [], false)
  | sys, [_] => (sys, [], true)
  | sys, k :: v :: rest =>
    let r := handleSingle e deliver sys p { cmd := [SET, k, v] }
    let t := msetLoop e deliver p r.1 rest
    (t.1, r.2 :: t.2.1, t.2.2)

/-- the reply assembled by `handle_mset` (`arity`: a key without a value was met) -/
def msetReply (rs : List Resp) (arity : Bool) : Resp :=
  if arity then .error ERR_MSET_ARGS
  else if rs.isEmpty then .error ERR_MSET_ARGS
  else match firstError rs with
    | some err => .error err
    | none => .simple OK_REPLY

/-- `handle_mset` -/
def handleMset (e : Env) (deliver : Deliver) (sys : Sys) (p : Nat) (ctx : Ctx) : Sys × Resp :=
  if !e.activeRedirection && !sameSlot e.slot (pairKeysForSlotCheck ctx.cmd) then
    (sys, .error ERR_NOT_THE_SAME_SLOT)
  else
    let t := msetLoop e deliver p sys (ctx.cmd.drop 1)
    (t.1, msetReply t.2.1 t.2.2)

/-- key/value pairs of `handle_msetnx`; `none` when a key has no value -/
def pairsOf : List Bytes → Option (List (Bytes × Bytes))
  | [] => some []
  | [_] => none
  | k :: v :: rest => (pairsOf rest).map ((k, v) :: ·)

def insertGroup (slot : Nat) (k v : Bytes) : List (Nat × List Bytes) → List (Nat × List Bytes)
  | [] => [(slot, [MSETNX, k, v])]
  | (s, c) :: gs => if s = slot then (s, c ++ [k, v]) :: gs else (s, c) :: insertGroup slot k v gs

/-- `slotted_kvs`: one `MSETNX k v …` command per slot. The code iterates a `HashMap`; the model
keeps the groups in order of first appearance. -/
def groupBySlot (slot : Bytes → Nat) : List (Bytes × Bytes) → List (Nat × List Bytes) → List (Nat × List Bytes)
  | [], acc => acc
  | (k, v) :: rest, acc => groupBySlot slot rest (insertGroup (slot k) k v acc)

def ERR_MSETNX_REPLY : Bytes := B "unexpected reply from MSETNX"

/-- the reply loop of `handle_msetnx` (`Err` = the reply set by an early return). The Debug
rendering appended to "unexpected reply from MSETNX" is not modelled. -/
def msetnxCount : List Resp → Nat → Except Resp Nat
  | [], acc => .ok acc
  | .error b :: _, _ => .error (.error b)
  | .integer d :: rs, acc =>
    match btou usizeMax d with
    | some n => msetnxCount rs (acc + n)
    | none => .error (.error ERR_MSETNX_REPLY)
  | _ :: _, _ => .error (.error ERR_MSETNX_REPLY)

/-- the reply assembled by `handle_msetnx` -/
def msetnxReply (rs : List Resp) : Resp :=
  if rs.isEmpty then .error ERR_MSETNX_ARGS
  else match msetnxCount rs 0 with
    | .error resp => resp
    | .ok n => .integer (natDec n)

/-- `handle_msetnx` (no migration: `ensure_keys_imported` is `Ok`); the regrouped sub-commands keep
the parent's redirection mark -/
def handleMsetnx (e : Env) (deliver : Deliver) (sys : Sys) (p : Nat) (ctx : Ctx) : Sys × Resp :=
  if !e.activeRedirection && !sameSlot e.slot (pairKeysForSlotCheck ctx.cmd) then
    (sys, .error ERR_NOT_THE_SAME_SLOT)
  else match pairsOf (ctx.cmd.drop 1) with
    | none => (sys, .error ERR_MSETNX_ARGS)
    | some pairs =>
      let groups := groupBySlot e.slot pairs []
      let r := runSubs e deliver p ctx.redirTimes sys (groups.map (·.2))
      (r.1, msetnxReply r.2)

/-- marker for the parts of the executor that this model leaves out (multi-key DEL/EXISTS,
blocking commands, EVAL, every non-data command) -/
def unmodelled : Resp := .error (B "<unmodelled>")

/-- `handle_data_cmd` -/
def handleDataCmd (e : Env) (deliver : Deliver) (sys : Sys) (p : Nat) (ctx : Ctx) : Sys × Resp :=
  match dispatchRule (dataTypeOf ctx.cmd) with
  | .mget => handleMget e deliver sys p ctx
  | .mset => handleMset e deliver sys p ctx
  | .msetnx => handleMsetnx e deliver sys p ctx
  | .multiInt => if ctx.cmd[2]?.isSome then (sys, unmodelled) else handleSingle e deliver sys p ctx
  | .blocking => (sys, unmodelled)
  | .eval => (sys, unmodelled)
  | .single => handleSingle e deliver sys p ctx

/-- `str::parse::<usize>`: optional `+`, then decimal digits, no overflow -/
def parseUsize (b : Bytes) : Option Nat :=
  match b with
  | 43 :: rest => btou usizeMax rest
  | _ => btou usizeMax b

/-- `handle_umforward`. A redirection-times argument that is not UTF-8 is approximated by "has a
byte ≥ 0x80". -/
def handleUmforward (e : Env) (deliver : Deliver) (sys : Sys) (p : Nat) (cmd : List Bytes) : Sys × Resp :=
  match cmd[1]? with
  | none => (sys, .error ERR_MISSING_SUB_COMMAND)
  | some t =>
    if t.any (fun b => b.toNat ≥ 128) then (sys, .error ERR_INVALID_SUB_COMMAND)
    else match parseUsize t with
      | none => (sys, .error ERR_UMFORWARD_TIMES)
      | some times =>
        let inner := cmd.drop 2
        if inner.length = 0 then (sys, .error ERR_UMFORWARD_MISSING)
        else handleDataCmd e deliver sys p { cmd := inner, redirTimes := some times }

/-- `ForwardHandler::handle_cmd_ctx` (no password configured) -/
def handleCmdCtx (e : Env) (deliver : Deliver) (sys : Sys) (p : Nat) (cmd : List Bytes) : Sys × Resp :=
  match cmdTypeOf cmd with
  | .Others => handleDataCmd e deliver sys p { cmd := cmd }
  | .UmForward => handleUmforward e deliver sys p cmd
  | .Invalid => (sys, .error (B "Invalid command"))
  | _ => (sys, unmodelled)

def hopLimit : Resp := .error (B "<hop limit>")

/-- a client command received by proxy `p`; `fuel` bounds the number of proxy-to-proxy hops (a
model artefact: with consistent metadata a command makes at most two) -/
def handle (e : Env) : Nat → Deliver
  | 0 => fun sys _ _ => (sys, hopLimit)
  | n + 1 => fun sys p cmd => handleCmdCtx e (handle e n) sys p cmd

/-! ## a concrete codec (used by the driver and by the non-vacuity examples)

Frames are `toyMagic ++ payload`; everything else (the empty input included, as with
`zstd::decode_all`) fails to decode. The harness maps real zstd frames to these frames and back. -/

def toyMagic : Bytes := [255, 90, 84, 1]

def toyDec (b : Bytes) : Option Bytes :=
  match b with
  | 255 :: 90 :: 84 :: 1 :: rest => some rest
  | _ => none

def toyCodec : Codec where
  enc v := toyMagic ++ v
  dec := toyDec
  dec_enc _ := rfl

end Um.Compress
