import UmModel.Proto
/-!
# `replication/replicator.rs`: `encode_repl_meta` / `parse_repl_meta` (UMCTL SETREPL)
-/
namespace Um.Proto
open Um Um.Gen.Proto

structure ReplPeer where
  node : Str
  proxy : Str
  deriving DecidableEq, Repr, Inhabited

/-- `MasterMeta` / `ReplicaMeta` (same shape) -/
structure ReplEntry where
  cluster : Str
  node : Str
  peers : List ReplPeer
  deriving DecidableEq, Repr, Inhabited

structure ReplMeta where
  epoch : Nat
  flags : Flags
  masters : List ReplEntry
  replicas : List ReplEntry
  deriving DecidableEq, Repr, Inhabited

def ReplEntry.encode (role : Str) (e : ReplEntry) : List Str :=
  role :: e.cluster :: e.node :: decimal e.peers.length :: e.peers.flatMap fun p => [p.node, p.proxy]

/-- `encode_repl_meta` -/
def ReplMeta.encode (m : ReplMeta) : List Str :=
  decimal m.epoch :: m.flags.toArg ::
    (m.masters.flatMap (ReplEntry.encode ROLE_MASTER_ENC) ++ m.replicas.flatMap (ReplEntry.encode ROLE_REPLICA_ENC))

/-- the `for _ in 0..peer_num` loop -/
def parsePeers : Nat → List Str → Option (List ReplPeer × List Str)
  | 0, ts => some ([], ts)
  | n + 1, a :: b :: ts =>
    match parsePeers n ts with
    | none => none
    | some (ps, rest) => some (⟨a, b⟩ :: ps, rest)
  | _ + 1, _ => none

/-- the `while it.peek().is_some()` loop of `parse_repl_meta`.  Error precedence as in the code:
a missing cluster name is `InvalidClusterName`, everything else missing or a non-numeric count is
`InvalidArgs`, and the role word is only looked at after the peers have been read. -/
def parseReplEntries : Nat → List ReplEntry → List ReplEntry → List Str →
    Except PErr (List ReplEntry × List ReplEntry)
  | 0, _, _, _ => .error .fuel
  | _ + 1, ms, rs, [] => .ok (ms, rs)
  | fuel + 1, ms, rs, role :: ts =>
    match ts with
    | [] => .error .invalidClusterName
    | name :: ts1 =>
      if !validClusterName name then .error .invalidClusterName
      else match ts1 with
      | [] => .error .invalidArgs
      | node :: ts2 =>
        match ts2 with
        | [] => .error .invalidArgs
        | cnt :: ts3 =>
          match parseUnsigned cnt with
          | none => .error .invalidArgs
          | some n =>
            match parsePeers n ts3 with
            | none => .error .invalidArgs
            | some (peers, rest) =>
              if upperA role == ROLE_MASTER_UPPER then
                parseReplEntries fuel (ms ++ [⟨name, node, peers⟩]) rs rest
              else if upperA role == ROLE_REPLICA_UPPER then
                parseReplEntries fuel ms (rs ++ [⟨name, node, peers⟩]) rest
              else .error .invalidRole

/-- `parse_repl_meta` on the string tokens that survive the element filter -/
def parseReplTokens (ts : List Str) : Except PErr ReplMeta :=
  match ts with
  | [] => .error .invalidEpoch
  | e :: ts1 =>
    match parseUnsigned e with
    | none => .error .invalidEpoch
    | some epoch =>
      match ts1 with
      | [] => .error .invalidArgs
      | fl :: ts2 =>
        match parseReplEntries (ts2.length + 1) [] [] ts2 with
        | .error er => .error er
        | .ok (ms, rs) => .ok ⟨epoch, Flags.fromArg fl, ms, rs⟩

/-- `parse_repl_meta` / `ReplicatorMeta::from_resp`; `none` = the command is not a RESP array -/
def parseReplMeta (cmd : Option (List Elem)) : Except PErr ReplMeta :=
  match cmd with
  | none => .error .invalidArgs
  | some arr =>
    match filterElems replFromRespStrict (arr.drop 2) with
    | none => .error .invalidArgs
    | some ts => parseReplTokens ts

end Um.Proto
