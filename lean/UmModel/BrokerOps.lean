import UmModel.BrokerView
/-!
# Broker operations as data: `Op`, `step`, `run`

Every mutating entry point of `MetaStore` as one constructor (nondeterministic choices and
`Utc::now()` are arguments), so that "every reachable state" is `run ops` for a list of `Op`s and
invariants are proved by induction over that list. The driver executes exactly `step`.

The mode of the broker (`MetaStore::new(enable_ordered_proxy)`) is fixed at construction. Rather
than a second initial state, the choice is the pseudo-operation `Op.setOrdered`, which has an
effect only on a store on which nothing has happened yet (`Store.isFresh`): `run (.setOrdered :: ops)`
is the history `ops` of a broker started with `enable_ordered_proxy = true`, `run ops` with no
leading `setOrdered` one started in normal mode, and a `setOrdered` anywhere else is a no-op. So
`Reachable`/`run` cover both modes with `Store.init` as the only initial state.
-/
namespace Um.Broker

inductive Op where
  | addProxy (addr n0 n1 : String) (host : Option String) (index : Option Nat)
  | removeProxy (addr : String)
  | addCluster (name : String) (nodeNum : Nat) (choice : List (String × String))
  | removeCluster (name : String)
  | addNodes (name : String) (num : Nat) (choice : List (String × String))
  | scaleUp (name : String) (expected : Nat) (choice : List (String × String))
  | changeNum (name : String) (expected : Nat) (choice : List (String × String))
  | scaleOutNum (name : String) (expected : Nat)
  | delFree (name : String)
  | migrate (name : String)
  | scaleDown (name : String) (newNodeNum : Nat)
  | commit (name : String) (epoch : Nat) (ranges : RangeList) (tagNone clear : Bool)
  | failover (addr choice : String)
  | balance (name : String)
  | config (name : String) (kvs : List (String × String))
  | bumpAll (epoch : Nat)
  | recover (epoch : Nat)
  | addFailure (addr reporter : String) (now : Int)
  | setOrdered
  deriving Repr

/-- result summary of a step (what the API caller sees besides the new state) -/
inductive Outcome where
  | ok (extra : String)
  | err (e : Err)
  | panic
  | badChoice (why : String)
  deriving Repr

def Outcome.ofR {α} (f : α → String) : R α → Outcome
  | .ok a => .ok (f a)
  | .err e => .err e
  | .panic _ => .panic
  | .badChoice w => .badChoice w

def stepFull (s : Store) : Op → Store × Outcome
  | .addProxy a n0 n1 h i => let p := addProxy s a n0 n1 h i; (p.1, .ofR (fun _ => "") p.2)
  | .removeProxy a => let p := removeProxy s a; (p.1, .ofR (fun _ => "") p.2)
  | .addCluster n k c => let p := addCluster s n k defaultConfig c; (p.1, .ofR (fun _ => "") p.2)
  | .removeCluster n => let p := removeCluster s n; (p.1, .ofR (fun _ => "") p.2)
  | .addNodes n k c => let p := autoAddNodes s n k c; (p.1, .ofR (fun _ => "") p.2)
  | .scaleUp n k c => let p := autoScaleUpNodes s n k c; (p.1, .ofR (fun _ => "") p.2)
  | .changeNum n k c => let p := autoChangeNodeNumber s n k c; (p.1, .ofR (fun op => s!" {op}") p.2)
  | .scaleOutNum n k => let p := autoScaleOutNodeNumber s n k; (p.1, .ofR (fun _ => "") p.2)
  | .delFree n => let p := autoDeleteFreeNodes s n; (p.1, .ofR (fun _ => "") p.2)
  | .migrate n => let p := migrateSlots s n; (p.1, .ofR (fun _ => "") p.2)
  | .scaleDown n k => let p := migrateSlotsToScaleDown s n k; (p.1, .ofR (fun _ => "") p.2)
  | .commit n e rl tagNone clear => let p := commitMigration s n rl e tagNone clear; (p.1, .ofR (fun _ => "") p.2)
  | .failover a c => let p := replaceFailedProxy s a c; (p.1, .ofR (fun o => " " ++ o.getD "none") p.2)
  | .balance n => let p := balanceMasters s n; (p.1, .ofR (fun _ => "") p.2)
  | .config n kv => let p := changeConfig s n kv; (p.1, .ofR (fun _ => "") p.2)
  | .bumpAll e => let p := forceBumpAllEpoch s e; (p.1, .ofR (fun _ => "") p.2)
  | .recover e => (recoverEpoch s e, .ok "")
  | .addFailure a r t => let p := addFailure s a r t; (p.1, .ok s!" {p.2}")
  | .setOrdered => (s.setOrdered, .ok "")

/-- the new state; a step whose nondeterministic choice is not one the code can make, or that
panics, leaves the state unchanged (the theorems about panics are stated on `stepFull`) -/
def step (s : Store) (op : Op) : Store :=
  match stepFull s op with
  | (s', .ok _) => s'
  | (s', .err _) => s'
  | (_, .panic) => s
  | (_, .badChoice _) => s

def run (ops : List Op) : Store := ops.foldl step Store.init

/-- histories of a broker started in ordered mode -/
def runOrdered (ops : List Op) : Store := run (.setOrdered :: ops)

end Um.Broker
