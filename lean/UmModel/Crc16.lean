import UmModel.Bytes
import UmGen.Consts
/-!
# Key → slot hashing (`src/common/utils.rs`: `get_hash_tag`, `generate_slot`,
`generate_lock_slot`, `same_slot`) and the two CRC-16 variants of the `crc16` crate it uses

* `generate_slot`      = `State::<XMODEM>::calculate(get_hash_tag(key)) as usize % SLOT_NUM`  (routing)
* `generate_lock_slot` = `State::<ARC>::calculate(key) as usize % SLOT_NUM`                   (migration locks,
  no hash tag)

The `crc16` crate computes both through a 256-entry table and an "augmented message" recurrence;
the model gives the textbook bit-serial definitions (CRC-16/XMODEM: poly 0x1021, init 0, MSB first, no
reflection, xorout 0 — CRC-16/ARC: poly 0x8005 reflected = 0xA001, init 0, LSB first, xorout 0).
Agreement with the crate is checked differentially on every run (`umh_route9`, op `crc`: ≥ 10^5 random
keys + one key per slot); no table form is modelled (the crate's recurrence is not the textbook table
recurrence, so proving the textbook one equal would not tie anything to the crate).

API for other models (C02, C14): `slotOf`, `lockSlotOf`, `getHashTag`, `sameSlot`, `crc16Xmodem`,
`crc16Arc`. Import-free apart from `UmModel.Bytes` / `UmGen.Consts`.
-/
namespace Um.Crc16
open Um

def SLOT_NUM : Nat := Um.Gen.SLOT_NUM

/-! ## CRC-16/XMODEM -/

/-- one message bit: shift left, xor the polynomial when the bit shifted out is 1 -/
def xmodemStep (crc : UInt16) : UInt16 :=
  if crc &&& 0x8000 != 0 then (crc <<< 1) ^^^ 0x1021 else crc <<< 1

def iter8 (f : UInt16 → UInt16) (c : UInt16) : UInt16 := f (f (f (f (f (f (f (f c)))))))

/-- one message byte, bit-serial -/
def xmodemByte (crc : UInt16) (b : UInt8) : UInt16 :=
  iter8 xmodemStep (crc ^^^ (b.toUInt16 <<< 8))

/-- CRC-16/XMODEM of a byte string (bit-serial definition) -/
def crc16Xmodem (msg : Bytes) : UInt16 := msg.foldl xmodemByte 0

/-! ## CRC-16/ARC -/

def arcStep (crc : UInt16) : UInt16 :=
  if crc &&& 1 != 0 then (crc >>> 1) ^^^ 0xA001 else crc >>> 1

def arcByte (crc : UInt16) (b : UInt8) : UInt16 :=
  iter8 arcStep (crc ^^^ b.toUInt16)

/-- CRC-16/ARC of a byte string (bit-serial definition) -/
def crc16Arc (msg : Bytes) : UInt16 := msg.foldl arcByte 0

/-! ## `get_hash_tag` -/

/-- `iter().position(|x| *x == c)` -/
def position (c : UInt8) : Bytes → Option Nat
  | [] => none
  | b :: bs => if b = c then some 0 else (position c bs).map (· + 1)

def LBRACE : UInt8 := 123
def RBRACE : UInt8 := 125

/-- `get_hash_tag`: the bytes strictly between the first `{` and the first `}` after it, unless
there is no such pair or the span is empty — then the whole key. (`key.get(begin+1..)` cannot
fail because `begin < key.len()`, and the final `expect` cannot fail either.) -/
def getHashTag (key : Bytes) : Bytes :=
  match position LBRACE key with
  | some begin =>
    match position RBRACE (key.drop (begin + 1)) with
    | some endOffset =>
      if endOffset = 0 then key else (key.drop (begin + 1)).take endOffset
    | none => key
  | none => key

/-! ## slots -/

/-- `generate_slot`: the Redis-Cluster routing slot of a key -/
def slotOf (key : Bytes) : Nat := (crc16Xmodem (getHashTag key)).toNat % SLOT_NUM

/-- `generate_lock_slot`: the slot used for the migration key locks (CRC-16/ARC of the whole key) -/
def lockSlotOf (key : Bytes) : Nat := (crc16Arc key).toNat % SLOT_NUM

/-- `same_slot`: `false` on an empty iterator; otherwise every later key hashes to the slot of
the first one -/
def sameSlot : List Bytes → Bool
  | [] => false
  | k :: ks => ks.all fun k' => slotOf k' == slotOf k

end Um.Crc16
