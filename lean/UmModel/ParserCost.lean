import UmModel.Bytes
import UmModel.Crc16
import UmModel.Proto
import UmGen.CmdTables
import UmGen.HostileCfg
/-!
# C16 — the RESP parser with a cost semantics, and the executor's argument handling

Part 1 transliterates `src/protocol/stateless.rs` (`parse_resp`, `parse_array`, `parse_bulk_str`,
`parse_len`, `parse_line`) and `IndexedResp::decode` once more (the plain model of C15 lives in
`UmModel/Resp.lean`), this time *instrumented*: every function returns, next to its result, a
`Cost`:

* `alloc`  — the *elements* requested through `Vec::with_capacity(n)`, summed; every element is a
  `RespIndex`, so the bytes requested are `alloc · size_of::<RespIndex>()` (`Cost.allocBytes`);
  `array.push` never reallocates because the capacity is never below the number of pushes;
* `steps`  — bytes examined by `memchr` and by `btoi`, one per `parse_resp` activation, one per
  iteration of the `for _ in 0..array_size` loop, and one per node visited by each
  `AdvanceIndex::advance` (`map_in_place` walks the whole sub-tree every time);
* `height` — nested `parse_resp` activations (the recursion depth: stack frames);
* `over`   — some array header declared more elements than there were bytes left in the buffer.

Part 2 models the argument handling of the executor as total functions whose results make a
`panic`, a never-answered request (`wedge`) and the number of loop iterations explicit.

The switches of `Cfg` select the code variant: the *current* tree or the tree with the proposed
patches `/verif/.build/patches/{f4,f5,f7,f16a,f16b,f16c}.diff`; `Cfg.cur` is what the extractor
found in the source on this run.
-/
namespace Um.PC
open Um

/-! ## configuration -/

structure Cfg where
  /-- F7 fix: terminators are checked (`Um.Gen.Hostile.strictTerm`) -/
  strict : Bool
  /-- F4 fix: `Vec::with_capacity(min(array_size, remaining))` -/
  capRemaining : Bool
  /-- F16b fix: `Some MAX_NESTING` -/
  maxNesting : Option Nat
  /-- `size_of::<RespIndex>()` (32 on x86-64; measured by the harness and passed in) -/
  elemSize : Nat
  deriving Repr

/-- the parser variant found in /repo/src on this run -/
def Cfg.cur (elemSize : Nat) : Cfg :=
  ⟨Um.Gen.Hostile.strictTerm, Um.Gen.Hostile.capRemaining, Um.Gen.Hostile.maxNesting, elemSize⟩

def isizeMax : Nat := 9223372036854775807
def usizeMax : Nat := 18446744073709551615
def usizeMod : Nat := 18446744073709551616

def tError : UInt8 := Um.Gen.Hostile.tError
def tSimple : UInt8 := Um.Gen.Hostile.tSimple
def tInteger : UInt8 := Um.Gen.Hostile.tInteger
def tBulk : UInt8 := Um.Gen.Hostile.tBulk
def tArr : UInt8 := Um.Gen.Hostile.tArr
def LF : UInt8 := Um.Gen.Hostile.LF
def CR : UInt8 := 13

/-! ## `RespIndex` -/

/-- `Resp<DataIndex>` with `BulkStr` / `Array` flattened into the constructors -/
inductive Idx where
  | error (s e : Nat)
  | simple (s e : Nat)
  | bulk (s e : Nat)
  | bulkNil
  | integer (s e : Nat)
  | arr (l : List Idx)
  | arrNil

mutual
/-- `AdvanceIndex::advance` -/
def Idx.adv (k : Nat) : Idx → Idx
  | .error s e => .error (s + k) (e + k)
  | .simple s e => .simple (s + k) (e + k)
  | .bulk s e => .bulk (s + k) (e + k)
  | .bulkNil => .bulkNil
  | .integer s e => .integer (s + k) (e + k)
  | .arr l => .arr (Idx.advList k l)
  | .arrNil => .arrNil
def Idx.advList (k : Nat) : List Idx → List Idx
  | [] => []
  | x :: xs => Idx.adv k x :: Idx.advList k xs
end

mutual
/-- nodes visited by one `map_in_place` walk -/
def Idx.size : Idx → Nat
  | .arr l => 1 + Idx.sizeList l
  | _ => 1
def Idx.sizeList : List Idx → Nat
  | [] => 0
  | x :: xs => Idx.size x + Idx.sizeList xs
end

/-! ## costs -/

structure Cost where
  alloc : Nat
  steps : Nat
  height : Nat
  over : Bool
  deriving Repr, DecidableEq

/-- `allocRequested`: the bytes asked from the allocator -/
def Cost.allocBytes (c : Cfg) (k : Cost) : Nat := k.alloc * c.elemSize

inductive PErr where
  | invalid      -- `ParseError::InvalidProtocol`
  | notEnough    -- `ParseError::NotEnoughData`
  | unexpected   -- `ParseError::UnexpectedErr`
  | capacity     -- panic `capacity overflow` of `Vec::with_capacity`
  | fuel         -- model artefact: never returned by `parseC` (theorem `parseC_ne_fuel`)
  deriving DecidableEq, Repr

abbrev PR (α : Type) := Except PErr α

/-- `memchr(c, buf)` -/
def memchr (c : UInt8) : Bytes → Option Nat
  | [] => none
  | x :: xs => if x = c then some 0 else (memchr c xs).map (· + 1)

/-- `parse_line` and the bytes `memchr` examined; the second test exists only in the tree with
f7.diff applied -/
def parseLine (strict : Bool) (buf : Bytes) : PR (Nat × Nat) × Nat :=
  match memchr LF buf with
  | none => (.error .notEnough, buf.length)
  | some lf =>
    if lf = 0 then (.error .invalid, 1)
    else if strict && buf[lf - 1]? != some CR then (.error .invalid, lf + 1)
    else (.ok (lf - 1, lf + 1), lf + 1)     -- DataIndex(0, lf + 1 - 2), consumed

/-- `parse_len`: `btoi::<i64>` of the line (`buf.get(0..e)` cannot fail: `e < buf.len()`); `btoi`
examines at most the whole line -/
def parseLen (strict : Bool) (buf : Bytes) : PR (Int × Nat) × Nat :=
  match parseLine strict buf with
  | (.error e, st) => (.error e, st)
  | (.ok (e, consumed), st) =>
    match btoiI64 (buf.take e) with
    | none => (.error .invalid, st + e)
    | some len => (.ok (len, consumed), st + e)

/-- `parse_bulk_str`; the terminator test exists only in the tree with f7.diff applied -/
def parseBulkStr (strict : Bool) (buf : Bytes) : PR (Idx × Nat) × Nat :=
  match parseLen strict buf with
  | (.error e, st) => (.error e, st)
  | (.ok (len, consumed), st) =>
    if len < 0 then (.ok (.bulkNil, consumed), st)
    else
      let contentSize := len.toNat
      if buf.length < consumed + contentSize + 2 then (.error .notEnough, st)
      else
        let «end» := consumed + contentSize
        if strict && (buf.drop «end»).take 2 != [CR, LF] then (.error .invalid, st)
        else (.ok (.bulk consumed «end», «end» + 2), st)

/-- `parse_line(next_buf)` wrapped in `RespIndex::Simple` / `Integer` / `Error` -/
def parseLineAs (mk : Nat → Nat → Idx) (strict : Bool) (buf : Bytes) : PR (Idx × Nat) × Nat :=
  match parseLine strict buf with
  | (.error e, st) => (.error e, st)
  | (.ok (e, consumed), st) => (.ok (mk 0 e, consumed), st)

/-- the four arms of `parse_resp` that do not recurse; `none` for any other type byte -/
def parseLeaf (strict : Bool) (pfx : UInt8) (nextBuf : Bytes) : Option (PR (Idx × Nat) × Nat) :=
  if pfx = tBulk then some (parseBulkStr strict nextBuf)
  else if pfx = tSimple then some (parseLineAs .simple strict nextBuf)
  else if pfx = tInteger then some (parseLineAs .integer strict nextBuf)
  else if pfx = tError then some (parseLineAs .error strict nextBuf)
  else none

/-- `Vec::<RespIndex>::with_capacity(cap)`: what `parse_array` asks for, given the declared
length and the bytes left after the header -/
def arrayCap (c : Cfg) (arraySize remaining : Nat) : Nat :=
  if c.capRemaining then min arraySize remaining else arraySize

/-- is an array allowed to start at nesting level `d` (`d` = enclosing arrays)? -/
def nestingOk (c : Cfg) (d : Nat) : Bool :=
  match c.maxNesting with
  | none => true
  | some m => d < m

mutual
/-- `parse_resp` at nesting level `d`; the `*` arm is `parse_array` (header, `with_capacity`, the
loop `parseElems`).  The fuel is a termination device only: `parseC` supplies `buf.length + 1`. -/
def parseResp (c : Cfg) : Nat → Nat → Bytes → PR (Idx × Nat) × Cost
  | 0, _, _ => (.error .fuel, ⟨0, 0, 0, false⟩)
  | _ + 1, _, [] => (.error .notEnough, ⟨0, 1, 1, false⟩)
  | f + 1, d, pfx :: nextBuf =>
    match parseLeaf c.strict pfx nextBuf with
    | some (.error e, st) => (.error e, ⟨0, st + 1, 1, false⟩)
    | some (.ok (v, consumed), st) =>
      -- v.advance(1): one visit
      (.ok (v.adv 1, 1 + consumed), ⟨0, st + 2, 1, false⟩)
    | none =>
      if pfx = tArr then
        if !nestingOk c d then (.error .invalid, ⟨0, 1, 1, false⟩)
        else
        match parseLen c.strict nextBuf with
        | (.error e, st) => (.error e, ⟨0, st + 1, 1, false⟩)
        | (.ok (len, consumed), st) =>
          if len < 0 then (.ok (.arrNil, 1 + consumed), ⟨0, st + 2, 1, false⟩)
          else
            let arraySize := len.toNat
            let remaining := nextBuf.length - consumed
            let cap := arrayCap c arraySize remaining
            let over := decide (remaining < arraySize)
            if cap * c.elemSize > isizeMax then (.error .capacity, ⟨0, st + 1, 1, over⟩)
            else
              match parseElems c f (d + 1) (nextBuf.drop consumed) arraySize consumed with
              | (.error e, k) =>
                (.error e, ⟨cap + k.alloc, st + 1 + k.steps, 1 + k.height, over || k.over⟩)
              | (.ok (array, consumed'), k) =>
                -- v.advance(1) on the whole array
                (.ok (.arr (Idx.advList 1 array), 1 + consumed'),
                 ⟨cap + k.alloc, st + 1 + k.steps + (1 + Idx.sizeList array),
                  1 + k.height, over || k.over⟩)
      else (.error .invalid, ⟨0, 1, 1, false⟩)
/-- the `for _ in 0..array_size` loop of `parse_array`: `rest` is `buf[consumed..]` (never out of
range: `consumed ≤ buf.len()`), `k` the number of elements still to read -/
def parseElems (c : Cfg) : Nat → Nat → Bytes → Nat → Nat → PR (List Idx × Nat) × Cost
  | _, _, _, 0, consumed => (.ok ([], consumed), ⟨0, 0, 0, false⟩)
  | 0, _, _, _ + 1, _ => (.error .fuel, ⟨0, 0, 0, false⟩)
  | f + 1, d, rest, k + 1, consumed =>
    match parseResp c f d rest with
    | (.error e, k1) => (.error e, ⟨k1.alloc, k1.steps + 1, k1.height, k1.over⟩)
    | (.ok (v, elementConsumed), k1) =>
      match parseElems c f d (rest.drop elementConsumed) k (consumed + elementConsumed) with
      | (.error e, k2) =>
        (.error e, ⟨k1.alloc + k2.alloc, k1.steps + 1 + Idx.size v + k2.steps,
                    max k1.height k2.height, k1.over || k2.over⟩)
      | (.ok (vs, total), k2) =>
        -- v.advance(consumed); array.push(v)
        (.ok (v.adv consumed :: vs, total),
         ⟨k1.alloc + k2.alloc, k1.steps + 1 + Idx.size v + k2.steps,
          max k1.height k2.height, k1.over || k2.over⟩)
end

/-- `parse_resp(buf)` with its costs -/
def parseC (c : Cfg) (buf : Bytes) : PR (Idx × Nat) × Cost := parseResp c (buf.length + 1) 0 buf

/-! ## one `decode` call and a whole connection -/

/-- what `RespCodec::decode` (`IndexedResp::decode`) does with the buffered bytes -/
inductive Dec where
  | item (v : Idx) (consumed : Nat)  -- `Ok(Some(packet))`, `buf.split_to(consumed)`
  | none                             -- `Ok(None)`: wait for more bytes
  | invalid                          -- `Err(InvalidProtocol)`: the session ends, the socket is closed
  | panic                            -- the call panics (`capacity overflow`): the session task dies
  deriving Inhabited

def Dec.isPanic : Dec → Bool
  | .panic => true
  | _ => false

def decodeC (c : Cfg) (buf : Bytes) : Dec × Cost :=
  match parseC c buf with
  | (.ok (v, consumed), k) => (if consumed > buf.length then .panic else .item v consumed, k)
  | (.error .notEnough, k) => (.none, k)
  | (.error .invalid, k) => (.invalid, k)
  | (.error .unexpected, k) => (.invalid, k)
  | (.error .capacity, k) => (.panic, k)
  | (.error .fuel, k) => (.panic, k)

/-- how the byte stream of one connection ends, once everything sent has been buffered -/
inductive StreamEnd where
  | drained     -- every byte belongs to a decoded packet
  | pending     -- a proper prefix of a packet is left: the proxy waits for more bytes
  | closed      -- protocol error: the proxy closes the connection
  | panicked    -- the session task panicked (connection closed, process alive)
  deriving DecidableEq, Repr

structure StreamRes where
  packets : List (Idx × Bytes)   -- the decoded packets with their bytes, in order
  «end» : StreamEnd
  alloc : Nat                    -- summed over the decode calls
  maxAlloc : Nat                 -- the largest single decode call
  steps : Nat
  height : Nat

/-- decode packet after packet (all bytes already buffered); fuel = `buf.length + 1` -/
def streamC (c : Cfg) : Nat → Bytes → StreamRes
  | 0, _ => ⟨[], .drained, 0, 0, 0, 0⟩
  | f + 1, buf =>
    if buf.isEmpty then ⟨[], .drained, 0, 0, 0, 0⟩
    else
      match decodeC c buf with
      | (.none, k) => ⟨[], .pending, k.alloc, k.alloc, k.steps, k.height⟩
      | (.invalid, k) => ⟨[], .closed, k.alloc, k.alloc, k.steps, k.height⟩
      | (.panic, k) => ⟨[], .panicked, k.alloc, k.alloc, k.steps, k.height⟩
      | (.item v n, k) =>
        if n = 0 then ⟨[], .panicked, k.alloc, k.alloc, k.steps, k.height⟩   -- cannot happen (n ≥ 3)
        else
          let r := streamC c f (buf.drop n)
          ⟨(v, buf.take n) :: r.packets, r.end, k.alloc + r.alloc, max k.alloc r.maxAlloc,
           k.steps + r.steps, max k.height r.height⟩

def stream (c : Cfg) (buf : Bytes) : StreamRes := streamC c (buf.length + 1) buf

/-! ## commands -/

/-- a command as the executor sees it through `get_command_element`: `none` = an element that
is not a non-nil bulk string -/
abbrev Cmd := List (Option Bytes)

def sliceOf (data : Bytes) (s e : Nat) : Bytes := (data.drop s).take (e - s)

/-- the request packet as a command; `none` = not an array (`get_array_len() = None`) -/
def cmdOf (data : Bytes) : Idx → Option Cmd
  | .arr l => some (l.map fun
      | .bulk s e => some (sliceOf data s e)
      | _ => none)
  | _ => none

def elem (cmd : Cmd) (i : Nat) : Option Bytes := (cmd[i]?).join

def byteToUpper (b : UInt8) : UInt8 := if 97 ≤ b.toNat ∧ b.toNat ≤ 122 then b - 32 else b

/-- `ArrayVec::<[u8; 64]>` filled with `try_push`: `none` = name longer than
`MAX_COMMAND_NAME_LENGTH` (the function returns `Others`); the second component counts the
pushes attempted -/
def upperName (name : Bytes) : Option Bytes × Nat :=
  if name.length > Um.Gen.MAX_COMMAND_NAME_LENGTH then (none, Um.Gen.MAX_COMMAND_NAME_LENGTH + 1)
  else (some (name.map byteToUpper), name.length)

def lookup (t : List (List UInt8 × String)) (dflt : String) (n : Bytes) : String :=
  match t.find? (fun p => p.1 = n) with
  | some p => p.2
  | none => dflt

/-- `CmdType::from_packet` -/
def cmdTypeOf (cmd : Option Cmd) : String :=
  match cmd.bind (fun c => elem c 0) with
  | none => Um.Gen.cmdTypeNoName
  | some name =>
    match (upperName name).1 with
    | none => Um.Gen.cmdTypeDefault
    | some u => lookup Um.Gen.cmdTypeTable Um.Gen.cmdTypeDefault u

/-- `DataCmdType::from_packet` -/
def dataCmdTypeOf (cmd : Option Cmd) : String :=
  match cmd.bind (fun c => elem c 0) with
  | none => Um.Gen.dataCmdTypeNoName
  | some name =>
    match (upperName name).1 with
    | none => Um.Gen.dataCmdTypeDefault
    | some u => lookup Um.Gen.dataCmdTypeTable Um.Gen.dataCmdTypeDefault u

/-- bytes of the bulk-string arguments of a command (at most the bytes of the request) -/
def argBytes : Cmd → Nat
  | [] => 0
  | some a :: rest => a.length + argBytes rest
  | none :: rest => argBytes rest

/-- the `numkeys` argument of EVAL / EVALSHA as `btoi::<usize>` reads it -/
def numkeysOf (cmd : Cmd) : Option Nat := (elem cmd 2).bind (btoiU usizeMax)

/-! ## handlers: outcomes -/

/-- the executor variant -/
structure HCfg where
  activeRedirection : Bool    -- `active_redirection` of the proxy configuration
  numkeysBounded : Bool       -- F5 fix
  overflowChecks : Bool       -- `overflow-checks` of the build profile
  blockingEmptyGuard : Bool   -- F16a fix
  slowlogBoundarySafe : Bool  -- F16c fix
  slowlogLen : Nat            -- `slowlog_len` (NonZeroUsize)
  deriving Repr

def HCfg.cur (activeRedirection : Bool) : HCfg :=
  ⟨activeRedirection, Um.Gen.Hostile.numkeysBounded, Um.Gen.Hostile.overflowChecks, Um.Gen.Hostile.blockingEmptyGuard,
   Um.Gen.Hostile.slowlogBoundarySafe, Um.Gen.Hostile.DEFAULT_SLOWLOG_LEN⟩

inductive HOut where
  /-- an immediate reply produced by the proxy itself (the tag names the branch) -/
  | reply (tag : String)
  /-- `n ≥ 1` sub-commands / the command itself handed to the routing layer, which answers each
  of them exactly once (C08): the request is answered when they are -/
  | dispatch (n : Nat)
  /-- blocking command: `n` sub-commands polled once per second, for `timeout` seconds
  (`timeout = 0`: until data arrives — the client asked for it) -/
  | poll (n : Nat) (timeout : Nat)
  /-- the request is never answered and the connection stays open -/
  | wedge
  /-- the handler panics (the session task dies) -/
  | panic (why : String)
  deriving DecidableEq, Repr

structure HRes where
  out : HOut
  /-- loop iterations of the handler's own argument handling -/
  steps : Nat
  deriving DecidableEq, Repr

/-! ### EVAL / EVALSHA -/

/-- `handle_eval_cmd` + the key collection of `handle_multi_key_eval_cmd`:
`(3..3 + key_num).filter_map(get_command_element)` -/
def handleEval (h : HCfg) (cmd : Cmd) : HRes :=
  match elem cmd 2 with
  | none => ⟨.reply "missing-numkeys", 0⟩
  | some s =>
    match btoiU usizeMax s with
    | none => ⟨.reply "invalid-numkeys", s.length⟩
    | some keyNum =>
      if h.numkeysBounded && keyNum > cmd.length then ⟨.reply "numkeys-too-large", s.length⟩
      else if keyNum = 1 then ⟨.dispatch 1, s.length⟩
      else
        -- 3 + key_num in usize
        if 3 + keyNum > usizeMax then
          if h.overflowChecks then ⟨.panic "attempt to add with overflow", s.length⟩
          else
            -- wraps: the range 3..(3 + key_num - 2^64) is empty (its end is ≤ 2)
            ⟨.reply "not-same-slot", s.length⟩
        else
          -- the range is walked to its end whatever the command length is
          let iters := keyNum
          let keys := ((List.range (cmd.length)).filter (fun i => 3 ≤ i ∧ i < 3 + keyNum)).filterMap (elem cmd)
          -- `same_slot` of no key is false
          if !Um.Crc16.sameSlot keys then ⟨.reply "not-same-slot", s.length + iters⟩
          else ⟨.dispatch 1, s.length + iters⟩

/-! ### blocking commands -/

/-- `get_command_arg_len` over the generated table: `len == bound` / `len > bound` -/
def blockingArgLenOk (ty : String) (len : Nat) : Bool :=
  match Um.Gen.blockingArgLenTable.find? (fun p => p.1 = ty) with
  | some (_, exact, bound) => if exact then len == bound else len > bound
  | none => false

/-- keys taken by `transfer_cmd_from_blocking_to_non_blocking` for BLPOP/BRPOP/BZPOP*:
elements `1 .. arg_len - 1` up to the first one that is not a bulk string (`break`) -/
def blockingKeys : List (Option Bytes) → List Bytes
  | some k :: rest => k :: blockingKeys rest
  | _ => []

/-- `handle_blocking_commands` up to the polling loop (`ty` = the `DataCmdType`) -/
def handleBlocking (h : HCfg) (ty : String) (cmd : Cmd) : HRes :=
  if (Um.Gen.nonBlockingNameTable.find? (fun p => p.1 = ty)).isNone then ⟨.reply "unexpected-name", 0⟩
  else if !blockingArgLenOk ty cmd.length then ⟨.reply "invalid-arg-number", 0⟩
  else
    match elem cmd (cmd.length - 1) with       -- get_command_last_element
    | none => ⟨.reply "wrong-number-of-arguments", 0⟩
    | some last =>
      match btou u64Max last with
      | none => ⟨.reply "invalid-timeout", last.length⟩
      | some timeout =>
        let args := (cmd.drop 1).take (cmd.length - 2)
        -- `same_slot((1..arg_len - 1).filter_map(get_command_element))`, skipped under active redirection
        if !h.activeRedirection && !Um.Crc16.sameSlot (args.filterMap id) then
          ⟨.reply "not-same-slot", last.length + args.length⟩
        else if ty = "Brpoplpush" then ⟨.poll 1 timeout, last.length + args.length + 1⟩
        else
          let keys := blockingKeys args
          if keys.isEmpty then
            if h.blockingEmptyGuard then ⟨.reply "invalid-key", last.length + args.length + 1⟩
            else ⟨.wedge, last.length + args.length + 1⟩   -- `loop { for .. in [] {} retry_num += 1; sleep(1s) }`
          else ⟨.poll keys.length timeout, last.length + args.length + keys.length + 1⟩

/-! ### UMFORWARD -/

def utf8Cont (b : UInt8) : Bool := 128 ≤ b.toNat && b.toNat ≤ 191

/-- `str::from_utf8(..).is_ok()` as the decoder's state machine: `need` continuation bytes are
still expected, the next one within `lo ..= hi` (the second byte of `E0`, `ED`, `F0`, `F4` is
restricted: no overlong forms, no surrogates, nothing above U+10FFFF) -/
def utf8Go : Nat → Nat → Nat → Bytes → Bool
  | 0, _, _, [] => true
  | _ + 1, _, _, [] => false
  | 0, _, _, b :: rest =>
    let n := b.toNat
    if n < 128 then utf8Go 0 128 191 rest
    else if 194 ≤ n ∧ n ≤ 223 then utf8Go 1 128 191 rest
    else if n = 224 then utf8Go 2 160 191 rest
    else if n = 237 then utf8Go 2 128 159 rest
    else if 225 ≤ n ∧ n ≤ 239 then utf8Go 2 128 191 rest
    else if n = 240 then utf8Go 3 144 191 rest
    else if n = 244 then utf8Go 3 128 143 rest
    else if 241 ≤ n ∧ n ≤ 243 then utf8Go 3 128 191 rest
    else false
  | k + 1, lo, hi, b :: rest =>
    if lo ≤ b.toNat ∧ b.toNat ≤ hi then utf8Go k 128 191 rest else false

def utf8Valid (s : Bytes) : Bool := utf8Go 0 128 191 s

/-- `str::parse::<usize>()`: an optional `+`, then at least one ASCII digit, no overflow.  (The
code parses `to_uppercase()` of the argument; upper-casing maps no character to `+` or a digit
and leaves those unchanged, so it does not matter.) -/
def parseUsizeStd (s : Bytes) : Option Nat :=
  match s with
  | [] => none
  | 43 :: rest => btou usizeMax rest
  | _ => btou usizeMax s

/-- `handle_umforward`: returns the redirection count and the inner command -/
def handleUmforward (cmd : Cmd) : HRes ⊕ (Nat × Cmd) :=
  match elem cmd 1 with
  | none => .inl ⟨.reply "missing-sub-command", 0⟩
  | some s =>
    if !utf8Valid s then .inl ⟨.reply "invalid-sub-command", s.length⟩
    else
      match parseUsizeStd s with
      | none => .inl ⟨.reply "invalid-redirection-times", s.length⟩
      | some times =>
        -- extract_inner_cmd(2): left_trim_array → drain(min(2, len)..)
        let inner := cmd.drop 2
        if inner.isEmpty then .inl ⟨.reply "missing-forwarded-command", s.length⟩
        else .inr (times, inner)

/-- `send_cmd_ctx_to_remote_directly`: the count written into the next hop's `UMFORWARD`
(`none` = `ERR_TOO_MANY_REDIRECTIONS`) -/
def nextRedirection (times : Nat) : Option Nat := if times = 0 then none else some (times - 1)

/-! ### UMCTL SLOWLOG GET n -/

/-- `atoi::<usize>`: the longest prefix of ASCII digits; `none` if it is empty or overflows -/
def atoiAux : Bytes → Nat → Bool → Option Nat
  | [], acc, any => if any then some acc else none
  | d :: ds, acc, any =>
    match digitVal d with
    | none => if any then some acc else none
    | some x => if acc * 10 + x > usizeMax then none else atoiAux ds (acc * 10 + x) true

def atoiUsize (s : Bytes) : Option Nat := atoiAux s 0 false

/-- `SlowRequestLogger::get(limit)`: number of records returned when `stored` slots are filled;
the iterator walks at most all `slowlog_len` slots -/
def handleSlowlogGet (h : HCfg) (stored : Nat) (arg : Option Bytes) : Nat × HRes :=
  let limit := arg.bind atoiUsize
  let num := limit.getD h.slowlogLen
  (min num (min stored h.slowlogLen), ⟨.reply "slowlogs", h.slowlogLen⟩)

/-! ### slow-log record of a request (`SlowlogRecord::get_brief_command`) -/

/-- `s.is_char_boundary(i)` for a valid UTF-8 string -/
def isCharBoundary (s : Bytes) (i : Nat) : Bool :=
  if i = 0 then true
  else match s[i]? with
    | none => i == s.length
    | some b => !utf8Cont b

/-- `limit_len(data_to_string(arg))`: a valid UTF-8 argument longer than `MAX_ELEMENT_LENGTH`
bytes is cut with `String::truncate(100)`, which panics when byte 100 is not a char boundary;
other arguments are rendered with `{:?}` (ASCII) first -/
def briefElementPanics (h : HCfg) (arg : Bytes) : Bool :=
  utf8Valid arg && decide (arg.length > Um.Gen.Hostile.MAX_ELEMENT_LENGTH) &&
    !h.slowlogBoundarySafe && !isCharBoundary arg Um.Gen.Hostile.MAX_ELEMENT_LENGTH

/-- recording a request in the slow log (`add_slow_log` when the request was slow enough and
sampled): only the first `LOG_ELEMENT_NUMBER` elements that are bulk strings are rendered -/
def handleSlowlogAdd (h : HCfg) (cmd : Cmd) : HRes :=
  let shown := (cmd.take Um.Gen.Hostile.LOG_ELEMENT_NUMBER).filterMap id
  if shown.any (briefElementPanics h) then ⟨.panic "String::truncate: not a char boundary", shown.length⟩
  else ⟨.reply "recorded", shown.length⟩

/-! ### MSET / MSETNX / MGET / DEL / EXISTS -/

/-- the dispatch loop of `handle_mset`: `for i in 0.. { key = element(2i+1)?; value = element(2i+2)? }`:
number of `SET`s handed out before the loop ends, and whether it ended on a missing value -/
def msetLoop : List (Option Bytes) → Nat × Bool
  | some _ :: some _ :: rest => let (n, bad) := msetLoop rest; (n + 1, bad)
  | some _ :: _ => (0, true)       -- key without (bulk) value: error reply
  | _ => (0, false)                -- no (bulk) key: `break`

/-- the keys looked at by the slot guard of MSET/MSETNX: elements `2i + 1` for `i < arg_len / 2` -/
def msetGuardKeys (cmd : Cmd) : List Bytes :=
  (List.range (cmd.length / 2)).filterMap fun i => elem cmd (2 * i + 1)

def handleMset (h : HCfg) (cmd : Cmd) : HRes :=
  let (n, bad) := msetLoop (cmd.drop 1)
  -- `2 * i + 2 ≤ cmd.length + 1`: no overflow
  if !h.activeRedirection && !Um.Crc16.sameSlot (msetGuardKeys cmd) then
    ⟨.reply "not-same-slot", cmd.length / 2⟩
  else if bad then ⟨.reply "wrong-number-of-arguments", n + 1⟩
  else if n = 0 then ⟨.reply "wrong-number-of-arguments", 1⟩
  else ⟨.dispatch n, n + 1⟩

/-- `handle_mget` / `handle_multi_int_cmd`: `for i in 1.. { key = element(i)? }` -/
def handleMultiKey (h : HCfg) (cmd : Cmd) : HRes :=
  let keys := blockingKeys (cmd.drop 1)
  if !h.activeRedirection && !Um.Crc16.sameSlot ((cmd.drop 1).filterMap id) then
    ⟨.reply "not-same-slot", cmd.length⟩
  else if keys.isEmpty then ⟨.reply "wrong-number-of-arguments", 1⟩ else ⟨.dispatch keys.length, keys.length + 1⟩

/-! ### `ClusterName::try_from` -/

def clusterNameChar (b : UInt8) : Bool :=
  let n := b.toNat
  (48 ≤ n && n ≤ 57) || (65 ≤ n && n ≤ 90) || (97 ≤ n && n ≤ 122) || n == 64 || n == 45 || n == 95

/-- `ClusterName::try_from(&str)` for a valid UTF-8 argument: ASCII alphanumerics, `@`, `-`, `_`
only, and at most `CLUSTER_NAME_MAX_LENGTH` bytes (`ArrayString::from` fails, it does not panic) -/
def clusterNameOk (s : Bytes) : Bool :=
  s.all clusterNameChar && decide (s.length ≤ Um.Gen.Hostile.CLUSTER_NAME_MAX_LENGTH)

/-! ### tagged slot ranges of `UMCTL SETCLUSTER`: `RangeMap::from` (`src/common/cluster.rs`)

A MIGRATING / IMPORTING slot range of a local node becomes a migration task inside
`MetaManager::set_meta` (under the metadata lock), whose constructor builds a `RangeMap` from the
range list.  The textual form of the command compacts the list (`RangeList::parse`); the
compressed (serde) form hands it over as it came unless `compressedCompact`. -/

def SLOT_NUM : Nat := Um.Gen.SLOT_NUM

structure RangeMapRes where
  out : HOut
  /-- iterations of the fill loop `for slot_num in range.start()..=range.end()` -/
  steps : Nat
  /-- `vec![false; map_len]` -/
  mapLen : Nat
  /-- number of slots for which `contains_slot` answers true -/
  contains : Nat
  deriving DecidableEq, Repr

/-- `impl From<&RangeList> for RangeMap`; `bounded` = f16e.diff applied, `oc` = overflow checks -/
def rangeMapFrom (bounded oc : Bool) (rs : List Um.Proto.Range) : RangeMapRes :=
  let minSlot := rs.head?.bind fun r => if r.s ≥ SLOT_NUM then none else some r.s
  let maxSlot := rs.getLast?.bind fun r => if r.e ≥ SLOT_NUM then none else some r.e
  let walk (r : Um.Proto.Range) : Nat :=
    let hi := if bounded then min r.e (SLOT_NUM - 1) else r.e
    if r.s ≤ hi then hi - r.s + 1 else 0
  let steps := (rs.map walk).sum
  let mk (mn len : Nat) : RangeMapRes :=
    ⟨.reply "range-map", steps, len,
     (List.range len).countP fun i => rs.any fun r => decide (r.s ≤ mn + i ∧ mn + i ≤ r.e)⟩
  match minSlot, maxSlot with
  | some mn, some mx =>
    if mn ≤ mx then mk mn (mx - mn + 1)
    else if bounded then mk 0 0
    else if oc then ⟨.panic "attempt to subtract with overflow", 0, 0, 0⟩
    else
      -- `max_slot - min_slot + 1` wraps to more than `isize::MAX`: `vec![false; n]` panics
      ⟨.panic "capacity overflow", 0, mx + usizeMod - mn + 1, 0⟩
  | _, _ => mk 0 0

/-- iterations of the fill loop of `SlotMapData::new` (`src/proxy/slot.rs`) over the untagged ranges of the local
nodes / the ranges of the peers: `start > end` is skipped, the loop leaves at `s >= SLOT_NUM` (`bounded`) -/
def slotMapSteps (bounded : Bool) (rs : List Um.Proto.Range) : Nat :=
  (rs.map fun r =>
    if r.s > r.e then 0
    else if bounded then (if r.s ≥ SLOT_NUM then 1 else min r.e SLOT_NUM - r.s + 1)
    else r.e - r.s + 1).sum

/-- the range list as `RangeMap::from` receives it: `textual` = the command was not compressed -/
def rangesSeen (compressedCompact textual : Bool) (rs : List Um.Proto.Range) : List Um.Proto.Range :=
  if textual || compressedCompact then Um.Proto.compact rs else rs

/-! ### cluster names in node ids (`gen_node_id`, `src/proxy/cluster.rs`) -/

/-- `ClusterName::try_from` as found in the source: ASCII alphanumerics and `@-_` only, or — when the
source uses `char::is_alphanumeric` — additionally any multi-byte character (an over-approximation
of the Unicode alphanumerics, good enough to show what can go wrong) -/
def clusterNameOkV (ascii : Bool) (s : Bytes) : Bool :=
  if ascii then clusterNameOk s
  else utf8Valid s && s.all (fun b => clusterNameChar b || decide (b.toNat ≥ 128)) &&
       decide (s.length ≤ Um.Gen.Hostile.CLUSTER_NAME_MAX_LENGTH)

/-- `chars().count()` of a valid UTF-8 string -/
def charCount (s : Bytes) : Nat := s.countP fun b => !utf8Cont b

/-- `format!("{:_<24}", cluster_name)`: padded with `_` to 24 *characters* -/
def nodeIdNameSeg (name : Bytes) : Bytes :=
  name ++ List.replicate (Um.Gen.Hostile.NODE_ID_NAME_LEN - charCount name) 95

/-- `name_seg.truncate(24)` cuts at 24 *bytes* and panics off a char boundary: `CLUSTER NODES` /
`CLUSTER SLOTS` of every client would panic while such a name is installed -/
def nodeIdPanics (name : Bytes) : Bool :=
  !isCharBoundary (nodeIdNameSeg name) Um.Gen.Hostile.NODE_ID_NAME_LEN

/-! ### the routing key of every request: `get_hash_tag` (`src/common/utils.rs`)

`Command::new` (in the session's poll loop, before any handler) computes `generate_slot(key)` for
element 1 of *every* request (element 3 of EVAL / EVALSHA).  `get_hash_tag` ends in
`key.get(a..b).expect("get_hash_tag")`: here the slice is explicit, `none` = the `expect` fires and
the session task panics. -/

def LBRACE : UInt8 := 123
def RBRACE : UInt8 := 125

/-- `key.get(a..b)` -/
def sliceOpt (key : Bytes) (a b : Nat) : Option Bytes :=
  if a ≤ b ∧ b ≤ key.length then some ((key.drop a).take (b - a)) else none

/-- `get_hash_tag`; `afterBegin` = the closing brace is searched after the opening one (the code of the
tree), otherwise anywhere in the key (the `memchr` shape) -/
def hashTagChecked (afterBegin : Bool) (key : Bytes) : Option Bytes :=
  match Um.Crc16.position LBRACE key with
  | none => some key
  | some begin =>
    if afterBegin then
      match Um.Crc16.position RBRACE (key.drop (begin + 1)) with
      | none => some key
      | some endOffset => if endOffset = 0 then some key else sliceOpt key (begin + 1) (begin + 1 + endOffset)
    else
      match Um.Crc16.position RBRACE key with
      | none => some key
      | some e => if e = begin + 1 then some key else sliceOpt key (begin + 1) e

/-- the key `CommandInfo::new` hashes: element 3 for EVAL / EVALSHA, element 1 otherwise -/
def routingKey (cmd : Cmd) : Option Bytes :=
  let ty := dataCmdTypeOf (some cmd)
  elem cmd (match Um.Gen.keyIndexTable.find? (fun p => p.1 = ty) with
    | some p => p.2
    | none => Um.Gen.keyIndexDefault)

/-- does building the `Command` of this request panic? -/
def commandNewPanics (afterBegin : Bool) (cmd : Option Cmd) : Bool :=
  match cmd.bind routingKey with
  | none => false
  | some k => (hashTagChecked afterBegin k).isNone

/-! ### `CONFIG SET` and the slow-log rate limiter (`src/proxy/service.rs`, `src/proxy/slowlog.rs`) -/

/-- `str::parse::<i64>()` -/
def parseI64Std (s : Bytes) : Option Int :=
  match s with
  | [] => none
  | 43 :: rest => (btou i64Max rest).map Int.ofNat
  | 45 :: rest => (btou i64NegMax rest).map fun n => - (Int.ofNat n)
  | _ => (btou i64Max s).map Int.ofNat

def asciiLower (b : UInt8) : UInt8 := if 65 ≤ b.toNat ∧ b.toNat ≤ 90 then b + 32 else b

/-- the runtime configuration a client can write -/
structure ConfStore where
  sampleRate : Nat := 1000
  slowerThan : Int := 50000
  deriving Repr, DecidableEq

/-- `ServerProxyConfig::set_value` over the generated arm table (`field.to_lowercase()`; the
fields are ASCII): the new store and whether the answer is `+OK` -/
def configSet (st : ConfStore) (field value : Bytes) : ConfStore × Bool :=
  let f := String.ofList ((field.map asciiLower).map fun b => Char.ofNat b.toNat)
  match Um.Gen.Hostile.configSetFields.find? (fun p => p.1 = f) with
  | some (_, "u64") =>
    match parseUsizeStd value with
    | some n => (if f = "slowlog_sample_rate" then { st with sampleRate := n } else st, true)
    | none => (st, false)
  | some (_, "i64") =>
    match parseI64Std value with
    | some n => (if f = "slowlog_log_slower_than" then { st with slowerThan := n } else st, true)
    | none => (st, false)
  | _ => (st, false)

/-- `SlowLogRateLimiter::check_current_enabled(rate)` at request number `count`: `none` = `% 0`
(the session task panics at the top of `Session::handle_cmd`, for every session) -/
def limiterDecision (clamped : Bool) (rate count : Nat) : Option Bool :=
  let r := if clamped then max 1 rate else rate
  if r = 0 then none else some (count % r == 0)

/-! ### counted item loops of the UMCTL parsers

`peer_num` of `UMCTL SETREPL` (two items per peer, a 48-byte `ReplPeer` each) and `ranges_num` of a
slot range (one item, a 16-byte `Range` each): `for _ in 0..n { it.next().ok_or(..)?; …; v.push(..) }`.
`n` comes verbatim from the client; the loop leaves at the first missing item. -/

structure CountLoopRes where
  /-- bytes reserved before the loop (`Vec::with_capacity(n)`, only in a variant that pre-sizes) -/
  reserve : Nat
  /-- iterations started -/
  iters : Nat
  /-- elements pushed -/
  pushes : Nat
  deriving DecidableEq, Repr

def countLoop (prealloc : Bool) (elem per n avail : Nat) : CountLoopRes :=
  let full := avail / (max per 1)
  ⟨if prealloc then n * elem else 0, if n ≤ full then n else full + 1, min n full⟩

/-- bytes requested: the reservation plus the growth of the vector (amortised doubling from 4) -/
def CountLoopRes.allocBytes (elem : Nat) (r : CountLoopRes) : Nat := r.reserve + 4 * elem * (r.pushes + 1)

/-! ## `handle_cmd_ctx` for the modelled families -/

/-- the guard `cmd.get_command_element(k).is_some()` of a `handle_data_cmd` arm -/
def guardOk (guard : Option Nat) (cmd : Cmd) : Bool :=
  match guard with
  | none => true
  | some k => (elem cmd k).isSome

/-- the handler function named by an arm of `handle_data_cmd` -/
def runHandler (h : HCfg) (fn ty : String) (cmd : Cmd) : HRes :=
  if fn = "handle_eval_cmd" then handleEval h cmd
  else if fn = "handle_blocking_commands" then handleBlocking h ty cmd
  else if fn = "handle_mset" ∨ fn = "handle_msetnx" then handleMset h cmd
  else if fn = "handle_mget" ∨ fn = "handle_multi_int_cmd" then handleMultiKey h cmd
  else ⟨.dispatch 1, 0⟩

/-- the data-command dispatch of `handle_data_cmd` (generated table) -/
def handleData (h : HCfg) (cmd : Cmd) : HRes :=
  let ty := dataCmdTypeOf (some cmd)
  match Um.Gen.dataHandlerTable.find? (fun p => p.1 = ty) with
  | some (_, fn, guard, _) =>
    if guardOk guard cmd then runHandler h fn ty cmd else ⟨.dispatch 1, 0⟩
  | none => ⟨.dispatch 1, 0⟩

/-- bytes pushed by the two name scans of `CommandInfo::new` (`CmdType` and `DataCmdType`) -/
def nameSteps (cmd : Option Cmd) : Nat :=
  match cmd.bind (fun c => elem c 0) with
  | none => 0
  | some n => 2 * (upperName n).2

/-- one request packet through `Command::new` + `handle_cmd_ctx`, as far as it is modelled:
`none` for the command types whose handlers are outside this model (UMCTL, CLUSTER, CONFIG,
COMMAND, UMSYNC: they always answer — C05/C14/C17 look at what). -/
def handleCmd (h : HCfg) (cmd : Option Cmd) : Option HRes :=
  let ty := cmdTypeOf cmd
  if ty = "Invalid" then some ⟨.reply "invalid-command", nameSteps cmd⟩
  else if ty = "Others" then
    match cmd with
    | some c => let r := handleData h c; some ⟨r.out, r.steps + nameSteps cmd⟩
    | none => some ⟨.reply "invalid-command", nameSteps cmd⟩
  else if ty = "UmForward" then
    match cmd with
    | some c =>
      match handleUmforward c with
      | .inl r => some ⟨r.out, r.steps + nameSteps cmd⟩
      | .inr (_, inner) =>
        -- `extract_inner_cmd` recomputes the command info (another two name scans)
        let r := handleData h inner
        some ⟨r.out, r.steps + nameSteps cmd + nameSteps (some inner)⟩
    | none => some ⟨.reply "invalid-command", nameSteps cmd⟩
  else if ty ∈ ["Ping", "Info", "Auth", "Quit", "Echo", "Select", "Asking", "Hello"] then
    some ⟨.reply ty, nameSteps cmd⟩
  else none

end Um.PC
