import UmModel.Bytes
import UmModel.Crc16
import UmModel.Route
import UmGen.CmdTables
/-!
# Command typing, key position and the multi-key handlers of the proxy
(`src/proxy/command.rs`: `CmdType`, `DataCmdType`, `CommandInfo::get_key`;
`src/proxy/executor.rs`: `handle_cmd_ctx`, `handle_cluster` (KEYSLOT), `handle_data_cmd`, `handle_mget`,
`handle_mset`, `handle_msetnx`, `handle_multi_int_cmd`, `handle_blocking_commands`, `handle_eval_cmd`,
`handle_multi_key_eval_cmd`, `handle_single_key_data_cmd`, `handle_umforward`)

A command is its argument vector; an argument that is not a bulk string (nil bulk, integer, …) is
`none` — `get_command_element` answers `None` for it, which the guards *skip* (`filter_map`) while the
dispatch loops *stop* at it (`break`): both behaviours are reproduced.

Assumptions of this model (stated in notes/C09.md): no password configured, compression disabled
(`try_compressing_cmd_ctx` answers `Disabled`), no migration task installed (so
`ensure_keys_imported` is `Ok`), backends answer every sub-command (`backend : Addr → Cmd → Resp`
is a parameter; theorems hold for every backend).
-/
namespace Um.RouteCmd
open Um Um.Crc16 Um.Route

abbrev Arg := Option Bytes
abbrev Cmd := List Arg

/-- `get_command_element(i)` -/
def elem (c : Cmd) (i : Nat) : Option Bytes := (c[i]?).bind id

/-- replies (RESP values) -/
inductive Resp where
  | error (b : Bytes)
  | simple (b : Bytes)
  | integer (b : Bytes)
  | bulk (b : Bytes)
  | nilBulk
  | arr (xs : List Resp)
  | nilArr
  /-- a path this model does not cover (named) -/
  | unmodelled (why : String)
  deriving Repr

def bs (s : String) : Bytes := bytesOfString s

/-- literal names the handlers build sub-commands with / compare against (byte lists so that proofs
can evaluate the command tables on them) -/
def GET : Bytes := [71, 69, 84]
def SET : Bytes := [83, 69, 84]
def MSETNX : Bytes := [77, 83, 69, 84, 78, 88]
def kwNodes : Bytes := [110, 111, 100, 101, 115]
def kwSlots : Bytes := [115, 108, 111, 116, 115]
def kwKeyslot : Bytes := [107, 101, 121, 115, 108, 111, 116]

/-- canonical decimal rendering of a `usize` (`to_string()`), 20 digits of fuel -/
def decimalAux : Nat → Nat → Bytes → Bytes
  | 0, _, acc => acc
  | f + 1, n, acc =>
    if n < 10 then UInt8.ofNat (48 + n) :: acc
    else decimalAux f (n / 10) (UInt8.ofNat (48 + n % 10) :: acc)

def decimal (n : Nat) : Bytes := decimalAux 20 n []

/-! ## command typing -/

/-- `byte_to_uppercase` -/
def byteToUpper (b : UInt8) : UInt8 := if 97 ≤ b ∧ b ≤ 122 then b - 32 else b

def lookupName (tbl : List (Bytes × String)) (dflt : String) (name : Bytes) : String :=
  if name.length > Um.Gen.MAX_COMMAND_NAME_LENGTH then dflt
  else ((tbl.find? fun r => r.1 == name.map byteToUpper).map (·.2)).getD dflt

/-- `CmdType::from_packet` (variant name) -/
def cmdTypeOf (c : Cmd) : String :=
  match elem c 0 with
  | none => Um.Gen.cmdTypeNoName
  | some name => lookupName Um.Gen.cmdTypeTable Um.Gen.cmdTypeDefault name

/-- `DataCmdType::from_packet` (variant name) -/
def dataCmdTypeOf (c : Cmd) : String :=
  match elem c 0 with
  | none => Um.Gen.dataCmdTypeNoName
  | some name => lookupName Um.Gen.dataCmdTypeTable Um.Gen.dataCmdTypeDefault name

/-- `CommandInfo::get_key`: argument index of the routing key -/
def keyIndexOf (dt : String) : Nat :=
  ((Um.Gen.keyIndexTable.find? fun r => r.1 == dt).map (·.2)).getD Um.Gen.keyIndexDefault

/-- `Command::get_key` -/
def keyOf (c : Cmd) : Option Bytes := elem c (keyIndexOf (dataCmdTypeOf c))

/-- `Command::get_slot` -/
def slotOfCmd (c : Cmd) : Option Nat := (keyOf c).map slotOf

/-! ## one routed (sub-)command -/

/-- a (sub-)command handed to `MetaManager::send` and what became of it -/
structure Dispatch where
  cmd : Cmd
  outcome : Outcome
  deriving Repr

/-- `Command::wrap_cmd(["UMFORWARD", times])` -/
def wrapForward (t : Nat) (c : Cmd) : Cmd := some (bs "UMFORWARD") :: some (decimal t) :: c

/-- what the backend at `addr` finally receives, if anything -/
def delivered (d : Dispatch) : Option (Addr × Cmd) :=
  match d.outcome with
  | .exec n => some (n, d.cmd)
  | .forward _ a (some t) => some (a, wrapForward t d.cmd)
  | .forward _ a none => some (a, d.cmd)
  | _ => none

def movedText (slot : Nat) (addr : Addr) : Bytes :=
  Um.Gen.ERR_MOVED ++ [32] ++ decimal slot ++ [32] ++ bs addr

/-- the reply of a routed command -/
def replyOf (backend : Addr → Cmd → Resp) (d : Dispatch) : Resp :=
  match d.outcome with
  | .moved s a => .error (movedText s a)
  | .errClusterNotFound => .error Um.Gen.ERR_CLUSTER_NOT_FOUND
  | .errMissingKey => .error Um.Gen.ERR_MISSING_KEY
  | .errSlotNotCovered s => .error (Um.Gen.ERR_SLOT_NOT_COVERED_PREFIX ++ decimal s)
  | .errTooManyRedirections => .error Um.Gen.ERR_TOO_MANY_REDIRECTIONS
  | .errNodeNotFound => .unmodelled "reply sender dropped"
  | .exec _ | .forward _ _ _ =>
    match delivered d with
    | some (a, c) => backend a c
    | none => .unmodelled "unreachable"

/-- `handle_single_key_data_cmd` → `MetaManager::send` -/
def sendOne (cfg : RouteCfg) (cm : ClusterMap) (redirTimes : Option Nat) (c : Cmd) : Dispatch :=
  { cmd := c, outcome := routeSlot cfg cm redirTimes (slotOfCmd c) }

structure Handled where
  reply : Resp
  dispatched : List Dispatch
  /-- candidates when the reply depends on `HashMap` order (MSETNX groups under active redirection):
  every error reply among the groups; empty when the reply is determined -/
  altErrors : List Bytes := []
  deriving Repr

def isError : Resp → Option Bytes
  | .error e => some e
  | _ => none

def firstError (rs : List Resp) : Option Bytes := rs.findSome? isError

/-! ## guards (the key lists handed to `same_slot`) -/

/-- `(1..arg_len).filter_map(|i| get_command_element(i))` -/
def mgetGuardKeys (c : Cmd) : List Bytes := (List.range' 1 (c.length - 1)).filterMap (elem c)

/-- `(0..arg_len / 2).filter_map(|i| get_command_element(2 * i + 1))` -/
def msetGuardKeys (c : Cmd) : List Bytes := (List.range (c.length / 2)).filterMap fun i => elem c (2 * i + 1)

/-- `(1..arg_len - 1).filter_map(|i| get_command_element(i))` (blocking commands; `arg_len > 2`) -/
def blockingGuardKeys (c : Cmd) : List Bytes := (List.range' 1 (c.length - 2)).filterMap (elem c)

/-- `(3..3 + key_num).filter_map(..)` (`key_num ≤ arg_len` is checked by `handle_eval_cmd` since /repo
2c9766f, so the sum cannot overflow) -/
def evalKeys (keyNum : Nat) (c : Cmd) : List Bytes :=
  (List.range' 3 keyNum).filterMap (elem c)

/-- `for i in 1.. { match element(i) { Some(k) => .., None => break } }` -/
def leadingKeys : List Arg → List Bytes
  | some k :: rest => k :: leadingKeys rest
  | _ => []

/-- the `for i in 0..` loop of `handle_mset` / `handle_msetnx` over elements `1..`: the pairs read
before the loop ends, and whether it ended on a missing *value* (→ wrong-number-of-arguments) -/
def msetPairs : List Arg → List (Bytes × Bytes) × Bool
  | some k :: some v :: rest => let r := msetPairs rest; ((k, v) :: r.1, r.2)
  | some _ :: _ => ([], true)
  | _ => ([], false)

def notSameSlot : Resp := .error Um.Gen.ERR_NOT_THE_SAME_SLOT

def wrongArgs (name : String) : Resp := .error (bs s!"ERR wrong number of arguments for '{name}' command")

/-! ## handlers -/
section
variable (cfg : RouteCfg) (cm : ClusterMap) (backend : Addr → Cmd → Resp)

def runSubs (subs : List Cmd) : List Dispatch := subs.map (sendOne cfg cm none)

/-- `handle_mget` -/
def handleMget (c : Cmd) : Handled :=
  if !cfg.activeRedirection && !sameSlot (mgetGuardKeys c) then { reply := notSameSlot, dispatched := [] }
  else
    let ds := runSubs cfg cm ((leadingKeys (c.drop 1)).map fun k => [some GET, some k])
    if ds.isEmpty then { reply := wrongArgs "mget", dispatched := [] }
    else
      let rs := ds.map (replyOf backend)
      match firstError rs with
      | some e => { reply := .error e, dispatched := ds }
      | none => { reply := .arr rs, dispatched := ds }

/-- `handle_mset` -/
def handleMset (c : Cmd) : Handled :=
  if !cfg.activeRedirection && !sameSlot (msetGuardKeys c) then { reply := notSameSlot, dispatched := [] }
  else
    let pm := msetPairs (c.drop 1)
    let ds := runSubs cfg cm (pm.1.map fun kv => [some SET, some kv.1, some kv.2])
    if pm.2 || ds.isEmpty then { reply := wrongArgs "mset", dispatched := ds }
    else
      match firstError (ds.map (replyOf backend)) with
      | some e => { reply := .error e, dispatched := ds }
      | none => { reply := .simple Um.Gen.OK_REPLY, dispatched := ds }

/-- group the pairs by slot, groups in order of first occurrence, pairs in order inside a group
(the code's `HashMap<usize, Vec<_>>`: group order is arbitrary) -/
def groupBySlot : List (Bytes × Bytes) → List (Nat × List (Bytes × Bytes))
  | [] => []
  | kv :: rest =>
    let s := slotOf kv.1
    let g := groupBySlot rest
    match g.find? (·.1 == s) with
    | some _ => g.map fun e => if e.1 == s then (e.1, kv :: e.2) else e
    | none => (s, [kv]) :: g

/-- sum the `Integer` sub-replies (`btou::<usize>`), stopping at the first error -/
def sumIntReplies : List Resp → Nat → Resp
  | [], acc => .integer (decimal acc)
  | .error e :: _, _ => .error e
  | .integer d :: rest, acc =>
    match btou u64Max d with
    | some n => sumIntReplies rest (acc + n)
    | none => .unmodelled "unexpected integer reply"
  | _ :: _, _ => .unmodelled "unexpected reply kind"

/-- `handle_msetnx`; the regrouped sub-commands inherit the redirection mark of the command
(`set_redirection_times`, /repo 04a2318) -/
def handleMsetnx (redirTimes : Option Nat) (c : Cmd) : Handled :=
  if !cfg.activeRedirection && !sameSlot (msetGuardKeys c) then { reply := notSameSlot, dispatched := [] }
  else
    let pm := msetPairs (c.drop 1)
    if pm.2 then { reply := wrongArgs "mset", dispatched := [] }
    else
      let groups := groupBySlot pm.1
      let ds := (groups.map fun g =>
        some MSETNX :: g.2.flatMap fun kv => [some kv.1, some kv.2]).map (sendOne cfg cm redirTimes)
      if ds.isEmpty then { reply := wrongArgs "mset", dispatched := [] }
      else
        let rs := ds.map (replyOf backend)
        { reply := sumIntReplies rs 0, dispatched := ds,
          altErrors := rs.filterMap isError }

/-- `handle_multi_int_cmd` (DEL / EXISTS with at least two arguments) -/
def handleMultiInt (name : Bytes) (c : Cmd) : Handled :=
  if !cfg.activeRedirection && !sameSlot (mgetGuardKeys c) then { reply := notSameSlot, dispatched := [] }
  else
    let ds := runSubs cfg cm ((leadingKeys (c.drop 1)).map fun k => [some name, some k])
    if ds.isEmpty then
      { reply := .error (bs "ERR wrong number of arguments for '" ++ name ++ bs "' command"), dispatched := [] }
    else { reply := sumIntReplies (ds.map (replyOf backend)) 0, dispatched := ds }

def isListPop (dt : String) : Bool := dt == "Blpop" || dt == "Brpop" || dt == "Brpoplpush"
def isZsetPop (dt : String) : Bool := dt == "Bzpopmin" || dt == "Bzpopmax"

/-- `is_empty_resp` -/
def isEmptyResp (r : Resp) (dt : String) : Bool :=
  match r with
  | .nilBulk => isListPop dt
  | .arr [] => isZsetPop dt
  | _ => false

/-- `adjust_lrpop_response` / `adjust_zpop_response` -/
def adjustPop (dt : String) (r : Resp) (key : Bytes) : Resp :=
  if dt == "Blpop" || dt == "Brpop" then
    match r with
    | .nilBulk => .nilArr
    | .bulk s => .arr [.bulk key, .bulk s]
    | r => r
  else if isZsetPop dt then
    match r with
    | .arr [] => .nilArr
    | .arr [a, b] => .arr [.bulk key, a, b]
    | r => r
  else r

/-- `transfer_cmd_from_blocking_to_non_blocking` -/
def blockingSubs (dt : String) (nb : Bytes) (c : Cmd) : List (Bytes × Cmd) :=
  if dt == "Brpoplpush" then [([], (some nb :: c.drop 1).dropLast)]
  else (leadingKeys ((c.drop 1).take (c.length - 2))).map fun k => (k, [some nb, some k])

/-- one pass of the polling loop: dispatch the sub-commands in order until one answers non-empty -/
def blockingPass (dt : String) (timeoutZeroOrRetry : Bool) : List (Bytes × Cmd) → List Dispatch → Handled
  | [], acc => { reply := .unmodelled "blocking command keeps polling (sleep 1s, retry)", dispatched := acc.reverse }
  | (key, sub) :: rest, acc =>
    let d := sendOne cfg cm none sub
    let r := replyOf backend d
    if isEmptyResp r dt && timeoutZeroOrRetry then blockingPass dt timeoutZeroOrRetry rest (d :: acc)
    else { reply := adjustPop dt r key, dispatched := (d :: acc).reverse }

/-- `get_command_arg_len` succeeds -/
def blockingLenOk (dt : String) (len : Nat) : Bool :=
  match (Um.Gen.blockingArgLenTable.find? fun r => r.1 == dt).map (·.2) with
  | some (true, n) => len == n
  | some (false, n) => len > n
  | none => false

/-- `handle_blocking_commands` (first pass of the polling loop) -/
def handleBlocking (dt : String) (c : Cmd) : Handled :=
  let name := (elem c 0).getD []
  match (Um.Gen.nonBlockingNameTable.find? fun r => r.1 == dt).map (·.2) with
  | none => { reply := .error (bs "ERR unexpected command name '" ++ name ++ bs "'"), dispatched := [] }
  | some nb =>
    if !blockingLenOk dt c.length then
      { reply := .error (bs "ERR invalid argument number for \"" ++ name ++ bs "\""), dispatched := [] }
    else
      match elem c (c.length - 1) with
      | none => { reply := .error (bs "ERR wrong number of arguments"), dispatched := [] }
      | some last =>
        match btou u64Max last with
        | none => { reply := .error (bs "ERR invalid timeout argument"), dispatched := [] }
        | some timeout =>
          if !cfg.activeRedirection && !sameSlot (blockingGuardKeys c) then
            { reply := notSameSlot, dispatched := [] }
          else if (blockingSubs dt nb c).isEmpty then
            -- /repo 0d5fc60: without any sub-command nothing would ever answer the request
            { reply := .error (bs "ERR invalid key argument"), dispatched := [] }
          else blockingPass cfg cm backend dt (timeout == 0 || 0 < timeout) (blockingSubs dt nb c) []

/-- `handle_eval_cmd` + `handle_multi_key_eval_cmd` (EVAL and, since /repo 7ad1e99, EVALSHA) -/
def handleEval (redirTimes : Option Nat) (c : Cmd) : Handled :=
  match elem c 2 with
  | none => { reply := .error (bs "ERR: Missing `numkeys` for EVAL"), dispatched := [] }
  | some kn =>
    match btoiU u64Max kn with
    | none => { reply := .error (bs "ERR: Invalid `numkeys`"), dispatched := [] }
    | some keyNum =>
      let d := sendOne cfg cm redirTimes c
      if keyNum > c.length then
        -- /repo 2c9766f
        { reply := .error (bs "ERR: `numkeys` is greater than the number of arguments"), dispatched := [] }
      else if keyNum = 1 then { reply := replyOf backend d, dispatched := [d] }
      else if !sameSlot (evalKeys keyNum c) then { reply := notSameSlot, dispatched := [] }
      else { reply := replyOf backend d, dispatched := [d] }

/-- handler selected by `handle_data_cmd` (generated table: DataCmdType → handler fn, with the
`element(k).is_some()` guard of the DEL / EXISTS arms) -/
def handlerOf (c : Cmd) : String × Bytes :=
  let dt := dataCmdTypeOf c
  match Um.Gen.dataHandlerTable.find? fun r => r.1 == dt && (match r.2.2.1 with
      | some k => (elem c k).isSome
      | none => true) with
  | some r => (r.2.1, r.2.2.2)
  | none => (Um.Gen.dataHandlerDefault, [])

/-- `handle_data_cmd` -/
def handleData (redirTimes : Option Nat) (c : Cmd) : Handled :=
  let h := handlerOf c
  if h.1 == "handle_mget" then handleMget cfg cm backend c
  else if h.1 == "handle_mset" then handleMset cfg cm backend c
  else if h.1 == "handle_msetnx" then handleMsetnx cfg cm backend redirTimes c
  else if h.1 == "handle_multi_int_cmd" then handleMultiInt cfg cm backend h.2 c
  else if h.1 == "handle_blocking_commands" then handleBlocking cfg cm backend (dataCmdTypeOf c) c
  else if h.1 == "handle_eval_cmd" then handleEval cfg cm backend redirTimes c
  else
    let d := sendOne cfg cm redirTimes c
    { reply := replyOf backend d, dispatched := [d] }

end

/-! ## `CLUSTER` and the key-less commands -/

/-- `bytes_ascii_case_insensitive_eq` (with its `u8` wrapping additions) -/
def bytesAsciiCiEq : Bytes → Bytes → Bool
  | [], [] => true
  | a :: as, b :: bs' =>
    (a == b || (97 ≤ a && a ≤ 122 && a == b + 32) || (65 ≤ a && a ≤ 90 && a + 32 == b)) && bytesAsciiCiEq as bs'
  | _, _ => false

def isCont (b : UInt8) : Bool := 0x80 ≤ b && b ≤ 0xBF

/-- `str::from_utf8(..).is_ok()`: well-formed UTF-8 (no overlong forms, no surrogates, ≤ U+10FFFF) -/
def validUtf8 : Bytes → Bool
  | [] => true
  | b0 :: rest =>
    if b0 < 0x80 then validUtf8 rest
    else match rest with
      | [] => false
      | b1 :: r1 =>
        if 0xC2 ≤ b0 && b0 ≤ 0xDF then isCont b1 && validUtf8 r1
        else match r1 with
          | [] => false
          | b2 :: r2 =>
            if b0 == 0xE0 then 0xA0 ≤ b1 && b1 ≤ 0xBF && isCont b2 && validUtf8 r2
            else if (0xE1 ≤ b0 && b0 ≤ 0xEC) || b0 == 0xEE || b0 == 0xEF then isCont b1 && isCont b2 && validUtf8 r2
            else if b0 == 0xED then 0x80 ≤ b1 && b1 ≤ 0x9F && isCont b2 && validUtf8 r2
            else match r2 with
              | [] => false
              | b3 :: r3 =>
                if b0 == 0xF0 then 0x90 ≤ b1 && b1 ≤ 0xBF && isCont b2 && isCont b3 && validUtf8 r3
                else if 0xF1 ≤ b0 && b0 ≤ 0xF3 then isCont b1 && isCont b2 && isCont b3 && validUtf8 r3
                else if b0 == 0xF4 then 0x80 ≤ b1 && b1 ≤ 0x8F && isCont b2 && isCont b3 && validUtf8 r3
                else false

/-- `handle_cluster` -/
def handleCluster (c : Cmd) : Resp :=
  match elem c 1 with
  | none => .error (bs "Missing sub command")
  | some sub =>
    if !validUtf8 sub then .error (bs "Invalid sub command")
    else if bytesAsciiCiEq sub kwNodes then .unmodelled "CLUSTER NODES (C14)"
    else if bytesAsciiCiEq sub kwSlots then .unmodelled "CLUSTER SLOTS (C14)"
    else if bytesAsciiCiEq sub kwKeyslot then
      match elem c 2 with
      | some key => .integer (decimal (slotOf key))
      | none => .error (bs "Missing key")
    else .error (bs "Unsupported sub command")

/-- `str::parse::<usize>` (the redirection counter of `UMFORWARD`): an optional `+`, then at least one
ASCII digit, value ≤ `usize::MAX`; leading zeros are accepted, `-`, spaces and the empty string are not.
(`handle_umforward` applies `to_uppercase()` first: no character upper-cases to a digit or to `+`, and
digits / `+` are their own upper case, so the parse result is that of the original string.) -/
def parseUsize (b : Bytes) : Option Nat :=
  match b with
  | 43 :: rest => btou u64Max rest
  | _ => btou u64Max b

/-- `handle_umforward`: a command that arrives wrapped as `UMFORWARD <times> <cmd…>` (sent by a peer
proxy under active redirection). `get_sub_command(1)` reads the counter, `extract_inner_cmd(2)` strips
the two leading elements — rebuilding the cached `CommandInfo`, so type, key and **slot are those of the
inner command** — `set_redirection_times(times)`, then `handle_data_cmd` whatever the inner name is
(a keyless / control command name inside UMFORWARD is routed as a data command by its element 1). -/
def handleUmforward (cfg : RouteCfg) (cm : ClusterMap) (backend : Addr → Cmd → Resp) (c : Cmd) : Handled :=
  match elem c 1 with
  | none => { reply := .error (bs "Missing sub command"), dispatched := [] }
  | some ts =>
    if !validUtf8 ts then { reply := .error (bs "Invalid sub command"), dispatched := [] }
    else
      match parseUsize ts with
      | none => { reply := .error (bs "invalid redirection times"), dispatched := [] }
      | some t =>
        if (c.drop 2).isEmpty then { reply := .error (bs "missing forwarded command"), dispatched := [] }
        else handleData cfg cm backend (some t) (c.drop 2)

/-- `ForwardHandler::handle_cmd_ctx` for a client command (no password configured) -/
def handle (cfg : RouteCfg) (cm : ClusterMap) (backend : Addr → Cmd → Resp) (c : Cmd) : Handled :=
  let t := cmdTypeOf c
  if t == "Others" then handleData cfg cm backend none c
  else if t == "UmForward" then handleUmforward cfg cm backend c
  else
    let r : Resp :=
      if t == "Ping" || t == "Quit" then .simple (bs "OK")
      else if t == "Select" || t == "Asking" then .simple Um.Gen.OK_REPLY
      else if t == "Echo" then
        match elem c 1 with
        | some m => .bulk m
        | none => .error (bs "Missing message")
      else if t == "Invalid" then .error (bs "Invalid command")
      else if t == "Hello" then .error (bs "ERR unknown command `hello`")
      else if t == "Cluster" then handleCluster c
      else .unmodelled t
    { reply := r, dispatched := [] }

end Um.RouteCmd
