import UmModel.Resp
/-!
# C15 — the buffer machine: repeated `decode` on a growing `BytesMut`, and the
`OptionalMultiPacketDecoder` hint machine (`src/protocol/packet.rs`, `src/protocol/codec.rs`)

`RespCodec::decode` is `PacketDecoder::decode`; `tokio_util`'s `FramedRead` appends what it read
to the buffer and calls `decode` until it answers `Ok(None)` (then reads again) or `Err`
(then the stream ends).  `drain` is that inner loop for `SimplePacketDecoder<RespPacket>`,
`run` the outer loop over the reads.
-/
namespace Um.Resp
open Um

/-- what the reader hands out -/
inductive Ev where
  | pkt (p : IndexedResp)   -- `Ok(Some(RespPacket::Indexed(p)))`
  | invalid                 -- `Err(DecodeError::InvalidProtocol)`: the stream is finished
  | panic

/-- call `decode` until `Ok(None)`/`Err`.  Result: the events and the buffer left for the next
read (`none`: the stream ended with an error).  The `else` branch (a packet of zero bytes would
make the real loop spin) is unreachable: theorem `decodeIndexed_item_lt`. -/
def drain (strict : Bool) (buf : Bytes) : List Ev × Option Bytes :=
  match decodeIndexed strict buf with
  | .none => ([], some buf)
  | .invalid => ([.invalid], none)
  | .panic => ([.panic], none)
  | .item p rest =>
    if rest.length < buf.length then
      let r := drain strict rest
      (.pkt p :: r.1, r.2)
    else ([.pkt p], some rest)
termination_by buf.length

/-- the read buffer between reads; `none` once the stream has ended with an error -/
abbrev Reader := Option Bytes

/-- one read of `chunk` bytes followed by the decode loop -/
def feed (strict : Bool) (r : Reader) (chunk : Bytes) : List Ev × Reader :=
  match r with
  | none => ([], none)
  | some buf => drain strict (buf ++ chunk)

/-- all reads of a connection, starting from reader state `r` -/
def run (strict : Bool) : Reader → List Bytes → List Ev × Reader
  | r, [] => ([], r)
  | r, c :: cs =>
    let a := feed strict r c
    let b := run strict a.2 cs
    (a.1 ++ b.1, b.2)

/-- a connection from its first byte -/
def decodeStream (strict : Bool) (chunks : List Bytes) : List Ev × Reader :=
  run strict (some []) chunks

/-! ## `OptionalMultiPacketEncoder` / `OptionalMultiPacketDecoder<RespVec>` -/

/-- `OptionalMultiHint<()>`: `Single(())` or `Multi(vec![(); n])` -/
inductive Hint where
  | single
  | multi (n : Nat)
  deriving DecidableEq, Repr

/-- decoder side + the shared `Arc<AtomicUsize>` -/
structure HM where
  shared : Nat := 0                -- OptionalMultiHintState.state
  currHint : Option Hint := none   -- OptionalMultiPacketDecoder.curr_hint
  pbuf : List Resp := []           -- OptionalMultiPacketDecoder.buf

/-- `OptionalMultiHintState::produce` (called by the encoder before it writes the packet);
`false` ⇒ `EncodeError::NotReady` -/
def HM.produce (m : HM) (h : Hint) : HM × Bool :=
  let n := match h with
    | .single => 1
    | .multi k => k + 2
  if m.shared = 0 then ({ m with shared := n }, true) else (m, false)

/-- `OptionalMultiHintState::consume` -/
def HM.consume (m : HM) : HM × Option Hint :=
  ({ m with shared := 0 },
   match m.shared with
   | 0 => none
   | 1 => some .single
   | n + 2 => some (.multi n))

inductive HOut where
  | none                      -- `Ok(None)`
  | single (v : Resp)         -- `Ok(Some(OptionalMulti::Single(v)))`
  | multi (vs : List Resp)    -- `Ok(Some(OptionalMulti::Multi(vs)))`
  | invalid                   -- `Err(DecodeError::InvalidProtocol)`
  | panic

/-- the `loop` of `OptionalMultiPacketDecoder::decode`.  The last `else` (a zero-byte packet
would make the real loop spin) is unreachable. -/
def hmLoop (strict : Bool) (hint : Hint) (m : HM) (buf : Bytes) : HM × Bytes × HOut :=
  match decodeVec strict buf with
  | .none => (m, buf, .none)
  | .invalid => (m, buf, .invalid)
  | .panic => (m, buf, .panic)
  | .item p rest =>
    match hint with
    | .single => ({ m with currHint := none }, rest, .single p)
    | .multi n =>
      let pbuf := m.pbuf ++ [p]
      if n = pbuf.length then ({ m with currHint := none, pbuf := [] }, rest, .multi pbuf)
      else if rest.length < buf.length then hmLoop strict hint { m with pbuf := pbuf } rest
      else ({ m with pbuf := pbuf }, rest, .none)
termination_by buf.length

/-- `OptionalMultiPacketDecoder::decode(&mut self, buf)` -/
def HM.decode (strict : Bool) (m : HM) (buf : Bytes) : HM × Bytes × HOut :=
  let mh : HM × Option Hint :=
    match m.currHint with
    | some h => (m, some h)
    | none =>
      let c := m.consume
      match c.2 with
      | some h => ({ c.1 with currHint := some h }, some h)
      | none => (c.1, none)
  match mh.2 with
  | none => (mh.1, buf, .none)
  | some hint =>
    if hint = .multi 0 then ({ mh.1 with currHint := none }, buf, .multi [])
    else hmLoop strict hint mh.1 buf

/-- the reads of a connection whose decoder is the hint machine: after each read `decode` is
called (once: a call in the idle state answers `Ok(None)` without touching anything, theorem
`HM.decode_idle`); a protocol error ends the stream (`none`) -/
def hmRun (strict : Bool) : HM → Option Bytes → List Bytes → List HOut × HM × Option Bytes
  | m, r, [] => ([], m, r)
  | m, none, _ :: _ => ([], m, none)
  | m, some buf, c :: cs =>
    let d := m.decode strict (buf ++ c)
    match d.2.2 with
    | .none => hmRun strict d.1 (some d.2.1) cs
    | .invalid => ([.invalid], d.1, none)
    | .panic => ([.panic], d.1, none)
    | o =>
      let r := hmRun strict d.1 (some d.2.1) cs
      (o :: r.1, r.2)

/-! ## `<OptionalMulti<RespVec> as DecodedPacket>::decode(buf, hint)` (the stateless variant;
no caller in the crate) -/

/-- the `for hint in hints` loop: a `None` in the middle answers `Ok(None)` *after* the earlier
packets were taken out of `buf` and dropped (finding F15a). -/
def omLoop (strict : Bool) : Nat → Bytes → List Resp → Bytes × HOut
  | 0, buf, acc => (buf, .multi acc)
  | k + 1, buf, acc =>
    match decodeVec strict buf with
    | .none => (buf, .none)
    | .invalid => (buf, .invalid)
    | .panic => (buf, .panic)
    | .item p rest => omLoop strict k rest (acc ++ [p])

def omStaticDecode (strict : Bool) (hint : Hint) (buf : Bytes) : Bytes × HOut :=
  match hint with
  | .single =>
    match decodeVec strict buf with
    | .none => (buf, .none)
    | .invalid => (buf, .invalid)
    | .panic => (buf, .panic)
    | .item p rest => (rest, .single p)
  | .multi n => omLoop strict n buf []

end Um.Resp
