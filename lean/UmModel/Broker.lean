import UmModel.Slots
import UmModel.Bytes
import UmGen.Consts
/-!
# The in-memory metadata broker (`src/broker/{store,update,migrate,query}.rs`)

State mirrors `MetaStore` field by field, including `enable_ordered_proxy` (`Store.ordered`; the
ordered mode used for Kubernetes StatefulSets: proxies carry an `index`, at most one cluster,
chunks are allocated in index order, a failed proxy is never replaced). `&mut self` methods are functions `Store → … → Store × R`, because several of them
mutate the store (bump the global epoch) *before* they validate. `expect()`/index panics are the
explicit result `R.panic`. `HashMap`-order dependent choices (chunk allocation, replacement
proxy) are *parameters* (`choice`) that the model validates against the set of choices the
code can make (DESIGN §2.3); the correspondence feeds the implementation's actual choice.
-/
namespace Um.Broker
open Um Um.Slots

def SLOT_NUM : Nat := Um.Gen.SLOT_NUM

inductive RolePos where
  | normal | first | second
  deriving DecidableEq, Repr, Inhabited

structure MigMeta where
  epoch : Nat
  srcChunk : Nat
  srcPart : Nat
  dstChunk : Nat
  dstPart : Nat
  deriving DecidableEq, Repr, Inhabited

structure MigStore where
  ranges : RangeList
  isMigrating : Bool
  mm : MigMeta
  deriving DecidableEq, Repr, Inhabited

structure Chunk where
  role : RolePos
  stable0 : Option RangeList
  stable1 : Option RangeList
  mig0 : List MigStore
  mig1 : List MigStore
  proxy0 : String
  proxy1 : String
  host0 : String
  host1 : String
  node0 : String
  node1 : String
  node2 : String
  node3 : String
  deriving Repr, Inhabited

structure Config where
  strategy : Nat          -- 0 disabled, 1 set_get_only, 2 allow_all
  maxMigrationTime : Nat
  maxBlockingTime : Nat
  scanInterval : Nat
  scanCount : Nat
  deriving DecidableEq, Repr, Inhabited

structure Cluster where
  epoch : Nat
  name : String
  chunks : List Chunk
  config : Config
  deriving Repr, Inhabited

structure ProxyRes where
  addr : String
  node0 : String
  node1 : String
  host : String
  index : Nat
  cluster : Option String
  deriving Repr, Inhabited

structure Store where
  globalEpoch : Nat
  clusters : List Cluster
  proxies : List ProxyRes
  failed : List String
  failures : List (String × List (String × Int))
  /-- `enable_ordered_proxy` (fixed at construction: `MetaStore::new(enable_ordered_proxy)`) -/
  ordered : Bool
  deriving Repr, Inhabited

/-- `MetaStore::new(false)` -/
def Store.init : Store :=
  { globalEpoch := 0, clusters := [], proxies := [], failed := [], failures := [], ordered := false }

/-- `MetaStore::new(true)` -/
def Store.initOrdered : Store := { Store.init with ordered := true }

/-- nothing has happened yet (`Store.init` or `Store.initOrdered`) -/
def Store.isFresh (s : Store) : Bool :=
  s.globalEpoch == 0 && s.clusters.isEmpty && s.proxies.isEmpty && s.failed.isEmpty && s.failures.isEmpty

/-- selection of the mode at construction time: only a store on which nothing has happened yet
can (still) be switched to ordered mode; any other store is left as it is. This is the model of
`MetaStore::new(true)`, *not* an operation of the running broker (see `Op.setOrdered`). -/
def Store.setOrdered (s : Store) : Store := if s.isFresh then { s with ordered := true } else s

/-- `MetaStoreError` (only the codes the modelled operations can return) -/
inductive Err where
  | inUse | noAvailableResource | resourceNotBalance | alreadyExisted | clusterNotFound
  | freeNodeNotFound | freeNodeFound | proxyNotFound | invalidNodeNum | nodeNumAlreadyEnough
  | invalidClusterName | invalidMigrationTask | invalidProxyAddress | migrationTaskNotFound
  | migrationRunning | invalidConfig | slotsAlreadyEven | smallEpoch
  | missingIndex | proxyResourceOutOfOrder | oneClusterAlreadyExisted
  deriving DecidableEq, Repr

def Err.code : Err → String
  | .inUse => "IN_USE" | .noAvailableResource => "NO_AVAILABLE_RESOURCE"
  | .resourceNotBalance => "RESOURCE_NOT_BALANCE" | .alreadyExisted => "ALREADY_EXISTED"
  | .clusterNotFound => "CLUSTER_NOT_FOUND" | .freeNodeNotFound => "FREE_NODE_NOT_FOUND"
  | .freeNodeFound => "FREE_NODE_FOUND" | .proxyNotFound => "PROXY_NOT_FOUND"
  | .invalidNodeNum => "INVALID_NODE_NUMBER" | .nodeNumAlreadyEnough => "NODE_NUM_ALREADY_ENOUGH"
  | .invalidClusterName => "INVALID_CLUSTER_NAME" | .invalidMigrationTask => "INVALID_MIGRATION_TASK"
  | .invalidProxyAddress => "INVALID_PROXY_ADDRESS" | .migrationTaskNotFound => "MIGRATION_TASK_NOT_FOUND"
  | .migrationRunning => "MIGRATION_RUNNING" | .invalidConfig => "INVALID_CONFIG"
  | .slotsAlreadyEven => "SLOTS_ALREADY_EVEN" | .smallEpoch => "EPOCH_SMALLER_THAN_CURRENT"
  | .missingIndex => "MISSING_SERVER_PROXY_INDEX" | .proxyResourceOutOfOrder => "PROXY_RESOURCE_OUT_OF_ORDER"
  | .oneClusterAlreadyExisted => "ONE_CLUSTER_ALREADY_EXISTED"

/-- result of an operation: `panic` is an `expect`/index/arithmetic-underflow failure of the
Rust code, `badChoice` means the supplied nondeterministic choice is not one the code can make -/
inductive R (α : Type) where
  | ok (a : α)
  | err (e : Err)
  | panic (what : String)
  | badChoice (why : String)
  deriving Repr

instance : Monad R where
  pure := R.ok
  bind x f := match x with
    | .ok a => f a
    | .err e => .err e
    | .panic w => .panic w
    | .badChoice w => .badChoice w

def R.isPanic {α} : R α → Bool
  | .panic _ => true
  | _ => false

def expectSome {α} (o : Option α) (what : String) : R α :=
  match o with
  | some a => .ok a
  | none => .panic what

/-! ## chunk part accessors (`stable_slots[part]`, `migrating_slots[part]`) -/

def Chunk.stable (c : Chunk) : Nat → Option (Option RangeList)
  | 0 => some c.stable0
  | 1 => some c.stable1
  | _ => none

def Chunk.setStable (c : Chunk) (part : Nat) (v : Option RangeList) : Option Chunk :=
  match part with
  | 0 => some { c with stable0 := v }
  | 1 => some { c with stable1 := v }
  | _ => none

def Chunk.mig (c : Chunk) : Nat → Option (List MigStore)
  | 0 => some c.mig0
  | 1 => some c.mig1
  | _ => none

def Chunk.setMig (c : Chunk) (part : Nat) (v : List MigStore) : Option Chunk :=
  match part with
  | 0 => some { c with mig0 := v }
  | 1 => some { c with mig1 := v }
  | _ => none

def Chunk.hasMig (c : Chunk) : Bool := !c.mig0.isEmpty || !c.mig1.isEmpty

/-- `ClusterStore::is_migrating` -/
def Cluster.isMigrating (c : Cluster) : Bool := c.chunks.any Chunk.hasMig

def Cluster.proxyAddrs (c : Cluster) : List String := c.chunks.flatMap fun ch => [ch.proxy0, ch.proxy1]

/-! ## store helpers -/

def Store.bump (s : Store) : Store := { s with globalEpoch := s.globalEpoch + 1 }

def Store.findCluster (s : Store) (name : String) : Option Cluster := s.clusters.find? (·.name == name)

def Store.setCluster (s : Store) (c : Cluster) : Store :=
  { s with clusters := s.clusters.map fun x => if x.name == c.name then c else x }

def Store.findProxy (s : Store) (addr : String) : Option ProxyRes := s.proxies.find? (·.addr == addr)

def Store.setProxyCluster (s : Store) (addr : String) (v : Option String) : Store :=
  { s with proxies := s.proxies.map fun p => if p.addr == addr then { p with cluster := v } else p }

def Store.hasFailureKey (s : Store) (addr : String) : Bool := s.failures.any (·.1 == addr)

/-- `ClusterName::try_from`: ASCII alphanumerics, `@`, `-`, `_`; at most 31 bytes -/
def validName (n : String) : Bool :=
  n.toList.all (fun c => c.isAlphanum || c == '@' || c == '-' || c == '_') && n.length ≤ 31

/-- `get_free_proxy_resource`: not in a cluster, not failed, no pending failure report -/
def Store.freeProxies (s : Store) : List ProxyRes :=
  s.proxies.filter fun p => p.cluster.isNone && !s.failed.contains p.addr && !s.hasFailureKey p.addr

/-! ## failures (the part the allocator depends on; C18 has its own detailed model) -/

def addFailure (s : Store) (addr reporter : String) (now : Int) : Store × Bool :=
  match s.failures.find? (·.1 == addr) with
  | some (_, reps) =>
    if reps.any (·.1 == reporter) then (s, false)
    else
      let s := s.bump
      ({ s with failures := s.failures.map fun e => if e.1 == addr then (e.1, e.2 ++ [(reporter, now)]) else e }, true)
  | none =>
    let s := s.bump
    ({ s with failures := s.failures ++ [(addr, [(reporter, now)])] }, true)

/-! ## add_proxy / remove_proxy -/

def colonCount (a : String) : Nat := (a.toList.filter (· == ':')).length

def hostOfAddr (a : String) : String := String.ofList (a.toList.takeWhile (· != ':'))

/-- the `index` stored by `add_proxy`: `0` in normal mode whatever was passed, the supplied one
in ordered mode (`none` = `MissingIndex`) -/
def proxyIndex (s : Store) (index : Option Nat) : Option Nat :=
  if s.ordered then index else some 0

def addProxy (s : Store) (addr n0 n1 : String) (host : Option String) (index : Option Nat) :
    Store × R Unit :=
  if colonCount addr != 1 || n0 == n1 then (s, .err .invalidProxyAddress) else
  let h := host.getD (hostOfAddr addr)
  match proxyIndex s index with
  | none => (s, .err .missingIndex)
  | some idx =>
  let existed := (s.findProxy addr).isSome
  let proxies := if existed then s.proxies
    else s.proxies ++ [{ addr := addr, node0 := n0, node1 := n1, host := h, index := idx, cluster := none }]
  let cleared := s.failed.contains addr || s.hasFailureKey addr
  let s1 := { s with proxies := proxies, failed := s.failed.filter (· != addr),
                      failures := s.failures.filter (·.1 != addr) }
  let s2 := if !existed || cleared then s1.bump else s1
  (s2, if existed then .err .alreadyExisted else .ok ())

def removeProxy (s : Store) (addr : String) : Store × R Unit :=
  match s.findProxy addr with
  | none => (s, .err .proxyNotFound)
  | some p =>
    if p.cluster.isSome then (s, .err .inUse) else
    let s1 := { s with proxies := s.proxies.filter (·.addr != addr), failed := s.failed.filter (· != addr),
                        failures := s.failures.filter (·.1 != addr) }
    (s1.bump, .ok ())

/-! ## chunk allocation (`generate_free_chunks`, `remove_redundant_chunks`, `build_link_table`,
`allocate_chunk`, `second_host_cmp`) as a checked relation -/

abbrev Counts := List (String × Nat)

def Counts.get (c : Counts) (h : String) : Option Nat := (c.find? (·.1 == h)).map (·.2)

def Counts.inc (c : Counts) (h : String) : Counts :=
  if c.any (·.1 == h) then c.map fun e => if e.1 == h then (e.1, e.2 + 1) else e else c ++ [(h, 1)]

def Counts.touch (c : Counts) (h : String) : Counts :=
  if c.any (·.1 == h) then c else c ++ [(h, 0)]

def Counts.dec (c : Counts) (h : String) : Counts :=
  c.map fun e => if e.1 == h then (e.1, e.2 - 1) else e

def Counts.maxVal (c : Counts) : Nat := c.foldl (fun m e => max m e.2) 0
def Counts.sumVal (c : Counts) : Nat := c.foldl (fun m e => m + e.2) 0

/-- `generate_free_host_proxies`: number of free proxies per host -/
def freeHostCounts (s : Store) : Counts :=
  s.freeProxies.foldl (fun c p => c.inc p.host) []

/-- the counting part of `remove_redundant_chunks` (which proxies are popped depends on the
HashMap order; only the count matters for every later decision). If several hosts tie at the
maximum the `while` cannot fire, so picking the first is exact. -/
def trimLoop : Nat → Nat → Nat → Nat × Nat
  | 0, mx, free => (mx, free)
  | fuel + 1, mx, free => if mx * 2 > free then trimLoop fuel (mx - 1) (free - 1) else (mx, free)

def removeRedundant (c : Counts) (expected : Nat) : R Counts :=
  let free := c.sumVal
  let mx := c.maxVal
  let (mx', free') := trimLoop (mx + 1) mx free
  let c' := match c.find? (·.2 == mx) with
    | some (h, _) => c.map fun e => if e.1 == h then (e.1, mx') else e
    | none => c
  if free' < expected then .err .noAvailableResource else .ok c'

abbrev LinkTable := List (String × Counts)

def LinkTable.row (t : LinkTable) (h : String) : Option Counts := (t.find? (·.1 == h)).map (·.2)

def LinkTable.touch (t : LinkTable) (a b : String) : LinkTable :=
  if t.any (·.1 == a) then t.map fun e => if e.1 == a then (e.1, e.2.touch b) else e
  else t ++ [(a, [(b, 0)])]

def LinkTable.inc (t : LinkTable) (a b : String) : LinkTable :=
  if t.any (·.1 == a) then t.map fun e => if e.1 == a then (e.1, e.2.inc b) else e
  else t ++ [(a, [(b, 1)])]

/-- `build_link_table` -/
def buildLinkTable (s : Store) : LinkTable :=
  let freeHosts := (s.proxies.filter (·.cluster.isNone)).map (·.host)
  let hosts := s.proxies.map (·.host)
  let t0 : LinkTable := hosts.foldl (fun t a =>
    hosts.foldl (fun t b =>
      if a == b then t
      else if !freeHosts.contains a && !freeHosts.contains b then t
      else (t.touch a b).touch b a) t) []
  s.clusters.foldl (fun t cl =>
    cl.chunks.foldl (fun t ch => (t.inc ch.host0 ch.host1).inc ch.host1 ch.host0) t) t0

/-- `second_host_cmp` as a strict "better than": fewer links, then more free proxies.
`none` free count is the `expect` panic of the code. -/
def secondBetter (free : Counts) (h1 : String) (c1 : Nat) (h2 : String) (c2 : Nat) : Bool :=
  c1 < c2 || (c1 == c2 && (free.get h1).getD 0 > (free.get h2).getD 0)

structure AllocSt where
  free : Counts            -- host → number of proxies still available (after trimming)
  links : LinkTable
  pool : List ProxyRes     -- free proxies not yet handed out
  out : List (ProxyRes × ProxyRes)

/-- one iteration of the `while` loop of `allocate_chunk`, checking the implementation's pick -/
def allocStep (st : AllocSt) (a b : String) : R AllocSt := do
  if st.free.isEmpty then R.panic "allocate_chunk: invalid state. cannot find any host" else
  let mx := st.free.maxVal
  if mx == 0 then R.panic "allocate_chunk: cannot find free proxy" else
  match st.pool.find? (·.addr == a) with
  | none => R.badChoice s!"first proxy {a} is not a free proxy"
  | some pa =>
  if st.free.get pa.host != some mx then R.badChoice s!"first host {pa.host} is not a maximal host" else
  let free1 := st.free.dec pa.host
  let row ← expectSome (st.links.row pa.host) "allocate_chunk: invalid state, cannot get link table entry"
  let cands := row.filter fun e => e.1 != pa.host && (match free1.get e.1 with | some n => n != 0 | none => false)
  if cands.isEmpty then R.panic "allocate_chunk: invalid state, cannot get free proxy" else
  match st.pool.find? (·.addr == b) with
  | none => R.badChoice s!"second proxy {b} is not a free proxy"
  | some pb =>
  if a == b then R.badChoice "same proxy twice" else
  match cands.find? (·.1 == pb.host) with
  | none => R.badChoice s!"second host {pb.host} is not a candidate"
  | some (_, cnt) =>
  if cands.any (fun e => secondBetter free1 e.1 e.2 pb.host cnt) then
    R.badChoice s!"second host {pb.host} is not minimal"
  else
  let free2 := free1.dec pb.host
  let links := (st.links.inc pa.host pb.host).inc pb.host pa.host
  pure { free := free2, links := links, pool := st.pool.filter (fun p => p.addr != a && p.addr != b),
         out := st.out ++ [(pa, pb)] }

def allocLoop (st : AllocSt) : List (String × String) → R AllocSt
  | [] => pure st
  | (a, b) :: rest => do
    let st' ← allocStep st a b
    allocLoop st' rest

/-- `generate_free_chunks` (validated against `choice`, the list of chunks the implementation
produced, in order). `proxyNum ≥ 1`. -/
def generateFreeChunks (s : Store) (proxyNum : Nat) (choice : List (String × String)) :
    R (List (ProxyRes × ProxyRes)) := do
  let counts ← removeRedundant (freeHostCounts s) proxyNum
  let links := buildLinkTable s
  if counts.sumVal < proxyNum then R.err .noAvailableResource else
  if counts.maxVal * 2 > counts.sumVal then R.err .resourceNotBalance else
  -- `while new_proxy_pairs.len() * 2 < expected_num`
  let pairsNeeded := (proxyNum + 1) / 2
  if choice.length != pairsNeeded then R.badChoice s!"expected {pairsNeeded} chunks, got {choice.length}" else
  let st ← allocLoop { free := counts, links := links, pool := s.freeProxies, out := [] } choice
  pure st.out

/-! ## ordered mode: `generate_free_chunks_for_ordered_proxy_index` -/

/-- sorted insertion / insertion sort of the proxy indices: `sort_by_key(index)` as far as the
*indices* are concerned (any sorting algorithm yields the same list of numbers; structural
recursion so that the kernel can evaluate it) -/
def insertNat (x : Nat) : List Nat → List Nat
  | [] => [x]
  | y :: ys => if x ≤ y then x :: y :: ys else y :: insertNat x ys

def sortNat : List Nat → List Nat
  | [] => []
  | x :: xs => insertNat x (sortNat xs)

/-- `Itertools::chunks(2)` over an even-length list -/
def pairUp : List ProxyRes → List (ProxyRes × ProxyRes)
  | a :: b :: rest => (a, b) :: pairUp rest
  | _ => []

/-- the proxies the implementation took, checked against what the stable sort by `index` of the
free proxies (HashMap order) followed by `truncate` can produce: the `i`-th taken proxy is a
free proxy whose index is `firstIndex + i` (only the last position can be tied, see
`generateFreeChunksOrdered`) -/
def orderedPick (free : List ProxyRes) : Nat → List String → R (List ProxyRes)
  | _, [] => pure []
  | i, a :: rest =>
    match free.find? (·.addr == a) with
    | none => R.badChoice s!"proxy {a} is not a free proxy"
    | some p =>
      if p.index != i then R.badChoice s!"proxy {a} has index {p.index}, expected {i}" else do
        let tl ← orderedPick free (i + 1) rest
        pure (p :: tl)

/-- `generate_free_chunks_for_ordered_proxy_index(proxy_num, first_index)`: the free proxies
sorted by index and truncated to `proxyNum` must carry the indices `firstIndex, firstIndex + 1, …`
(`ProxyResourceOutOfOrder` otherwise — this depends on the multiset of indices only, not on the
HashMap order); consecutive pairs form the chunks. Free proxies with *equal* indices are ordered
by the HashMap iteration order; within the checked window all indices are distinct, so only the
last taken proxy can be one of several with the same index: `choice` (the chunks the
implementation produced) is validated by `orderedPick`. -/
def generateFreeChunksOrdered (s : Store) (proxyNum firstIndex : Nat) (choice : List (String × String)) :
    R (List (ProxyRes × ProxyRes)) := do
  let free := s.freeProxies
  if free.length < proxyNum then R.err .noAvailableResource else
  let idxs := (sortNat (free.map (·.index))).take proxyNum
  if idxs != (List.range proxyNum).map (firstIndex + ·) then R.err .proxyResourceOutOfOrder else
  -- a trailing half chunk ("Cannot get second host proxy"); `proxyNum` is even for every caller
  if proxyNum % 2 != 0 then R.err .invalidNodeNum else
  let addrs := choice.flatMap fun c => [c.1, c.2]
  if addrs.length != proxyNum then R.badChoice s!"expected {proxyNum / 2} chunks, got {choice.length}" else
  let picked ← orderedPick free firstIndex addrs
  pure (pairUp picked)

/-- the allocator of `add_cluster` / `auto_add_nodes`, selected by the mode -/
def allocChunks (s : Store) (proxyNum firstIndex : Nat) (choice : List (String × String)) :
    R (List (ProxyRes × ProxyRes)) :=
  if s.ordered then generateFreeChunksOrdered s proxyNum firstIndex choice
  else generateFreeChunks s proxyNum choice

/-- `proxy_resource_to_chunk_store` -/
def createSlots (average remainder : Nat) (index curr : Nat) : R (RangeList × Nat) :=
  let r := if index < remainder then 1 else 0
  let start := curr
  let end_ := curr + average + r
  if end_ == 0 then R.panic "create_slots: end - 1 underflows (more than 16384 masters)"
  else R.ok (fromSingle (start, end_ - 1), end_)

def mkChunk (a b : ProxyRes) (st0 st1 : Option RangeList) : Chunk :=
  { role := .normal, stable0 := st0, stable1 := st1, mig0 := [], mig1 := [],
    proxy0 := a.addr, proxy1 := b.addr, host0 := a.host, host1 := b.host,
    node0 := a.node0, node1 := a.node1, node2 := b.node0, node3 := b.node1 }

def toChunksWithSlots (average remainder : Nat) : List (ProxyRes × ProxyRes) → Nat → Nat → R (List Chunk)
  | [], _, _ => pure []
  | (a, b) :: rest, i, curr => do
    let (s0, c1) ← createSlots average remainder (2 * i) curr
    let (s1, c2) ← createSlots average remainder (2 * i + 1) c1
    let tl ← toChunksWithSlots average remainder rest (i + 1) c2
    pure (mkChunk a b (some s0) (some s1) :: tl)

def proxyResourceToChunkStore (arr : List (ProxyRes × ProxyRes)) (withSlots : Bool) : R (List Chunk) :=
  if withSlots then
    let masterNum := arr.length * 2
    if masterNum == 0 then R.panic "division by zero" else
    let average := SLOT_NUM / masterNum
    let remainder := SLOT_NUM - average * masterNum
    toChunksWithSlots average remainder arr 0 0
  else pure (arr.map fun (a, b) => mkChunk a b none none)

def defaultConfig : Config :=
  { strategy := 0, maxMigrationTime := 3 * 60 * 60, maxBlockingTime := 10000, scanInterval := 500, scanCount := 16 }

def tagProxies (s : Store) (addrs : List String) (name : String) : R Store :=
  addrs.foldlM (fun s a =>
    if (s.findProxy a).isSome then pure (s.setProxyCluster a (some name))
    else R.panic "add_cluster: failed to get back proxy") s

/-- `add_cluster` -/
def addCluster (s : Store) (name : String) (nodeNum : Nat) (cfg : Config)
    (choice : List (String × String)) : Store × R Unit :=
  if s.ordered && !s.clusters.isEmpty then (s, .err .oneClusterAlreadyExisted) else
  if !validName name then (s, .err .invalidClusterName) else
  if (s.findCluster name).isSome then (s, .err .alreadyExisted) else
  if nodeNum % 4 != 0 then (s, .err .invalidNodeNum) else
  let proxyNum := nodeNum / 2
  if proxyNum == 0 then (s, .err .invalidNodeNum) else
  match (do
    let arr ← allocChunks s proxyNum 0 choice
    let chunks ← proxyResourceToChunkStore arr true
    let s1 := s.bump
    let cl : Cluster := { epoch := s1.globalEpoch, name := name, chunks := chunks, config := cfg }
    let s2 ← tagProxies s1 cl.proxyAddrs name
    pure { s2 with clusters := s2.clusters ++ [cl] } : R Store) with
  | .ok s' => (s', .ok ())
  | .err e => (s, .err e)
  | .panic w => (s, .panic w)
  | .badChoice w => (s, .badChoice w)

/-- `remove_cluster` -/
def removeCluster (s : Store) (name : String) : Store × R Unit :=
  if !validName name then (s, .err .invalidClusterName) else
  match s.findCluster name with
  | none => (s, .err .clusterNotFound)
  | some cl =>
    let s1 := { s with clusters := s.clusters.filter (·.name != name) }
    let s2 := cl.proxyAddrs.foldl (fun s a => s.setProxyCluster a none) s1
    (s2.bump, .ok ())

/-- `auto_add_nodes` -/
def autoAddNodes (s : Store) (name : String) (num : Nat) (choice : List (String × String)) :
    Store × R Unit :=
  if !validName name then (s, .err .invalidClusterName) else
  match s.findCluster name with
  | none => (s, .err .clusterNotFound)
  | some cl =>
    if cl.isMigrating then (s, .err .migrationRunning) else
    if num % 4 != 0 then (s, .err .invalidNodeNum) else
    let proxyNum := num / 2
    if proxyNum == 0 then (s, .err .invalidNodeNum) else
    match (do
      let arr ← allocChunks s proxyNum (cl.chunks.length * 2) choice
      let chunks ← proxyResourceToChunkStore arr false
      let s1 := s.bump
      let cl' := { cl with chunks := cl.chunks ++ chunks, epoch := s1.globalEpoch }
      let s2 := s1.setCluster cl'
      tagProxies s2 cl'.proxyAddrs name : R Store) with
    | .ok s' => (s', .ok ())
    | .err e => (s, .err e)
    | .panic w => (s, .panic w)
    | .badChoice w => (s, .badChoice w)

/-- `auto_scale_up_nodes` -/
def autoScaleUpNodes (s : Store) (name : String) (expected : Nat) (choice : List (String × String)) :
    Store × R Unit :=
  if !validName name then (s, .err .invalidClusterName) else
  match s.findCluster name with
  | none => (s, .err .clusterNotFound)
  | some cl =>
    let existing := cl.chunks.length * 4
    if expected ≤ existing then (s, .err .nodeNumAlreadyEnough)
    else autoAddNodes s name (expected - existing) choice

def Chunk.isFree (c : Chunk) : Bool :=
  c.stable0.isNone && c.stable1.isNone && c.mig0.isEmpty && c.mig1.isEmpty

/-- `auto_delete_free_nodes` -/
def autoDeleteFreeNodes (s : Store) (name : String) : Store × R Unit :=
  if !validName name then (s, .err .invalidClusterName) else
  let newEpoch := s.globalEpoch + 1
  match s.findCluster name with
  | none => (s, .err .clusterNotFound)
  | some cl =>
    if cl.isMigrating then (s, .err .migrationRunning) else
    let removed := cl.chunks.filter Chunk.isFree
    if removed.isEmpty then (s, .err .freeNodeNotFound) else
    let cl' := { cl with chunks := cl.chunks.filter (fun c => !c.isFree), epoch := newEpoch }
    let s1 := s.setCluster cl'
    let s2 := removed.foldl (fun s ch => (s.setProxyCluster ch.proxy0 none).setProxyCluster ch.proxy1 none) s1
    (s2.bump, .ok ())

/-- `auto_delete_free_nodes_if_exists` -/
def autoDeleteFreeNodesIfExists (s : Store) (name : String) : Store × R Unit :=
  match autoDeleteFreeNodes s name with
  | (s', .err .migrationRunning) => (s', .ok ())
  | (s', .err .freeNodeNotFound) => (s', .ok ())
  | r => r

/-! ## migration planning -/

structure MigSlots where
  ranges : RangeList
  mm : MigMeta
  deriving Repr

structure LoopSt where
  dstIdx : Nat                -- curr_dst_master_index
  curSlots : List Range       -- curr_dst_slots
  curNum : Nat                -- curr_slots_num
  out : List MigSlots         -- migration_slots
  deriving Repr

structure OutParams where
  epoch : Nat
  average : Nat
  remainder : Nat
  dstMasterNum : Nat
  srcMasterNum : Nat
  srcChunkNum : Nat

/-- one loop iteration either finishes with a value or continues with a new state -/
inductive Iter (α : Type) where
  | done (a : α)
  | cont (a : α)

/-- generic `while` loop with fuel; `f` is the loop body -/
def iterate {α : Type} (f : α → R (Iter α)) : Nat → α → R α
  | 0, _ => R.panic "fuel exhausted"
  | n + 1, a =>
    match f a with
    | .ok (.done a') => .ok a'
    | .ok (.cont a') => iterate f n a'
    | .err e => .err e
    | .panic w => .panic w
    | .badChoice w => .badChoice w

/-- `average + src_r` for source master `(chunk, part)` -/
def srcFinalOf (P : OutParams) (srcChunk srcPart : Nat) : Nat :=
  P.average + (if srcChunk * 2 + srcPart < P.remainder then 1 else 0)

/-- `average + dst_r` for the `dstIdx`-th destination master -/
def dstFinalOf (P : OutParams) (dstIdx : Nat) : Nat :=
  P.average + (if P.srcMasterNum + dstIdx < P.remainder then 1 else 0)

/-- body of the inner `while` of `remove_slots_from_src` for one source master -/
def srcBody (P : OutParams) (srcChunk srcPart : Nat) (x : RangeList × LoopSt) :
    R (Iter (RangeList × LoopSt)) :=
  let rl := x.1
  let st := x.2
  if st.dstIdx == P.dstMasterNum then R.ok (.done (rl, st)) else
  let srcFinal := srcFinalOf P srcChunk srcPart
  let dstFinal := dstFinalOf P st.dstIdx
  if slotsNum rl ≤ srcFinal then R.ok (.done (rl, st)) else
  if dstFinal < st.curNum then R.panic "remove_slots_from_src: need_num underflow" else
  let removeNum := min (dstFinal - st.curNum) (slotsNum rl - srcFinal)
  match rl.getLast? with
  | none => R.panic "remove_slots_from_src: slots > average + src_r >= 0"
  | some last =>
    let num := rangeNum last
    let rl' := if removeNum ≥ num then rl.dropLast else rl.dropLast ++ [(last.1, last.2 - removeNum)]
    let cur' := if removeNum ≥ num then st.curSlots ++ [last]
                else st.curSlots ++ [(last.2 - removeNum + 1, last.2)]
    let curNum' := if removeNum ≥ num then st.curNum + num else st.curNum + removeNum
    if curNum' ≥ dstFinal || slotsNum rl' ≤ srcFinal then
      let ms : MigSlots :=
        { ranges := rlNew cur',
          mm := { epoch := P.epoch, srcChunk := srcChunk, srcPart := srcPart,
                  dstChunk := P.srcChunkNum + st.dstIdx / 2, dstPart := st.dstIdx % 2 } }
      let st2 : LoopSt :=
        if curNum' ≥ dstFinal then { dstIdx := st.dstIdx + 1, curSlots := [], curNum := 0, out := st.out ++ [ms] }
        else { dstIdx := st.dstIdx, curSlots := [], curNum := curNum', out := st.out ++ [ms] }
      if slotsNum rl' ≤ srcFinal then R.ok (.done (rl', st2)) else R.ok (.cont (rl', st2))
    else R.ok (.cont (rl', { st with curSlots := cur', curNum := curNum' }))

/-- the inner `while` of `remove_slots_from_src` for one source master -/
def srcWhile (P : OutParams) (srcChunk srcPart : Nat) (fuel : Nat) (rl : RangeList) (st : LoopSt) :
    R (RangeList × LoopSt) :=
  iterate (srcBody P srcChunk srcPart) fuel (rl, st)

def loopFuel : Nat := 2 * Um.Gen.SLOT_NUM + 16

/-- outer loops of `remove_slots_from_src` -/
def srcChunks (P : OutParams) : List Chunk → Nat → LoopSt → R (List Chunk × LoopSt)
  | [], _, st => pure ([], st)
  | ch :: rest, i, st => do
    let (s0, st) ← match ch.stable0 with
      | some rl => do let (rl', st') ← srcWhile P i 0 loopFuel rl st; pure (some rl', st')
      | none => pure (none, st)
    let (s1, st) ← match ch.stable1 with
      | some rl => do let (rl', st') ← srcWhile P i 1 loopFuel rl st; pure (some rl', st')
      | none => pure (none, st)
    let (tl, st) ← srcChunks P rest (i + 1) st
    pure ({ ch with stable0 := s0, stable1 := s1 } :: tl, st)

def removeSlotsFromSrc (cl : Cluster) (epoch : Nat) : R (List Chunk × List MigSlots) := do
  let dstChunkNum := (cl.chunks.filter fun c => c.stable0.isNone && c.stable1.isNone).length
  let masterNum := cl.chunks.length * 2
  if masterNum == 0 then R.panic "division by zero" else
  let srcChunkNum := cl.chunks.length - dstChunkNum
  let average := SLOT_NUM / masterNum
  let P : OutParams := { epoch := epoch, average := average, remainder := SLOT_NUM - average * masterNum,
                         dstMasterNum := dstChunkNum * 2, srcMasterNum := srcChunkNum * 2,
                         srcChunkNum := srcChunkNum }
  let (chunks, st) ← srcChunks P cl.chunks 0 { dstIdx := 0, curSlots := [], curNum := 0, out := [] }
  pure (chunks, st.out)

def updateChunk (chunks : List Chunk) (i : Nat) (f : Chunk → Option Chunk) (what : String) : R (List Chunk) :=
  match chunks[i]? with
  | none => R.panic what
  | some c =>
    match f c with
    | none => R.panic what
    | some c' => pure (chunks.set i c')

/-- `compact_slots` -/
def compactSlots (chunks : List Chunk) : List Chunk :=
  chunks.map fun c =>
    { c with stable0 := c.stable0.map compact, stable1 := c.stable1.map compact,
             mig0 := c.mig0.map (fun m => { m with ranges := compact m.ranges }),
             mig1 := c.mig1.map (fun m => { m with ranges := compact m.ranges }) }

/-- `assign_dst_slots` -/
def assignDstSlots (chunks : List Chunk) (ms : List MigSlots) : R (List Chunk) := do
  let chunks ← ms.foldlM (fun chunks m => do
    let chunks ← updateChunk chunks m.mm.srcChunk (fun c =>
      (c.mig m.mm.srcPart).bind fun l =>
        c.setMig m.mm.srcPart (l ++ [{ ranges := m.ranges, isMigrating := true, mm := m.mm }])) "assign_dst_slots"
    updateChunk chunks m.mm.dstChunk (fun c =>
      (c.mig m.mm.dstPart).bind fun l =>
        c.setMig m.mm.dstPart (l ++ [{ ranges := m.ranges, isMigrating := false, mm := m.mm }])) "assign_dst_slots")
    chunks
  pure (compactSlots chunks)

/-- `migrate_slots` (bumps the global epoch before any validation) -/
def migrateSlots (s : Store) (name : String) : Store × R Unit :=
  if !validName name then (s, .err .invalidClusterName) else
  let s := s.bump
  let newEpoch := s.globalEpoch
  match s.findCluster name with
  | none => (s, .err .clusterNotFound)
  | some cl =>
    if !(cl.chunks.any fun c => c.stable0.isNone || c.stable1.isNone) then (s, .err .slotsAlreadyEven) else
    if cl.isMigrating then (s, .err .migrationRunning) else
    match (do
      let (chunks, ms) ← removeSlotsFromSrc cl newEpoch
      assignDstSlots chunks ms : R (List Chunk)) with
    | .ok chunks => (s.setCluster { cl with chunks := chunks, epoch := newEpoch }, .ok ())
    | .err e => (s, .err e)
    | .panic w => (s, .panic w)
    | .badChoice w => (s, .badChoice w)

structure DownParams where
  epoch : Nat
  average : Nat
  remainder : Nat
  dstMasterNum : Nat
  existing : List Nat     -- dst_existing_slots_num

/-- `average + dst_r` of the `dstIdx`-th destination master of a scale-down -/
def downFinalOf (P : DownParams) (dstIdx : Nat) : Nat :=
  P.average + (if dstIdx < P.remainder then 1 else 0)

/-- body of the inner `while` of `remove_slots_from_src_to_scale_down` for one source master -/
def downBody (P : DownParams) (srcChunk srcPart : Nat) (x : RangeList × LoopSt) :
    R (Iter (RangeList × LoopSt)) :=
  let rl := x.1
  let st := x.2
  if st.dstIdx == P.dstMasterNum then R.ok (.done (rl, st)) else
  let dstFinal := downFinalOf P st.dstIdx
  match P.existing[st.dstIdx]? with
  | none => R.panic "remove_slots_from_src_to_scale_down: get dst existing slots number"
  | some dstExisting =>
  if dstFinal < st.curNum + dstExisting then R.panic "remove_slots_from_src_to_scale_down: need_num underflow" else
  let need := dstFinal - st.curNum - dstExisting
  if need == 0 then
    -- this master already owns its final number of slots (fix fd69f7a)
    R.ok (.cont (rl, { st with dstIdx := st.dstIdx + 1, curNum := 0 }))
  else
  let avail := slotsNum rl
  if avail == 0 then R.ok (.done (rl, st)) else
  let removeNum := min need avail
  match rl with
  | [] => R.panic "remove_slots_from_src_to_scale_down: available_num > 0"
  | first :: rest =>
    let num := rangeNum first
    if removeNum < num && removeNum + first.1 == 0 then
      R.panic "remove_slots_from_src_to_scale_down: remove_num + start - 1 underflow" else
    let rl' := if removeNum ≥ num then rest else (first.1 + removeNum, first.2) :: rest
    let cur' := if removeNum ≥ num then st.curSlots ++ [first]
                else st.curSlots ++ [(first.1, removeNum + first.1 - 1)]
    let curNum' := if removeNum ≥ num then st.curNum + num else st.curNum + removeNum
    if curNum' + dstExisting ≥ dstFinal || slotsNum rl' == 0 then
      let ms : MigSlots :=
        { ranges := rlNew cur',
          mm := { epoch := P.epoch, srcChunk := srcChunk, srcPart := srcPart,
                  dstChunk := st.dstIdx / 2, dstPart := st.dstIdx % 2 } }
      let st2 : LoopSt :=
        if curNum' + dstExisting ≥ dstFinal then { dstIdx := st.dstIdx + 1, curSlots := [], curNum := 0, out := st.out ++ [ms] }
        else { dstIdx := st.dstIdx, curSlots := [], curNum := curNum', out := st.out ++ [ms] }
      if slotsNum rl' == 0 then R.ok (.done (rl', st2)) else R.ok (.cont (rl', st2))
    else R.ok (.cont (rl', { st with curSlots := cur', curNum := curNum' }))

/-- the inner `while` of `remove_slots_from_src_to_scale_down` for one source master -/
def downWhile (P : DownParams) (srcChunk srcPart : Nat) (fuel : Nat) (rl : RangeList) (st : LoopSt) :
    R (RangeList × LoopSt) :=
  iterate (downBody P srcChunk srcPart) fuel (rl, st)

/-- outer loops over the source chunks (`skip(dst_chunk_num)`); every source half ends `None` -/
def downChunks (P : DownParams) : List Chunk → Nat → LoopSt → R (List Chunk × LoopSt)
  | [], _, st => pure ([], st)
  | ch :: rest, i, st => do
    let st ← match ch.stable0 with
      | some rl => do let (_, st') ← downWhile P i 0 loopFuel rl st; pure st'
      | none => pure st
    let st ← match ch.stable1 with
      | some rl => do let (_, st') ← downWhile P i 1 loopFuel rl st; pure st'
      | none => pure st
    let (tl, st) ← downChunks P rest (i + 1) st
    pure ({ ch with stable0 := none, stable1 := none } :: tl, st)

def removeSlotsToScaleDown (cl : Cluster) (epoch newChunkNum : Nat) : R (List Chunk × List MigSlots) := do
  let dstMasterNum := newChunkNum * 2
  if dstMasterNum == 0 then R.panic "division by zero" else
  let average := SLOT_NUM / dstMasterNum
  let existing := (cl.chunks.take newChunkNum).flatMap fun c =>
    [(c.stable0.map slotsNum).getD 0, (c.stable1.map slotsNum).getD 0]
  let P : DownParams := { epoch := epoch, average := average, remainder := SLOT_NUM - average * dstMasterNum,
                          dstMasterNum := dstMasterNum, existing := existing }
  let (tl, st) ← downChunks P (cl.chunks.drop newChunkNum) newChunkNum
    { dstIdx := 0, curSlots := [], curNum := 0, out := [] }
  pure (cl.chunks.take newChunkNum ++ tl, st.out)

/-- `migrate_slots_to_scale_down` -/
def migrateSlotsToScaleDown (s : Store) (name : String) (newNodeNum : Nat) : Store × R Unit :=
  if !validName name then (s, .err .invalidClusterName) else
  let s := s.bump
  let newEpoch := s.globalEpoch
  match s.findCluster name with
  | none => (s, .err .clusterNotFound)
  | some cl =>
    if cl.chunks.any (fun c => c.stable0.isNone || c.stable1.isNone) then (s, .err .freeNodeFound) else
    if cl.isMigrating then (s, .err .migrationRunning) else
    if newNodeNum == 0 || newNodeNum % 4 != 0 || newNodeNum ≥ cl.chunks.length * 4 then
      (s, .err .invalidNodeNum) else
    match (do
      let (chunks, ms) ← removeSlotsToScaleDown cl newEpoch (newNodeNum / 4)
      assignDstSlots chunks ms : R (List Chunk)) with
    | .ok chunks => (s.setCluster { cl with chunks := chunks, epoch := newEpoch }, .ok ())
    | .err e => (s, .err e)
    | .panic w => (s, .panic w)
    | .badChoice w => (s, .badChoice w)

/-! ## commit_migration -/

/-- first `(chunk, part)` holding an entry with this range list, epoch and direction -/
def findEntry (chunks : List Chunk) (ranges : RangeList) (epoch : Nat) (migrating : Bool) : Option (Nat × Nat) :=
  let rec go (cs : List Chunk) (i : Nat) : Option (Nat × Nat) :=
    match cs with
    | [] => none
    | c :: rest =>
      let hit (l : List MigStore) : Bool :=
        l.any fun m => m.ranges == ranges && m.mm.epoch == epoch && m.isMigrating == migrating
      if hit c.mig0 then some (i, 0)
      else if hit c.mig1 then some (i, 1)
      else go rest (i + 1)
  go chunks 0

/-- remove the first importing entry equal to `(ranges, mm)` from a list -/
def removeFirstImporting (l : List MigStore) (ranges : RangeList) (mm : MigMeta) : Option (List MigStore) :=
  match l.findIdx? (fun m => !m.isMigrating && m.mm == mm && m.ranges == ranges) with
  | some i => some (l.eraseIdx i)
  | none => none

/-- the second loop of `commit_migration`: in the first chunk (then first part) that holds the
importing twin, remove it and merge its ranges into that half's stable list -/
def commitDst (ranges : RangeList) (mm : MigMeta) : List Chunk → List Chunk
  | [] => []
  | c :: rest =>
    match removeFirstImporting c.mig0 ranges mm with
    | some l =>
      let st := match c.stable0 with
        | some rl => some (mergeAnother rl ranges)
        | none => some ranges
      { c with mig0 := l, stable0 := st } :: rest
    | none =>
      match removeFirstImporting c.mig1 ranges mm with
      | some l =>
        let st := match c.stable1 with
          | some rl => some (mergeAnother rl ranges)
          | none => some ranges
        { c with mig1 := l, stable1 := st } :: rest
      | none => c :: commitDst ranges mm rest

/-- `MetaStoreMigrate::commit_migration`; `tagNone` = the submitted descriptor has tag `None` -/
def commitMigrationCore (s : Store) (name : String) (ranges : RangeList) (taskEpoch : Nat)
    (tagNone : Bool) : Store × R Unit :=
  let newEpoch := s.globalEpoch + 1
  match s.findCluster name with
  | none => (s, .err .clusterNotFound)
  | some cl =>
    if tagNone then (s, .err .invalidMigrationTask) else
    match findEntry cl.chunks ranges taskEpoch true with
    | none => (s, .err .migrationTaskNotFound)
    | some (si, sp) =>
    match findEntry cl.chunks ranges taskEpoch false with
    | none => (s, .err .migrationTaskNotFound)
    | some (di, dp) =>
      let mm : MigMeta := { epoch := taskEpoch, srcChunk := si, srcPart := sp, dstChunk := di, dstPart := dp }
      let keep (m : MigStore) : Bool := !(m.isMigrating && m.ranges == ranges && m.mm == mm)
      let chunks1 := cl.chunks.map fun c => { c with mig0 := c.mig0.filter keep, mig1 := c.mig1.filter keep }
      let chunks2 := commitDst ranges mm chunks1
      let cl' := { cl with chunks := compactSlots chunks2, epoch := newEpoch }
      ((s.setCluster cl').bump, .ok ())

/-- `MetaStore::commit_migration` -/
def commitMigration (s : Store) (name : String) (ranges : RangeList) (taskEpoch : Nat)
    (tagNone : Bool) (clearFreeNodes : Bool) : Store × R Unit :=
  match commitMigrationCore s name ranges taskEpoch tagNone with
  | (s', .ok ()) => if clearFreeNodes then autoDeleteFreeNodesIfExists s' name else (s', .ok ())
  | r => r

/-! ## failover -/

def bumpEntries (l : List MigStore) (e : Nat) : List MigStore := l.map fun m => { m with mm := { m.mm with epoch := e } }

def positionsOf (l : List MigStore) : List (Nat × Nat) :=
  l.flatMap fun m => [(m.mm.srcChunk, m.mm.srcPart), (m.mm.dstChunk, m.mm.dstPart)]

/-- first loop of `takeover_master`: `none` = early `return Ok(())` (repeat call) -/
def takeoverFirst (failed : String) (e : Nat) : List Chunk → Option (List Chunk × List (Nat × Nat))
  | [] => some ([], [])
  | c :: rest =>
    if c.proxy0 == failed then
      if c.role == .second then none
      else if c.role == .first then   -- both parts move (fix 2ba2638)
        some ({ c with role := .second, mig0 := bumpEntries c.mig0 e, mig1 := bumpEntries c.mig1 e } :: rest,
              positionsOf c.mig0 ++ positionsOf c.mig1)
      else some ({ c with role := .second, mig0 := bumpEntries c.mig0 e } :: rest, positionsOf c.mig0)
    else if c.proxy1 == failed then
      if c.role == .first then none
      else if c.role == .second then
        some ({ c with role := .first, mig0 := bumpEntries c.mig0 e, mig1 := bumpEntries c.mig1 e } :: rest,
              positionsOf c.mig0 ++ positionsOf c.mig1)
      else some ({ c with role := .first, mig1 := bumpEntries c.mig1 e } :: rest, positionsOf c.mig1)
    else
      match takeoverFirst failed e rest with
      | none => none
      | some (tl, pos) => some (c :: tl, pos)

def bumpPeers (pos : List (Nat × Nat)) (e : Nat) (l : List MigStore) : List MigStore :=
  l.map fun m =>
    if pos.contains (m.mm.srcChunk, m.mm.srcPart) || pos.contains (m.mm.dstChunk, m.mm.dstPart)
    then { m with mm := { m.mm with epoch := e } } else m

/-- `takeover_master` -/
def takeoverMaster (s : Store) (name failed : String) : Store × R Unit :=
  let s := s.bump
  let e := s.globalEpoch
  match s.findCluster name with
  | none => (s, .err .clusterNotFound)
  | some cl =>
    match takeoverFirst failed e cl.chunks with
    | none => (s, .ok ())
    | some (chunks, pos) =>
      let chunks := chunks.map fun c => { c with mig0 := bumpPeers pos e c.mig0, mig1 := bumpPeers pos e c.mig1 }
      (s.setCluster { cl with chunks := chunks, epoch := e }, .ok ())

/-- `generate_new_free_proxy`, validated against the implementation's pick -/
def generateNewFreeProxy (s : Store) (failedAddr choice : String) : R ProxyRes := do
  let free := freeHostCounts s
  let links := buildLinkTable s
  match s.findProxy failedAddr with
  | none => R.err .proxyNotFound
  | some fp =>
    let row ← expectSome (links.row fp.host) "consume_new_proxy: cannot find failed proxy"
    let cands0 := row.filter fun e => (free.get e.1).isSome
    -- prefer hosts other than the surviving partner's (fix 8b46892)
    let partnerHost : Option String := (s.clusters.flatMap (·.chunks)).findSome? fun c =>
      if c.proxy0 == failedAddr then some c.host1 else if c.proxy1 == failedAddr then some c.host0 else none
    let cands1 := cands0.filter fun e => some e.1 != partnerHost
    let cands := if cands1.isEmpty then cands0 else cands1
    if cands.isEmpty then R.err .noAvailableResource else
    match s.freeProxies.find? (·.addr == choice) with
    | none => R.badChoice s!"replacement {choice} is not a free proxy"
    | some np =>
      match cands.find? (·.1 == np.host) with
      | none => R.badChoice s!"replacement host {np.host} is not a candidate"
      | some (_, cnt) =>
        if cands.any (fun e => secondBetter free e.1 e.2 np.host cnt) then
          R.badChoice s!"replacement host {np.host} is not minimal"
        else pure np

def replaceInChunks (failed : String) (np : ProxyRes) : List Chunk → List Chunk
  | [] => []
  | c :: rest =>
    if c.proxy0 == failed then
      { c with host0 := np.host, proxy0 := np.addr, node0 := np.node0, node1 := np.node1 } :: rest
    else if c.proxy1 == failed then
      { c with host1 := np.host, proxy1 := np.addr, node2 := np.node0, node3 := np.node1 } :: rest
    else c :: replaceInChunks failed np rest

/-- `replace_failed_proxy`; the result carries the address of the replacement (if any) -/
def replaceFailedProxy (s : Store) (failedAddr : String) (choice : String) : Store × R (Option String) :=
  match s.findProxy failedAddr with
  | none => (s, .err .proxyNotFound)
  | some p =>
    match p.cluster with
    | none =>
      ({ s with failures := s.failures.filter (·.1 != failedAddr),
                failed := if s.failed.contains failedAddr then s.failed else s.failed ++ [failedAddr] }, .ok none)
    | some name =>
      match takeoverMaster s name failedAddr with
      | (s1, .ok ()) =>
        -- "If enable_ordered_proxy is true, we won't replace the proxy."
        if s1.ordered then (s1.bump, .ok none) else
        let s2 := { s1 with failed := if s1.failed.contains failedAddr then s1.failed else s1.failed ++ [failedAddr] }
        match generateNewFreeProxy s2 failedAddr choice with
        | .ok np =>
          let s3 := s2.bump
          match s3.findCluster name with
          | none => (s3, .panic "replace_failed_proxy: get cluster")
          | some cl =>
            let cl' := { cl with chunks := replaceInChunks failedAddr np cl.chunks, epoch := s3.globalEpoch }
            let s4 := s3.setCluster cl'
            let s5 := (s4.setProxyCluster failedAddr none).setProxyCluster np.addr (some name)
            (s5, .ok (some np.addr))
        | .err e => (s2, .err e)
        | .panic w => (s2, .panic w)
        | .badChoice w => (s2, .badChoice w)
      | (s1, .err e) => (s1, .err e)
      | (s1, .panic w) => (s1, .panic w)
      | (s1, .badChoice w) => (s1, .badChoice w)

/-- `balance_masters` -/
def balanceMasters (s : Store) (name : String) : Store × R Unit :=
  if !validName name then (s, .err .invalidClusterName) else
  let newEpoch := s.globalEpoch + 1
  match s.findCluster name with
  | none => (s, .err .clusterNotFound)
  | some cl =>
    let bad (a : String) : Bool := s.failed.contains a || s.hasFailureKey a
    let chunks := cl.chunks.map fun c => if bad c.proxy0 || bad c.proxy1 then c else { c with role := .normal }
    ((s.setCluster { cl with chunks := chunks, epoch := newEpoch }).bump, .ok ())

/-! ## change_config -/

def lower (s : String) : String := String.ofList (s.toList.map Char.toLower)

/-- Rust `str::parse::<u64>`: optional `+`, then at least one ASCII digit, value `≤ u64::MAX` -/
def parseU64 (v : String) : Option Nat :=
  match v.toUTF8.toList with
  | 43 :: rest => btou u64Max rest
  | b => btou u64Max b

/-- `ClusterConfig::set_field` -/
def Config.setField (c : Config) (field value : String) : Option Config :=
  let f := lower field
  if f == "compression_strategy" then
    let v := lower value
    if v == "disabled" then some { c with strategy := 0 }
    else if v == "set_get_only" then some { c with strategy := 1 }
    else if v == "allow_all" then some { c with strategy := 2 }
    else none
  else if f.startsWith "migration_" then
    let sub := String.ofList (f.toList.drop 10)
    if sub == "max_migration_time" then (parseU64 value).map fun v => { c with maxMigrationTime := v }
    else if sub == "max_blocking_time" then (parseU64 value).map fun v => { c with maxBlockingTime := v }
    else if sub == "scan_interval" then (parseU64 value).map fun v => { c with scanInterval := v }
    else if sub == "scan_count" then
      match parseU64 value with
      | some v => if v == 0 then none else some { c with scanCount := v }
      | none => none
    else none
  else none

/-- `change_config` (fields applied in the order given; the harness sends distinct fields) -/
def changeConfig (s : Store) (name : String) (kvs : List (String × String)) : Store × R Unit :=
  if !validName name then (s, .err .invalidClusterName) else
  let newEpoch := s.globalEpoch + 1
  match s.findCluster name with
  | none => (s, .err .clusterNotFound)
  | some cl =>
    if cl.isMigrating then (s, .err .migrationRunning) else
    match kvs.foldlM (fun c kv => c.setField kv.1 kv.2) cl.config with
    | none => (s, .err .invalidConfig)
    | some cfg => ((s.setCluster { cl with config := cfg, epoch := newEpoch }).bump, .ok ())

/-! ## node-number convenience API, epoch maintenance -/

def Cluster.nodeNumWithSlots (c : Cluster) : Nat :=
  2 * (c.chunks.foldl (fun n ch => n + (if ch.stable0.isSome then 1 else 0) + (if ch.stable1.isSome then 1 else 0)) 0)

/-- `auto_change_node_number` (result: the scale operation 0 = no-op, 1 = out, 2 = down) -/
def autoChangeNodeNumber (s : Store) (name : String) (expected : Nat) (choice : List (String × String)) :
    Store × R Nat :=
  if !validName name then (s, .err .invalidClusterName) else
  match s.findCluster name with
  | none => (s, .err .clusterNotFound)
  | some cl =>
    if cl.isMigrating then (s, .err .migrationRunning) else
    let (s1, r1) := autoDeleteFreeNodes s name
    match r1 with
    | .err .freeNodeNotFound | .ok () =>
      match s1.findCluster name with
      | none => (s1, .err .clusterNotFound)
      | some cl1 =>
        let existing := cl1.chunks.length * 4
        if existing == expected then (s1, .ok 0)
        else if existing < expected then
          match autoScaleUpNodes s1 name expected choice with
          | (s2, .ok ()) => (s2, .ok 1)
          | (s2, .err e) => (s2, .err e)
          | (s2, .panic w) => (s2, .panic w)
          | (s2, .badChoice w) => (s2, .badChoice w)
        else
          match migrateSlotsToScaleDown s1 name expected with
          | (s2, .ok ()) => (s2, .ok 2)
          | (s2, .err e) => (s2, .err e)
          | (s2, .panic w) => (s2, .panic w)
          | (s2, .badChoice w) => (s2, .badChoice w)
    | .err e => (s1, .err e)
    | .panic w => (s1, .panic w)
    | .badChoice w => (s1, .badChoice w)

/-- `auto_scale_out_node_number` -/
def autoScaleOutNodeNumber (s : Store) (name : String) (expected : Nat) : Store × R Unit :=
  if !validName name then (s, .err .invalidClusterName) else
  match s.findCluster name with
  | none => (s, .err .clusterNotFound)
  | some cl => if cl.nodeNumWithSlots < expected then migrateSlots s name else (s, .ok ())

/-- `force_bump_all_epoch` -/
def forceBumpAllEpoch (s : Store) (e : Nat) : Store × R Unit :=
  if e ≤ s.globalEpoch then (s, .err .smallEpoch)
  else ({ s with globalEpoch := e, clusters := s.clusters.map fun c => { c with epoch := e } }, .ok ())

/-- `MetaStore::recover_epoch` -/
def recoverEpoch (s : Store) (existingLargest : Nat) : Store :=
  let e := max existingLargest (s.globalEpoch + 1)
  { s with globalEpoch := e, clusters := s.clusters.map fun c => { c with epoch := e } }

/-- `MetaStore::restore` (`PUT /metadata`: a replica receiving the master's metadata, a broker
loading its meta file): the incoming metadata replaces the store unless the store is ahead of it.
The version check is not modelled (one version string in the crate). -/
def restoreInto (s other : Store) : Store × R Unit :=
  if s.globalEpoch > other.globalEpoch then (s, .err .smallEpoch) else (other, .ok ())

end Um.Broker
